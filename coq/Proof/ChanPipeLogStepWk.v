(* Proof/ChanPipeLogStepWk.v -- L2 is preserved by the steps of the workers. *)
From Coq Require Import List Arith Bool ZArith Lia.
From WV Require Import Model.ChanPipe Proof.ChanPipeBase Proof.ChanPipeOwn Proof.ChanPipeLog Proof.ChanPipeLogTac.
Import ListNotations.

Section Step.
Variable P : params.

Theorem L2_step_wk : forall st me e st' l, L0 st -> L1 st -> L2 st -> step P st (CWk me e) = Some (st', l) -> L2 st'.
Proof.
  intros st me e st' l HL0 HL1 HL2 Hs.
  pose proof (others_not_serving st me HL1) as Hoth.
    pose proof (not_started_facts st me HL1 HL2) as Hns.
    pose proof (l1_ownreq _ HL1 me) as Hor.
    pose proof (lock_ok_wk_io _ _ _ _ (l0_r _ HL0) me) as Hrl.
    step_wk Hs; cbn [sh io wk ipc] in *.
    all: try (frame_wk HL2 me Hw).
    all: destruct HL2 as [LA LB LC LD LKa LKb LKc LE1 LE2 LE3 LCb LSv]; cbn [sh io wk ipc] in *.
    all: pose proof (LC me) as C_me; pose proof (LE3 me) as E3_me; pose proof (LCb me) as Cb_me; pose proof (LSv me) as Sv_me.
    all: clear HL0 HL1.
    all: rewrite Hw in *; cbn [wpc w_cur] in *.
    all: split; cbn [sh io wk ipc io_app is_rccwf is_wwc]; intros.
    all: upd_hyps; upd_goal me; cbn [wpc w_cur] in *.
    all: fin.
    all: try (destruct Hns as [Hns1 [Hns2 Hns3]]; [reflexivity|reflexivity|congruence|]; rewrite ?Hns1, ?Hns2, ?Hns3 in *).
    all: fin.
    all: try fin_req.
    all: destruct Hns as [Hns1 [Hns2 Hns3]].
    all: first [ right; eexists; rewrite Hns2; reflexivity
               | unfold prefix; eexists; rewrite Hns3, Hns1, <- app_assoc; cbn; reflexivity ].
Qed.
End Step.
