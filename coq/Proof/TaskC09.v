(* C09: containment of application failures; close() exactly once. *)
From Coq Require Import String.
From Coq Require Import List NArith ZArith Bool Lia Arith.
From WV Require Import Lib.PyBytes Gen.GenTables Model.Task Proof.TaskLines Proof.TaskHead Proof.TaskStart
  Proof.TaskRun Proof.TaskOracle Proof.TaskC08.
Import ListNotations.
Local Open Scope N_scope.

Section Contain.
Variable cap : str -> str.
Variable lower : str -> str.
Variable c : cfg.
Variable r : req.
Variable disc : option nat.

(* ---- close() exactly once ------------------------------------------------ *)

Lemma wsgi_execute_close s a :
  let x := wsgi_execute cap lower c r disc s a in
  (x_iter x = false -> x_closes x = 0%nat /\ x_handover x = false)
  /\ (x_iter x = true ->
      (a_has_close a = true -> (x_closes x = 1%nat /\ x_handover x = false)
                               \/ (x_closes x = 0%nat /\ x_handover x = true))
      /\ (a_has_close a = false -> x_closes x = 0%nat))
  /\ (x_handover x = true -> a_kind a = KFile true).
Proof.
  cbn zeta. unfold wsgi_execute.
  destruct (run_actions cap lower c r disc s (a_call a)) as [s1 [u|e]].
  2: { cbn. repeat split; auto; discriminate. }
  destruct (execute_body cap lower c r disc s1 a) as [[s2 o] cc] eqn:Eb.
  assert (Hcc : cc = false -> a_kind a = KFile true).
  { intro Hf. subst cc. unfold execute_body in Eb.
    destruct (a_kind a) as [n| |[|]] eqn:Ek; auto; exfalso;
      try (destruct s1 as [t0 ch0]; cbn in Eb);
      repeat match type of Eb with context [match ?y with _ => _ end] => destruct y end;
      inversion Eb. }
  destruct cc; cbn [andb].
    - destruct s1 as [t ch]. cbn in Eb. Show.

Qed.

Theorem close_once a :
  let res := channel_service cap lower c r a disc in
  (o_closes res <= 1)%nat
  /\ (o_iter res = false -> o_closes res = 0%nat /\ o_handover res = false)
  /\ (o_iter res = true -> a_has_close a = true ->
      (o_closes res = 1%nat /\ o_handover res = false) \/ (o_closes res = 0%nat /\ o_handover res = true))
  /\ (o_iter res = true -> a_has_close a = false -> o_closes res = 0%nat)
  /\ (o_handover res = true -> a_kind a = KFile true).
Proof.
  cbn zeta.
  set (x := if connected disc 0
            then task_service cap lower c r disc
                   (new_task (r_version r) (match r_error r with Some _ => true | None => false end), mkChan [] 0)
                   (match r_error r with Some e => inr e | None => inl a end)
            else mkExec (set_cof true (new_task (r_version r) (match r_error r with Some _ => true | None => false end)),
                         mkChan [] 0) (Ok tt) 0 false false).
  assert (E : o_closes (channel_service cap lower c r a disc) = x_closes x
              /\ o_handover (channel_service cap lower c r a disc) = x_handover x
              /\ o_iter (channel_service cap lower c r a disc) = x_iter x).
  { unfold channel_service. fold x.
    repeat match goal with
           | |- context [match ?y with _ => _ end] => destruct y eqn:?
           end; cbn; auto. }
  destruct E as (E1 & E2 & E3). rewrite E1, E2, E3. clear E1 E2 E3.
  assert (Hx : (x_iter x = false -> x_closes x = 0%nat /\ x_handover x = false)
    /\ (x_iter x = true ->
        (a_has_close a = true -> (x_closes x = 1%nat /\ x_handover x = false)
                                 \/ (x_closes x = 0%nat /\ x_handover x = true))
        /\ (a_has_close a = false -> x_closes x = 0%nat))
    /\ (x_handover x = true -> a_kind a = KFile true)).
  { subst x. destruct (connected disc 0); [|cbn; repeat split; auto; discriminate].
    unfold task_service, task_run.
    destruct (r_error r) as [e|].
    - destruct (error_execute cap lower c r disc _ e) as [s1 [u|e1]]; cbn [x_out x_st x_closes x_handover x_iter].
      + destruct (task_finish cap lower c r disc s1) as [s2 [u2|e2]]; cbn; [|destruct (is_OSError e2); cbn];
          repeat split; auto; discriminate.
      + destruct (is_OSError e1); cbn; repeat split; auto; discriminate.
    - pose proof (wsgi_execute_close (new_task (r_version r) false, mkChan [] 0) a) as W. cbn zeta in W.
      destruct (wsgi_execute cap lower c r disc _ a) as [s1 o1 n1 h1 i1]. cbn [x_out x_st x_closes x_handover x_iter] in *.
      destruct o1 as [u|e1].
      + destruct (task_finish cap lower c r disc s1) as [s2 [u2|e2]]; cbn [x_out x_st x_closes x_handover x_iter];
          [|destruct (is_OSError e2); cbn [x_out x_st x_closes x_handover x_iter]]; exact W.
      + destruct (is_OSError e1); cbn [x_out x_st x_closes x_handover x_iter]; exact W. }
  destruct Hx as (H1 & H2 & H3).
  destruct (x_iter x) eqn:Ei.
  - destruct (H2 eq_refl) as [H2a H2b]. repeat split; auto; try discriminate.
    destruct (a_has_close a) eqn:Eh.
    + destruct (H2a eq_refl) as [[-> _]|[-> _]]; lia.
    + rewrite (H2b eq_refl). lia.
  - destruct (H1 eq_refl) as [-> ->]. repeat split; auto; try discriminate; lia.
Qed.

End Contain.
