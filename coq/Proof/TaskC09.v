(* C09: containment of application failures; close() exactly once. *)
From Coq Require Import String.
From Coq Require Import List NArith ZArith Bool Lia Arith.
From WV Require Import Lib.PyBytes Gen.GenTables Model.Task Proof.TaskLines Proof.TaskHead Proof.TaskStart
  Proof.TaskRun Proof.TaskOracle Proof.TaskC08.
Import ListNotations.
Local Open Scope N_scope.

Section Contain.
Variable cap : str -> str.
Variable lower : str -> str.
Variable c : cfg.
Variable r : req.
Variable disc : option nat.

(* ---- close() exactly once ------------------------------------------------ *)

Lemma wsgi_execute_close s a :
  let x := wsgi_execute cap lower c r disc s a in
  (x_iter x = false -> x_closes x = 0%nat /\ x_handover x = false)
  /\ (x_iter x = true ->
      (a_has_close a = true -> (x_closes x = 1%nat /\ x_handover x = false)
                               \/ (x_closes x = 0%nat /\ x_handover x = true))
      /\ (a_has_close a = false -> x_closes x = 0%nat))
  /\ (x_handover x = true -> a_kind a = KFile true).
Proof.
  cbn zeta. unfold wsgi_execute.
  destruct (run_actions cap lower c r disc s (a_call a)) as [s1 [u|e]].
  2: { cbn. repeat split; auto; discriminate. }
  destruct (execute_body cap lower c r disc s1 a) as [[s2 o] cc] eqn:Eb.
  assert (Hcc : cc = false -> a_kind a = KFile true).
  { intro Hf. subst cc. unfold execute_body in Eb.
    destruct (a_kind a) as [n| |[|]] eqn:Ek; auto; exfalso;
      try (destruct s1 as [t0 ch0]; cbn in Eb);
      repeat match type of Eb with context [match ?y with _ => _ end] => destruct y end;
      inversion Eb. }
  destruct cc; cbn [andb].
  - destruct (a_has_close a) eqn:Eh; [destruct (a_close_exn a)|]; cbn; repeat split; auto; try discriminate.
  - cbn. repeat split; auto; try discriminate; destruct (a_has_close a); auto.
Qed.

Lemma ladder_fields x raw :
  let res := ladder cap lower c r disc x raw in
  o_closes res = x_closes x /\ o_handover res = x_handover x /\ o_iter res = x_iter x
  /\ o_raw res = raw /\ o_writes1 res = rev (ch_writes (snd (x_st x)))
  /\ o_wrote_header1 res = t_wrote_header (fst (x_st x)) /\ o_nws1 res = ch_nws (snd (x_st x)).
Proof.
  cbn zeta. unfold ladder.
  repeat match goal with
         | |- context [match ?y with _ => _ end] => destruct y eqn:?
         end; cbn; repeat split; auto.
Qed.

Theorem close_once a :
  let res := channel_service cap lower c r a disc in
  (o_closes res <= 1)%nat
  /\ (o_iter res = false -> o_closes res = 0%nat /\ o_handover res = false)
  /\ (o_iter res = true -> a_has_close a = true ->
      (o_closes res = 1%nat /\ o_handover res = false) \/ (o_closes res = 0%nat /\ o_handover res = true))
  /\ (o_iter res = true -> a_has_close a = false -> o_closes res = 0%nat)
  /\ (o_handover res = true -> a_kind a = KFile true).
Proof.
  cbn zeta. unfold channel_service.
  set (x := task_service cap lower c r disc
                   (new_task (r_version r) (match r_error r with Some _ => true | None => false end), mkChan [] 0)
                   (match r_error r with Some e => inr e | None => inl a end)).
  destruct (connected disc 0).
  2: { match goal with |- context [ladder cap lower c r disc ?x0 ?raw0] =>
         destruct (ladder_fields x0 raw0) as (E1 & E2 & E3 & _) end.
       cbn zeta in *. rewrite E1, E2, E3. cbn. repeat split; auto; try discriminate. }
  match goal with |- context [ladder cap lower c r disc x ?raw0] =>
    destruct (ladder_fields x raw0) as (E1 & E2 & E3 & _) end.
  cbn zeta in *. rewrite E1, E2, E3. clear E1 E2 E3.
  assert (Hx : (x_iter x = false -> x_closes x = 0%nat /\ x_handover x = false)
    /\ (x_iter x = true ->
        (a_has_close a = true -> (x_closes x = 1%nat /\ x_handover x = false)
                                 \/ (x_closes x = 0%nat /\ x_handover x = true))
        /\ (a_has_close a = false -> x_closes x = 0%nat))
    /\ (x_handover x = true -> a_kind a = KFile true)).
  { subst x. unfold task_service, task_run.
    destruct (r_error r) as [e|].
    - destruct (error_execute cap lower c r disc _ e) as [s1 [u|e1]]; cbn [x_out x_st x_closes x_handover x_iter].
      + destruct (task_finish cap lower c r disc s1) as [s2 [u2|e2]]; cbn; [|destruct (is_OSError e2); cbn];
          repeat split; auto; discriminate.
      + destruct (is_OSError e1); cbn; repeat split; auto; discriminate.
    - pose proof (wsgi_execute_close (new_task (r_version r) false, mkChan [] 0) a) as W. cbn zeta in W.
      destruct (wsgi_execute cap lower c r disc _ a) as [s1 o1 n1 h1 i1]. cbn [x_out x_st x_closes x_handover x_iter] in *.
      destruct o1 as [u|e1].
      + destruct (task_finish cap lower c r disc s1) as [s2 [u2|e2]]; cbn [x_out x_st x_closes x_handover x_iter];
          [|destruct (is_OSError e2)]; cbn; exact W.
      + cbn. destruct (is_OSError e1); cbn; exact W. }
  destruct Hx as (H1 & H2 & H3).
  destruct (x_iter x) eqn:Ei.
  - destruct (H2 eq_refl) as [H2a H2b]. repeat split; auto; try discriminate.
    destruct (a_has_close a) eqn:Eh.
    + destruct (H2a eq_refl) as [[-> _]|[-> _]]; lia.
    + rewrite (H2b eq_refl). lia.
  - destruct (H1 eq_refl) as [-> ->]. repeat split; auto; try discriminate; lia.
Qed.

End Contain.

Section Contain2.
Variable cap : str -> str.
Variable lower : str -> str.
Variable c : cfg.
Variable r : req.
Variable disc : option nat.

(* ---- which exceptions the server's own code can raise --------------------- *)

Lemma write_soon_bytes_exn ch b ch' e : write_soon disc ch (WBytes b) = (ch', Exn e) -> e = ClientDisconnected.
Proof.
  unfold write_soon. destruct (negb _); [intro H; inversion H; auto|].
  destruct b; intro H; inversion H.
Qed.

(* fields that build_response_header / set_close_on_finish never reset *)
Definition keeps (t t' : task) : Prop :=
  t_complete t' = t_complete t /\ (t_cof t = true -> t_cof t' = true) /\ t_clen t' = t_clen t
  /\ t_cbw t' = t_cbw t /\ t_status t' = t_status t.

Lemma keeps_refl t : keeps t t.
Proof. unfold keeps; tauto. Qed.
Lemma keeps_trans a b d : keeps a b -> keeps b d -> keeps a d.
Proof. unfold keeps. intros (A1 & A2 & A3 & A4 & A5) (B1 & B2 & B3 & B4 & B5). repeat split; try congruence; auto. Qed.

Lemma keeps_scof t : keeps t (set_close_on_finish cap lower t) /\ t_cof (set_close_on_finish cap lower t) = true.
Proof.
  unfold set_close_on_finish. destruct (negb (t_wrote_header t)); [destruct (fold_left _ (t_rh t) None)|];
    unfold keeps; cbn; tauto.
Qed.

Lemma keeps_bh_prepare t : keeps t (bh_prepare cap lower c r t).
Proof.
  unfold bh_prepare.
  set (a := bh_loop cap t). set (t0 := set_rh (ac_rh a) t).
  assert (K0 : keeps t t0) by (unfold keeps; cbn; tauto).
  assert (K1 : keeps t0 (snd (bh_clen a t0))).
  { unfold bh_clen. destruct (ac_cl a), (t_clen t0); try apply keeps_refl.
    destruct (has_body t0); [unfold keeps; cbn; tauto|apply keeps_refl]. }
  destruct (bh_clen a t0) as [clh t1]. cbn [snd] in K1.
  assert (K2 : forall conn fc t, keeps t (bh_conn cap lower conn fc clh t)).
  { intros conn fc t2. unfold bh_conn.
    assert (Ha : forall t h, keeps t (set_rh (t_rh t ++ [h]) t)) by (intros; unfold keeps; cbn; tauto).
    assert (Hk : forall t b, keeps t (set_chunked b t)) by (intros; unfold keeps; cbn; tauto).
    destruct (negb (t_v11 t2)).
    - destruct (beqb conn _ && negb fc && negb (t_cof t2)); [|apply keeps_scof]. destruct (negb (truthy clh)); [apply keeps_scof|apply Ha].
    - set (t3 := if beqb conn _ || fc then _ else t2).
      assert (K3 : keeps t2 t3) by (subst t3; destruct (beqb conn _ || fc); [apply keeps_scof|apply keeps_refl]).
      destruct (negb (truthy clh)); auto.
      set (t4 := if has_body t3 then _ else t3).
      assert (K4 : keeps t3 t4).
      { subst t4. destruct (has_body t3); [|apply keeps_refl]. eapply keeps_trans; [apply Ha|apply Hk]. }
      destruct (negb (t_cof t4)).
      + eapply keeps_trans; [exact K3|]. eapply keeps_trans; [exact K4|]. apply keeps_scof.
      + eapply keeps_trans; eauto. }
  assert (K3 : forall t, keeps t (bh_server c a t)).
  { intro t2. unfold bh_server. destruct (negb _); destruct (c_ident c); unfold keeps; cbn; tauto. }
  assert (K4 : forall t, keeps t (bh_date c a t)).
  { intro t2. unfold bh_date. destruct (negb _); unfold keeps; cbn; tauto. }
  eapply keeps_trans; [exact K0|]. eapply keeps_trans; [exact K1|].
  eapply keeps_trans; [apply K2|]. eapply keeps_trans; [apply K3|apply K4].
Qed.

Lemma write_header_facts s s' o : write_header cap lower c r disc s = (s', o) ->
  t_complete (fst s') = t_complete (fst s)
  /\ (t_cof (fst s) = true -> t_cof (fst s') = true)
  /\ (forall e, o = Exn e -> e = UnicodeEncodeError \/ e = ClientDisconnected).
Proof.
  destruct s as [t ch]. unfold write_header.
  destruct (negb (t_wrote_header t)).
  2: { intro H; inversion H; subst. cbn. repeat split; auto. intros e He; discriminate. }
  unfold build_response_header.
  pose proof (keeps_bh_prepare t) as (K1 & K2 & _).
  destruct (encode_latin1 _) as [rh|e0] eqn:Ee.
  - destruct (write_soon disc ch (WBytes rh)) as [ch1 [u|e1]] eqn:Ew; intro H; inversion H; subst; cbn [fst];
      repeat split; auto; intros e He; inversion He; subst.
    right. eapply write_soon_bytes_exn; eauto.
  - intro H; inversion H; subst; cbn [fst]. repeat split; auto. intros e He; inversion He; subst.
    left. unfold encode_latin1 in Ee. destruct (forallb _ _); inversion Ee; auto.
Qed.

Lemma write_body_facts s data s' o : write_body disc s data = (s', o) ->
  t_complete (fst s') = t_complete (fst s) /\ t_cof (fst s') = t_cof (fst s)
  /\ (forall e, o = Exn e -> e = ClientDisconnected).
Proof.
  destruct s as [t ch]. unfold write_body.
  destruct data as [|x data]; [intro H; inversion H; subst; cbn; repeat split; auto; intros; discriminate|].
  destruct (has_body t).
  - destruct (t_chunked t).
    + destruct (to_hex_upper _ ++ _) as [|y tw].
      * intro H; inversion H; subst; cbn; repeat split; auto; intros; discriminate.
      * destruct (write_soon disc ch (WBytes (y :: tw))) as [ch2 o2] eqn:Ews.
        intro H; inversion H; subst; cbn; repeat split; auto. intros e ->. eapply write_soon_bytes_exn; eauto.
    + destruct (t_clen t) as [cl|].
      * destruct (py_slice_to _ _) as [|y tw].
        -- intro H; inversion H; subst; cbn; repeat split; auto; intros; discriminate.
        -- destruct (write_soon disc ch (WBytes (y :: tw))) as [ch2 o2] eqn:Ews.
           intro H; inversion H; subst; cbn; repeat split; auto. intros e ->. eapply write_soon_bytes_exn; eauto.
      * destruct (write_soon disc ch (WBytes (x :: data))) as [ch2 o2] eqn:Ews.
        intro H; inversion H; subst; cbn; repeat split; auto. intros e ->. eapply write_soon_bytes_exn; eauto.
  - intro H; inversion H; subst; cbn; repeat split; auto; intros; discriminate.
Qed.

Lemma task_write_facts s data s' o : task_write cap lower c r disc s data = (s', o) ->
  t_complete (fst s') = t_complete (fst s)
  /\ (t_cof (fst s) = true -> t_cof (fst s') = true)
  /\ (forall e, o = Exn e -> (e = RuntimeError /\ t_complete (fst s) = false)
                             \/ e = UnicodeEncodeError \/ e = ClientDisconnected).
Proof.
  unfold task_write. destruct (negb (t_complete (fst s))) eqn:Ec.
  - intro H; injection H as <- <-. repeat split; auto. intros e He; injection He as <-. left. split; auto.
    destruct (t_complete (fst s)); auto; discriminate.
  - destruct (write_header cap lower c r disc s) as [s1 [u|e1]] eqn:Eh.
    + destruct (write_header_facts _ _ _ Eh) as (H1 & H2 & _).
      intro H. destruct (write_body_facts _ _ _ _ H) as (B1 & B2 & B3).
      split; [congruence|]. split; [intro Hc; rewrite B2; auto|].
      intros e He. right. right. eauto.
    + destruct (write_header_facts _ _ _ Eh) as (H1 & H2 & H3).
      intro H; injection H as <- <-. split; [exact H1|]. split; [exact H2|].
      intros e He; injection He as <-. right. apply H3. reflexivity.
Qed.

Lemma task_finish_facts s s' o : task_finish cap lower c r disc s = (s', o) ->
  t_complete (fst s') = t_complete (fst s)
  /\ (t_cof (fst s) = true -> t_cof (fst s') = true)
  /\ (forall e, o = Exn e -> (e = RuntimeError /\ t_complete (fst s) = false)
                             \/ e = UnicodeEncodeError \/ e = ClientDisconnected).
Proof.
  unfold task_finish.
  set (r1 := if negb (t_wrote_header (fst s)) then _ else _).
  assert (F : t_complete (fst (fst r1)) = t_complete (fst s)
    /\ (t_cof (fst s) = true -> t_cof (fst (fst r1)) = true)
    /\ (forall e, snd r1 = Exn e -> (e = RuntimeError /\ t_complete (fst s) = false)
                             \/ e = UnicodeEncodeError \/ e = ClientDisconnected)).
  { subst r1. destruct (negb _).
    - destruct (task_write cap lower c r disc s []) as [s1 o1] eqn:E. apply task_write_facts in E. exact E.
    - cbn. repeat split; auto. intros; discriminate. }
  destruct r1 as [[t ch] [u|e1]]; cbn [fst snd] in F; destruct F as (F1 & F2 & F3).
  - destruct (t_chunked t && negb (r_head r)).
    + destruct (write_soon disc ch (WBytes chunk_terminator)) as [ch1 o1] eqn:Ews.
      intro H; inversion H; subst; cbn [fst]. repeat split; auto.
      intros e ->. right. right. eapply write_soon_bytes_exn; eauto.
    + intro H; inversion H; subst; cbn [fst]. repeat split; auto. intros; discriminate.
  - intro H; inversion H; subst; cbn [fst]. repeat split; auto.
Qed.

(* an error task (ErrorTask: complete = True) raises nothing but an encode error
   of the server's own strings or ClientDisconnected, and always ends with
   close_on_finish set *)
Lemma error_run_facts_er t ch e : t_complete t = true ->
  let x := task_service cap lower c r disc (t, ch) (inr e) in
  t_cof (fst (x_st x)) = true
  /\ (forall ex, x_out x = Exn ex -> ex = UnicodeEncodeError \/ ex = ClientDisconnected).
Proof.
  intro Hc. cbn zeta. unfold task_service, task_run, error_execute.
  destruct e as [[code reason] body].
  match goal with |- context [task_write cap lower c r disc ?s1 ?d] =>
    destruct (task_write cap lower c r disc s1 d) as [s2 o2] eqn:Ew;
    assert (G1 : t_complete (fst s1) = true /\ t_cof (fst s1) = true) end.
  { cbn [fst]. split.
    - destruct (keeps_scof (set_rh (t_rh (set_status (code ++ [32] ++ reason) t) ++ [err_header])
                                   (set_status (code ++ [32] ++ reason) t))) as [(K1 & _) _].
      cbn [t_complete set_clen]. rewrite K1. exact Hc.
    - apply keeps_scof. }
  destruct G1 as [G1 G2].
  destruct (task_write_facts _ _ _ _ Ew) as (W1 & W2 & W3).
  destruct o2 as [u|e1]; cbn [x_out x_st].
  - destruct (task_finish cap lower c r disc s2) as [s3 o3] eqn:Ef. cbn [x_out x_st].
    destruct (task_finish_facts _ _ _ Ef) as (F1 & F2 & F3).
    assert (Hfin : forall ex, o3 = Exn ex -> ex = UnicodeEncodeError \/ ex = ClientDisconnected).
    { intros ex Hex. destruct (F3 ex Hex) as [[_ Hcf]|H]; auto. congruence. }
    destruct o3 as [u3|e3]; cbn [x_out x_st fst].
    + split; auto; intros; discriminate.
    + destruct (Hfin e3 eq_refl) as [->| ->]; cbn [is_OSError x_st x_out fst]; split; auto;
        intros ex Hex; inversion Hex; auto.
  - assert (Hw : e1 = UnicodeEncodeError \/ e1 = ClientDisconnected).
    { destruct (W3 e1 eq_refl) as [[_ Hcf]|H]; auto. congruence. }
    destruct Hw as [->| ->]; cbn [is_OSError x_st x_out fst]; split; auto; intros ex Hex; inversion Hex; auto.
Qed.

End Contain2.

(* ---- the ladder ------------------------------------------------------------ *)

Section Ladder.
Variable cap : str -> str.
Variable lower : str -> str.
Variable c : cfg.
Variable r : req.
Variable disc : option nat.

(* what Task.service lets out is what execute()/finish() raised *)
Lemma task_service_out s job e :
  x_out (task_service cap lower c r disc s job) = Exn e ->
  x_out (task_run cap lower c r disc s job) = Exn e.
Proof.
  unfold task_service. destruct (x_out (task_run cap lower c r disc s job)) as [u|e0] eqn:E; [rewrite E; discriminate|].
  destruct (is_OSError e0); cbn [x_out]; [destruct (_ || _)|rewrite E]; congruence.
Qed.

(* how the first task's result relates to what its execute()/finish() raised *)
Definition service_rel (x : exec_result) (raw : option exn) : Prop :=
  match raw with
  | None => x_out x = Ok tt
  | Some e =>
      if is_OSError e then
        x_out x = (if c_log_socket_errors c || negb (t_wrote_header (fst (x_st x))) then Exn e else Ok tt)
        /\ t_cof (fst (x_st x)) = true
      else x_out x = Exn e
  end.

Lemma task_service_rel s job :
  service_rel (task_service cap lower c r disc s job)
              (match x_out (task_run cap lower c r disc s job) with Exn e => Some e | Ok _ => None end).
Proof.
  unfold service_rel, task_service.
  destruct (x_out (task_run cap lower c r disc s job)) as [[]|e] eqn:E.
  - exact E.
  - destruct (is_OSError e); cbn [x_out x_st fst t_wrote_header set_cof]; auto.
Qed.

(* the outcome of HTTPChannel.service(), by what the application did *)
Definition outcome_spec (res : result) : Prop :=
  let quiet_close := o_close res = true /\ o_next res = false /\ o_escaped res = None
                     /\ o_served_500 res = false /\ o_writes res = o_writes1 res in
  match o_raw res with
  | None =>                                   (* nothing was raised *)
      o_escaped res = None /\ o_served_500 res = false /\ o_writes res = o_writes1 res
  | Some e =>
      if exn_eqb e ClientDisconnected then quiet_close          (* the client went away *)
      else if o_wrote_header1 res then quiet_close               (* failure after output began *)
      else                                                       (* failure before any output *)
        (* one 500 is attempted and, whether or not it could be built and sent (a head that cannot be
           encoded, a client that went away), nothing escapes and the connection is wound up: until
           /repo fix 1a765e6 a UnicodeEncodeError of the 500 itself escaped here *)
        o_served_500 res = true
        /\ o_close res = true /\ o_next res = false /\ o_escaped res = None
  end.

Definition quiet_close_of (res : result) : Prop :=
  o_close res = true /\ o_next res = false /\ o_escaped res = None
  /\ o_served_500 res = false /\ o_writes res = o_writes1 res.

Lemma ladder_raised x raw e : x_out x = Exn e ->
  let res := ladder cap lower c r disc x raw in
  if exn_eqb e ClientDisconnected then quiet_close_of res
  else if t_wrote_header (fst (x_st x)) then quiet_close_of res
  else o_served_500 res = true
       /\ o_close res = true /\ o_next res = false /\ o_escaped res = None.
Proof.
  intro Hout. cbn zeta. unfold quiet_close_of, ladder. rewrite Hout.
  destruct (exn_eqb e ClientDisconnected) eqn:Ecd.
  { cbn. repeat split; auto. }
  destruct (t_wrote_header (fst (x_st x))) eqn:W; cbn [negb].
  - cbn. repeat split; auto.
  - match goal with |- context [task_service cap lower c ?er disc (?t1, ?ch1) (inr ?ee)] =>
      set (er0 := er); set (ee0 := ee); set (ch0 := ch1) end.
    remember (task_service cap lower c er0 disc (new_task (r_version r) true, ch0) (inr ee0)) as x1 eqn:Hx1.
    assert (EFacts : t_cof (fst (x_st x1)) = true
                     /\ (forall ex, x_out x1 = Exn ex -> ex = UnicodeEncodeError \/ ex = ClientDisconnected))
      by (subst x1; apply (error_run_facts_er cap lower c er0 disc (new_task (r_version r) true) ch0 ee0 eq_refl)).
    destruct EFacts as [ECof EF]. clear Hx1.
    destruct (x_out x1) as [u1|e1] eqn:E1.
    + cbn. rewrite ECof. repeat split; auto.
    + destruct (exn_eqb e1 ClientDisconnected); cbn; repeat split; auto.
Qed.

Theorem ladder_outcome x raw : service_rel x raw -> outcome_spec (ladder cap lower c r disc x raw).
Proof.
  intro Hrel. unfold outcome_spec.
  destruct (ladder_fields cap lower c r disc x raw) as (_ & _ & _ & Eraw & Ew1 & Ewh & _). cbn zeta in *.
  rewrite Eraw, Ewh. unfold service_rel in Hrel.
  destruct raw as [e|].
  2: { unfold ladder. rewrite Hrel. cbn. auto. }
  destruct (is_OSError e) eqn:Eos.
  - destruct Hrel as [Hout Hcof].
    destruct e; try discriminate. cbn [exn_eqb].
    destruct (t_wrote_header (fst (x_st x))) eqn:W.
    + destruct (c_log_socket_errors c); cbn [orb negb] in Hout.
      * pose proof (ladder_raised x (Some AppOSError) _ Hout) as L. cbn zeta in L. cbn [exn_eqb] in L. rewrite W in L. exact L.
      * unfold ladder. rewrite Hout. cbn. rewrite Hcof. cbn. repeat split; auto.
    + rewrite orb_true_r in Hout.
      pose proof (ladder_raised x (Some AppOSError) _ Hout) as L. cbn zeta in L. cbn [exn_eqb] in L. rewrite W in L. exact L.
  - exact (ladder_raised x (Some e) e Hrel).
Qed.

Theorem service_outcome a : outcome_spec (channel_service cap lower c r a disc).
Proof.
  unfold channel_service. destruct (connected disc 0).
  - apply ladder_outcome. apply task_service_rel.
  - apply ladder_outcome. reflexivity.
Qed.

End Ladder.

(* ---- no traceback text unless expose_tracebacks ---------------------------- *)

Section NoLeak.
Variable cap : str -> str.
Variable lower : str -> str.

(* two configurations that differ at most in expose_tracebacks and the traceback text *)
Definition cfg_eqv (c1 c2 : cfg) : Prop :=
  c_ident c1 = c_ident c2 /\ c_date c1 = c_date c2 /\ c_log_socket_errors c1 = c_log_socket_errors c2.

Variables c1 c2 : cfg.
Hypothesis Heqv : cfg_eqv c1 c2.

Lemma eqv_bh_prepare r t : bh_prepare cap lower c1 r t = bh_prepare cap lower c2 r t.
Proof.
  destruct Heqv as (H1 & H2 & _). unfold bh_prepare, bh_server, bh_date. rewrite H1, H2. reflexivity.
Qed.

Lemma eqv_write_header r disc s : write_header cap lower c1 r disc s = write_header cap lower c2 r disc s.
Proof. destruct s as [t ch]. unfold write_header, build_response_header. rewrite eqv_bh_prepare. reflexivity. Qed.

Lemma eqv_task_write r disc s d : task_write cap lower c1 r disc s d = task_write cap lower c2 r disc s d.
Proof. unfold task_write. rewrite eqv_write_header. reflexivity. Qed.

Lemma eqv_task_finish r disc s : task_finish cap lower c1 r disc s = task_finish cap lower c2 r disc s.
Proof. unfold task_finish. rewrite eqv_task_write. reflexivity. Qed.

Lemma eqv_run_action r disc s a : run_action cap lower c1 r disc s a = run_action cap lower c2 r disc s a.
Proof. destruct a; cbn [run_action]; auto. apply eqv_task_write. Qed.

Lemma eqv_run_actions r disc l : forall s, run_actions cap lower c1 r disc s l = run_actions cap lower c2 r disc s l.
Proof.
  induction l as [|a l IH]; intro s; cbn [run_actions]; auto.
  rewrite eqv_run_action. destruct (run_action cap lower c2 r disc s a) as [s1 [u|e]]; auto.
Qed.

Lemma eqv_iterate r disc steps : forall f l b s,
  iterate cap lower c1 r disc f l b s steps = iterate cap lower c2 r disc f l b s steps.
Proof.
  induction steps as [|sp steps IH]; intros f l b s; cbn [iterate]; auto.
  rewrite eqv_run_actions. destruct (run_actions cap lower c2 r disc s (s_acts sp)) as [s1 [u|e]]; auto.
  destruct (s_res sp); auto. destruct (f && _); auto. destruct s1 as [t ch].
  destruct b0 as [|y b0]; [apply IH|]. rewrite eqv_task_write.
  match goal with |- context [task_write cap lower c2 r disc ?s0 ?d] =>
    destruct (task_write cap lower c2 r disc s0 d) as [s2 [u2|e2]] end; auto.
Qed.

Lemma eqv_execute_body r disc s a : execute_body cap lower c1 r disc s a = execute_body cap lower c2 r disc s a.
Proof.
  unfold execute_body. rewrite eqv_iterate.
  destruct (a_kind a); auto. destruct s as [t ch].
  repeat match goal with
         | |- context [task_write cap lower c1 r disc ?s0 ?d] => rewrite (eqv_task_write r disc s0 d)
         end. reflexivity.
Qed.

Lemma eqv_task_run r disc s job : task_run cap lower c1 r disc s job = task_run cap lower c2 r disc s job.
Proof.
  unfold task_run, wsgi_execute, error_execute. destruct job as [a|[[code reason] body]].
  - rewrite eqv_run_actions. destruct (run_actions cap lower c2 r disc s (a_call a)) as [s1 [u|e]]; cbn [x_out]; auto.
    rewrite eqv_execute_body. destruct (execute_body cap lower c2 r disc s1 a) as [[s2 o] cc].
    destruct (cc && a_has_close a); [destruct (a_close_exn a)|]; cbn [x_out x_st]; auto;
      destruct o; auto; rewrite eqv_task_finish; reflexivity.
  - destruct Heqv as (H1 & _). rewrite H1. destruct s as [t ch]. rewrite eqv_task_write.
    match goal with |- context [task_write cap lower c2 r disc ?s0 ?d] =>
      destruct (task_write cap lower c2 r disc s0 d) as [s2 [u2|e2]] end; cbn [x_out x_st]; auto.
    rewrite eqv_task_finish. reflexivity.
Qed.

Lemma eqv_task_service r disc s job : task_service cap lower c1 r disc s job = task_service cap lower c2 r disc s job.
Proof.
  unfold task_service. rewrite eqv_task_run. destruct Heqv as (_ & _ & H3). rewrite H3. reflexivity.
Qed.

(* With expose_tracebacks off, nothing the server does depends on the traceback
   text: the whole result (wire bytes included) is the same for any two texts. *)
Theorem no_traceback_leak r a disc :
  c_expose_tracebacks c1 = false -> c_expose_tracebacks c2 = false ->
  channel_service cap lower c1 r a disc = channel_service cap lower c2 r a disc.
Proof.
  intros E1 E2. unfold channel_service, ladder. rewrite E1, E2.
  rewrite !eqv_task_service, !eqv_task_run. reflexivity.
Qed.

End NoLeak.

(* ---- the repaired classes, as instances ------------------------------------- *)

Definition base_app : app :=
  mkApp [ARaise AppBaseException] KGen [] true None.
Definition oserr_app : app :=
  mkApp [ARaise AppOSError] KGen [] true None.
Definition quiet_cfg : cfg :=
  mkCfg (lit "waitress") false false (lit "Thu, 01 Jan 2026 00:00:00 GMT") (lit "TB").

(* a BaseException subclass raised by the application is answered like any other
   failure before output: the 500, then close (before 72e39ad it escaped) *)
Lemma baseexception_contained :
  let res := run_task sample_cfg sample_req base_app None in
  o_escaped res = None /\ o_served_500 res = true /\ o_close res = true /\ o_next res = false
  /\ o_writes res = response_500 py_cap py_lower sample_cfg sample_req None 0.
Proof. vm_compute. repeat split; reflexivity. Qed.

(* an application OSError before any output with log_socket_errors off: the 500
   (before 4ec4884 a silent close) *)
Lemma oserror_answered :
  let res := run_task quiet_cfg sample_req oserr_app None in
  o_raw res = Some AppOSError /\ o_wrote_header1 res = false
  /\ o_served_500 res = true /\ o_close res = true /\ o_escaped res = None.
Proof. vm_compute. repeat split; reflexivity. Qed.

(* ---- corollaries in the form used by Props/C09.v ----------------------------- *)

Section Corollaries.
Variable cap : str -> str.
Variable lower : str -> str.

Theorem contained c r a disc e :
  let res := channel_service cap lower c r a disc in
  o_raw res = Some e ->
  exn_eqb e ClientDisconnected = false ->
  (o_wrote_header1 res = true ->
     o_close res = true /\ o_next res = false /\ o_escaped res = None
     /\ o_served_500 res = false /\ o_writes res = o_writes1 res)
  /\ (o_wrote_header1 res = false ->
     o_served_500 res = true /\ o_close res = true /\ o_next res = false /\ o_escaped res = None).
Proof.
  cbn zeta. intros Hraw Hcd.
  pose proof (service_outcome cap lower c r disc a) as H. unfold outcome_spec in H.
  rewrite Hraw, Hcd in H.
  destruct (o_wrote_header1 (channel_service cap lower c r a disc)); split; intro W; try discriminate; exact H.
Qed.

(* nothing at all leaves HTTPChannel.service() *)
Theorem nothing_escapes c r a disc :
  o_escaped (channel_service cap lower c r a disc) = None.
Proof.
  pose proof (service_outcome cap lower c r disc a) as H. unfold outcome_spec in H.
  destruct (o_raw (channel_service cap lower c r a disc)) as [e0|] eqn:Eraw.
  2: { destruct H as (H & _). exact H. }
  destruct (exn_eqb e0 ClientDisconnected); [destruct H as (_ & _ & H & _); exact H|].
  destruct (o_wrote_header1 _); [destruct H as (_ & _ & H & _); exact H|].
  destruct H as (_ & _ & _ & H). exact H.
Qed.

End Corollaries.

(* handler_thread's catch-all: whatever escaped service() becomes a log record *)
Lemma handler_thread_total cap lower c r a disc :
  handler_thread cap lower c r a disc
  = (channel_service cap lower c r a disc, o_escaped (channel_service cap lower c r a disc)).
Proof. reflexivity. Qed.

(* will_close: a connection already marked for closing is not executed *)
Lemma will_close_not_executed c r a disc :
  let res := run_task_wc c r a disc true in
  o_iter res = false /\ o_writes res = [] /\ o_close res = true /\ o_next res = false
  /\ o_escaped res = None /\ o_closes res = 0%nat /\ o_raw res = None.
Proof. cbn. repeat split; reflexivity. Qed.

Lemma will_close_false c r a disc : run_task_wc c r a disc false = run_task c r a disc.
Proof. reflexivity. Qed.
