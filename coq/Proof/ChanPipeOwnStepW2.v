(* Proof/ChanPipeOwnStepW2.v -- L1 is preserved by the worker steps of group 2. *)
From Coq Require Import List Arith Bool ZArith Lia.
From WV Require Import Model.ChanPipe Proof.ChanPipeBase Proof.ChanPipeOwn Proof.ChanPipeOwnTac.
Import ListNotations.

Section Step.
Variable P : params.

Theorem L1_step_wk2 : forall st me e st' l, grp1 (wpc (wk st me)) = 2 ->
  L0 st -> L1 st -> step P st (CWk me e) = Some (st', l) -> L1 st'.
Proof.
  intros st me e st' l Hg HL0 HL1 Hs.
  pose proof (io_rl_empty_no_owner st HL0 HL1) as Hemp.
  step_wk Hs; cbn [sh io wk ipc] in *.
    all: cbn in Hg; try discriminate Hg.
    all: try (frame_wk HL1 me Hw).
    all: destruct HL1 as [Hu Hq Hqo Hqr Hor Hcv Hc2 Hsc Hat Hh].
    all: pose proof (Hu me) as Hu_me; pose proof (fun k => Hu k me) as Hu_me';
         pose proof (Hor me) as Hor_me; pose proof (Hc2 me) as Hc2_me; pose proof (Hsc me) as Hsc_me.
    all: destruct HL0 as [[R1 R2] [O1 O2] [D1 D2]].
    all: pose proof (R2 me) as R2m; pose proof (O2 me) as O2m; pose proof (D2 me) as D2m.
    all: cbn [sh io wk ipc] in *; rewrite Hw in *; cbn [wpc] in *.
    all: split; cbn [sh io wk ipc io_handing is_atacq]; intros.
    all: upd_hyps; upd_goal me.
    all: fin.
Qed.
End Step.
