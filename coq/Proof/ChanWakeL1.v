(* Proof/ChanWakeL1.v -- layer 1 of the C05 invariant: lock ownership follows the
   program points. *)
From Coq Require Import List ZArith Bool Arith Lia.
From WV Require Import Model.ChanWake Proof.ChanWakeInv Proof.ChanWakeBase.
Import ListNotations.
Open Scope Z_scope.

Lemma nth_error_upd_cases : forall A (l : list A) i j v p,
  nth_error (upd i v l) j = Some p -> p = v \/ nth_error l j = Some p.
Proof.
  induction l; destruct i; destruct j; simpl; intros; auto; try discriminate.
  - inversion H; auto.
  - eapply IHl; eauto.
Qed.

(* break [step ... = Some _] into its cases *)
Ltac break_match_in H :=
  repeat match type of H with
         | context [match ?x with _ => _ end] => destruct x eqn:?; try discriminate H
         end.
Ltac step_cases H :=
  break_match_in H; inversion H; subst; clear H.

Definition WInv1 (s : state) (j : nat) (p : wpc) : Prop :=
  (w_holds_o p = true -> olock s = Some (TW j)) /\
  (w_holds_r p = true -> rlock s = Some (TW j)) /\
  True.

Record Inv1 (s : state) : Prop := {
  i1_io_o : io_holds_o (io s) = true -> olock s = Some TIO;
  i1_io_r : io_holds_r (io s) = true -> rlock s = Some TIO;
  i1_w : forall j p, nth_error (ws s) j = Some p -> WInv1 s j p;
  i1_hce : match io s with IoHCe k => hc_locked k = false | _ => True end
}.

Lemma free_none : forall l, free l = true -> l = None.
Proof. destruct l; simpl; intros; congruence. Qed.

Lemma inv1_init : forall nw, Inv1 (init nw).
Proof.
  intros. constructor; simpl; intros; try discriminate; auto.
  apply nth_error_In in H. apply repeat_spec in H. subst. repeat split; simpl; intros; try discriminate; auto.
Qed.


Ltac free_hyps :=
  repeat match goal with
         | H : free ?l = true |- _ => apply free_none in H
         end.

(* worker lists after notify / add_task are pointwise "the same or a lock-free program point" *)
Lemma winv1_notify : forall s s' j q,
  olock s' = olock s -> rlock s' = rlock s -> (closed s = true -> closed s' = true) ->
  (forall j p, nth_error (ws s) j = Some p -> WInv1 s j p) ->
  nth_error (notify_o (ws s)) j = Some q -> WInv1 s' j q.
Proof.
  intros s s' j q Ho Hr Hc Hw Hq. destruct (notify_o_nth _ _ _ Hq) as (p & Hp & [->|[Pp ->]]).
  - specialize (Hw _ _ Hp). unfold WInv1 in *. rewrite Ho, Hr. intuition.
  - destruct p; simpl in Pp; try discriminate; unfold WInv1; simpl; repeat split; intros; discriminate.
Qed.

Lemma winv1_add_task : forall s j q,
  (forall j p, nth_error (ws s) j = Some p -> WInv1 s j p) ->
  nth_error (ws (add_task s)) j = Some q -> WInv1 s j q.
Proof.
  intros s j q Hw Hq. unfold add_task in Hq. simpl in Hq.
  destruct (qwait s) eqn:E; simpl in Hq.
  - auto.
  - apply nth_error_upd_cases in Hq. destruct Hq as [->|Hq]; auto.
    unfold WInv1; simpl; repeat split; intros; discriminate.
Qed.

Lemma add_task_locks : forall s, olock (add_task s) = olock s /\ rlock (add_task s) = rlock s /\
  io (add_task s) = io s /\ closed (add_task s) = closed s.
Proof. intros. unfold add_task. simpl. destruct (qwait s); simpl; auto. Qed.

Lemma inv1_step_io : forall c s ch s' l,
  Inv1 s -> step_io c s ch = Some (s', l) -> Inv1 s'.
Proof.
  intros c s ch s' l [Ho Hr Hw He] H. unfold step_io in H. step_cases H; free_hyps.
  all: unfold after_read, turn_start, hc_return, goio in *.
  all: repeat match goal with |- context [if ?b then _ else _] => destruct b eqn:? end.
  all: cbv [io_holds_o io_holds_r hc_locked hc_is_sc] in Ho, Hr.
  all: try match goal with |- context [add_task ?x] =>
         let Ea := fresh in let Eb := fresh in let Ec := fresh in let Ed := fresh in
         destruct (add_task_locks x) as (Ea & Eb & Ec & Ed); constructor; simpl; rewrite ?Ea, ?Eb, ?Ec, ?Ed;
         [ | | intros j p Hj; apply winv1_add_task in Hj; [|exact Hw]; unfold WInv1 in *; simpl; rewrite ?Ea, ?Eb, ?Ed; exact Hj | ] end.
  all: try constructor; simpl; try match goal with E : io _ = _ |- _ => rewrite ?E; simpl end; try (intros; discriminate); try (intros; reflexivity); auto.
  all: try (simpl in He; intros; congruence).
  all: try (intros j p Hj; specialize (Hw j p Hj); unfold WInv1 in *; simpl; intuition congruence).
  all: try (intros j p Hj; match goal with Hq : nth_error (notify_o (ws ?x)) _ = Some _ |- WInv1 ?y _ _ =>
         apply (winv1_notify x y _ _ eq_refl eq_refl (fun h => h) Hw Hq) end).
Qed.

Lemma nth_error_upd_inv : forall A (l : list A) i j v p,
  nth_error (upd i v l) j = Some p -> (j = i /\ p = v) \/ (j <> i /\ nth_error l j = Some p).
Proof.
  induction l; destruct i; destruct j; simpl; intros; try discriminate; auto.
  - inversion H; auto.
  - destruct (IHl _ _ _ _ H) as [[-> ->]|[Hn Hp]]; auto.
Qed.

Lemma ws_add_task_inv : forall s j p,
  nth_error (ws (add_task s)) j = Some p -> p = WNotif \/ nth_error (ws s) j = Some p.
Proof.
  intros s j p H. unfold add_task in H. simpl in H. destruct (qwait s); simpl in H; auto.
  apply nth_error_upd_cases in H. auto.
Qed.

Lemma winv1_notif : forall s j, WInv1 s j WNotif.
Proof. intros. unfold WInv1; simpl; repeat split; intros; discriminate. Qed.

Lemma inv1_step_w : forall c s i ch s' l,
  Inv1 s -> step_w c s i ch = Some (s', l) -> Inv1 s'.
Proof.
  intros c s i ch s' l [Ho Hr Hw He] H. unfold step_w in H.
  destruct (getw s i) as [pc|] eqn:Hg; [|discriminate]. unfold getw in Hg.
  pose proof (Hw _ _ Hg) as Hi. unfold WInv1 in Hi.
  step_cases H; free_hyps; simpl in Hi; destruct Hi as (Hio & Hir & Hisc).
  all: unfold setw, hw_exit in *.
  all: repeat match goal with |- context [if ?b then _ else _] => destruct b eqn:? end.
  all: repeat match goal with |- context [match ?b with SWr _ => _ | SEnd => _ end] => destruct b eqn:? end.
  all: try (specialize (Hio eq_refl)); try (specialize (Hir eq_refl)).
  all: constructor; simpl; try match goal with |- context [add_task ?x] =>
         destruct (add_task_locks x) as (Ea & Eb & Ec & Ed); rewrite ?Ea, ?Eb, ?Ec, ?Ed end;
       try (intros; congruence); auto.
  all: try (intro Hx; first [apply Ho in Hx | apply Hr in Hx]; congruence).
  all: try (intros j p Hj; apply nth_error_upd_inv in Hj; destruct Hj as [[-> ->]|[Hn Hj]];
            [ unfold WInv1; simpl; repeat split; intros; try discriminate; try congruence; auto
            | try (apply ws_add_task_inv in Hj; destruct Hj as [->|Hj]; [apply winv1_notif|]);
              specialize (Hw _ _ Hj); unfold WInv1 in *; simpl;
              try match goal with |- context [add_task ?x] =>
                destruct (add_task_locks x) as (Ea & Eb & Ec & Ed); rewrite ?Ea, ?Eb, ?Ed end;
              intuition congruence ]).
  all: let n := numgoals in idtac "remaining" n.
Qed.

Lemma inv1_step : forall c s ch s' l,
  Inv1 s -> step c s ch = Some (s', l) -> Inv1 s'.
Proof.
  intros c s ch s' l HI H. unfold step in H. destruct ch;
    try (eapply inv1_step_io; eauto; fail); try (eapply inv1_step_w; eauto; fail).
  - destruct (gone s); [discriminate|]. inversion H; subst. destruct HI. constructor; simpl; auto.
  - destruct (gone s); [discriminate|]. inversion H; subst. destruct HI. constructor; simpl; auto.
Qed.
