(* The concrete case-mapping instance satisfies the oracle hypotheses. *)
From Coq Require Import List NArith Bool Lia ZifyBool.
From WV Require Import Lib.PyBytes Model.Task Proof.TaskLines Proof.TaskHead.
Import ListNotations.
Local Open Scope N_scope.

Lemma lower_latin1_c_crlf x : x <> CR -> x <> LF -> lower_latin1_c x <> CR /\ lower_latin1_c x <> LF.
Proof.
  unfold lower_latin1_c, CR, LF. intros H1 H2.
  destruct ((65 <=? x) && (x <=? 90)) eqn:E1; [lia|].
  destruct ((192 <=? x) && (x <=? 222) && negb (x =? 215)) eqn:E2; lia.
Qed.

Lemma lower_latin1_clean s : clean s -> clean (lower_latin1 s).
Proof.
  induction s as [|x s IH]; intro H; [reflexivity|].
  apply has_crlf_cons in H as (H1 & H2 & H3). cbn [lower_latin1 map].
  apply has_crlf_cons. destruct (lower_latin1_c_crlf x H1 H2). repeat split; auto. apply IH; auto.
Qed.

Lemma upper_latin1_c_clean x : x <> CR -> x <> LF -> clean (upper_latin1_c x).
Proof.
  unfold upper_latin1_c, CR, LF. intros H1 H2.
  destruct ((97 <=? x) && (x <=? 122)) eqn:E1.
  { apply has_crlf_cons. unfold CR, LF. repeat split; try lia. }
  destruct (x =? 181); [reflexivity|].
  destruct (x =? 223); [reflexivity|].
  destruct ((224 <=? x) && (x <=? 254) && negb (x =? 247)) eqn:E2.
  { apply has_crlf_cons. unfold CR, LF. repeat split; try lia. }
  destruct (x =? 255); [reflexivity|].
  apply has_crlf_cons. unfold CR, LF. repeat split; auto.
Qed.

Theorem py_cap_clean s : clean s -> clean (py_cap s).
Proof.
  destruct s as [|x s]; intro H; [reflexivity|].
  apply has_crlf_cons in H as (H1 & H2 & H3). unfold py_cap.
  apply clean_app. split. apply upper_latin1_c_clean; auto. apply lower_latin1_clean; auto.
Qed.
