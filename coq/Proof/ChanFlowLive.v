(* Proof/ChanFlowLive.v -- L4: release and abort, for the code as it is ([fixed p]: notify at
   total <= high_watermark, handle_write drains above the mark, connected re-tested under the
   lock) and every 0 <= high_watermark, every send_bytes, lookahead and residue.
   A producer that waits on outbuf_lock is never left behind: either the trigger is pulled, or
   the I/O thread's next select sees the channel writable, or the I/O thread is already on its
   way to the notify. *)
From Coq Require Import List ZArith Bool Arith Lia.
From WV Require Import Lib.Conc Model.ChanFlow Proof.ChanFlow Proof.ChanFlowReq Proof.ChanFlowFlags Proof.ChanFlowAcct.
Import ListNotations.
Local Open Scope Z_scope.

(* inside _flush_outbufs_below_high_watermark, holding the lock *)
Definition w_infb (pc : wpc) : bool :=
  match pc with
  | WFlush FA _ | WSub FA _ | WFlushExn FA => false
  | WFlush _ _ | WSub _ _ | WFlushExn _ | WFbPullE _ | WFbWaitE _ | WFbPull _ | WFbWait _ => true
  | _ => false
  end.

Definition pull_or_wait (pc : wpc) : bool := match pc with WFbPull _ | WFbWait _ => true | _ => false end.
Definition parked_loop (pc : wpc) : bool := match pc with WFbParked _ false => true | _ => false end.
Definition loop_waiting (pc : wpc) : bool := match pc with WFbWait _ | WFbParked _ false => true | _ => false end.
Definition e_wait (pc : wpc) : bool := match pc with WFbPullE _ | WFbWaitE _ | WFbParkedE _ false => true | _ => false end.
Definition e_waiting (pc : wpc) : bool := match pc with WFbWaitE _ | WFbParkedE _ false => true | _ => false end.

Definition is_hcnotify (pc : iopc) : bool := match pc with IoHcNotify _ => true | _ => false end.
Definition k_set (pc : iopc) : bool :=
  match pc with
  | IoFlush | IoSubL _ | IoNotify | IoRelX | IoHwExn | IoHcAcq _ | IoHcTot _ => true
  | _ => false
  end.
Definition k_hw (pc : iopc) : bool :=
  match pc with IoHw3 | IoHw4 | IoHw5 | IoHw6 | IoHw7 => true | _ => false end.
Definition io_j1 (pc : iopc) : bool := match pc with IoWr2 _ | IoWr3 _ | IoSel _ false => true | _ => false end.
Definition io_j2 (pc : iopc) : bool := match pc with IoWr3 _ | IoSel _ false => true | _ => false end.

Definition L4 (p : params) (s : state) : Prop :=
  (w_infb (wk s) = true -> closed_bufs s = false)
  /\ (pull_or_wait (wk s) = true -> hw p < total s)
  /\ (e_wait (wk s) = true -> will_close s = true)
  /\ (w_parked s = true -> connected s = false -> is_hcnotify (io s) = true)
  /\ (parked_loop (wk s) = true -> closed_bufs s = false -> total s <= hw p ->
      k_set (io s) = true \/ (k_hw (io s) = true /\ will_close s = true))
  /\ (io_j1 (io s) = true -> loop_waiting (wk s) = true -> pulled s = true)
  /\ (io_j2 (io s) = true -> e_waiting (wk s) = true -> pulled s = true).

Lemma L4_init p : L4 p init.
Proof. unfold L4, init, w_parked; cbn. repeat split; intros; try discriminate; try reflexivity. Qed.

Lemma infb_holds pc : w_infb pc = true -> w_holds pc = true.
Proof. destruct pc; cbn; try congruence; destruct c; cbn; congruence. Qed.

Ltac dw := match goal with w : wpc |- _ => destruct w; cbn in *; try absurd_hyp; try discriminate end.
Ltac disj := repeat match goal with H : _ \/ _ |- _ => destruct H end.
Ltac arith_spec := repeat match goal with H : ?A -> _ |- _ =>
  match A with (_ < _) => idtac | (_ <= _) => idtac end;
  let HA := fresh in assert (HA : A) by zl; specialize (H HA) end.
Ltac core4 := spec; arith_spec; disj; conj; try assumption; try absurd_hyp; try exact I; try reflexivity; try zl; try hcc;
  try (left; reflexivity); try (right; split; [reflexivity | assumption]); try (exfalso; zl);
  try (match goal with H1 : ?x = true, H2 : ?x = false |- _ => rewrite H1 in H2; discriminate H2 end).
Ltac bsplit := match goal with H : ?b = _ -> _ |- _ => is_var b; destruct b end.
Ltac nb := repeat match goal with H : negb _ = false |- _ => apply negb_false_iff in H end.
Ltac fin4 := nb; dk; unfold L4, w_parked; unf; cbn; gifs; cbn; repeat split; try assumption; intros;
  spec; conj; try assumption; try absurd_hyp; try exact I;
  b2p; subst; cbn in *; rewrite ?orb_true_r in *; b2p; core4;
  try (disj; conj; core4);
  try (bsplit; core4; try (bsplit; core4));
  try (dw; core4; try (disj; conj; core4); try (bsplit; core4; try (bsplit; core4))).

Section Step.
  Variable p : params.
  Hypothesis Hhw : 0 <= hw p.
  Hypothesis Hf1 : fx_notify_le p = true.
  Hypothesis Hf2 : fx_drain p = true.
  Hypothesis Hf3 : fx_recheck p = true.

  Lemma L4_step_io s r res s' l :
    Lall p s -> L4 p s -> step_io p s r res = Some (s', l) -> L4 p s'.
  Proof.
    intros (H0 & H1 & H2 & H3) H E. ds s.
    unfold L4, w_parked in H. unfold L0 in H0. unfold L1 in H1. unfold L2 in H2. unfold L3 in H3. cbn in H, H0, H1, H2, H3.
    destruct H0 as (Ho & Hc & Hx & _).
    destruct H1 as (Ha & Hq & _ & _ & Hl & _).
    destruct H2 as (F1 & F2 & F3 & F4 & F5 & F6 & F7 & F8 & F9).
    destruct H3 as (A1 & A3 & A4 & _ & _ & A7 & _).
    destruct H as (N & P & W & M & K & J1 & J2).
    unfold step_io in E. cbn [ChanFlow.io] in E.
    destruct io0; cbn in A1, A4, A7, F2, F3, F7, F8, Ho, Hc, Hx, M, K, J1, J2.
    all: cbn in E; unf; cbn in E; rewrite ?Hf1, ?Hf2, ?Hf3 in E; cbn in E.
    all: split_ifs E; try discriminate; try inv_some.
    all: fin4.
  Qed.

  Lemma L4_step_w s r s' l :
    Lall p s -> L4 p s -> step_w p s r = Some (s', l) -> L4 p s'.
  Proof.
    intros (H0 & H1 & H2 & H3) H E. ds s.
    unfold L4, w_parked in H. unfold L0 in H0. unfold L1 in H1. unfold L2 in H2. unfold L3 in H3. cbn in H, H0, H1, H2, H3.
    destruct H0 as (Ho & Hc & Hx & _ & Hwok).
    destruct H1 as (Ha & Hq & _ & _ & Hl & _).
    destruct H2 as (F1 & F2 & F3 & F4 & F5 & F6 & F7 & F8 & F9).
    destruct H3 as (A1 & A3 & A4 & _ & _ & A7 & _).
    destruct H as (N & P & W & M & K & J1 & J2).
    all: unfold step_w in E; cbn [ChanFlow.wk] in E.
    all: destruct wk0; cbn in A1, F6, F9, Ho, Hc, Hx, Hwok, Ha, Hq, N, P, W, M, K, J1, J2.
    all: cbn in E; unf; cbn in E; rewrite ?Hf1, ?Hf2, ?Hf3 in E; cbn in E.
    all: split_ifs E; try discriminate; try inv_some.
    all: fin4.
  Qed.

  Lemma L4_step s c s' l : Lall p s -> L4 p s -> step p s c = Some (s', l) -> L4 p s'.
  Proof.
    destruct c as [r res|r|n|a]; cbn [step].
    - apply L4_step_io.
    - apply L4_step_w.
    - intros _ H E. ds s. unfold step_tail in E. destruct n as [|[|[|[|[|[|n]]]]]]; cbn in E; try discriminate.
      all: split_ifs E; try discriminate; inv_some; unfold L4, w_parked in *; cbn in *;
        destruct H as (N & P & W & M & K & J1 & J2); repeat split; auto.
    - intros _ H E. ds s. destruct a; cbn in E; split_ifs E; try discriminate; inv_some; exact H.
  Qed.

  Theorem L4_run sched : Lall p (run p sched) /\ L4 p (run p sched).
  Proof.
    unfold run. apply (invariant_rule _ _ _ (step p) (fun s => Lall p s /\ L4 p s)).
    - split. 2: apply L4_init.
      split; [|split; [|split]]. apply L0_init. apply L1_init. apply L2_init. apply L3_init; assumption.
    - intros s c s' l [A B] E. split. eapply Lall_step; eauto. eapply L4_step; eauto.
  Qed.
End Step.

(* ---- C12_release ----------------------------------------------------------- *)

Lemma parked_cases pc : (match pc with WFbParked _ false | WFbParkedE _ false => true | _ => false end) = true ->
  loop_waiting pc = true \/ e_waiting pc = true.
Proof. destruct pc; cbn; try discriminate; destruct nt; cbn; auto; discriminate. Qed.

Lemma parked_cases2 pc : (match pc with WFbParked _ false | WFbParkedE _ false => true | _ => false end) = true ->
  parked_loop pc = true \/ e_wait pc = true.
Proof. destruct pc; cbn; try discriminate; destruct nt; cbn; auto; discriminate. Qed.

Theorem release_blocked p sched : 0 <= hw p -> fixed p ->
  let s := run p sched in
  io_blocked s = true -> client_reads s = true -> w_parked s = true -> False.
Proof.
  intros Hhw (Hf1 & Hf2 & Hf3) s B C Pk.
  destruct (L4_run p Hhw Hf1 Hf2 Hf3 sched) as [_ L]. fold s in L.
  destruct L as (_ & _ & _ & _ & _ & J1 & J2).
  unfold io_blocked, client_reads, w_parked, rdy_w in *.
  destruct (io s) eqn:Eio; try discriminate.
  apply andb_true_iff in C. destruct C as [C1 C2]. apply negb_true_iff in C2.
  apply negb_true_iff in B. apply orb_false_iff in B. destruct B as [B1 B2].
  apply orb_false_iff in B1. destruct B1 as [Ep _].
  rewrite C1 in B2. cbn in B2. rewrite andb_true_r in B2. subst w.
  destruct (parked_cases _ Pk) as [Q|Q].
  - specialize (J1 eq_refl Q). congruence.
  - specialize (J2 eq_refl Q). congruence.
Qed.

Theorem release_idle p sched : 0 <= hw p -> fixed p ->
  let s := run p sched in
  io_idle p s = true -> client_reads s = true -> w_parked s = true -> False.
Proof.
  intros Hhw Hfx s B C Pk.
  unfold io_idle in B. apply orb_true_iff in B. destruct B as [B|B].
  - eapply release_blocked; eauto.
  - destruct Hfx as (Hf1 & Hf2 & Hf3).
    destruct (L4_run p Hhw Hf1 Hf2 Hf3 sched) as [(_ & _ & F & _) L]. fold s in L, F.
    destruct L as (_ & _ & W & _ & K & _ & _).
    destruct F as (_ & _ & _ & _ & _ & F6 & _).
    unfold io_spinning, w_parked in *. rewrite Hf2 in B. cbn in B.
    destruct (io s) eqn:Eio; try discriminate. destruct r; try discriminate. destruct w; try discriminate.
    repeat (apply andb_true_iff in B; destruct B as [B ?]).
    b2p.
    destruct (parked_cases2 _ Pk) as [Q|Q].
    + destruct (closed_bufs s) eqn:Ec.
      * destruct (F6 eq_refl) as [T _]. lia.
      * match goal with T : total s <= hw p |- _ => destruct (K Q eq_refl T) as [X|[X _]]; cbn in X; discriminate end.
    + specialize (W Q). congruence.
Qed.

(* ---- C12_abort ------------------------------------------------------------------ *)

Theorem abort_notified p sched : 0 <= hw p -> fixed p ->
  let s := run p sched in
  w_parked s = true -> connected s = false -> is_hcnotify (io s) = true.
Proof.
  intros H0 (Hf1 & Hf2 & Hf3) s Pk C. destruct (L4_run p H0 Hf1 Hf2 Hf3 sched) as [_ L]. fold s in L.
  destruct L as (_ & _ & _ & M & _). auto.
Qed.

(* the step that follows the notify: write_soon raises ClientDisconnected, the
   lock is released and service() takes its close branch *)
Theorem abort_raises p s r s' l :
  connected s = false ->
  (wk s = WFbParked FW true \/ wk s = WFbParkedE FW true) ->
  wq s <> [] ->
  step_w p s r = Some (s', l) ->
  wk s' = WRelRaise /\ wq s' = wq s /\ pending s' = pending s /\ total s' = total s.
Proof.
  intros C [Q|Q] Hq E; ds s; cbn in *; subst; unfold step_w in E; cbn in E;
    destruct olock0; try discriminate; unf; cbn in E;
    destruct wq0; try congruence; inv_some; cbn; auto.
Qed.

Theorem raise_step p s r s' l :
  wk s = WRelRaise -> step_w p s r = Some (s', l) ->
  wk s' = WCloseAcq /\ In LRaise l /\ olock s' = None.
Proof.
  intros Q E; ds s; cbn in *; subst; unfold step_w in E; cbn in E; unf; cbn in E; inv_some; cbn; auto.
Qed.
