(* C16 extension, part 4: every well-formed header set (Spec.wf_headers: the
   grammar of X-Forwarded-For / -Host lists, proto tokens, port numerals and
   forwarded-elements) has no refusal reason, hence is accepted. *)
From Coq Require Import String.
From Coq Require Import List NArith ZArith Bool Lia ZifyBool.
From WV Require Import Lib.PyBytes Lib.PyStrProxy Lib.Regex Gen.GenRegex Spec.Grammar Model.Proxy
  Spec.ProxySpec Proof.ProxyDict Proof.ProxyStr Proof.ProxyStages Proof.ProxyTotal Proof.ProxyHops
  Proof.ProxyCats Proof.ProxyConverse1 Proof.ProxyConverse2 Proof.ProxyConverse3.
Import ListNotations.
Local Open Scope N_scope.

Definition safe (s : str) : bool := forallb is_node_char s.

(* ---- character facts ------------------------------------------------------------------------------ *)
Lemma node_not_ws x : is_node_char x = true -> is_str_ws x = false.
Proof. unfold is_node_char, is_alnum, is_str_ws. intro H. destruct (_ || _) eqn:E in |- *; [exfalso; lia|reflexivity]. Qed.

Lemma node_qdtext x : is_node_char x = true -> in_ranges x [(9,9); (32,32); (33,33); (35,91); (93,126); (128,255)] = true.
Proof. unfold is_node_char, is_alnum. cbn [in_ranges]. intro H. lia. Qed.

Lemma node_not x c : is_node_char c = false -> is_node_char x = true -> (c =? x) = false.
Proof. intros Hc Hx. destruct (c =? x) eqn:E; [|reflexivity]. apply N.eqb_eq in E. subst. congruence. Qed.

Lemma safe_memb c s : is_node_char c = false -> safe s = true -> memb c s = false.
Proof.
  intros Hc. induction s as [|x s IH]; [reflexivity|]. cbn [safe forallb]. intro H. apply andb_true_iff in H as [Hx Hs].
  rewrite memb_cons, (node_not x c Hc Hx). apply IH. exact Hs.
Qed.

Lemma safe_in s x : safe s = true -> In x s -> is_node_char x = true.
Proof. unfold safe. rewrite forallb_forall. auto. Qed.

(* ---- strip ------------------------------------------------------------------------------------------- *)
Lemma last_opt_snoc_inv s l : last_opt s = Some l -> s = removelast s ++ [l].
Proof.
  induction s as [|x s IH]; [discriminate|]. destruct s as [|y s].
  - cbn. intro H. injection H as ->. reflexivity.
  - intro H. change (last_opt (x :: y :: s)) with (last_opt (y :: s)) in H.
    change (removelast (x :: y :: s)) with (x :: removelast (y :: s)). cbn [app]. f_equal. apply IH. exact H.
Qed.

Lemma last_opt_in s l : last_opt s = Some l -> In l s.
Proof. intro H. rewrite (last_opt_snoc_inv s l H). apply in_or_app. right. left. reflexivity. Qed.

Lemma strip_ends f s :
  (forall x, first_opt s = Some x -> f x = false) -> (forall l, last_opt s = Some l -> f l = false) ->
  strip_by f s = s.
Proof.
  intros Hf Hl. destruct s as [|x t]; [reflexivity|].
  unfold strip_by. assert (L : lstrip_by f (x :: t) = x :: t) by (cbn; rewrite (Hf x eq_refl); reflexivity).
  rewrite L. unfold rstrip_by.
  destruct (last_opt_truthy (x :: t) eq_refl) as [l Hlast].
  pose proof (last_opt_snoc_inv _ _ Hlast) as E.
  assert (R : rev (x :: t) = l :: rev (removelast (x :: t))).
  { rewrite E at 1. rewrite rev_app_distr. reflexivity. }
  rewrite R. cbn [lstrip_by]. rewrite (Hl l Hlast). rewrite <- R. apply rev_involutive.
Qed.

Lemma safe_strip s : safe s = true -> strip s = s.
Proof.
  intro H. apply strip_ends.
  - intros x Hx. apply node_not_ws. apply (safe_in s x H). destruct s; [discriminate|]. injection Hx as ->. left. reflexivity.
  - intros l Hl. apply node_not_ws. apply (safe_in s l H). apply last_opt_in. exact Hl.
Qed.

Lemma lstrip_keeps f l y : In y l -> f y = false -> lstrip_by f l <> [].
Proof.
  induction l as [|x l IH]; [intros []|]. intros [->|Hin] Hy; cbn.
  - rewrite Hy. discriminate.
  - destruct (f x); [apply IH; assumption|discriminate].
Qed.

Lemma strip_nonempty f x a : f x = false -> strip_by f (x :: a) <> [].
Proof.
  intro Hx. unfold strip_by. cbn [lstrip_by]. rewrite Hx. unfold rstrip_by. intro H.
  apply (f_equal (@rev N)) in H. rewrite rev_involutive in H. cbn [rev] in H.
  revert H. apply (lstrip_keeps f _ x); [|exact Hx]. apply in_or_app. right. left. reflexivity.
Qed.

(* ---- quoting ------------------------------------------------------------------------------------------ *)
Lemma safe_not_dq s : safe s = true -> starts_dq s = false /\ ends_dq s = false.
Proof.
  intro H. split.
  - unfold starts_dq. destruct s as [|x t]; [reflexivity|].
    assert (Hx : is_node_char x = true) by (apply (safe_in _ x H); left; reflexivity).
    rewrite N.eqb_sym. apply (node_not x dq); [reflexivity|exact Hx].
  - unfold ends_dq. destruct (last_opt s) as [l|] eqn:E; [|reflexivity].
    rewrite N.eqb_sym. apply (node_not l dq); [reflexivity|]. apply (safe_in s l H). apply last_opt_in. exact E.
Qed.

Lemma safe_unq_text s : safe s = true -> unq_text s = s.
Proof.
  induction s as [|x s IH]; [reflexivity|]. cbn [safe forallb]. intro H. apply andb_true_iff in H as [Hx Hs].
  rewrite unq_text_text; [rewrite (IH Hs); reflexivity|].
  intro E. subst x. discriminate.
Qed.

Lemma safe_star s : safe s = true -> Lang (Star (Alt qdtext quoted_pair)) s.
Proof.
  induction s as [|x s IH]; intro H; [constructor|].
  cbn [safe forallb] in H. apply andb_true_iff in H as [Hx Hs].
  change (x :: s) with ([x] ++ s). apply LStarS; [|apply IH; exact Hs].
  apply LAltL. unfold qdtext. constructor. apply node_qdtext. exact Hx.
Qed.

Lemma safe_quoted body : safe body = true -> matches quoted_string (34 :: body ++ [34]) = true.
Proof.
  intro H. apply matches_correct. unfold quoted_string.
  change (34 :: body ++ [34]) with ([34] ++ (body ++ [34])).
  apply LCat; [apply Lang_Sym; reflexivity|]. apply LCat; [apply safe_star; exact H|apply Lang_Sym; reflexivity].
Qed.

Lemma quoted_shape v : starts_dq v = true -> ends_dq v = true -> (2 <=? N.of_nat (List.length v)) = true ->
  v = 34 :: mid v ++ [34].
Proof.
  unfold starts_dq, ends_dq, mid. destruct v as [|x t]; [discriminate|]. intros Hs He Hl.
  apply N.eqb_eq in Hs. subst x. cbn [tl]. f_equal.
  destruct t as [|y t]; [cbn in Hl; discriminate|].
  change (last_opt (dq :: y :: t)) with (last_opt (y :: t)) in He.
  destruct (last_opt (y :: t)) as [l|] eqn:E; [|discriminate]. apply N.eqb_eq in He. subst l.
  apply last_opt_snoc_inv. exact E.
Qed.

(* what a well-formed value gives, for any body grammar made of safe non-empty strings *)
Lemma wf_value_facts (body_ok : str -> bool) v :
  (forall s, body_ok s = true -> safe s = true) ->
  wf_value body_ok v = true ->
  bad_quoting v = false /\ body_ok (field_value v) = true /\ memb comma v = false /\ strip v = v.
Proof.
  intros Hb. unfold wf_value, field_value. destruct (starts_dq v) eqn:Es.
  - intro H. apply andb_true_iff in H as [H Hbody]. apply andb_true_iff in H as [He Hlen].
    pose proof (Hb _ Hbody) as Hsafe.
    pose proof (quoted_shape v Es He Hlen) as Ev.
    repeat split.
    + unfold bad_quoting. replace (matches quoted_string v) with true; [apply andb_false_r|].
      symmetry. rewrite Ev. apply safe_quoted. exact Hsafe.
    + rewrite (safe_unq_text _ Hsafe). exact Hbody.
    + rewrite Ev. rewrite memb_cons. change (comma =? 34) with false. cbn [orb].
      rewrite memb_app, (safe_memb comma _ eq_refl Hsafe). reflexivity.
    + apply strip_ends.
      * intros x Hx. rewrite Ev in Hx. injection Hx as <-. reflexivity.
      * intros l Hl. unfold ends_dq in He. rewrite Hl in He. apply N.eqb_eq in He. subst l. reflexivity.
  - intro Hbody. pose proof (Hb _ Hbody) as Hsafe. destruct (safe_not_dq v Hsafe) as [_ He].
    repeat split.
    + unfold bad_quoting. rewrite Es, He. reflexivity.
    + exact Hbody.
    + apply (safe_memb comma _ eq_refl Hsafe).
    + apply safe_strip. exact Hsafe.
Qed.

(* ---- the body grammars are safe ----------------------------------------------------------------------- *)
Lemma wf_node_safe s : wf_node s = true -> safe s = true.
Proof. unfold wf_node. destruct s; [discriminate|]. intro H. apply andb_true_iff in H as [_ H]. exact H. Qed.

Lemma digits_safe s : is_port_numeral s = true -> safe s = true.
Proof.
  unfold is_port_numeral. destruct s as [|x t]; [discriminate|]. generalize (x :: t). intro l.
  unfold safe. rewrite !forallb_forall. intros H y Hy. specialize (H y Hy).
  unfold is_digit in H. unfold is_node_char, is_alnum. lia.
Qed.

Lemma lower_alpha c : ((97 <=? lower_latin1_c c) && (lower_latin1_c c <=? 122)) = true -> is_node_char c = true.
Proof.
  unfold lower_latin1_c, is_node_char, is_alnum.
  destruct ((65 <=? c) && (c <=? 90)) eqn:E1; [intro; lia|].
  destruct ((192 <=? c) && (c <=? 222) && negb (c =? 215)) eqn:E2; intro; lia.
Qed.

Lemma forallb_map {A B} (P : B -> bool) (f : A -> B) l : forallb P (map f l) = forallb (fun x => P (f x)) l.
Proof. induction l as [|x l IH]; [reflexivity|]. cbn. rewrite IH. reflexivity. Qed.

Lemma scheme_safe s : is_scheme s = true -> safe s = true.
Proof.
  unfold is_scheme. intro H.
  assert (Ha : forallb (fun c => (97 <=? c) && (c <=? 122)) (lower_latin1 s) = true).
  { apply orb_true_iff in H as [H|H]; apply beqb_eq in H; rewrite H; reflexivity. }
  unfold lower_latin1 in Ha. rewrite forallb_map in Ha. unfold safe.
  rewrite forallb_forall in *. intros x Hx. apply lower_alpha. apply Ha. exact Hx.
Qed.

Lemma token_safe s : wf_token s = true -> safe s = true.
Proof.
  unfold wf_token. destruct s as [|x t]; [discriminate|]. generalize (x :: t). intro l.
  unfold safe. rewrite !forallb_forall. intros H y Hy. specialize (H y Hy).
  unfold is_tchar in H. unfold is_node_char. lia.
Qed.

(* ---- a node is a usable client address / host ---------------------------------------------------------- *)
Lemma wf_node_addr v : wf_node v = true -> truthy (addr_text v) = true.
Proof.
  intro H. pose proof (wf_node_safe v H) as Hs. unfold wf_node in H. destruct v as [|x t]; [discriminate|].
  apply andb_true_iff in H as [Hx _]. apply negb_true_iff in Hx.
  assert (Hxn : is_str_ws x = false) by (apply node_not_ws; apply (safe_in _ x Hs); left; reflexivity).
  unfold addr_text. destruct (has_port (x :: t)) eqn:Ep.
  - unfold before_last. cbn [split_last]. destruct (split_last colon t) as [[a b]|] eqn:E.
    + apply truthy_true. apply strip_nonempty. exact Hxn.
    + change colon with 58 in *. rewrite Hx. apply truthy_true. apply strip_nonempty. exact Hxn.
  - apply truthy_true. apply strip_nonempty. exact Hxn.
Qed.

Lemma wf_node_client v : wf_node v = true -> bad_client v = false.
Proof. intro H. unfold bad_client. rewrite (wf_node_addr v H). apply andb_false_r. Qed.

Lemma wf_node_host v : wf_node v = true -> empty_host v = false.
Proof. intro H. pose proof (wf_node_addr v H) as Ha. unfold empty_host. unfold addr_text in Ha. unfold host_text. rewrite Ha. apply andb_false_r. Qed.

Lemma last_opt_app' s x : last_opt (s ++ [x]) = Some x.
Proof. apply last_opt_app. Qed.

Lemma bracketed_client v : bad_client (lbr :: v ++ [rbr]) = false.
Proof.
  unfold bad_client, addr_text, has_port, ends_with_char.
  change (lbr :: v ++ [rbr]) with ((lbr :: v) ++ [rbr]). rewrite last_opt_app. rewrite N.eqb_refl. rewrite andb_false_r.
  cbn [app]. assert (H : strip (lbr :: v ++ [rbr]) <> []) by (apply strip_nonempty; reflexivity).
  apply truthy_true in H. rewrite H. reflexivity.
Qed.

(* ---- the good selected values --------------------------------------------------------------------------- *)
Definition good_node (v : str) : Prop := v = [] \/ wf_node v = true.
Definition good_scheme (v : str) : Prop := v = [] \/ is_scheme v = true.

Lemma good_node_client v : good_node v -> bad_client v = false.
Proof. intros [->|H]; [reflexivity|apply wf_node_client; exact H]. Qed.
Lemma good_node_host v : good_node v -> empty_host v = false.
Proof. intros [->|H]; [reflexivity|apply wf_node_host; exact H]. Qed.
Lemma good_scheme_ok v : good_scheme v -> cat_scheme v = false.
Proof.
  intros [->|H]; [reflexivity|]. unfold cat_scheme. unfold is_scheme in H. rewrite H. apply andb_false_r.
Qed.

Lemma first_nonempty_good (P : str -> Prop) l : P [] -> (forall x, In x l -> P x) -> P (first_nonempty l).
Proof.
  intros H0 H. destruct (first_nonempty l) eqn:E; [exact H0|]. rewrite <- E. apply H. apply first_nonempty_in. congruence.
Qed.

Lemma picked_cases raw k : picked raw k = [] \/ In (picked raw k) (elements raw).
Proof.
  unfold picked, pick. destruct (nth_error _ _) eqn:E; [right; eapply nth_error_In; eauto|left; reflexivity].
Qed.

Lemma suffix_incl {A} (l : list A) k x : In x (suffix l k) -> In x l.
Proof. destruct (suffix_suffix_of l k) as [pre E]. intro H. rewrite E. apply in_or_app. right. exact H. Qed.

(* ---- lists ------------------------------------------------------------------------------------------------ *)
Lemma wf_list_quoting raw : wf_list raw = true -> cat_list_quoting raw = false.
Proof.
  unfold wf_list, cat_list_quoting, elements. rewrite forallb_forall. intro H.
  destruct (existsb _ _) eqn:E; [|reflexivity]. apply existsb_exists in E as (h & Hin & Hb).
  destruct (wf_value_facts wf_node (strip h) wf_node_safe (H h Hin)) as (Hq & _). congruence.
Qed.

Lemma wf_list_host raw k : wf_list raw = true -> good_node (field_value (strip (picked raw k))).
Proof.
  intro H. destruct (picked_cases raw k) as [->|Hin]; [left; reflexivity|].
  unfold wf_list in H. rewrite forallb_forall in H. right.
  apply (wf_value_facts wf_node _ wf_node_safe (H _ Hin)).
Qed.

Lemma wf_list_client raw k : wf_list raw = true -> bad_client (xff_address (picked raw k)) = false.
Proof.
  intro H. unfold xff_address. cbv zeta. pose proof (wf_list_host raw k H) as G.
  destruct (negb (memb dot _) && memb colon _ && negb (ends_with_char rbr _)).
  - apply bracketed_client.
  - apply good_node_client. exact G.
Qed.

(* ---- single values ------------------------------------------------------------------------------------------ *)
Lemma wf_proto_facts v : wf_proto v = true ->
  cat_single_quoting v = false /\ cat_several_values v = false /\ good_scheme (field_value v).
Proof.
  unfold wf_proto. destruct v as [|x t]; [intros _; repeat split; left; reflexivity|]. intro H.
  destruct (wf_value_facts is_scheme _ scheme_safe H) as (A & B & C & _). repeat split; auto. right. exact B.
Qed.

Lemma wf_port_facts v : wf_port v = true -> cat_single_quoting v = false /\ cat_several_values v = false.
Proof.
  unfold wf_port. destruct v as [|x t]; [intros _; split; reflexivity|]. intro H.
  destruct (wf_value_facts is_port_numeral _ digits_safe H) as (A & _ & C & _). split; auto.
Qed.

(* ---- Forwarded ------------------------------------------------------------------------------------------------- *)
Lemma wf_pair_good q : wf_pair q = true -> pair_bad q = false.
Proof.
  unfold wf_pair. destruct q as [|x t]; [reflexivity|]. set (q := x :: t). intro H.
  apply andb_true_iff in H as [H Hv]. apply andb_true_iff in H as [Hm Ht].
  pose proof (token_safe _ Ht) as Hts.
  assert (V : bad_quoting (pair_value q) = false /\ strip (pair_value q) = pair_value q).
  { destruct (beqb (pair_token q) t_proto).
    - destruct (wf_value_facts is_scheme _ scheme_safe Hv) as (A & _ & _ & D). auto.
    - destruct (wf_value_facts wf_node _ wf_node_safe Hv) as (A & _ & _ & D). auto. }
  destruct V as [Vq Vs].
  unfold pair_bad, cat_pair_no_eq, cat_pair_padded, cat_pair_quoting.
  rewrite Hm, (safe_strip _ Hts), Vs, !beqb_refl, Vq. cbn. rewrite andb_false_r. reflexivity.
Qed.

Lemma wf_forwarded_good raw : wf_forwarded raw = true -> forwarded_reason raw = None.
Proof.
  intro H. pose proof (forwarded_reason_bad raw) as Hb.
  assert (Hc : cat_forwarded raw = false).
  { unfold cat_forwarded. destruct (existsb _ _) eqn:E; [|reflexivity].
    apply existsb_exists in E as (el & Hin & He). unfold element_bad in He.
    apply existsb_exists in He as (p & Hp & Hq).
    unfold wf_forwarded, elements in H. rewrite forallb_forall in H. specialize (H el Hin).
    unfold wf_element in H. rewrite forallb_forall in H. rewrite (wf_pair_good _ (H p Hp)) in Hq. discriminate. }
  rewrite Hc in Hb. destruct (forwarded_reason raw); [discriminate|reflexivity].
Qed.

Lemma fold_inv {A B} (P : A -> Prop) (f : A -> B -> A) l a :
  P a -> (forall a x, In x l -> P a -> P (f a x)) -> P (fold_left f l a).
Proof.
  revert a. induction l as [|x l IH]; intros a Ha Hf; [exact Ha|].
  cbn [fold_left]. apply IH; [apply Hf; [left; reflexivity|exact Ha]|]. intros a' y Hy. apply Hf. right. exact Hy.
Qed.

Lemma wf_field name el (P : str -> Prop) :
  wf_element el = true -> P [] ->
  (forall q, wf_pair q = true -> memb eqc q = true -> beqb (pair_token q) name = true -> P (field_value (pair_value q))) ->
  P (fwd_field name el).
Proof.
  intros H H0 Hp. unfold fwd_field. apply fold_inv; [exact H0|].
  intros a p Hin Ha. cbv zeta. unfold wf_element in H. rewrite forallb_forall in H. specialize (H p Hin).
  destruct (memb eqc (lower_latin1 p) && beqb (pair_token (lower_latin1 p)) name) eqn:E; [|exact Ha].
  apply andb_true_iff in E as [E1 E2]. apply Hp; assumption.
Qed.

Lemma wf_pair_value q : wf_pair q = true -> memb eqc q = true ->
  if beqb (pair_token q) t_proto then is_scheme (field_value (pair_value q)) = true
  else wf_node (field_value (pair_value q)) = true.
Proof.
  unfold wf_pair. destruct q as [|x t]; [discriminate|]. set (q := x :: t). intros H _.
  apply andb_true_iff in H as [_ Hv].
  destruct (beqb (pair_token q) t_proto).
  - apply (wf_value_facts is_scheme _ scheme_safe Hv).
  - apply (wf_value_facts wf_node _ wf_node_safe Hv).
Qed.

Lemma wf_field_node name el : beqb name t_proto = false -> wf_element el = true -> good_node (fwd_field name el).
Proof.
  intros Hn H. apply wf_field; [exact H|left; reflexivity|].
  intros q Hq Hm Ht. pose proof (wf_pair_value q Hq Hm) as V. apply beqb_eq in Ht. rewrite Ht, Hn in V. right. exact V.
Qed.

Lemma wf_field_proto el : wf_element el = true -> good_scheme (fwd_field t_proto el).
Proof.
  intros H. apply wf_field; [exact H|left; reflexivity|].
  intros q Hq Hm Ht. pose proof (wf_pair_value q Hq Hm) as V. rewrite Ht in V. right. exact V.
Qed.

Lemma wf_oldest_node name raw k : beqb name t_proto = false -> wf_forwarded raw = true -> good_node (fwd_oldest name raw k).
Proof.
  intros Hn H. unfold fwd_oldest. apply first_nonempty_good; [left; reflexivity|].
  intros x Hx. apply in_map_iff in Hx as (el & <- & Hin). apply wf_field_node; [exact Hn|].
  unfold wf_forwarded in H. rewrite forallb_forall in H. apply H. eapply suffix_incl; eauto.
Qed.

Lemma wf_oldest_proto raw k : wf_forwarded raw = true -> good_scheme (fwd_oldest t_proto raw k).
Proof.
  intros H. unfold fwd_oldest. apply first_nonempty_good; [left; reflexivity|].
  intros x Hx. apply in_map_iff in Hx as (el & <- & Hin). apply wf_field_proto.
  unfold wf_forwarded in H. rewrite forallb_forall in H. apply H. eapply suffix_incl; eauto.
Qed.

(* ---- the theorem ---------------------------------------------------------------------------------------------- *)
Lemma xf_client_ok tph k e :
  (negb (trusts tph nm_xff) || match lookup hk_xff e with Some raw => wf_list raw | None => true end) = true ->
  bad_client (xf_client tph k e) = false.
Proof.
  unfold xf_client. destruct (trusts tph nm_xff); [|reflexivity]. cbn [negb orb].
  destruct (lookup hk_xff e); [|reflexivity]. apply wf_list_client.
Qed.

Theorem wellformed_no_reason tph k e : wf_headers tph e = true -> refusal_reason tph k e = None.
Proof.
  unfold wf_headers. intro H.
  apply andb_true_iff in H as [H W5]. apply andb_true_iff in H as [H W4].
  apply andb_true_iff in H as [H W3]. apply andb_true_iff in H as [W1 W2].
  unfold refusal_reason. apply orelse_none. split.
  - unfold syntax_reason. repeat (apply orelse_none; split).
    + unfold list_reason. destruct (trusts tph nm_xff); [|reflexivity]. cbn [negb orb] in W1.
      destruct (lookup hk_xff e); [|reflexivity]. rewrite (wf_list_quoting _ W1). reflexivity.
    + unfold list_reason. destruct (trusts tph nm_xfh); [|reflexivity]. cbn [negb orb] in W2.
      destruct (lookup hk_xfh e); [|reflexivity]. rewrite (wf_list_quoting _ W2). reflexivity.
    + unfold single_reason. destruct (trusts tph nm_xfproto); [|reflexivity]. cbn [negb orb] in W3.
      destruct (wf_proto_facts _ W3) as (-> & -> & _). reflexivity.
    + unfold single_reason. destruct (trusts tph nm_xfport); [|reflexivity]. cbn [negb orb] in W4.
      destruct (wf_port_facts _ W4) as (-> & ->). reflexivity.
    + destruct (fwd_active tph e); [|reflexivity]. cbn [negb orb] in W5. apply wf_forwarded_good. exact W5.
  - unfold selection_reason, select. destruct (fwd_active tph e).
    + cbn [negb orb] in W5. cbn [sel_proto sel_host sel_client].
      rewrite (good_scheme_ok _ (wf_oldest_proto _ k W5)).
      rewrite (good_node_host _ (wf_oldest_node t_host _ k eq_refl W5)).
      pose proof (wf_oldest_node t_for _ k eq_refl W5) as G.
      destruct (fwd_oldest t_for (hdr hk_fwd e) k) eqn:E.
      * rewrite (xf_client_ok tph k e W1). reflexivity.
      * rewrite (good_node_client _ G). reflexivity.
    + cbn [sel_proto sel_host sel_client].
      assert (S1 : cat_scheme (xf_single nm_xfproto hk_xfproto tph e) = false).
      { unfold xf_single. destruct (trusts tph nm_xfproto); [|reflexivity]. cbn [negb orb] in W3.
        apply good_scheme_ok. apply (wf_proto_facts _ W3). }
      assert (S2 : empty_host (xf_host tph k e) = false).
      { unfold xf_host. destruct (trusts tph nm_xfh); [|reflexivity]. cbn [negb orb] in W2.
        destruct (lookup hk_xfh e); [|reflexivity]. apply good_node_host. apply wf_list_host. exact W2. }
      rewrite S1, S2, (xf_client_ok tph k e W1). reflexivity.
Qed.

Theorem wellformed_accepted c e p :
  on_trusted_path c e = true -> has_key k_url_scheme e -> trusted_proxy_count c = Zpos p ->
  wf_headers (tph_of c) e = true ->
  exists o, middleware c e = Ok o /\
            forall key, lookup key o = spec_out (tph_of c) (Pos.to_nat p) (clear_untrusted c) e key.
Proof.
  intros Hp Hk Hc Hw. pose proof (trusted_exact c e p Hp Hk Hc) as T.
  rewrite (wellformed_no_reason _ _ _ Hw) in T. exact T.
Qed.

Example wellformed_nonvacuous :
  wf_headers [n_fwd] (ex_env [(k_fwd, s2l "For=""[2001:db8::1]:4711"";Host=example.com:8443;proto=HTTPS, for=_hidden;by=10.0.0.9"%string)]) = true /\
  wf_headers [n_xff; n_xfh; n_xfproto; n_xfport]
    (ex_env [(k_xff, s2l "203.0.113.9, ""[2001:db8::7]:99"" ,	10.0.0.2"%string); (k_xfh, s2l "example.com:8443"%string);
             (k_xfproto, s2l """https"""%string); (k_xfport, s2l "8443"%string)]) = true /\
  wf_headers [n_fwd] (ex_env [(k_fwd, s2l "for=:80"%string)]) = false.
Proof. repeat split; vm_compute; reflexivity. Qed.
