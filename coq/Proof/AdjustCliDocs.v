(* C20, documentation: every default that docs/arguments.rst, runner.HELP and
   docs/runner.rst state (Gen/GenAdjust.v docs_defaults / help_defaults /
   runner_rst_defaults, regenerated on every run) against the EFFECTIVE default:
   the attribute value of Adjustments() constructed without arguments, as the
   model computes it (class default, or what __init__ derives: trusted_proxy_count
   1).  A documented literal other than None / True / False / [] is read the way
   a user would pass it: through the cast of its parameter ('600' is 0o600).
   And the header kinds the three documents name against the implemented set. *)
From Coq Require Import List NArith ZArith Bool.
From WV Require Import Lib.PyBytes Gen.GenAdjust Model.Adjust Proof.AdjustSpec Proof.AdjustChecks.
Import ListNotations.
Local Open Scope N_scope.

Definition setting_of_dval (d : dval) : setting :=
  match d with
  | DNone => SNone | DBool b => SBool b | DInt z => SInt z | DStr s => SStr s
  | DEmptyList => SSocks [] | DEmptySet => SSet [] | DHostPort => SList []
  end.

Definition effective_default (e : env) (name : str) : option setting :=
  match construct e [] with
  | Exn _ => None
  | Ok a => match dict_get name a with
            | Some s => Some s
            | None => option_map setting_of_dval (dict_get name class_defaults)
            end
  end.

Definition setting_eqb (a b : setting) : bool :=
  match a, b with
  | SNone, SNone => true
  | SBool x, SBool y => Bool.eqb x y
  | SInt x, SInt y => Z.eqb x y
  | SStr x, SStr y => beqb x y
  | SSocks [], SSocks [] => true
  | _, _ => false
  end.

Definition doc_agrees (c : cast) (doc : dval) (eff : setting) : bool :=
  match doc with
  | DNone => setting_eqb eff SNone
  | DBool b => setting_eqb eff (SBool b)
  | DEmptyList => setting_eqb eff (SSocks [])
  | DStr text => match cast_value c (VStr text) with Ok s => setting_eqb s eff | Exn _ => false end
  | _ => false
  end.

Definition doc_row_ok (e : env) (row : str * dval) : bool :=
  match castof (fst row), effective_default e (fst row) with
  | Some c, Some eff => doc_agrees c (snd row) eff
  | _, _ => false
  end.

(* regression witness: until /repo fix fd812c0 runner.HELP said `--send-bytes ... Default is 18000` *)
Definition s_send_bytes : str := [115;101;110;100;95;98;121;116;101;115].
Definition old_help_send_bytes_row : str * dval := (s_send_bytes, DStr [49;56;48;48;48]).

Definition envs : list env :=
  [ {| has_ipv6 := true; has_af_unix := true |}; {| has_ipv6 := true; has_af_unix := false |};
    {| has_ipv6 := false; has_af_unix := true |}; {| has_ipv6 := false; has_af_unix := false |} ].
Lemma envs_all : forall e, In e envs.
Proof. intros [[|] [|]]; cbn; auto. Qed.

Lemma docs_defaults_bool :
  forallb (fun e => forallb (doc_row_ok e) docs_defaults && forallb (doc_row_ok e) runner_rst_defaults
                    && forallb (doc_row_ok e) help_defaults) envs = true.
Proof. vm_compute. reflexivity. Qed.

(* every stated default of all three documents, no exception *)
Theorem docs_defaults_ok : forall e,
  (forall r, In r docs_defaults -> doc_row_ok e r = true)
  /\ (forall r, In r runner_rst_defaults -> doc_row_ok e r = true)
  /\ (forall r, In r help_defaults -> doc_row_ok e r = true).
Proof.
  intro e. pose proof (proj1 (forallb_forall _ _) docs_defaults_bool e (envs_all e)) as K. cbv beta in K.
  apply andb_true_iff in K as [K K3]. apply andb_true_iff in K as [K1 K2].
  repeat split; intros r H.
  - exact (proj1 (forallb_forall _ _) K1 r H).
  - exact (proj1 (forallb_forall _ _) K2 r H).
  - exact (proj1 (forallb_forall _ _) K3 r H).
Qed.

(* 18000 is not the default of send_bytes (it is 1), on any platform: a document that says so
   again makes docs_defaults_ok false *)
Lemma old_help_send_bytes_bool : forallb (fun e => negb (doc_row_ok e old_help_send_bytes_row)) envs = true.
Proof. vm_compute. reflexivity. Qed.

Theorem old_help_send_bytes_refuted : forall e, doc_row_ok e old_help_send_bytes_row = false.
Proof.
  intro e. pose proof (proj1 (forallb_forall _ _) old_help_send_bytes_bool e (envs_all e)) as K. cbv beta in K.
  apply negb_true_iff in K. exact K.
Qed.

(* hence the old row is in none of the three tables *)
Theorem old_help_send_bytes_absent :
  ~ In old_help_send_bytes_row docs_defaults /\ ~ In old_help_send_bytes_row runner_rst_defaults
  /\ ~ In old_help_send_bytes_row help_defaults.
Proof.
  pose (e := {| has_ipv6 := true; has_af_unix := true |}).
  destruct (docs_defaults_ok e) as [H1 [H2 H3]]. pose proof (old_help_send_bytes_refuted e) as R.
  repeat split; intro H; [apply H1 in H|apply H2 in H|apply H3 in H]; rewrite R in H; discriminate.
Qed.

(* how many rows the three documents give (so that the statements above are not vacuous) *)
Lemma docs_defaults_counted :
  (30 <=? N.of_nat (length docs_defaults)) && (25 <=? N.of_nat (length help_defaults))
  && (25 <=? N.of_nat (length runner_rst_defaults)) = true.
Proof. vm_compute. reflexivity. Qed.

(* ---- header kinds ---- *)
Definition same_set (a b : list str) : bool :=
  forallb (fun x => memstr x b) a && forallb (fun x => memstr x a) b.

Lemma header_kinds_bool :
  same_set known_proxy_headers spec_known_headers && same_set docs_proxy_headers spec_known_headers
  && same_set help_proxy_headers spec_known_headers && same_set runner_rst_proxy_headers spec_known_headers = true.
Proof. vm_compute. reflexivity. Qed.

Lemma memstr_In : forall x l, memstr x l = true <-> In x l.
Proof.
  intros x l. unfold memstr. rewrite existsb_exists. split.
  - intros [y [H1 H2]]. apply beqb_eq in H2. subst. exact H1.
  - intro H. exists x. split; [exact H|apply beqb_eq; reflexivity].
Qed.

Lemma same_set_in : forall a b, same_set a b = true -> forall h, In h a <-> In h b.
Proof.
  intros a b H h. unfold same_set in H. apply andb_true_iff in H as [H1 H2].
  split; intro Hh.
  - apply memstr_In. exact (proj1 (forallb_forall _ _) H1 h Hh).
  - apply memstr_In. exact (proj1 (forallb_forall _ _) H2 h Hh).
Qed.

(* the implemented header kinds are exactly the six the property names, and each of the three
   documents names exactly those *)
Theorem header_kinds_documented : forall h,
  (In h known_proxy_headers <-> In h spec_known_headers)
  /\ (In h docs_proxy_headers <-> In h spec_known_headers)
  /\ (In h help_proxy_headers <-> In h spec_known_headers)
  /\ (In h runner_rst_proxy_headers <-> In h spec_known_headers).
Proof.
  intro h. pose proof header_kinds_bool as K.
  apply andb_true_iff in K as [K K4]. apply andb_true_iff in K as [K K3]. apply andb_true_iff in K as [K1 K2].
  repeat split; apply same_set_in; assumption.
Qed.
