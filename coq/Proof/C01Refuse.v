(* The refusal half of C01, category by category, as implications about the
   model (corollaries of the layer theorems). *)
From Coq Require Import List NArith ZArith Bool Lia.
From WV Require Import Lib.PyBytes Lib.Regex Gen.GenRegex Spec.Grammar Proof.C10Gates.
From WV Require Import Model.Receiver Model.UrlSplit Model.Parser Spec.Ref9112.
From WV Require Import Proof.C01Lib Proof.C01Framing Proof.C01Head.
Import ListNotations.
Local Open Scope N_scope.

(* a head line containing a bare CR or LF: the line splitter refuses the head *)
Lemma bare_cr_lf_refused : forall ls l r,
  In l ls -> has_cr_or_lf l = true ->
  exists e, header_lines_go ls r = inl e /\ perr_code e = 400.
Proof.
  induction ls as [|x ls IH]; intros l r Hin Hc; [contradiction|].
  cbn [header_lines_go]. destruct Hin as [->|Hin].
  - destruct l as [|c l']; [discriminate|]. rewrite Hc. eexists; split; reflexivity.
  - destruct x as [|c x']; [eauto|].
    destruct (has_cr_or_lf (c :: x')); [eexists; split; reflexivity|].
    destruct ((c =? 32) || (c =? 9)).
    + destruct r; [eexists; split; reflexivity|]. eauto.
    + eauto.
Qed.

(* whitespace before the colon, an empty or a non-token name, no colon at all *)
Lemma bad_field_name_refused : forall h l, line_ok l ->
  parse_field_line l = None -> add_header_line h l = inl EInvalidHeader.
Proof. intros h l Hl Hp. rewrite (add_header_line_ref h l Hl), Hp. reflexivity. Qed.

Lemma non_token_name : forall pre post,
  forallb (fun x => negb (x =? 58)) pre = true ->
  nonempty pre && forallb is_tchar pre = false ->
  parse_field_line (pre ++ 58 :: post) = None.
Proof.
  intros pre post Hc Hn. unfold parse_field_line. rewrite split_colon_some by exact Hc.
  simpl app. rewrite Hn. reflexivity.
Qed.

Lemma no_colon_refused : forall l,
  forallb (fun x => negb (x =? 58)) l = true -> parse_field_line l = None.
Proof. intros l H. unfold parse_field_line. rewrite split_colon_none by exact H. reflexivity. Qed.

(* "Host :a" -- SP is not a tchar *)
Example ws_before_colon : parse_field_line [72;111;115;116;32;58;97] = None.
Proof. reflexivity. Qed.

(* a second Content-Length (Host, Content-Type) line *)
Lemma repeated_single_line : forall h l name value old, line_ok l ->
  parse_field_line l = Some (name, value) -> memb 95 name = false ->
  is_single_key (norm_name name) = true -> hget h (norm_name name) = Some old ->
  add_header_line h l = inl EDuplicateHeader.
Proof.
  intros h l name value old Hl Hp Hu Hs Hg. rewrite (add_header_line_ref h l Hl), Hp.
  unfold ref_add. rewrite Hu, Hs. change lookup with hget. rewrite Hg. reflexivity.
Qed.

Lemma seen_stays k : forall fs seen n v rest,
  is_single_key k = true -> norm_name n = k -> existsb (beqb k) seen = true ->
  no_repeated_single seen (fs ++ (n, v) :: rest) = false.
Proof.
  induction fs as [|[n0 v0] fs IH]; intros seen n v rest Hs Hn He; cbn [app no_repeated_single].
  - rewrite Hn, Hs, He. reflexivity.
  - destruct (is_single_key (norm_name n0) && existsb (beqb (norm_name n0)) seen); auto.
    apply IH; auto. cbn [existsb]. rewrite He. apply orb_true_r.
Qed.

Lemma repeated_single_refused : forall fs1 n1 v1 fs2 n2 v2 fs3 seen k,
  is_single_key k = true -> norm_name n1 = k -> norm_name n2 = k ->
  no_repeated_single seen (fs1 ++ (n1, v1) :: fs2 ++ (n2, v2) :: fs3) = false.
Proof.
  induction fs1 as [|[n0 v0] fs1 IH]; intros n1 v1 fs2 n2 v2 fs3 seen k Hs H1 H2; cbn [app no_repeated_single].
  - rewrite H1, Hs. destruct (existsb (beqb k) seen); cbn [andb]; auto.
    apply (seen_stays k); auto. cbn [existsb]. rewrite beqb_refl. reflexivity.
  - destruct (is_single_key (norm_name n0) && existsb (beqb (norm_name n0)) seen); auto.
    apply (IH _ _ _ _ _ _ _ k); auto.
Qed.

(* a Content-Length that is not 1*DIGIT (signed, padded inside, empty, hex, a list): 400 *)
Lemma bad_content_length_refused : forall h ver v,
  hget h s_TRANSFER_ENCODING = None ->
  hget h s_CONTENT_LENGTH = Some v -> clean v = true ->
  nonempty v && forallb is_dig v = false ->
  model_framing h ver = MRefuse EContentLengthInvalid.
Proof.
  intros h ver v Hte Hcl Hc Hd. unfold model_framing, model_te_stage.
  assert (E : te_encodings (hget_default h s_TRANSFER_ENCODING []) = []).
  { unfold hget_default. rewrite Hte. reflexivity. }
  assert (G : forall h', hget h' s_CONTENT_LENGTH = Some v -> model_cl_stage h' = MRefuse EContentLengthInvalid).
  { intros h' H'. unfold model_cl_stage, hget_default. rewrite H'.
    rewrite (gate_content_length_digits v Hc), Hd. reflexivity. }
  destruct (beqb ver s_1_1).
  - rewrite E. cbn [forallb negb]. apply G. rewrite hget_hpop_other by reflexivity. exact Hcl.
  - apply G. exact Hcl.
Qed.

Example bad_content_length_examples :
  map (fun v => nonempty v && forallb is_dig v)
      [[43;53]; [45;49]; [53;32;53]; []; [48;120;53]; [53;44;53]; [53;11]] = [false;false;false;false;false;false;false].
Proof. reflexivity. Qed.

(* any transfer coding other than one final chunked: 501 *)
Lemma bad_transfer_encoding_refused : forall h,
  te_encodings (hget_default h s_TRANSFER_ENCODING []) <> [] ->
  te_encodings (hget_default h s_TRANSFER_ENCODING []) <> [s_chunked] ->
  exists e, model_framing h s_1_1 = MRefuse e /\ perr_code e = 501.
Proof.
  intro h. unfold model_framing, model_te_stage. cbn [beqb s_1_1 N.eqb Pos.eqb andb].
  generalize (te_encodings (hget_default h s_TRANSFER_ENCODING [])) as encs.
  intros encs Hne Hn1.
  destruct (forallb (fun e => beqb e s_chunked) encs) eqn:Ea; cbn [negb].
  - destruct encs as [|e [|e2 rest]]; [exfalso; apply Hne; reflexivity| |].
    + exfalso. apply Hn1. cbn [forallb] in Ea. rewrite andb_true_r in Ea. apply beqb_eq in Ea.
      rewrite Ea. reflexivity.
    + cbn [length Nat.eqb negb]. eexists; split; reflexivity.
  - eexists; split; reflexivity.
Qed.

(* Content-Length together with Transfer-Encoding: chunked on HTTP/1.1 is processed as chunked *)
Lemma cl_with_te_is_chunked : forall h,
  te_encodings (hget_default h s_TRANSFER_ENCODING []) = [s_chunked] ->
  model_framing h s_1_1 = MChunked.
Proof.
  intros h E. unfold model_framing, model_te_stage. cbn [beqb s_1_1 N.eqb Pos.eqb andb].
  rewrite E. reflexivity.
Qed.

(* a request-target with a non-ASCII octet is refused (400 Bad URI); the "//"
   exception was repaired by 574dcaf *)
Lemma non_ascii_target_refused : forall uri,
  existsb (fun x => 128 <=? x) uri = true -> split_uri uri = SBadURI.
Proof.
  intros uri H. unfold split_uri. destruct (beqb (firstn 2 uri) [47; 47]).
  - rewrite H. reflexivity.
  - unfold urlsplit. rewrite H. reflexivity.
Qed.
