(* Proof/ChanWakeBase.v -- list lemmas and the case analysis of [step] used by the
   invariant proofs of C05. *)
From Coq Require Import List ZArith Bool Arith Lia.
From WV Require Import Model.ChanWake Proof.ChanWakeInv.
Import ListNotations.
Open Scope Z_scope.

(* ---- upd / nth_error -------------------------------------------------------- *)
Lemma nth_error_upd_same : forall A (l : list A) i v x,
  nth_error l i = Some x -> nth_error (upd i v l) i = Some v.
Proof.
  induction l; destruct i; simpl; intros; try discriminate; auto. eapply IHl; eauto.
Qed.

Lemma nth_error_upd_other : forall A (l : list A) i j v,
  i <> j -> nth_error (upd i v l) j = nth_error l j.
Proof.
  induction l; destruct i; destruct j; simpl; intros; auto; try congruence.
Qed.

Lemma nth_error_upd : forall A (l : list A) i j v x,
  nth_error l i = Some x ->
  nth_error (upd i v l) j = if Nat.eqb j i then Some v else nth_error l j.
Proof.
  intros. destruct (Nat.eqb_spec j i).
  - subst. eapply nth_error_upd_same; eauto.
  - apply nth_error_upd_other; auto.
Qed.

Lemma length_upd : forall A (l : list A) i v, length (upd i v l) = length l.
Proof. induction l; destruct i; simpl; auto. Qed.

(* ---- counting busy workers ----------------------------------------------------- *)
Definition b2n (b : bool) : nat := if b then 1%nat else 0%nat.

Lemma count_busy_cons : forall p l, count_busy (p :: l) = (b2n (w_busy p) + count_busy l)%nat.
Proof. intros. unfold count_busy. simpl. destruct (w_busy p); reflexivity. Qed.

Lemma count_busy_upd : forall l i p q,
  nth_error l i = Some p ->
  (count_busy (upd i q l) + b2n (w_busy p) = count_busy l + b2n (w_busy q))%nat.
Proof.
  induction l; destruct i; simpl; intros; try discriminate.
  - inversion H; subst. rewrite !count_busy_cons. lia.
  - rewrite !count_busy_cons. specialize (IHl _ _ q H). lia.
Qed.

Lemma count_busy_ge : forall l i p, nth_error l i = Some p -> (b2n (w_busy p) <= count_busy l)%nat.
Proof.
  induction l; destruct i; simpl; intros; try discriminate.
  - inversion H; subst. rewrite count_busy_cons. lia.
  - rewrite count_busy_cons. specialize (IHl _ _ H). lia.
Qed.

Lemma count_busy_two : forall l i j p q,
  i <> j -> nth_error l i = Some p -> nth_error l j = Some q ->
  (b2n (w_busy p) + b2n (w_busy q) <= count_busy l)%nat.
Proof.
  induction l; intros i j p q Hne Hi Hj.
  - destruct i; discriminate.
  - rewrite count_busy_cons. destruct i, j; simpl in *; try congruence.
    + inversion Hi; subst. pose proof (count_busy_ge _ _ _ Hj). lia.
    + inversion Hj; subst. pose proof (count_busy_ge _ _ _ Hi). lia.
    + assert (i <> j) by congruence. specialize (IHl _ _ _ _ H Hi Hj). lia.
Qed.

Lemma count_busy_zero : forall l, count_busy l = 0%nat -> forall i p, nth_error l i = Some p -> w_busy p = false.
Proof.
  intros. pose proof (count_busy_ge _ _ _ H0). destruct (w_busy p); simpl in *; auto; lia.
Qed.

Lemma count_busy_ex : forall l, (0 < count_busy l)%nat -> existsb w_busy l = true.
Proof.
  induction l; simpl; intros. { inversion H. }
  rewrite count_busy_cons in H. destruct (w_busy a); simpl in *; auto.
Qed.

(* ---- existsb over upd ------------------------------------------------------------ *)
Lemma existsb_nth : forall A (f : A -> bool) l i p, nth_error l i = Some p -> f p = true -> existsb f l = true.
Proof.
  induction l; destruct i; simpl; intros; try discriminate.
  - inversion H; subst. rewrite H0. reflexivity.
  - rewrite (IHl _ _ H H0). apply orb_true_r.
Qed.

Lemma existsb_ex : forall A (f : A -> bool) l, existsb f l = true -> exists i p, nth_error l i = Some p /\ f p = true.
Proof.
  induction l; simpl; intros; try discriminate.
  destruct (f a) eqn:E.
  - exists 0%nat, a. auto.
  - simpl in H. destruct (IHl H) as (i & p & Hi & Hp). exists (S i), p. auto.
Qed.

Lemma existsb_upd_keep : forall A (f : A -> bool) l i p q,
  nth_error l i = Some p -> existsb f l = true -> (f p = false \/ f q = true) -> existsb f (upd i q l) = true.
Proof.
  intros. destruct (existsb_ex _ _ _ H0) as (j & r & Hj & Hr).
  destruct (Nat.eq_dec j i).
  - subst. rewrite H in Hj. inversion Hj; subst. destruct H1 as [H1|H1]; [congruence|].
    apply existsb_nth with (i := i) (p := q); [eapply nth_error_upd_same; exact H | exact H1].
  - apply existsb_nth with (i := j) (p := r); [rewrite nth_error_upd_other by congruence; exact Hj | exact Hr].
Qed.

Lemma existsb_upd_new : forall A (f : A -> bool) l i p q,
  nth_error l i = Some p -> f q = true -> existsb f (upd i q l) = true.
Proof. intros. apply existsb_nth with (i := i) (p := q); [eapply nth_error_upd_same; exact H | exact H0]. Qed.

Lemma existsb_upd_in : forall A (f : A -> bool) l i q,
  (i < length l)%nat -> f q = true -> existsb f (upd i q l) = true.
Proof.
  intros A f l i q Hi Hq. destruct (nth_error l i) eqn:E.
  - eapply existsb_upd_new; eauto.
  - apply nth_error_None in E. lia.
Qed.

(* ---- forallb_i --------------------------------------------------------------------- *)
Lemma forallb_i_spec : forall A (f : nat -> A -> bool) l k,
  forallb_i f k l = true <-> (forall i p, nth_error l i = Some p -> f (k + i)%nat p = true).
Proof.
  induction l; simpl; intros.
  - split; auto. intros _ i p H. destruct i; discriminate.
  - rewrite andb_true_iff, IHl. split.
    + intros [H0 H1] i p Hi. destruct i; simpl in Hi.
      * inversion Hi; subst. rewrite Nat.add_0_r. auto.
      * replace (k + S i)%nat with (S k + i)%nat by lia. auto.
    + intros H. split.
      * specialize (H 0%nat a eq_refl). rewrite Nat.add_0_r in H. auto.
      * intros i p Hi. replace (S k + i)%nat with (k + S i)%nat by lia. apply H. auto.
Qed.

(* ---- notify_o ---------------------------------------------------------------------- *)
Definition notified (p : wpc) : wpc :=
  match p with WHwEPk st _ => WHwEN st | WHwLPk st => WHwLN st | _ => p end.

Lemma notify_o_nth : forall l j q,
  nth_error (notify_o l) j = Some q ->
  exists p, nth_error l j = Some p /\ (q = p \/ (parked_o p = true /\ q = notified p)).
Proof.
  induction l; intros j q H.
  - destruct j; discriminate.
  - destruct a; simpl in H;
      try (destruct j; simpl in *;
           [ inversion H; subst; eexists; split; [reflexivity | auto]
           | destruct (IHl _ _ H) as (p & Hp & Hq); exists p; auto ]);
      (destruct j; simpl in *;
           [ inversion H; subst; eexists; split; [reflexivity | right; split; reflexivity]
           | exists q; auto ]).
Qed.

Lemma length_notify_o : forall l, length (notify_o l) = length l.
Proof. induction l; simpl; auto. destruct a; simpl; auto. Qed.

(* if at most one worker is parked, nobody is parked after notify *)
Lemma notify_o_none_parked : forall l,
  (forall i j p q, nth_error l i = Some p -> nth_error l j = Some q ->
                   parked_o p = true -> parked_o q = true -> i = j) ->
  forall j q, nth_error (notify_o l) j = Some q -> parked_o q = false.
Proof.
  induction l; intros Huniq j q H.
  - destruct j; discriminate.
  - assert (Htail : forall i j p q, nth_error l i = Some p -> nth_error l j = Some q ->
                                     parked_o p = true -> parked_o q = true -> i = j).
    { intros i0 j0 p0 q0 Hi Hj Pp Pq. specialize (Huniq (S i0) (S j0) p0 q0 Hi Hj Pp Pq). congruence. }
    destruct (parked_o a) eqn:Pa.
    + (* a is the parked one: it is notified, the tail has none *)
      assert (Hq : nth_error (notified a :: l) j = Some q).
      { destruct a; simpl in Pa; try discriminate; simpl in *; auto. }
      destruct j; simpl in Hq.
      * inversion Hq; subst. destruct a; simpl in *; try discriminate; reflexivity.
      * destruct (parked_o q) eqn:Pq; auto.
        specialize (Huniq 0%nat (S j) a q eq_refl Hq Pa Pq). discriminate.
    + assert (Hq : nth_error (a :: notify_o l) j = Some q).
      { destruct a; simpl in Pa; try discriminate; simpl in *; auto. }
      destruct j; simpl in Hq.
      * inversion Hq; subst. auto.
      * eapply IHl; eauto.
Qed.
