(* T5 -- close after the message.  The persistence decision of the real
   system is taken in task.py (build_response_header) from the request's
   version and Connection header only; it is modelled by Task.bh_conn
   (builder of C03/C08, tied to the code by K-task).  It is proved equal to
   the reference's close_after_of with the three deviations F7, F8 and
   "close inside a list" switched on -- for ALL dicts and versions -- and
   therefore equal to the strict reference exactly outside those classes.
   parser.connection_close, on the other hand, IS set as the strict reference
   demands for Content-Length + Transfer-Encoding (parse_header_framing): the
   verdict is computed and then read nowhere. *)
From Coq Require Import List NArith ZArith Bool Lia.
From WV Require Import Lib.PyBytes Model.Receiver Model.Parser Spec.Ref9112 Proof.C01Lib Proof.C01Framing.
From WV Require Model.Task.
Import ListNotations.
Local Open Scope N_scope.

(* the response of an application that supplies Content-Length *)
Definition model_close (ver conn : bytes) : bool :=
  Task.t_cof (Task.bh_conn Task.py_cap Task.py_lower (lower_latin1 conn) (Some [50])
                           (Task.new_task ver false)).

Definition dev_persist : devs :=
  {| dv_trailer := false; dv_empty_chunk_line := false; dv_reqline_lf := false; dv_te_http10 := true;
     dv_clte_keepalive := true; dv_conn_list := true; dv_te_ws_element := false; dv_target_dslash := false |}.

Lemma close_ascii : ascii_word w_close.
Proof. unfold ascii_word, w_close. repeat constructor. Qed.
Lemma keep_alive_ascii : ascii_word w_keep_alive.
Proof. unfold ascii_word, w_keep_alive. repeat constructor. Qed.

Theorem close_decision_dev : forall dict ver,
  model_close ver (hget_default dict s_CONNECTION []) = close_after_of dev_persist ver dict.
Proof.
  intros dict ver. unfold model_close, close_after_of, hget_default.
  change lookup with hget. change K_CONN with s_CONNECTION.
  set (conn := match hget dict s_CONNECTION with Some v => v | None => [] end).
  unfold Task.new_task, Task.bh_conn. cbn [Task.t_v11].
  change [49; 46; 49] with v11.
  destruct (beqb ver v11); cbn [negb].
  - fold w_close. rewrite (lower_word_agree _ close_ascii).
    cbn [has_option dev_persist dv_conn_list dv_clte_keepalive negb andb]. rewrite orb_false_r.
    destruct (beqb (to_lower conn) w_close); reflexivity.
  - fold w_keep_alive. rewrite (lower_word_agree _ keep_alive_ascii).
    cbn [dev_persist dv_te_http10 negb andb]. rewrite orb_false_r.
    destruct (beqb (to_lower conn) w_keep_alive); reflexivity.
Qed.

(* the inputs on which the strict reference and the code part company *)
Definition close_classes (ver : bytes) (dict : hdict) : bool :=
  negb (Bool.eqb (close_after_of no_devs ver dict) (close_after_of dev_persist ver dict)).

Theorem close_decision_partial : forall dict ver,
  close_classes ver dict = false ->
  model_close ver (hget_default dict s_CONNECTION []) = close_after_of no_devs ver dict.
Proof.
  intros dict ver H. rewrite close_decision_dev. unfold close_classes in H.
  apply negb_false_iff in H. apply eqb_prop in H. auto.
Qed.

(* where the reference says close, and it is the model that says so too *)
Corollary close_when_connection_close : forall dict ver v,
  ver = v11 -> hget dict s_CONNECTION = Some v -> beqb (to_lower v) w_close = true ->
  model_close ver (hget_default dict s_CONNECTION []) = true.
Proof.
  intros dict ver v -> Hc Hv. rewrite close_decision_dev. unfold close_after_of.
  change lookup with hget. change K_CONN with s_CONNECTION. rewrite Hc.
  cbn [beqb v11 N.eqb Pos.eqb andb]. cbn [has_option dev_persist dv_conn_list]. rewrite Hv. reflexivity.
Qed.

Corollary close_when_http10_without_keepalive : forall dict ver,
  beqb ver v11 = false ->
  beqb (to_lower (hget_default dict s_CONNECTION [])) w_keep_alive = false ->
  model_close ver (hget_default dict s_CONNECTION []) = true.
Proof.
  intros dict ver Hv Hk. rewrite close_decision_dev. unfold close_after_of. rewrite Hv.
  unfold hget_default in Hk. change lookup with hget. change K_CONN with s_CONNECTION.
  rewrite Hk. reflexivity.
Qed.

(* F7: Content-Length + Transfer-Encoding: chunked on HTTP/1.1, no Connection header *)
Definition f7_dict : hdict := [(s_CONTENT_LENGTH, [51]); (s_TRANSFER_ENCODING, s_chunked)].
Lemma close_refuted_clte :
  close_after_of no_devs v11 f7_dict = true /\ model_close v11 (hget_default f7_dict s_CONNECTION []) = false.
Proof. split; vm_compute; reflexivity. Qed.

(* F8: HTTP/1.0 keep-alive with Transfer-Encoding *)
Definition f8_dict : hdict := [(s_CONNECTION, w_keep_alive); (s_TRANSFER_ENCODING, s_chunked)].
Lemma close_refuted_te_http10 :
  close_after_of no_devs v10 f8_dict = true /\ model_close v10 (hget_default f8_dict s_CONNECTION []) = false.
Proof. split; vm_compute; reflexivity. Qed.

(* Connection: close, x *)
Definition conn_list_dict : hdict := [(s_CONNECTION, w_close ++ [44; 32; 120])].
Lemma close_refuted_conn_list :
  close_after_of no_devs v11 conn_list_dict = true
  /\ model_close v11 (hget_default conn_list_dict s_CONNECTION []) = false.
Proof. split; vm_compute; reflexivity. Qed.
