(* T5 -- close after the message.  The persistence decision of the real
   system is taken in task.py (build_response_header) from the request's
   version, its Connection header and -- since fix c72b27e -- the parser's
   connection_close verdict; it is modelled by Task.bh_conn (builder of
   C03/C08, tied to the code by K-task).  Composed with what parse_header
   leaves in connection_close (C01Framing.model_cc, characterised by
   parse_header_framing) it is proved equal to the reference's close_after_of,
   for ALL dicts and versions: Content-Length + Transfer-Encoding, a
   Transfer-Encoding on a request that is not HTTP/1.1, "close" anywhere in a
   Connection list, HTTP/1.0 without keep-alive. *)
From Coq Require Import List NArith ZArith Bool Lia.
From WV Require Import Lib.PyBytes Model.Receiver Model.Parser Spec.Ref9112 Proof.C01Lib Proof.C01Framing.
From WV Require Model.Task.
Import ListNotations.
Local Open Scope N_scope.

(* the response of an application that supplies Content-Length; cc = parser.connection_close *)
Definition model_close (ver conn : bytes) (cc : bool) : bool :=
  Task.t_cof (Task.bh_conn Task.py_cap Task.py_lower (lower_latin1 conn) cc (Some [50])
                           (Task.new_task ver false)).

Lemma close_ascii : ascii_word w_close.
Proof. unfold ascii_word, w_close. repeat constructor. Qed.
Lemma keep_alive_ascii : ascii_word w_keep_alive.
Proof. unfold ascii_word, w_keep_alive. repeat constructor. Qed.

Lemma model_close_11 conn cc : model_close v11 conn cc = beqb (lower_latin1 conn) s_close || cc.
Proof.
  unfold model_close, Task.new_task, Task.bh_conn. cbn [Task.t_v11 beqb v11 N.eqb Pos.eqb andb negb].
  fold s_close. destruct (beqb (lower_latin1 conn) s_close || cc); reflexivity.
Qed.

Lemma model_close_other ver conn cc : beqb ver v11 = false ->
  model_close ver conn cc = negb (beqb (lower_latin1 conn) s_keep_alive) || cc.
Proof.
  intro H. unfold model_close, Task.new_task, Task.bh_conn. cbn [Task.t_v11].
  change [49; 46; 49] with v11. rewrite H. cbn [negb]. fold s_keep_alive.
  destruct (beqb (lower_latin1 conn) s_keep_alive), cc; reflexivity.
Qed.

(* ---------------------------------------------------------------- *)
(* "close" in the Connection list: the model's test is the reference's *)

Lemma split_on_map (f : N -> N) c : (forall x, (f x =? c) = (x =? c)) -> forall s cur,
  split_on c (map f s) (map f cur) = map (map f) (split_on c s cur).
Proof.
  intros Hf. induction s as [|x s IH]; intro cur; cbn [map split_on].
  - rewrite map_rev. reflexivity.
  - rewrite Hf. destruct (x =? c).
    + cbn [map]. rewrite map_rev. f_equal. apply (IH []).
    + apply (IH (x :: cur)).
Qed.

Lemma drop_while_map (f : N -> N) (g : N -> bool) : (forall x, g (f x) = g x) -> forall s,
  drop_while g (map f s) = map f (drop_while g s).
Proof.
  intros H. induction s as [|x s IH]; cbn [map drop_while]; auto. rewrite H.
  destruct (g x); auto.
Qed.

Lemma trim_map (f : N -> N) (g : N -> bool) : (forall x, g (f x) = g x) -> forall s,
  trim g (map f s) = map f (trim g s).
Proof.
  intros H s. unfold trim. rewrite (drop_while_map f g H), <- map_rev, (drop_while_map f g H), map_rev.
  reflexivity.
Qed.

Lemma lower_comma x : (lower_latin1_c x =? 44) = (x =? 44).
Proof.
  unfold lower_latin1_c.
  destruct ((65 <=? x) && (x <=? 90)) eqn:A.
  - apply andb_true_iff in A as [A1 A2]. apply N.leb_le in A1, A2.
    transitivity false; [|symmetry]; apply N.eqb_neq; lia.
  - destruct ((192 <=? x) && (x <=? 222) && negb (x =? 215)) eqn:B; auto.
    apply andb_true_iff in B as [B _]. apply andb_true_iff in B as [B1 B2]. apply N.leb_le in B1, B2.
    transitivity false; [|symmetry]; apply N.eqb_neq; lia.
Qed.

Lemma lower_ows x : is_ows (lower_latin1_c x) = is_ows x.
Proof.
  unfold is_ows, lower_latin1_c.
  destruct ((65 <=? x) && (x <=? 90)) eqn:A.
  - apply andb_true_iff in A as [A1 A2]. apply N.leb_le in A1, A2.
    replace (x + 32 =? 32) with false by (symmetry; apply N.eqb_neq; lia).
    replace (x + 32 =? 9) with false by (symmetry; apply N.eqb_neq; lia).
    replace (x =? 32) with false by (symmetry; apply N.eqb_neq; lia).
    replace (x =? 9) with false by (symmetry; apply N.eqb_neq; lia). reflexivity.
  - destruct ((192 <=? x) && (x <=? 222) && negb (x =? 215)) eqn:B; auto.
    apply andb_true_iff in B as [B _]. apply andb_true_iff in B as [B1 B2]. apply N.leb_le in B1, B2.
    replace (x + 32 =? 32) with false by (symmetry; apply N.eqb_neq; lia).
    replace (x + 32 =? 9) with false by (symmetry; apply N.eqb_neq; lia).
    replace (x =? 32) with false by (symmetry; apply N.eqb_neq; lia).
    replace (x =? 9) with false by (symmetry; apply N.eqb_neq; lia). reflexivity.
Qed.

Lemma existsb_map {A B} (g : B -> bool) (h : A -> B) l : existsb g (map h l) = existsb (fun x => g (h x)) l.
Proof. induction l; cbn; auto. rewrite IHl. reflexivity. Qed.

Lemma existsb_ext_b {A} (f g : A -> bool) l : (forall x, f x = g x) -> existsb f l = existsb g l.
Proof. intro H. induction l; cbn; auto. rewrite H, IHl. reflexivity. Qed.

Lemma existsb_filter_nonempty w l : nonempty w = true ->
  existsb (fun e => beqb e w) (filter nonempty l) = existsb (fun e => beqb e w) l.
Proof.
  intro Hw. induction l as [|e l IH]; cbn [filter existsb]; auto.
  destruct (nonempty e) eqn:E; cbn [existsb]; rewrite IH; auto.
  destruct e; [|discriminate]. destruct w; [discriminate|]. reflexivity.
Qed.

Lemma close_in_list conn :
  existsb (fun t => beqb (strip_by is_sp_htab t) s_close) (split (lower_latin1 conn) [44])
  = has_option w_close conn.
Proof.
  unfold has_option, list_elems. rewrite (existsb_filter_nonempty w_close) by reflexivity.
  rewrite split_comma. unfold lower_latin1.
  change (split_on 44 (map lower_latin1_c conn) []) with (split_on 44 (map lower_latin1_c conn) (map lower_latin1_c [])).
  rewrite (split_on_map lower_latin1_c 44 lower_comma conn []).
  rewrite !existsb_map. apply existsb_ext_b. intro e.
  rewrite strip_sp_htab. rewrite (trim_map lower_latin1_c is_ows lower_ows).
  change s_close with w_close. apply (lower_word_agree _ close_ascii).
Qed.

Lemma exact_close_in_list conn : beqb (lower_latin1 conn) s_close = true ->
  existsb (fun t => beqb (strip_by is_sp_htab t) s_close) (split (lower_latin1 conn) [44]) = true.
Proof.
  intro H. apply beqb_eq in H. rewrite H. reflexivity.
Qed.

(* ---------------------------------------------------------------- *)

Theorem close_decision : forall dict ver,
  (forall v, hget dict s_CONTENT_LENGTH = Some v -> clean v = true) ->
  model_close ver (hget_default dict s_CONNECTION []) (model_cc dict ver) = close_after_of ver dict.
Proof.
  intros dict ver Hclean. unfold close_after_of.
  change lookup with hget. change K_CONN with s_CONNECTION. change K_CL with s_CONTENT_LENGTH.
  change K_TE with s_TRANSFER_ENCODING.
  fold (hget_default dict s_CONNECTION []).
  set (conn := hget_default dict s_CONNECTION []).
  destruct (beqb ver v11) eqn:E.
  - apply beqb_eq in E. subst ver. rewrite model_close_11.
    unfold model_cc. fold conn. change (beqb v11 s_1_0) with false. change (beqb v11 s_1_1) with true.
    cbn [andb orb]. rewrite close_in_list.
    pose proof (framing_decision dict v11 Hclean) as FD.
    assert (Ech : match model_framing dict v11 with MChunked => present dict s_CONTENT_LENGTH | _ => false end
                  = match framing_of v11 dict with FrChunked => true | _ => false end
                    && match hget dict s_CONTENT_LENGTH with Some _ => true | None => false end).
    { rewrite <- FD. destruct (model_framing dict v11); reflexivity. }
    rewrite Ech.
    destruct (beqb (lower_latin1 conn) s_close) eqn:Ex.
    + rewrite <- close_in_list, (exact_close_in_list conn Ex). reflexivity.
    + cbn [orb]. apply orb_comm.
  - rewrite (model_close_other ver conn _ E). unfold model_cc. fold conn.
    change s_1_1 with v11. rewrite E. unfold present.
    change s_keep_alive with w_keep_alive. rewrite (lower_word_agree _ keep_alive_ascii).
    destruct (beqb (to_lower conn) w_keep_alive), (beqb ver s_1_0),
             (hget dict s_TRANSFER_ENCODING); reflexivity.
Qed.

(* the cases of the statement *)
Example close_clte :
  close_after_of v11 [(s_CONTENT_LENGTH, [51]); (s_TRANSFER_ENCODING, s_chunked)] = true.
Proof. reflexivity. Qed.
Example close_te_http10 :
  close_after_of v10 [(s_CONNECTION, w_keep_alive); (s_TRANSFER_ENCODING, s_chunked)] = true.
Proof. reflexivity. Qed.
Example close_conn_list : close_after_of v11 [(s_CONNECTION, w_close ++ [44; 32; 120])] = true.
Proof. reflexivity. Qed.
Example keep_open : close_after_of v11 [(s_CONNECTION, w_keep_alive)] = false
                    /\ close_after_of v10 [(s_CONNECTION, w_keep_alive)] = false.
Proof. split; reflexivity. Qed.
