(* C16 (d): a header kind that is not trusted has no influence (and is
   removed when clearing is on);  C16 (c): the output depends on a trusted
   list-valued header only through its trusted suffix. *)
From Coq Require Import List NArith ZArith Bool Lia.
From WV Require Import Lib.PyBytes Lib.PyStrProxy Lib.Regex Gen.GenRegex Model.Proxy Spec.ProxySpec
  Proof.ProxyDict Proof.ProxyStr Proof.ProxyStages Proof.ProxyTotal Proof.ProxyHops Proof.ProxyRel Proof.ProxyC15.
Import ListNotations.
Local Open Scope N_scope.

Inductive kind := KFor | KHost | KProto | KPort | KBy | KFwd.
Definition key_of (kd : kind) : str :=
  match kd with KFor => k_xff | KHost => k_xfh | KProto => k_xfproto | KPort => k_xfport | KBy => k_xfby | KFwd => k_fwd end.
Definition name_of (kd : kind) : str :=
  match kd with KFor => n_xff | KHost => n_xfh | KProto => n_xfproto | KPort => n_xfport | KBy => n_xfby | KFwd => n_fwd end.
Definition uflag (kd : kind) (u : uset) : bool :=
  match kd with KFor => u_for u | KHost => u_host u | KProto => u_proto u | KPort => u_port u | KBy => u_by u | KFwd => u_fwd u end.

Definition only (K : str) : str -> bool := fun k => beqb k K.

Lemma unread_kind c kd : has (tph_of c) (name_of kd) = false -> unread (only (key_of kd)) (tph_of c).
Proof.
  intro H. constructor; unfold only; destruct kd; cbn [key_of name_of] in *; intros; try congruence; keq.
Qed.

(* changing the value of an untrusted kind changes nothing else *)
Lemma kinds_noninterference c kd e1 e2 :
  has (tph_of c) (name_of kd) = false ->
  agree (only (key_of kd)) e1 e2 ->
  rrelG (agree (only (key_of kd))) (middleware c e1) (middleware c e2).
Proof.
  intros H Ha. apply middleware_rel; auto using unread_kind.
  unfold only. destruct kd; keq.
Qed.

(* ---- and it is stripped when clearing is on ------------------------------------------- *)
Lemma cond_pop (b : bool) k k' (e : environ) :
  lookup k (if b then pop k' e else e) = if b && beqb k k' then None else lookup k e.
Proof. destruct b; cbn [andb]; auto. apply lookup_pop. Qed.

Lemma lookup_clear k e u :
  lookup k (clear_untrusted_headers e u) =
  if (u_fwd u && beqb k k_fwd) || (u_by u && beqb k k_xfby) || (u_port u && beqb k k_xfport) ||
     (u_proto u && beqb k k_xfproto) || (u_host u && beqb k k_xfh) || (u_for u && beqb k k_xff)
  then None else lookup k e.
Proof.
  unfold clear_untrusted_headers. rewrite !cond_pop.
  destruct (u_fwd u && beqb k k_fwd), (u_by u && beqb k k_xfby), (u_port u && beqb k k_xfport),
    (u_proto u && beqb k k_xfproto), (u_host u && beqb k k_xfh), (u_for u && beqb k k_xff); reflexivity.
Qed.

Lemma clear_kind kd e u : uflag kd u = true -> lookup (key_of kd) (clear_untrusted_headers e u) = None.
Proof.
  intro H. rewrite lookup_clear.
  destruct kd; cbn [uflag key_of] in *; rewrite H, beqb_refl; cbn [andb orb]; rewrite ?orb_true_r; reflexivity.
Qed.

Lemma clear_other k e u : is_proxy_key k = false -> lookup k (clear_untrusted_headers e u) = lookup k e.
Proof.
  intro H. rewrite lookup_clear. rewrite is_proxy_key_spec in H.
  repeat (apply orb_false_iff in H as [H ?]).
  repeat match goal with Hq : beqb k _ = false |- _ => rewrite Hq; clear Hq end.
  rewrite !andb_false_r. reflexivity.
Qed.

Definition untrusted_inv (tph : list str) (s : pst) : Prop :=
  forall kd, has tph (name_of kd) = false -> uflag kd (unt s) = true.

Lemma blk_by_unt tph s s' : blk_by tph s = Ok s' ->
  unt s' = unt s \/ (has tph n_xfby = true /\ rm_by (unt s) = Ok (unt s')).
Proof.
  unfold blk_by. destruct (has tph n_xfby); [|intro H; injection H as <-; auto].
  destruct (rm_by (unt s)) as [u| |] eqn:E; cbn; try discriminate. intro H. injection H as <-. auto.
Qed.

Lemma rm_by_ok u u' : rm_by u = Ok u' ->
  u_by u' = false /\ u_for u' = u_for u /\ u_host u' = u_host u /\ u_proto u' = u_proto u /\ u_port u' = u_port u /\ u_fwd u' = u_fwd u.
Proof. unfold rm_by. destruct (u_by u); [|discriminate]. intro H. injection H as <-. cbn. auto 10. Qed.

Lemma select_untrusted e k tph s : parse_select e k tph = Ok s -> untrusted_inv tph s.
Proof.
  intro H. apply select_ok_inv in H as (s1 & s2 & s3 & s4 & s5 & E1 & E2 & E3 & E4 & E5 & E6).
  assert (I1 : untrusted_inv tph s1).
  { apply blk_xff_ok in E1 as [[-> _]|(? & ? & ? & u & Ht & _ & _ & _ & Hu & ->)]; intros kd Hk.
    - destruct kd; reflexivity.
    - apply rm_for_ok in Hu as (? & ? & ? & ? & ? & ?). cbn [unt init_pst u_all u_for u_host u_proto u_port u_by u_fwd] in *.
      destruct kd; cbn [uflag name_of] in *; congruence. }
  assert (I2 : untrusted_inv tph s2).
  { apply blk_xfh_ok in E2 as [[-> _]|(? & ? & ? & u & Ht & _ & _ & _ & Hu & ->)]; auto. intros kd Hk.
    apply rm_host_ok in Hu as (? & ? & ? & ? & ? & ?). specialize (I1 kd Hk). cbn [unt].
    destruct kd; cbn [uflag name_of] in *; congruence. }
  assert (I3 : untrusted_inv tph s3).
  { apply blk_proto_ok in E3 as [[-> _]|(? & u & Ht & _ & Hu & ->)]; auto. intros kd Hk.
    apply rm_proto_ok in Hu as (? & ? & ? & ? & ? & ?). specialize (I2 kd Hk). cbn [unt].
    destruct kd; cbn [uflag name_of] in *; congruence. }
  assert (I4 : untrusted_inv tph s4).
  { apply blk_port_ok in E4 as [[-> _]|(? & u & Ht & _ & Hu & ->)]; auto. intros kd Hk.
    apply rm_port_ok in Hu as (? & ? & ? & ? & ? & ?). specialize (I3 kd Hk). cbn [unt].
    destruct kd; cbn [uflag name_of] in *; congruence. }
  assert (I5 : untrusted_inv tph s5).
  { apply blk_by_unt in E5 as [Hu|[Ht Hu]]; intros kd Hk; specialize (I4 kd Hk).
    - rewrite Hu. exact I4.
    - apply rm_by_ok in Hu as (? & ? & ? & ? & ? & ?). destruct kd; cbn [uflag name_of] in *; congruence. }
  assert (I6 : untrusted_inv tph (blk_fwd_get tph s5)).
  { unfold blk_fwd_get. destruct (has tph n_fwd) eqn:Ht; auto. intros kd Hk. cbn [unt].
    destruct kd; cbn [uflag name_of] in *; try reflexivity. congruence. }
  apply blk_forwarded_ok in E6 as [[-> _]|(? & ? & _ & _ & _ & ->)]; auto.
Qed.

Lemma middleware_ok_inv c e o : middleware c e = Ok o ->
  (on_trusted_path c e = false /\ o = if clear_untrusted c then clear_untrusted_headers e u_all else e) \/
  (on_trusted_path c e = true /\ exists s s',
     parse_select e (trusted_proxy_count c) (tph_of c) = Ok s /\ parse_apply s = Ok s' /\
     o = if clear_untrusted c then clear_untrusted_headers (env s') (unt s') else env s').
Proof.
  unfold middleware, on_trusted_path. destruct (lookup k_remote_addr e) as [peer|]; [|discriminate].
  destruct (opt_str_eqb (trusted_proxy c) (Some s_star) || opt_str_eqb (Some peer) (trusted_proxy c)).
  - unfold parse_proxy_headers. fold (tph_of c). intro H. right. split; auto.
    apply bind_ok in H as ([e' u] & H & Ho). apply bind_ok in H as (s & Hs & H).
    apply bind_ok in H as (s' & Hs' & H). injection H as <- <-. injection Ho as <-. eauto.
  - cbn. intro H. injection H as <-. left. auto.
Qed.

Lemma kinds_stripped c kd e o :
  has (tph_of c) (name_of kd) = false -> clear_untrusted c = true ->
  middleware c e = Ok o -> lookup (key_of kd) o = None.
Proof.
  intros Hk Hc H. apply middleware_ok_inv in H as [[_ ->]|(_ & s & s' & Hs & Ha & ->)]; rewrite Hc.
  - apply clear_kind. destruct kd; reflexivity.
  - apply clear_kind. rewrite (ap_unt _ _ (apply_ok _ _ Ha)). apply (select_untrusted _ _ _ _ Hs). exact Hk.
Qed.

Lemma kinds_untouched c kd e o :
  has (tph_of c) (name_of kd) = false -> clear_untrusted c = false ->
  middleware c e = Ok o -> lookup (key_of kd) o = lookup (key_of kd) e.
Proof.
  intros Hk Hc H.
  pose proof (kinds_noninterference c kd e e Hk (agree_refl _ _)) as _.
  apply middleware_ok_inv in H as [[_ ->]|(_ & s & s' & Hs & Ha & ->)]; rewrite Hc; [reflexivity|].
  assert (Hm : ~ In (key_of kd) metadata_keys).
  { intro Hin. apply metadata_not_proxy in Hin. destruct kd; vm_compute in Hin; discriminate. }
  destruct (ap_other _ _ (apply_ok _ _ Ha) (key_of kd)) as [Hin| ->]; [contradiction|].
  (* the header blocks only write the keys of trusted kinds *)
  apply select_ok_inv in Hs as (s1 & s2 & s3 & s4 & s5 & E1 & E2 & E3 & E4 & E5 & E6).
  assert (L1 : lookup (key_of kd) (env s1) = lookup (key_of kd) e).
  { apply blk_xff_ok in E1 as [[-> _]|(? & ? & ? & u & Ht & _ & _ & _ & _ & ->)]; auto. cbn [env init_pst].
    apply lookup_set_other. destruct kd; cbn [key_of name_of] in *; try keq. congruence. }
  assert (L2 : lookup (key_of kd) (env s2) = lookup (key_of kd) e).
  { apply blk_xfh_ok in E2 as [[-> _]|(? & ? & ? & u & Ht & _ & _ & _ & _ & ->)]; auto. cbn [env].
    rewrite lookup_set_other; auto. destruct kd; cbn [key_of name_of] in *; try keq. congruence. }
  assert (L5 : lookup (key_of kd) (env s5) = lookup (key_of kd) e).
  { apply blk_by_ok in E5 as (-> & _). rewrite (blk_port_env _ _ _ E4), (blk_proto_env _ _ _ E3). exact L2. }
  unfold blk_fwd_get in E6. destruct (has (tph_of c) n_fwd) eqn:Hf.
  - apply blk_forwarded_ok in E6 as [[-> _]|(? & ? & _ & _ & _ & ->)]; cbn [env]; auto.
    rewrite lookup_set_other; auto. destruct kd; cbn [key_of name_of] in *; try keq. congruence.
  - apply blk_forwarded_ok in E6 as [[-> _]|(raw & ps & Hfw & Htr & _ & _)]; auto.
    (* Forwarded is not trusted: the block is never entered *)
    exfalso.
    apply blk_by_ok in E5 as (_ & _ & _ & _ & _ & F5).
    assert (F : fwd s5 = Some []).
    { rewrite F5.
      apply blk_port_ok in E4 as [[-> _]|(? & ? & _ & _ & _ & ->)];
      apply blk_proto_ok in E3 as [[-> _]|(? & ? & _ & _ & _ & ->)]; cbn [fwd];
      rewrite (fr_fwd _ _ (blk_xfh_frame _ _ _ _ E2)), (fr_fwd _ _ (blk_xff_frame _ _ _ _ E1)); reflexivity. }
    rewrite F in Hfw. injection Hfw as <-. discriminate.
Qed.
