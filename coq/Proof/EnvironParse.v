(* What a successful parse_header establishes, and what every run of
   received() from parser_init that ends completed and error-free looks like.
   parse_header is cut into stages (definitionally equal to the model's text:
   parse_header_stages is proved by reflexivity) so that each stage can be
   analysed on a small term. *)
From Coq Require Import List NArith ZArith Bool Lia.
From RecordUpdate Require Import RecordUpdate.
From WV Require Import Lib.PyBytes Lib.Regex Gen.GenRegex Model.Receiver Model.UrlSplit Model.Parser.
Import ListNotations.
Local Open Scope N_scope.

(* ------------------------------------------------------------------ *)
(* stages *)

Definition stage_chunk (p : parser) (encs : list bytes) : parser * option perr :=
  match encs with
  | [] => (p, None)
  | _ =>
    if negb (length encs =? 1)%nat then (p, Some ETEMultipleChunked)
    else
      let p := p <| chunked := true |> <| body := Some (BChunked chunked_init) |> in
      let cl := hget (headers p) s_CONTENT_LENGTH in
      let p := p <| headers := hpop (headers p) s_CONTENT_LENGTH |> in
      (match cl with Some _ => p <| connection_close := true |> | None => p end, None)
  end.

Definition stage_11 (h1 : hdict) (connection : bytes) (p : parser) : parser * option perr :=
  let te := hget_default h1 s_TRANSFER_ENCODING [] in
  let p := p <| headers := hpop h1 s_TRANSFER_ENCODING |> in
  let encs := te_encodings te in
  if negb (forallb (fun e => beqb e s_chunked) encs) then (p, Some ETENotSupported)
  else
    match stage_chunk p encs with
    | (p, Some e) => (p, Some e)
    | (p, None) =>
      let expect := lower_latin1 (hget_default (headers p) s_EXPECT []) in
      let p := p <| expect_continue := beqb expect s_100_continue |> in
      let p := if existsb (fun t => beqb (strip_by is_sp_htab t) s_close)
                          (split (lower_latin1 connection) [44])
               then p <| connection_close := true |> else p in
      (p, None)
    end.

Definition stage_cl (p : parser) : parser * ph_status :=
  if chunked p then (p, PSOk)
  else
    let cl := hget_default (headers p) s_CONTENT_LENGTH s_0 in
    if negb (matches gate_content_length cl) then (p, PSError EContentLengthInvalid)
    else if int_max_str_digits <? lenN cl then (p, PSError EContentLengthInvalid)
    else
      let n := dec_value cl in
      let p := p <| content_length := n |> in
      (if 0 <? n then p <| body := Some (BFixed (fixed_init n)) |> else p, PSOk).

Definition stage_uri (a : adj) (p : parser) (h1 : hdict) (cmd uri ver : bytes) : parser * ph_status :=
  let p := p <| request_uri := uri |> <| command := cmd |> <| version := ver |> in
  match split_uri uri with
  | SBadURI => (p, PSError EBadURI)
  | SEscapes => (p, PSEscapes)
  | SUnmodelled => (p, PSUnmodelled)
  | SOk sc nl pa qu fr =>
    let p := p <| p_scheme := sc |> <| p_netloc := nl |> <| path := pa |>
               <| query := qu |> <| fragment := fr |> <| url_scheme := adj_url_scheme a |> in
    let connection := hget_default h1 s_CONNECTION [] in
    let p := if beqb ver s_1_0 && negb (beqb (lower_latin1 connection) s_keep_alive)
             then p <| connection_close := true |> else p in
    let p := if negb (beqb ver s_1_1)
                && (match hget h1 s_TRANSFER_ENCODING with Some _ => true | None => false end)
             then p <| connection_close := true |> else p in
    let r11 := if beqb ver s_1_1 then stage_11 h1 connection p else (p, None) in
    match r11 with
    | (p, Some e) => (p, PSError e)
    | (p, None) => stage_cl p
    end
  end.

Lemma parse_header_stages a p hp :
  parse_header a p hp =
  match find hp CRLF with
  | None => (p, PSError EHeaderInvalid)
  | Some index =>
    let fl := rstrip_by is_reqline_ws (firstn index hp) in
    let header := skipn (index + 2) hp in
    if has_cr_or_lf fl then (p, PSError EBareCRLFFirstLine)
    else
    let p := p <| first_line := fl |> in
    match get_header_lines header with
    | inl e => (p, PSError e)
    | inr lines =>
      match add_header_lines (headers p) lines with
      | inl (e, h) => (p <| headers := h |>, PSError e)
      | inr h1 =>
        let p := p <| headers := h1 |> in
        match crack_first_line fl with
        | None => (p, PSError EMalformedMethod)
        | Some (cmd, uri, ver) =>
          if beqb cmd [] && beqb uri [] && beqb ver [] then (p, PSError EStartLineInvalid)
          else stage_uri a p h1 cmd uri ver
        end
      end
    end
  end.
Proof. reflexivity. Qed.

(* ------------------------------------------------------------------ *)
(* the attributes the later stages never touch *)

Definition status3 (p : parser) := (completed p, error p, empty p).
Definition reqline (p : parser) := (command p, version p, request_uri p, path p, query p, url_scheme p).

Lemma stage_chunk_ok p encs p' :
  stage_chunk p encs = (p', None) ->
  status3 p' = status3 p /\ reqline p' = reqline p /\ content_length p' = content_length p /\
  ((encs = [] /\ p' = p) \/
   (length encs = 1%nat /\ chunked p' = true /\ body p' = Some (BChunked chunked_init) /\
    headers p' = hpop (headers p) s_CONTENT_LENGTH)).
Proof.
  unfold stage_chunk. destruct encs as [|e0 encs'].
  - intro H. injection H as <-. auto 6.
  - destruct (negb (length (e0 :: encs') =? 1)%nat) eqn:E; [discriminate|].
    apply negb_false_iff in E. apply Nat.eqb_eq in E.
    cbn [headers set]. intro H. injection H as <-.
    destruct (hget (headers p) s_CONTENT_LENGTH); cbn; auto 8.
Qed.

Lemma stage_11_ok h1 conn p p' :
  stage_11 h1 conn p = (p', None) ->
  status3 p' = status3 p /\ reqline p' = reqline p /\ content_length p' = content_length p /\
  forallb (fun e => beqb e s_chunked) (te_encodings (hget_default h1 s_TRANSFER_ENCODING [])) = true /\
  ((te_encodings (hget_default h1 s_TRANSFER_ENCODING []) = [] /\
    chunked p' = chunked p /\ body p' = body p /\ headers p' = hpop h1 s_TRANSFER_ENCODING) \/
   (length (te_encodings (hget_default h1 s_TRANSFER_ENCODING [])) = 1%nat /\
    chunked p' = true /\ body p' = Some (BChunked chunked_init) /\
    headers p' = hpop (hpop h1 s_TRANSFER_ENCODING) s_CONTENT_LENGTH)).
Proof.
  unfold stage_11.
  destruct (negb (forallb _ _)) eqn:Efa; [discriminate|].
  apply negb_false_iff in Efa.
  destruct (stage_chunk _ _) as [q [e|]] eqn:Esc; [discriminate|].
  apply stage_chunk_ok in Esc. destruct Esc as (S3 & RL & CL & Hc).
  intro H. injection H as <-.
  assert (X : forall q : parser,
    let q' := (if existsb (fun t => beqb (strip_by is_sp_htab t) s_close) (split (lower_latin1 conn) [44])
               then q <| expect_continue := beqb (lower_latin1 (hget_default (headers q) s_EXPECT [])) s_100_continue |>
                      <| connection_close := true |>
               else q <| expect_continue := beqb (lower_latin1 (hget_default (headers q) s_EXPECT [])) s_100_continue |>) in
    status3 q' = status3 q /\ reqline q' = reqline q /\ content_length q' = content_length q /\
    chunked q' = chunked q /\ body q' = body q /\ headers q' = headers q).
  { intro q0. destruct (existsb _ (split (lower_latin1 conn) [44])); cbn; auto 8. }
  specialize (X q). cbv zeta in X. destruct X as (S3' & RL' & CL' & C' & B' & H').
  rewrite S3', RL', CL', C', B', H'.
  split; [exact S3|]. split; [exact RL|]. split; [exact CL|]. split; [exact Efa|].
  destruct Hc as [[He ->]|(Hl & C1 & B1 & H1)].
  - left. auto.
  - right. auto.
Qed.

Lemma stage_cl_ok p p' :
  stage_cl p = (p', PSOk) ->
  status3 p' = status3 p /\ reqline p' = reqline p /\ headers p' = headers p /\ chunked p' = chunked p /\
  ((chunked p = true /\ p' = p) \/
   (chunked p = false /\
    let cl := hget_default (headers p) s_CONTENT_LENGTH s_0 in
    matches gate_content_length cl = true /\
    content_length p' = dec_value cl /\
    body p' = if 0 <? dec_value cl then Some (BFixed (fixed_init (dec_value cl))) else body p)).
Proof.
  unfold stage_cl. destruct (chunked p) eqn:Ec.
  - intro H. injection H as <-. auto 8.
  - destruct (negb (matches _ _)) eqn:Em; [discriminate|]. apply negb_false_iff in Em.
    destruct (_ <? _) eqn:Edig; [discriminate|].
    intro H. injection H as <-.
    destruct (0 <? dec_value _) eqn:Epos; cbn; rewrite ?Epos; auto 10.
Qed.

(* ------------------------------------------------------------------ *)
(* a successful parse_header, as one statement *)

Record accepted_head (a : adj) (p p' : parser) (hp : bytes)
       (fl : bytes) (lines : list bytes) (h1 : hdict) : Prop := {
  ah_find : exists index, find hp CRLF = Some index /\
            fl = rstrip_by is_reqline_ws (firstn index hp) /\
            get_header_lines (skipn (index + 2) hp) = inr lines;
  ah_no_crlf : has_cr_or_lf fl = false;
  ah_lines : add_header_lines (headers p) lines = inr h1;
  ah_crack : crack_first_line fl = Some (command p', request_uri p', version p');
  ah_crack_ne : beqb (command p') [] && beqb (request_uri p') [] && beqb (version p') [] = false;
  ah_split : exists sc nl fr, split_uri (request_uri p') = SOk sc nl (path p') (query p') fr;
  ah_scheme : url_scheme p' = adj_url_scheme a;
  ah_status : status3 p' = status3 p;
  ah_framing :
    (chunked p' = true /\ version p' = s_1_1 /\ body p' = Some (BChunked chunked_init) /\
     headers p' = hpop (hpop h1 s_TRANSFER_ENCODING) s_CONTENT_LENGTH /\
     content_length p' = content_length p)
    \/
    (chunked p' = chunked p /\
     headers p' = (if beqb (version p') s_1_1 then hpop h1 s_TRANSFER_ENCODING else h1) /\
     (chunked p = false ->
      let cl := hget_default (headers p') s_CONTENT_LENGTH s_0 in
      matches gate_content_length cl = true /\
      content_length p' = dec_value cl /\
      body p' = if 0 <? dec_value cl then Some (BFixed (fixed_init (dec_value cl))) else body p))
}.

Lemma parse_header_ok a p hp p' :
  parse_header a p hp = (p', PSOk) ->
  exists fl lines h1, accepted_head a p p' hp fl lines h1.
Proof.
  rewrite parse_header_stages.
  destruct (find hp CRLF) as [index|] eqn:Hfind; [|discriminate].
  cbv zeta.
  destruct (has_cr_or_lf _) eqn:Hcr; [discriminate|].
  destruct (get_header_lines _) as [e|lines] eqn:Hl; [discriminate|].
  cbn [headers set].
  destruct (add_header_lines (headers p) lines) as [[e h]|h1] eqn:Hadd; [discriminate|].
  destruct (crack_first_line _) as [[[cmd uri] ver]|] eqn:Hcrack; [|discriminate].
  destruct (beqb cmd [] && beqb uri [] && beqb ver []) eqn:Ene; [discriminate|].
  unfold stage_uri.
  destruct (split_uri uri) as [sc nl pa qu fr| | |] eqn:Hsplit; try discriminate.
  set (fl := rstrip_by is_reqline_ws (firstn index hp)) in *.
  set (q0 := p <| first_line := fl |> <| headers := h1 |> <| request_uri := uri |> <| command := cmd |>
               <| version := ver |> <| p_scheme := sc |> <| p_netloc := nl |> <| path := pa |>
               <| query := qu |> <| fragment := fr |> <| url_scheme := adj_url_scheme a |>).
  set (conn := hget_default h1 s_CONNECTION []).
  set (q1a := if beqb ver s_1_0 && negb (beqb (lower_latin1 conn) s_keep_alive)
              then q0 <| connection_close := true |> else q0).
  set (q1 := if negb (beqb ver s_1_1)
                && (match hget h1 s_TRANSFER_ENCODING with Some _ => true | None => false end)
             then q1a <| connection_close := true |> else q1a).
  assert (Q1 : status3 q1 = status3 p /\ reqline q1 = (cmd, ver, uri, pa, qu, adj_url_scheme a) /\
               headers q1 = h1 /\ chunked q1 = chunked p /\ body q1 = body p /\
               content_length q1 = content_length p).
  { unfold q1, q1a. destruct (beqb ver s_1_0 && _); destruct (negb (beqb ver s_1_1) && _); cbn; auto 8. }
  destruct Q1 as (S1 & R1 & H1 & C1 & B1 & L1).
  cbv zeta.
  destruct (beqb ver s_1_1) eqn:E11.
  - destruct (stage_11 h1 conn q1) as [q2 [e|]] eqn:E2; [discriminate|].
    apply stage_11_ok in E2. destruct E2 as (S2 & R2 & L2 & Hfa & Hte).
    intro Hcl. apply stage_cl_ok in Hcl. destruct Hcl as (S3 & R3 & H3 & C3 & Hcl).
    exists fl, lines, h1.
    assert (RL : reqline p' = (cmd, ver, uri, pa, qu, adj_url_scheme a)) by congruence.
    unfold reqline in RL. injection RL as Rc Rv Ru Rp Rq Rs.
    constructor.
    + exists index. auto.
    + exact Hcr.
    + exact Hadd.
    + rewrite Rc, Ru, Rv. exact Hcrack.
    + rewrite Rc, Ru, Rv. exact Ene.
    + exists sc, nl, fr. rewrite Ru, Rp, Rq. exact Hsplit.
    + exact Rs.
    + congruence.
    + apply beqb_eq in E11.
      destruct Hte as [(Hnil & C2 & B2 & H2)|(Hlen & C2 & B2 & H2)].
      * right. split; [congruence|]. split.
        { rewrite Rv, E11. cbn. congruence. }
        intro Hcf. destruct Hcl as [[Ht _]|(Hf & Hrest)]; [congruence|].
        cbv zeta in Hrest. destruct Hrest as (M & CL & B). cbv zeta.
        rewrite H3. split; [exact M|]. split; [exact CL|]. rewrite B. rewrite B2, B1. reflexivity.
      * left. destruct Hcl as [[Ht ->]|(Hf & _)]; [|congruence].
        split; [exact C2|]. split; [congruence|]. split; [exact B2|]. split; [congruence|]. congruence.
  - intro Hcl. apply stage_cl_ok in Hcl. destruct Hcl as (S3 & R3 & H3 & C3 & Hcl).
    exists fl, lines, h1.
    assert (RL : reqline p' = (cmd, ver, uri, pa, qu, adj_url_scheme a)) by congruence.
    unfold reqline in RL. injection RL as Rc Rv Ru Rp Rq Rs.
    constructor.
    + exists index. auto.
    + exact Hcr.
    + exact Hadd.
    + rewrite Rc, Ru, Rv. exact Hcrack.
    + rewrite Rc, Ru, Rv. exact Ene.
    + exists sc, nl, fr. rewrite Ru, Rp, Rq. exact Hsplit.
    + exact Rs.
    + congruence.
    + right. split; [congruence|]. split.
      { rewrite Rv, E11. congruence. }
      intro Hcf. destruct Hcl as [[Ht _]|(Hf & Hrest)]; [congruence|].
      cbv zeta in Hrest. destruct Hrest as (M & CL & B). cbv zeta.
      rewrite H3. split; [exact M|]. split; [exact CL|]. rewrite B, B1. reflexivity.
Qed.
