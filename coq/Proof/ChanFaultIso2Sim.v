(* Proof/ChanFaultIso2Sim.v -- the simulation behind the trace-level isolation theorem.

   s1 is a state of the two-connection system in which anything may have happened to
   connection a; s2 is a state of the same system in which a never appeared.  [rel a b s1 s2]:
   they agree on the record of b, on b's worker, on the listener / trigger / loop flags; in s2
   the record of a is the initial one and a's worker has never run; the I/O thread's stack in
   s2 is the stack in s1 with a's instructions removed ([proj a]); while s1 unwinds an exception
   raised on behalf of a, s2 just waits.
   One step of s1 is matched ([sim_step]) by
     no step of s2        when a's worker moves, or the I/O thread executes / unwinds through an
                          instruction of a: nothing the observer of b sees changes ([io_a_step],
                          [wstep_local]);
     the same step        when b's worker moves or the I/O thread executes an instruction of b
                          with the same answer of the environment ([io_b_step], from DET/LOCAL);
     the same instruction with a removed from the environment's answer, for the instructions that
                          belong to no connection: the readable()/writable() pass, select / poll,
                          the dispatch of the listener and the trigger, accept ([shared_exec],
                          [io_shared_step]).
   What makes this go through is the stack-shape invariant of ChanFaultIso2Cov.v (an exception of
   a is caught by a frame of a) and the invariant of ChanFaultOnce.v (select is never called on
   a closed descriptor, `del map[fd]` never fails), i.e. the repairs of F17 and F18. *)
From Coq Require Import List Arith ZArith Bool Lia.
From WV Require Import Lib.Conc Model.ChanFault Proof.ChanFaultSpec Proof.ChanFaultBase Proof.ChanFaultStep
                       Proof.ChanFaultOnce Proof.ChanFaultListener Proof.ChanFaultIso Proof.ChanFaultIso2Cov Proof.ChanFaultIso2Proj.
Import ListNotations.

Definition base (a b : chan) (s1 s2 : state) : Prop :=
  getc s1 b = getc s2 b /\ srv5 s1 = srv5 s2 /\ getc s2 a = chan0.

Transparent getc setc setth set_srv set_dead maint asked_r asked_w map_empty.

Lemma maint_chan0 : forall m, maint chan0 m = chan0.
Proof. intro m. unfold maint. destruct m; reflexivity. Qed.

Lemma fd_open_base : forall a b s1 s2 f, a <> b -> base a b s1 s2 -> isfa a f = false -> fd_open s1 f = fd_open s2 f.
Proof.
  intros a b s1 s2 f Hab (Hb & Hs & Ha) Hf. unfold srv5 in Hs. injection Hs as E1 E2 E3 E4 E5.
  destruct f as [| |c]; simpl; auto.
  destruct a, b, c; try congruence; simpl in *; try discriminate; rewrite Hb; reflexivity.
Qed.

Lemma open_filt : forall a b s1 s2 e, a <> b -> base a b s1 s2 ->
  forallb (fd_open s1) e = true -> forallb (fd_open s2) (filt a e) = true.
Proof.
  intros a b s1 s2 e Hab HB. unfold filt. induction e as [|f e IH]; simpl; intro H; auto.
  apply andb_true_iff in H. destruct H as [Hf He].
  destruct (isfa a f) eqn:Ef; simpl; auto.
  rewrite <- (fd_open_base a b s1 s2 f Hab HB Ef), Hf. auto.
Qed.

Lemma asked_filt : forall g a b s1 s2, a <> b -> base a b s1 s2 ->
  asked_r g s2 = filt a (asked_r g s1) /\ asked_w s2 = filt a (asked_w s1).
Proof.
  intros g a b s1 s2 Hab (Hb & Hs & Ha). unfold srv5 in Hs. injection Hs as E1 E2 E3 E4 E5.
  unfold asked_r, asked_w, filt. rewrite !filter_app.
  destruct a, b; try congruence; simpl in *; rewrite ?Ha, ?Hb, ?E1, ?E2; simpl; split;
  repeat match goal with |- context [if ?c then _ else _] => destruct c end; reflexivity.
Qed.

Lemma shared_exec : forall g a b i ans s1 s2,
  a <> b -> base a b s1 s2 -> lst_in_map s1 = true -> chan_of i = None ->
  (forall r w e, i = ISelect r w e -> negb (use_poll2 g) && negb (forallb (fd_open s1) e) = false) ->
  match exec g IO i ans s1 with
  | Blocked => True
  | Raise _ _ _ => False
  | Norm s1' p1 l1 =>
      exists s2' l2, exec g IO (strip a i) (tr_ans a ans) s2 = Norm s2' (proj a p1) l2 /\
        base a b s1' s2' /\ view b l1 = view b l2 /\ labels_of a l2 = []
  end.
Proof.
  intros g a b i ans s1 s2 Hab HB HL Hc Hsel.
  destruct i; try discriminate Hc;
  try match goal with f : fdt |- _ => destruct f as [| |cc]; try discriminate Hc end.
  - (* IPoll *)
    cbn [exec strip].
    assert (HL2 : lst_in_map s2 = true).
    { destruct HB as (_ & Hs & _). unfold srv5 in Hs. injection Hs as E1 E2 E3 E4 E5. congruence. }
    assert (M1 : map_empty s1 = false) by (unfold map_empty; rewrite HL, orb_true_r; reflexivity).
    assert (M2 : map_empty s2 = false) by (unfold map_empty; rewrite HL2, orb_true_r; reflexivity).
    rewrite M1, M2.
    assert (MA : maint_of (tr_ans a ans) = maint_of ans).
    { destruct ans; simpl; auto. destruct r; simpl; auto. destruct (chan_eqb c a); reflexivity. }
    rewrite MA, HL, HL2.
    match goal with |- exists s2' l2, Norm ?x _ _ = _ /\ _ => set (s2n := x) end.
    match goal with |- context [base a b ?x _] => set (s1n := x) end.
    assert (HBn : base a b s1n s2n).
    { destruct HB as (Hb & Hs & Ha). unfold srv5 in Hs. injection Hs as E1 E2 E3 E4 E5.
      unfold s1n, s2n, base, srv5. destruct a, b; try congruence; simpl in *; rewrite ?Ha, ?Hb, ?maint_chan0; repeat split; congruence. }
    destruct (asked_filt g a b s1n s2n Hab HBn) as [Er Ew].
    exists s2n, []. split; [|split; [|split]]; auto.
    unfold proj. simpl. rewrite Er, Ew, filt_app. reflexivity.
  - (* ISelect *)
    cbn [exec strip]. specialize (Hsel r w e eq_refl). rewrite Hsel.
    assert (X : negb (use_poll2 g) && negb (forallb (fd_open s2) (filt a e)) = false).
    { destruct (use_poll2 g); simpl in *; auto. apply negb_false_iff in Hsel.
      rewrite (open_filt a b s1 s2 e Hab HB Hsel). reflexivity. }
    rewrite X. exists s2, []. repeat split; auto; apply HB.
  - (* ISelWait *)
    cbn [exec strip]. destruct (use_poll2 g).
    + destruct ans; trivial. destruct (p2_ok r w e l) eqn:P; trivial.
      simpl tr_ans. cbv iota. rewrite (p2_ok_filt a r w e l P).
      exists s2, []. split; [|split; [|split]]; auto.
      rewrite proj_app, proj_map_p2. reflexivity.
    + destruct ans; trivial.
      destruct (subset_fd r0 r && subset_fd w0 w && subset_fd e0 e && forallb is_chan_fd e0) eqn:P; trivial.
      apply andb_true_iff in P. destruct P as [P P4]. apply andb_true_iff in P. destruct P as [P P3].
      apply andb_true_iff in P. destruct P as [P1 P2].
      simpl tr_ans. cbv iota. rewrite (subset_filt a _ _ P1), (subset_filt a _ _ P2), (subset_filt a _ _ P3).
      assert (P4' : forallb is_chan_fd (filt a e0) = true) by (apply forallb_filter; auto).
      rewrite P4'. simpl andb. cbv iota.
      exists s2, []. split; [|split; [|split]]; auto.
      rewrite !proj_app, !proj_map_disp. reflexivity.
  - (* IDisp k FL *)
    pose proof HB as (Hb & Hs & Ha). unfold srv5 in Hs. injection Hs as E1 E2 E3 E4 E5.
    cbn [exec strip fd_in_map]. rewrite <- E1. destruct (lst_in_map s1).
    + exists s2, []. split; [destruct k; reflexivity|]. split; [exact HB|]. split; reflexivity.
    + exists s2, []. split; [reflexivity|]. split; [exact HB|]. split; reflexivity.
  - (* IDisp k FT *)
    pose proof HB as (Hb & Hs & Ha). unfold srv5 in Hs. injection Hs as E1 E2 E3 E4 E5.
    cbn [exec strip fd_in_map]. rewrite <- E2. destruct (trg_in_map s1).
    + exists s2, []. split; [destruct k; reflexivity|]. split; [exact HB|]. split; reflexivity.
    + exists s2, []. split; [reflexivity|]. split; [exact HB|]. split; reflexivity.
  - (* IDisp2 FL *)
    pose proof HB as (Hb & Hs & Ha). unfold srv5 in Hs. injection Hs as E1 E2 E3 E4 E5.
    cbn [exec strip fd_in_map]. rewrite <- E1. destruct (lst_in_map s1).
    + exists s2, []. split; [destruct rd, wr, pri, hup; reflexivity|]. split; [exact HB|]. split; reflexivity.
    + exists s2, []. split; [reflexivity|]. split; [exact HB|]. split; reflexivity.
  - (* IDisp2 FT *)
    pose proof HB as (Hb & Hs & Ha). unfold srv5 in Hs. injection Hs as E1 E2 E3 E4 E5.
    cbn [exec strip fd_in_map]. rewrite <- E2. destruct (trg_in_map s1).
    + exists s2, []. split; [destruct rd, wr, pri, hup; reflexivity|]. split; [exact HB|]. split; reflexivity.
    + exists s2, []. split; [reflexivity|]. split; [exact HB|]. split; reflexivity.
  - (* IRwClose FL *)
    cbn [exec strip]. exists s2, []. split; [reflexivity|]. split; [exact HB|]. split; reflexivity.
  - (* IRwClose FT *)
    cbn [exec strip]. exists s2, []. split; [reflexivity|]. split; [exact HB|]. split; reflexivity.
  - (* IAccept *)
    destruct HB as (Hb & Hs & Ha).
    cbn [exec strip]. destruct ans; trivial. destruct r as [c|e].
    + destruct (chan_dec c a) as [->|Hca].
      * simpl tr_ans. rewrite chan_eqb_refl. destruct (accepted (getc s1 a)); trivial.
        exists s2, [LCaught IO (XOSError EWOULDBLOCK)]. split; [|split; [|split]]; auto.
        -- f_equal. symmetry. apply proj_about_a. destruct (init_guarded g); unfold about; simpl; rewrite chan_eqb_refl; reflexivity.
        -- split; [|split]; auto.
           ++ change (getc (setc s1 a (upd_accepted (getc s1 a))) b = getc s2 b). rewrite getc_setc_other by auto. auto.
           ++ rewrite srv5_setc. auto.
        -- simpl. rewrite (neq_eqb a b) by auto. reflexivity.
      * assert (c = b) by (destruct a, b, c; congruence). subst c.
        simpl tr_ans. rewrite (neq_eqb a b) by auto. cbn [exec].
        rewrite <- Hb.
        destruct (accepted (getc s1 b)); trivial.
        exists (setc s2 b (upd_accepted (getc s1 b))), [LAccepted b]. split; [|split; [|split]]; auto.
        -- f_equal. symmetry. apply (proj_about_b a b); auto.
           destruct (init_guarded g); unfold about; simpl; rewrite chan_eqb_refl; reflexivity.
        -- split; [|split].
           ++ rewrite !getc_setc_same. reflexivity.
           ++ rewrite !srv5_setc. auto.
           ++ rewrite getc_setc_other by auto. auto.
        -- simpl. rewrite (neq_eqb b a) by auto. reflexivity.
    + simpl tr_ans. cbn [exec]. exists s2, [LCaught IO (XOSError e)]. split; [|split; [|split]]; auto. split; auto.
  - (* ITrigClose *)
    pose proof HB as (Hb & Hs & Ha). unfold srv5 in Hs. injection Hs as E1 E2 E3 E4 E5.
    cbn [exec strip]. rewrite <- E4, <- E2, <- E1, <- E3. destruct (trg_open s1).
    + eexists; eexists; split; [reflexivity|]. split; [|split].
      * unfold base. rewrite !getc_set_srv. split; [exact Hb|split; [|exact Ha]]. unfold srv5; simpl; congruence.
      * reflexivity.
      * destruct (trg_in_map s1); reflexivity.
    + exists s2, []. split; [reflexivity|]. split; [exact HB|]. split; reflexivity.
  - (* ILstClose *)
    pose proof HB as (Hb & Hs & Ha). unfold srv5 in Hs. injection Hs as E1 E2 E3 E4 E5.
    cbn [exec strip]. rewrite <- E4, <- E2, <- E1, <- E3.
    eexists; eexists; split; [reflexivity|]. split; [|split].
    * unfold base. rewrite !getc_set_srv. split; [exact Hb|split; [|exact Ha]]. unfold srv5; simpl; congruence.
    * reflexivity.
    * destruct (lst_in_map s1), (lst_open s1); reflexivity.
  - cbn [exec strip]. exists s2, []. split; [reflexivity|]. split; [exact HB|]. split; reflexivity.
  - cbn [exec strip]. exists s2, []. split; [reflexivity|]. split; [exact HB|]. split; reflexivity.
  - cbn [exec strip]. exists s2, []. split; [reflexivity|]. split; [exact HB|]. split; reflexivity.
  - cbn [exec strip]. exists s2, []. split; [reflexivity|]. split; [exact HB|]. split; reflexivity.
Qed.

Opaque getc setc setth set_srv set_dead maint asked_r asked_w map_empty.

(* ---- the simulation relation ----------------------------------------------------------------------------- *)
Definition head_a (a : chan) (l : list instr) : bool := match l with i :: _ => about a i | [] => false end.

Record rel (a b : chan) (s1 s2 : state) : Prop := {
  r_base : base a b s1 s2;
  r_wb : getth s1 (W b) = getth s2 (W b);
  r_wa : getth s2 (W a) = th0 [];
  r_stk : stk (getth s2 IO) = proj a (stk (getth s1 IO));
  r_rais : raising (getth s2 IO) =
           match raising (getth s1 IO) with
           | Some x => if head_a a (stk (getth s1 IO)) then None else Some x
           | None => None
           end
}.

Lemma rel_init : forall a b, a <> b -> rel a b init init.
Proof.
  intros a b Hab. constructor.
  - split; [reflexivity|split; [reflexivity|]]. destruct a; reflexivity.
  - reflexivity.
  - destruct a; reflexivity.
  - reflexivity.
  - reflexivity.
Qed.

Lemma about_unique : forall c d i, about c i = true -> about d i = true -> c = d.
Proof. intros c d i H1 H2. apply about_chan_of in H1, H2. congruence. Qed.

Lemma head_a_cons : forall a l, head_a a l = true -> exists i r, l = i :: r /\ about a i = true.
Proof. intros a [|i r] H; simpl in H; [discriminate|]. eauto. Qed.

Lemma prot_head_a : forall os c l, prot os c l = true -> head_a c l = true.
Proof. intros os c l H. destruct (prot_head _ _ _ H) as (k & r & -> & Hk). exact Hk. Qed.

Lemma head_other : forall a b l, a <> b -> head_a b l = true -> head_a a l = false.
Proof. intros a b [|i r] Hab H; simpl in *; auto. eapply about_other; eauto. Qed.

(* ---- a worker's step touches only its own connection ------------------------------------------------------- *)
Lemma wstep_local : forall g s c ans s' l d,
  wtagged s c -> d <> c -> step g s (W c, ans) = Some (s', l) ->
  getc s' d = getc s d /\ (forall u, u <> W c -> getth s' u = getth s u) /\ srv5 s' = srv5 s /\ hidden d l = true.
Proof.
  intros g s c ans s' l d Hw Hd H.
  assert (Hth : forall u, u <> W c -> getth s' u = getth s u) by (intros u Hu; eapply step_other_thread; eauto).
  assert (Ht : W c <> W d) by congruence.
  unfold wtagged in Hw. unfold step in H.
  destruct (raising (getth s (W c))) as [x|] eqn:R.
  - destruct (drop_to_frame (stk (getth s (W c)))) as [|k rest] eqn:D.
    + injection H as <- <-. rewrite getc_setth, srv5_setth. repeat split; auto.
      unfold hidden. simpl. rewrite (neq_eqb c d Hd). reflexivity.
    + assert (Hk : about c k = true).
      { assert (X : forallb (about c) (k :: rest) = true) by (rewrite <- D; apply forallb_drop_to_frame; auto).
        simpl in X. apply andb_true_iff in X. tauto. }
      pose proof (frame_local (W c) k x s c d (about_chan_of _ _ Hk) Hd) as FL.
      pose proof (frame_hidden (W c) k x s d Ht) as FH.
      destruct (frame (W c) k x s) as [s1 push ls|s1]; injection H as <- <-; rewrite getc_setth, srv5_setth.
      * destruct FL as (E1 & E2 & _ & _). repeat split; auto.
      * destruct FL as (E1 & E2). repeat split; auto.
  - destruct (stk (getth s (W c))) as [|i rest] eqn:S.
    + destruct (queued (getc s c)); [|discriminate]. injection H as <- <-.
      rewrite getc_setth, srv5_setth, srv5_setc, getc_setc_other by auto. repeat split; auto.
    + simpl in Hw. apply andb_true_iff in Hw. destruct Hw as [Hi Hr].
      pose proof (exec_local g (W c) i ans s c d (about_chan_of _ _ Hi) Hd) as EL.
      pose proof (exec_hidden g (W c) i ans s c d (about_chan_of _ _ Hi) Hd Ht) as EH.
      destruct (exec g (W c) i ans s) as [|s1 push ls|s1 x ls]; [discriminate| |]; injection H as <- <-;
        rewrite getc_setth, srv5_setth.
      * destruct EL as (E1 & E2 & _ & _). repeat split; auto.
      * destruct EL as (E1 & E2 & _). repeat split; auto.
Qed.

(* ---- the I/O thread executes (or unwinds through) an instruction of the faulted connection a ------------------ *)
Lemma io_a_step : forall g a b s1 ans s1' l1,
  a <> b -> init_guarded g = true -> SInv g s1 -> ioI (getth s1 IO) ->
  head_a a (stk (getth s1 IO)) = true -> step g s1 (IO, ans) = Some (s1', l1) ->
  getc s1' b = getc s1 b /\ srv5 s1' = srv5 s1 /\ (forall u, u <> IO -> getth s1' u = getth s1 u) /\
  proj a (stk (getth s1' IO)) = proj a (stk (getth s1 IO)) /\
  match raising (getth s1' IO) with Some _ => head_a a (stk (getth s1' IO)) = true | None => True end /\
  hidden b l1 = true.
Proof.
  intros g a b s1 ans s1' l1 Hab Hg HS HI Hh H.
  assert (Hth : forall u, u <> IO -> getth s1' u = getth s1 u) by (intros u Hu; eapply step_other_thread; eauto).
  assert (Hba : b <> a) by congruence.
  assert (Ht : IO <> W b) by discriminate.
  pose proof HI as [I1 I2 I3].
  unfold step in H.
  destruct (raising (getth s1 IO)) as [x|] eqn:R.
  - destruct (I3 x eq_refl) as (Hx & c & Hp).
    assert (c = a).
    { destruct (head_a_cons _ _ Hh) as (i & r & E & Hi). rewrite E in Hp. simpl in Hp.
      apply andb_true_iff in Hp. destruct Hp as [Hp _]. eapply about_unique; eauto. }
    subst c.
    destruct (prot_drop _ _ _ Hp) as (pre & k & rest & E1 & E2 & E3 & E4 & E5).
    rewrite E2 in H.
    assert (Hk : ioable k = true).
    { rewrite E1 in I1. eapply forallb_in; [exact I1|apply in_or_app; right; left; reflexivity]. }
    pose proof (frame_local IO k x s1 a b (about_chan_of _ _ E4) Hba) as FL.
    pose proof (frame_hidden IO k x s1 b Ht) as FH.
    pose proof (frame_cov IO k x s1 Hk Hx) as FC.
    assert (Ep : proj a (stk (getth s1 IO)) = proj a rest).
    { rewrite E1, proj_app, (proj_about_a a pre E3), (proj_cons_a a k rest E4). reflexivity. }
    destruct (frame IO k x s1) as [s1f push ls|s1f]; injection H as <- <-;
      rewrite getc_setth, srv5_setth, getth_setth_same; simpl.
    + destruct FL as (L1 & L2 & L3 & _). repeat split; auto.
      rewrite proj_app, (proj_about_a a push L3), Ep. reflexivity.
    + destruct FL as (L1 & L2). repeat split; auto.
      destruct E5 as [E5|E5]; [congruence|]. eapply prot_head_a; eauto.
  - destruct (head_a_cons _ _ Hh) as (i & rest & S & Hi). rewrite S in H, I1, I2.
    simpl in I1, I2. apply andb_true_iff in I1. destruct I1 as [Hio _].
    apply andb_true_iff in I2. destruct I2 as [Hic _].
    pose proof (exec_local g IO i ans s1 a b (about_chan_of _ _ Hi) Hba) as EL.
    pose proof (exec_hidden g IO i ans s1 a b (about_chan_of _ _ Hi) Hba Ht) as EH.
    pose proof (exec_own_stack g IO i ans s1) as EO.
    pose proof (selfcov_no_raise g s1 i rest ans) as NR.
    assert (Ep : proj a (stk (getth s1 IO)) = proj a rest) by (rewrite S; apply proj_cons_a; auto).
    destruct (exec g IO i ans s1) as [|s1f push ls|s1f x ls] eqn:E; [discriminate| |]; injection H as <- <-;
      rewrite getc_setth, srv5_setth, getth_setth_same; simpl.
    + destruct EL as (L1 & L2 & L3 & _). destruct EO as [_ ER]. rewrite ER, R. repeat split; auto.
      rewrite proj_app, (proj_about_a a push L3), Ep. reflexivity.
    + destruct EL as (L1 & L2 & _). repeat split; auto.
      destruct (selfcov i) eqn:Es; [exfalso; eapply NR; eauto|].
      simpl in Hic. rewrite (about_chan_of _ _ Hi) in Hic. eapply prot_head_a; eauto.
Qed.

(* ---- the I/O thread executes (or unwinds through) an instruction of the observed connection b ------------------ *)
Lemma io_b_step : forall g a b s1 s2 ans s1' l1,
  a <> b -> init_guarded g = true -> SInv g s1 -> ioI (getth s1 IO) -> rel a b s1 s2 ->
  head_a b (stk (getth s1 IO)) = true -> step g s1 (IO, ans) = Some (s1', l1) ->
  exists s2', step g s2 (IO, ans) = Some (s2', l1) /\ rel a b s1' s2' /\ labels_of a l1 = [].
Proof.
  intros g a b s1 s2 ans s1' l1 Hab Hg HS HI [(Hb & Hs & Ha) Rwb Rwa Rstk Rr] Hh H.
  pose proof HI as [I1 I2 I3].
  pose proof (head_other a b _ Hab Hh) as Hna.
  assert (Ht : forall c, IO <> W c) by (intro; discriminate).
  unfold step in H. unfold step.
  destruct (raising (getth s1 IO)) as [x|] eqn:R.
  - rewrite Hna in Rr. rewrite Rr, Rstk.
    destruct (I3 x eq_refl) as (Hx & c & Hp).
    assert (c = b).
    { destruct (head_a_cons _ _ Hh) as (i & r & E & Hi). rewrite E in Hp. simpl in Hp.
      apply andb_true_iff in Hp. destruct Hp as [Hp _]. eapply about_unique; eauto. }
    subst c.
    destruct (prot_drop _ _ _ Hp) as (pre & k0 & rest0 & E1 & E2' & _ & _ & _).
    destruct (prot_drop_proj a b _ _ Hab Hp) as (k & rest & E2 & E3 & E4 & E5).
    rewrite E2 in E2'. injection E2' as <- <-.
    rewrite E2 in H. rewrite E3.
    assert (Hk : ioable k = true).
    { rewrite E1 in I1. eapply forallb_in; [exact I1|apply in_or_app; right; left; reflexivity]. }
    pose proof (frame_det2 IO k x s1 s2 b (about_chan_of _ _ E4) Hb) as FD.
    pose proof (frame_local IO k x s1 b a (about_chan_of _ _ E4) Hab) as FL1.
    pose proof (frame_local IO k x s2 b a (about_chan_of _ _ E4) Hab) as FL2.
    pose proof (frame_other_thread IO k x s1 (W b) (Ht b)) as FO1.
    pose proof (frame_other_thread IO k x s2 (W b) (Ht b)) as FO2.
    pose proof (frame_other_thread IO k x s2 (W a) (Ht a)) as FO3.
    pose proof (frame_cov IO k x s1 Hk Hx) as FC.
    unfold same_fr in FD.
    destruct (frame IO k x s1) as [s1f p1 ls1|s1f]; destruct (frame IO k x s2) as [s2f p2 ls2|s2f]; try contradiction;
      injection H as <- <-.
    + destruct FD as (<- & <- & Eb). destruct FL1 as (A1 & S1 & P1 & N1). destruct FL2 as (A2 & S2 & _ & _).
      eexists. split; [reflexivity|]. split; [|apply not_about_labels; auto].
      constructor; unfold base; rewrite ?getc_setth, ?srv5_setth, ?getth_setth_same, ?getth_setth_other by (apply Ht); simpl.
      * split; [auto|split; congruence].
      * congruence.
      * congruence.
      * rewrite proj_app, (proj_about_b a b p1 Hab P1). reflexivity.
      * reflexivity.
    + destruct FL1 as (A1 & S1). destruct FL2 as (A2 & S2).
      eexists. split; [reflexivity|]. split; [|reflexivity].
      constructor; unfold base; rewrite ?getc_setth, ?srv5_setth, ?getth_setth_same, ?getth_setth_other by (apply Ht); simpl.
      * split; [auto|split; congruence].
      * congruence.
      * congruence.
      * reflexivity.
      * destruct E5 as [E5|E5]; [congruence|].
        rewrite (head_other a b rest Hab (prot_head_a _ _ _ E5)). reflexivity.
  - rewrite Rr, Rstk.
    destruct (head_a_cons _ _ Hh) as (i & rest & S & Hi). rewrite S in H, I1, I2. rewrite S.
    rewrite (proj_cons_na a i rest (about_other a b i Hab Hi)), (strip_about a b i Hi).
    simpl in I1, I2. apply andb_true_iff in I1. destruct I1 as [Hio _].
    apply andb_true_iff in I2. destruct I2 as [Hic _].
    pose proof (exec_det2 g IO i ans s1 s2 b Hio (about_chan_of _ _ Hi) Hb) as ED.
    pose proof (exec_local g IO i ans s1 b a (about_chan_of _ _ Hi) Hab) as EL1.
    pose proof (exec_local g IO i ans s2 b a (about_chan_of _ _ Hi) Hab) as EL2.
    pose proof (exec_other_thread g IO i ans s1 (W b) (Ht b)) as EO1.
    pose proof (exec_other_thread g IO i ans s2 (W b) (Ht b)) as EO2.
    pose proof (exec_other_thread g IO i ans s2 (W a) (Ht a)) as EO3.
    pose proof (exec_own_stack g IO i ans s1) as EW1.
    pose proof (exec_own_stack g IO i ans s2) as EW2.
    pose proof (selfcov_no_raise g s1 i rest ans) as NR.
    unfold same_out in ED.
    destruct (exec g IO i ans s1) as [|s1f p1 ls1|s1f x1 ls1] eqn:E; [discriminate| |];
      destruct (exec g IO i ans s2) as [|s2f p2 ls2|s2f x2 ls2]; try contradiction; injection H as <- <-.
    + destruct ED as (<- & <- & Eb). destruct EL1 as (A1 & S1 & P1 & N1). destruct EL2 as (A2 & S2 & _ & _).
      destruct EW1 as [_ ER1]. destruct EW2 as [_ ER2].
      eexists. split; [reflexivity|]. split; [|apply not_about_labels; auto].
      constructor; unfold base; rewrite ?getc_setth, ?srv5_setth, ?getth_setth_same, ?getth_setth_other by (apply Ht); simpl.
      * split; [auto|split; congruence].
      * congruence.
      * congruence.
      * rewrite proj_app, (proj_about_b a b p1 Hab P1). reflexivity.
      * rewrite ER1, ER2, R, Rr. reflexivity.
    + destruct ED as (<- & <- & Eb). destruct EL1 as (A1 & S1 & N1). destruct EL2 as (A2 & S2 & _).
      eexists. split; [reflexivity|]. split; [|apply not_about_labels; auto].
      constructor; unfold base; rewrite ?getc_setth, ?srv5_setth, ?getth_setth_same, ?getth_setth_other by (apply Ht); simpl.
      * split; [auto|split; congruence].
      * congruence.
      * congruence.
      * reflexivity.
      * destruct (selfcov i) eqn:Es; [exfalso; eapply NR; eauto|].
        simpl in Hic. rewrite (about_chan_of _ _ Hi) in Hic.
        rewrite (head_other a b rest Hab (prot_head_a _ _ _ Hic)). reflexivity.
Qed.

(* ---- the I/O thread executes an instruction that belongs to no connection (the poll turn, accept) -------------- *)
Lemma io_shared_step : forall g a b s1 s2 ans s1' l1 i rest,
  a <> b -> init_guarded g = true -> SInv g s1 -> ioI (getth s1 IO) -> lst_in_map s1 = true -> rel a b s1 s2 ->
  stk (getth s1 IO) = i :: rest -> chan_of i = None -> step g s1 (IO, ans) = Some (s1', l1) ->
  exists s2' l2, step g s2 (IO, tr_ans a ans) = Some (s2', l2) /\ rel a b s1' s2' /\
                 view b l1 = view b l2 /\ labels_of a l2 = [].
Proof.
  intros g a b s1 s2 ans s1' l1 i rest Hab Hg HS HI HL [HB Rwb Rwa Rstk Rr] S Hc H.
  pose proof HI as [I1 I2 I3].
  assert (Ht : forall c, IO <> W c) by (intro; discriminate).
  assert (Hna : about a i = false) by (unfold about; rewrite Hc; reflexivity).
  assert (R : raising (getth s1 IO) = None).
  { destruct (raising (getth s1 IO)) as [x|] eqn:R; auto.
    destruct (I3 x eq_refl) as (_ & c & Hp). rewrite S in Hp. simpl in Hp.
    apply andb_true_iff in Hp. destruct Hp as [Hp _]. apply about_chan_of in Hp. congruence. }
  rewrite R in Rr. rewrite S in Rstk, I1. rewrite (proj_cons_na a i rest Hna) in Rstk.
  simpl in I1. apply andb_true_iff in I1. destruct I1 as [Hio _].
  assert (Hsc : selfcov i = true).
  { rewrite S in I2. simpl in I2. rewrite Hc in I2. apply andb_true_iff in I2. destruct I2 as [I2 _].
    rewrite orb_false_r in I2. exact I2. }
  assert (Hsel : forall r w e, i = ISelect r w e -> negb (use_poll2 g) && negb (forallb (fd_open s1) e) = false).
  { intros r w e ->. destruct (negb (use_poll2 g) && negb (forallb (fd_open s1) e)) eqn:C; auto.
    exfalso. eapply (selfcov_no_raise g s1 (ISelect r w e) rest ans); eauto. cbn [exec]. rewrite C. reflexivity. }
  pose proof (shared_exec g a b i ans s1 s2 Hab HB HL Hc Hsel) as SE.
  pose proof (exec_other_thread g IO i ans s1 (W b) (Ht b)) as EO1.
  pose proof (exec_own_stack g IO i ans s1) as EW1.
  unfold step in H. rewrite R, S in H. unfold step. rewrite Rr, Rstk.
  destruct (exec g IO i ans s1) as [|s1f p1 ls1|s1f x1 ls1] eqn:E; [discriminate| |contradiction].
  injection H as <- <-.
  destruct SE as (s2f & l2 & E2 & (Hb' & Hs' & Ha') & Ev & El).
  pose proof (exec_other_thread g IO (strip a i) (tr_ans a ans) s2 (W b) (Ht b)) as EO2.
  pose proof (exec_other_thread g IO (strip a i) (tr_ans a ans) s2 (W a) (Ht a)) as EO3.
  pose proof (exec_own_stack g IO (strip a i) (tr_ans a ans) s2) as EW2.
  rewrite E2 in *. destruct EW1 as [_ ER1]. destruct EW2 as [_ ER2].
  eexists. eexists. split; [reflexivity|]. split; [|split; auto].
  constructor; unfold base; rewrite ?getc_setth, ?srv5_setth, ?getth_setth_same, ?getth_setth_other by (apply Ht); simpl.
  - split; [auto|split; auto].
  - congruence.
  - congruence.
  - rewrite proj_app. reflexivity.
  - rewrite ER1, ER2, R, Rr. reflexivity.
Qed.

(* ---- one step of the faulted system is matched by at most one step of the system without a --------------------- *)
Lemma sim_step : forall g a b s1 s2 ch s1' l1,
  a <> b -> init_guarded g = true -> SInv g s1 -> ioI (getth s1 IO) -> lst_in_map s1 = true ->
  (forall c, wtagged s1 c) -> rel a b s1 s2 -> step g s1 ch = Some (s1', l1) ->
  exists (o : option choice) s2' l2,
    match o with
    | None => s2' = s2 /\ l2 = []
    | Some ch2 => step g s2 ch2 = Some (s2', l2)
    end /\ rel a b s1' s2' /\ view b l1 = view b l2 /\ labels_of a l2 = [].
Proof.
  intros g a b s1 s2 [t ans] s1' l1 Hab Hg HS HI HL Hw HR H.
  assert (Hba : b <> a) by congruence.
  destruct t as [|c].
  - pose proof HI as [I1 I2 I3].
    destruct (stk (getth s1 IO)) as [|i rest] eqn:S.
    { exfalso. unfold step in H. rewrite S in H. destruct (raising (getth s1 IO)) as [x|] eqn:R; [|discriminate].
      destruct (I3 x eq_refl) as (_ & c & Hp). discriminate. }
    destruct (chan_of i) as [c|] eqn:Ec.
    + assert (Hi : about c i = true) by (unfold about; rewrite Ec; apply chan_eqb_refl).
      destruct (chan_dec c a) as [->|Hca].
      * assert (Hh : head_a a (stk (getth s1 IO)) = true) by (rewrite S; exact Hi).
        destruct (io_a_step g a b s1 ans s1' l1 Hab Hg HS HI Hh H) as (E1 & E2 & E3 & E4 & E5 & E6).
        exists None, s2, []. split; [auto|]. split; [|split; [apply hidden_view; auto|reflexivity]].
        destruct HR as [(Hb & Hs & Ha) Rwb Rwa Rstk Rr]. constructor.
        -- split; [congruence|split; [congruence|auto]].
        -- rewrite E3 by discriminate. auto.
        -- auto.
        -- rewrite E4. auto.
        -- assert (X : raising (getth s2 IO) = None).
           { rewrite Rr. destruct (raising (getth s1 IO)); auto. rewrite Hh. reflexivity. }
           rewrite X. destruct (raising (getth s1' IO)); auto. rewrite E5. reflexivity.
      * assert (c = b) by (destruct a, b, c; congruence). subst c.
        assert (Hh : head_a b (stk (getth s1 IO)) = true) by (rewrite S; exact Hi).
        destruct (io_b_step g a b s1 s2 ans s1' l1 Hab Hg HS HI HR Hh H) as (s2' & E1 & E2 & E3).
        exists (Some (IO, ans)), s2', l1. auto.
    + destruct (io_shared_step g a b s1 s2 ans s1' l1 i rest Hab Hg HS HI HL HR S Ec H) as (s2' & l2 & E1 & E2 & E3 & E4).
      exists (Some (IO, tr_ans a ans)), s2', l2. auto.
  - destruct HR as [(Hb & Hs & Ha) Rwb Rwa Rstk Rr].
    destruct (chan_dec c a) as [->|Hca].
    + destruct (wstep_local g s1 a ans s1' l1 b (Hw a) Hba H) as (E1 & E2 & E3 & E4).
      exists None, s2, []. split; [auto|]. split; [|split; [apply hidden_view; auto|reflexivity]].
      assert (Eio : getth s1' IO = getth s1 IO) by (apply E2; discriminate).
      constructor.
      * split; [congruence|split; [congruence|auto]].
      * rewrite E2 by congruence. auto.
      * auto.
      * rewrite Eio. auto.
      * rewrite Eio. auto.
    + assert (c = b) by (destruct a, b, c; congruence). subst c.
      pose proof (worker_two_run g s1 s2 b ans (Hw b) Hb Rwb) as TW. unfold same_step in TW. rewrite H in TW.
      destruct (step g s2 (W b, ans)) as [[s2' l2]|] eqn:H2; [|contradiction].
      destruct TW as (T1 & T2 & <-).
      assert (Hw2 : wtagged s2 b) by (unfold wtagged; rewrite <- Rwb; apply Hw).
      destruct (wstep_local g s1 b ans s1' l1 a (Hw b) Hab H) as (E1 & E2 & E3 & E4).
      destruct (wstep_local g s2 b ans s2' l1 a Hw2 Hab H2) as (F1 & F2 & F3 & F4).
      assert (Eio1 : getth s1' IO = getth s1 IO) by (apply E2; discriminate).
      assert (Eio2 : getth s2' IO = getth s2 IO) by (apply F2; discriminate).
      exists (Some (W b, ans)), s2', l1. split; [auto|]. split; [|split; [reflexivity|apply hidden_labels_of; auto]].
      constructor.
      * split; [auto|split; congruence].
      * auto.
      * rewrite F2 by congruence. auto.
      * rewrite Eio1, Eio2. auto.
      * rewrite Eio1, Eio2. auto.
Qed.
