(* The specification side of C20, written without looking at the generated
   terms: which configurations must be refused. *)
From Coq Require Import List NArith ZArith Bool.
From WV Require Import Lib.PyBytes Gen.GenAdjust Model.Adjust.
Import ListNotations.
Local Open Scope N_scope.

(* ---- mutually exclusive ways of saying where to listen ---- *)
Definition s_listen : str := [108;105;115;116;101;110].
Definition s_host : str := [104;111;115;116].
Definition s_port : str := [112;111;114;116].
Definition s_sockets : str := [115;111;99;107;101;116;115].
Definition s_unix_socket : str := [117;110;105;120;95;115;111;99;107;101;116].

Definition exclusive_names : list str := [s_listen; s_host; s_port; s_sockets; s_unix_socket].

(* the four groups: listen | host and/or port | sockets | unix_socket *)
Definition groups_present (present : str -> bool) : list bool :=
  [present s_listen; present s_host || present s_port; present s_sockets; present s_unix_socket].

(* refused exactly when two different groups are present *)
Definition two_groups (present : str -> bool) : bool :=
  Nat.leb 2 (length (filter (fun b : bool => b) (groups_present present))).

Fixpoint subsets {A} (l : list A) : list (list A) :=
  match l with
  | [] => [[]]
  | x :: l' => let r := subsets l' in r ++ map (cons x) r
  end.

(* ---- proxy options ---- *)
Definition s_forwarded : str := [102;111;114;119;97;114;100;101;100].
Definition xfwd (suffix : str) : str := [120;45;102;111;114;119;97;114;100;101;100;45] ++ suffix.
Definition spec_known_headers : list str :=
  [s_forwarded; xfwd [98;121]; xfwd [102;111;114]; xfwd [104;111;115;116]; xfwd [112;111;114;116];
   xfwd [112;114;111;116;111]].

(* truth-table form over the seven atoms read by the code *)
Definition proxy_spec (tp_none tpc_none count_below hdrs_nonempty has_unknown has_forwarded has_other : bool) : bool :=
  (negb tpc_none && tp_none)                 (* trusted_proxy_count without trusted_proxy *)
  || (negb tpc_none && count_below)          (* trusted_proxy_count below 1 *)
  || (hdrs_nonempty && tp_none)              (* trusted_proxy_headers without trusted_proxy *)
  || (hdrs_nonempty && has_unknown)          (* unknown header kind *)
  || (hdrs_nonempty && has_forwarded && has_other). (* Forwarded together with X-Forwarded-* *)

(* the same over the configured values: count = the given trusted_proxy_count, if any *)
Definition proxy_conflict (tp_none : bool) (count : option Z) (hdrs : list str) : Prop :=
  (count <> None /\ tp_none = true)
  \/ (exists z, count = Some z /\ (z < 1)%Z)
  \/ (hdrs <> [] /\ tp_none = true)
  \/ (exists h, In h hdrs /\ ~ In (lower_latin1 h) spec_known_headers)
  \/ (In s_forwarded (map lower_latin1 hdrs) /\ exists h, In h hdrs /\ lower_latin1 h <> s_forwarded).

(* ---- socket lists ---- *)
Inductive skind := KInet | KUnix | KUnsupported.
Definition sock_kind (e : env) (s : sock) : skind :=
  match s with
  | (_, f, StStream) =>
    match f with
    | SfInet | SfInet6 => KInet
    | SfUnix => if has_af_unix e then KUnix else KUnsupported
    | SfOther => KUnsupported
    end
  | (_, _, StOther) => KUnsupported
  end.
Definition skind_eqb (a b : skind) : bool :=
  match a, b with KInet, KInet | KUnix, KUnix | KUnsupported, KUnsupported => true | _, _ => false end.

Definition socks_conflict (e : env) (l : list sock) : Prop :=
  (exists s, In s l /\ sock_kind e s = KUnsupported)
  \/ ((exists s, In s l /\ sock_kind e s = KUnix) /\ (exists s, In s l /\ sock_kind e s = KInet)).

(* ---- address families ---- *)
Definition allows4 (f : family) : bool := match f with FamInet6 => false | _ => true end.
Definition allows6 (f : family) : bool := match f with FamInet => false | _ => true end.
Definition honours (ipv4 ipv6 : bool) (f : family) : Prop := allows4 f = ipv4 /\ allows6 f = ipv6.

(* ---- host / port given without listen ---- *)
(* the listen list is derived from host and port as soon as one of them is given *)
Definition hostport_spec (host_is_default port_is_default : bool) : bool := negb (host_is_default && port_is_default).

(* ---- asbool ---- *)
(* t true y yes on 1 (sorted by code point) *)
Definition spec_truthy : list str := [[49]; [111;110]; [116]; [116;114;117;101]; [121]; [121;101;115]].
