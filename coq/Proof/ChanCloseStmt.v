(* Proof/ChanCloseStmt.v -- the statement of C11 by positions in the label trace, for EVERY kind of
   close decision, proved for every schedule and every lookahead; and the two schedules that
   refuted it before /repo 64d926d (finding F22), replayed on the present model: the second
   request is no longer executed. *)
From Coq Require Import List Arith Bool.
From WV Require Import Lib.Conc Model.ChanClose Proof.ChanCloseBase Proof.ChanCloseInv.
Import ListNotations.

Definition C11_full : Prop :=
  forall L sched i j kd k,
    let tr := trace step (init L) sched in
    nth_error tr i = Some (LDecide kd) ->
    nth_error tr j = Some (LServiceStart k) -> i < j ->
    forall r, ~ In (LAppCall k r) tr.

Theorem C11_full_holds : C11_full.
Proof.
  intros L sched i j kd k tr Hi Hj Lt.
  apply (C11_partial_positions L sched i j kd k Hi eq_refl Hj Lt).
Qed.

Definition io_n (n : nat) : list choice := repeat (CIo ENone) n.
Definition wk_n (w n : nat) : list choice := repeat (CWk w WNone) n.

(* one poll turn: readable() = True, writable() = False, select reports the socket readable,
   recv returns two complete requests, received() queues both and submits the channel *)
Definition read_two : list choice :=
  io_n 3 ++ [CIo (ELen 0); CIo (ELen 0)] ++ io_n 2 ++
  [CIo (ESelect true false); CIo (ERecv (RData [IReq false; IReq false]))] ++ io_n 11.

(* F22, worker side: the worker serving the first request hits a send error that is not a
   disconnect inside write_soon (will_close := True without the lock), finishes normally and
   chains the second request -- whose service() now reads will_close and takes the close branch *)
Definition sched_f22 : list choice :=
  read_two ++
  wk_n 0 5 ++                        (* popleft; service(); requests[0]; connected; will_close -> application *)
  [CWk 0 WFlushErr] ++               (* write_soon: _flush_exception -> will_close := True *)
  [CWk 0 (WLock false)] ++           (* close_on_finish = False: keep branch *)
  wk_n 0 5 ++                        (* pop(0); connected; requests; add_task; release *)
  wk_n 0 5 ++                        (* popleft; service(); requests[0]; connected; will_close: True *)
  [CWk 0 (WLock true)] ++ wk_n 0 3.  (* forced close branch: close_when_flushed, requests := [] *)

(* F22, I/O side: the send error is hit by handle_write while the first task runs *)
Definition sched_f22_io : list choice :=
  read_two ++
  wk_n 0 5 ++
  io_n 3 ++ [CIo (ELen 1); CIo (ELen 1); CIo (ESelect false true)] ++
  [CIo (EFlush FErr)] ++             (* handle_write: _flush_exception -> will_close := True *)
  [CWk 0 (WLock false)] ++ wk_n 0 5 ++ wk_n 0 5 ++ [CWk 0 (WLock true)] ++ wk_n 0 3.

Example f22_trace_now : trace step (init 0) sched_f22 =
  [LQueued 0; LAddTask ByIO; LQueued 1; LServiceStart 0; LServiceReq 0 0; LAppCall 0 0;
   LDecide DFlushErrW; LAddTask (ByW 0); LServiceEnd 0; LServiceStart 1; LServiceReq 1 1;
   LDecide DWorkerClose; LServiceEnd 1].
Proof. vm_compute. reflexivity. Qed.

Example f22_io_trace_now : trace step (init 0) sched_f22_io =
  [LQueued 0; LAddTask ByIO; LQueued 1; LServiceStart 0; LServiceReq 0 0; LAppCall 0 0;
   LDecide DFlushErrIO; LAddTask (ByW 0); LServiceEnd 0; LServiceStart 1; LServiceReq 1 1;
   LDecide DWorkerClose; LServiceEnd 1].
Proof. vm_compute. reflexivity. Qed.

(* The hypotheses of the theorem are satisfiable: a decision (handle_close after a disconnect seen
   by handle_write) followed by a service() invocation of a request that was queued behind it --
   which then does not call the application. *)
Definition sched_nonvacuous : list choice :=
  read_two ++
  io_n 3 ++ [CIo (ELen 1); CIo (ESelect false true); CIo (EFlush FDisc)] ++
  wk_n 0 4.

Example C11_nonvacuous :
  trace step (init 0) sched_nonvacuous =
  [LQueued 0; LAddTask ByIO; LQueued 1; LDecide DHandleClose; LServiceStart 0; LServiceReq 0 0].
Proof. vm_compute. reflexivity. Qed.
