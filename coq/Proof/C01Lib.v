(* Small lemmas shared by the C01 proofs: languages of character-class
   repetitions as [forallb], PyBytes.split on one byte as a structural
   function, strip / trim, lower-casing against an ASCII word. *)
From Coq Require Import List NArith Bool Lia Arith.
From WV Require Import Lib.PyBytes Lib.Regex Lib.RegexDec Spec.Grammar Spec.Ref9112.
Import ListNotations.
Local Open Scope N_scope.

(* ---------------------------------------------------------------- *)
(* character-class repetitions *)

Lemma matches_Emp s : matches Emp s = false.
Proof. induction s; simpl; auto. Qed.

Lemma matches_star_cls rs s :
  matches (Star (Cls rs)) s = forallb (fun x => in_ranges x rs) s.
Proof.
  induction s as [|x s IH]; simpl; auto.
  destruct (in_ranges x rs); simpl.
  - exact IH.
  - apply matches_Emp.
Qed.

Lemma matches_plus_cls rs s :
  matches (Plus (Cls rs)) s = match s with [] => false | _ => forallb (fun x => in_ranges x rs) s end.
Proof.
  destruct s as [|x s]; simpl; auto.
  destruct (in_ranges x rs); simpl.
  - apply matches_star_cls.
  - apply matches_Emp.
Qed.

Lemma Lang_star_cls rs s : Lang (Star (Cls rs)) s <-> forallb (fun x => in_ranges x rs) s = true.
Proof. rewrite <- matches_correct, matches_star_cls. tauto. Qed.

Lemma Lang_plus_cls rs s :
  Lang (Plus (Cls rs)) s <-> s <> [] /\ forallb (fun x => in_ranges x rs) s = true.
Proof.
  rewrite <- matches_correct, matches_plus_cls. destruct s; simpl.
  - split; [discriminate|intros [H _]; congruence].
  - split; [intro H; split; [discriminate|auto] | intros [_ H]; auto].
Qed.

(* bytes other than CR and LF: what a header value is made of once the line
   splitter has refused bare CR / LF *)
Definition clean (v : bytes) : bool := forallb (fun x => in_ranges x [(0,9); (11,12); (14,255)]) v.

Lemma clean_no_crlf v : clean v = true -> Lang no_crlf v.
Proof. intro H. apply Lang_star_cls. exact H. Qed.

Lemma clean_bytes_ok v : clean v = true -> bytes_ok v.
Proof.
  unfold clean, bytes_ok. rewrite forallb_forall, Forall_forall. intros H x Hx.
  specialize (H x Hx). simpl in H.
  repeat (apply orb_true_iff in H as [H|H]); try discriminate;
    apply andb_true_iff in H as [_ H]; apply N.leb_le in H; lia.
Qed.

Lemma clean_app a b : clean (a ++ b) = clean a && clean b.
Proof. unfold clean. apply forallb_app. Qed.

(* ---------------------------------------------------------------- *)
(* s.split(b",") is the structural split *)

Lemma startswith_nil s : startswith s [] = true.
Proof. destruct s; reflexivity. Qed.

Lemma startswith_one s c : startswith s [c] = match s with x :: _ => c =? x | [] => false end.
Proof. destruct s; simpl; auto. rewrite startswith_nil, andb_true_r. auto. Qed.

Lemma find_from_one_none s c i :
  forallb (fun x => negb (x =? c)) s = true -> find_from s [c] i = None.
Proof.
  revert i; induction s as [|x s IH]; intros i H; simpl in *.
  - reflexivity.
  - apply andb_true_iff in H as [H1 H2]. rewrite startswith_nil, andb_true_r.
    rewrite N.eqb_sym. destruct (x =? c); simpl in *; try discriminate. auto.
Qed.

Lemma find_from_one_some pre c post i :
  forallb (fun x => negb (x =? c)) pre = true ->
  find_from (pre ++ c :: post) [c] i = Some (i + length pre)%nat.
Proof.
  revert i; induction pre as [|x pre IH]; intros i H; simpl in *.
  - rewrite N.eqb_refl. simpl. rewrite startswith_nil. f_equal. lia.
  - apply andb_true_iff in H as [H1 H2]. rewrite startswith_nil, andb_true_r. rewrite N.eqb_sym.
    destruct (x =? c); simpl in *; try discriminate. rewrite IH; auto. f_equal. lia.
Qed.

(* decomposition of a string at the first occurrence of c *)
Lemma first_occurrence c s :
  forallb (fun x => negb (x =? c)) s = true \/
  exists pre post, s = pre ++ c :: post /\ forallb (fun x => negb (x =? c)) pre = true.
Proof.
  induction s as [|x s IH]; simpl; auto.
  destruct (x =? c) eqn:E; simpl.
  - right. exists [], s. apply N.eqb_eq in E. subst. auto.
  - destruct IH as [H|(pre & post & -> & H)]; auto.
    right. exists (x :: pre), post. simpl. rewrite E. auto.
Qed.

Lemma split_on_acc c s cur :
  split_on c s cur = match split_on c s [] with
                     | h :: t => (rev cur ++ h) :: t
                     | [] => []
                     end.
Proof.
  revert cur; induction s as [|x s IH]; intro cur; simpl.
  - rewrite app_nil_r. reflexivity.
  - destruct (x =? c).
    + rewrite app_nil_r. reflexivity.
    + rewrite (IH (x :: cur)), (IH [x]). destruct (split_on c s []); auto.
      simpl. rewrite <- app_assoc. reflexivity.
Qed.

Lemma split_on_none c s : forallb (fun x => negb (x =? c)) s = true -> split_on c s [] = [s].
Proof.
  induction s as [|x s IH]; simpl; auto.
  intro H. apply andb_true_iff in H as [H1 H2]. destruct (x =? c); try discriminate.
  rewrite split_on_acc, IH; auto.
Qed.

Lemma split_on_some c pre post :
  forallb (fun x => negb (x =? c)) pre = true ->
  split_on c (pre ++ c :: post) [] = pre :: split_on c post [].
Proof.
  induction pre as [|x pre IH]; simpl; intro H.
  - rewrite N.eqb_refl. reflexivity.
  - apply andb_true_iff in H as [H1 H2]. destruct (x =? c); try discriminate.
    rewrite split_on_acc, IH; auto.
Qed.

Lemma split_fuel_split_on c : forall fuel s, (length s < fuel)%nat ->
  split_fuel fuel s [c] = split_on c s [].
Proof.
  induction fuel as [|f IH]; intros s Hl; [lia|].
  simpl. unfold find.
  destruct (first_occurrence c s) as [H|(pre & post & -> & H)].
  - rewrite find_from_one_none, split_on_none; auto.
  - rewrite find_from_one_some, split_on_some; auto.
    assert (E : forall k, k = (0 + length pre + length [c])%nat -> skipn k (pre ++ c :: post) = post).
    { intros k ->. simpl.
      replace (length pre + 1)%nat with (length (pre ++ [c])) by (rewrite app_length; simpl; lia).
      replace (pre ++ c :: post) with ((pre ++ [c]) ++ post) by (rewrite <- app_assoc; reflexivity).
      rewrite skipn_app, Nat.sub_diag, skipn_all. reflexivity. }
    rewrite (E (0 + length pre + 1)%nat eq_refl).
    replace (0 + length pre)%nat with (length pre) by lia.
    rewrite firstn_app, Nat.sub_diag, firstn_all. simpl. rewrite app_nil_r.
    f_equal. apply IH.
    rewrite app_length in Hl. simpl in Hl. lia.
Qed.

Lemma split_one c s : split s [c] = split_on c s [].
Proof. unfold split. apply split_fuel_split_on. lia. Qed.

Lemma split_comma s : split s [44] = split_on 44 s [].
Proof. unfold split. apply split_fuel_split_on. lia. Qed.

(* ---------------------------------------------------------------- *)
(* strip(b" \t") is trim is_ows *)

Lemma lstrip_drop_while f s : lstrip_by f s = drop_while f s.
Proof. induction s as [|x s IH]; simpl; [reflexivity|]. rewrite IH. reflexivity. Qed.

Lemma strip_trim f s : strip_by f s = trim f s.
Proof. unfold strip_by, rstrip_by, trim. rewrite !lstrip_drop_while. reflexivity. Qed.

Lemma strip_sp_htab s : strip_by is_sp_htab s = trim is_ows s.
Proof. apply strip_trim. Qed.

(* ---------------------------------------------------------------- *)
(* str.lower() on latin-1 text and ASCII lower-casing agree against an ASCII word *)

Definition ascii_word (w : bytes) : Prop := Forall (fun c => c < 128) w.

Lemma lower_c_agree x c : c < 128 ->
  (lower_latin1_c x =? c) = ((if (65 <=? x) && (x <=? 90) then x + 32 else x) =? c).
Proof.
  intro Hc. unfold lower_latin1_c.
  destruct ((65 <=? x) && (x <=? 90)) eqn:A; auto.
  destruct ((192 <=? x) && (x <=? 222) && negb (x =? 215)) eqn:B; auto.
  apply andb_true_iff in B as [B _]. apply andb_true_iff in B as [B1 B2].
  apply N.leb_le in B1, B2.
  transitivity false; [|symmetry]; apply N.eqb_neq; lia.
Qed.

Lemma lower_word_agree w : ascii_word w -> forall s,
  beqb (lower_latin1 s) w = beqb (to_lower s) w.
Proof.
  induction 1 as [|c w Hc Hw IH]; intros [|x s]; simpl; auto.
  rewrite lower_c_agree by exact Hc. rewrite IH. reflexivity.
Qed.

Lemma chunked_ascii : ascii_word w_chunked.
Proof. unfold ascii_word, w_chunked. repeat constructor. Qed.

(* ---------------------------------------------------------------- *)
(* equality of two byte predicates by exhaustion over the 256 bytes *)

Lemma byte_table (f g : N -> bool) :
  forallb (fun x => Bool.eqb (f x) (g x)) alphabet = true -> forall x, x < 256 -> f x = g x.
Proof.
  intros H x Hx. rewrite forallb_forall in H. apply eqb_prop. apply H. apply alphabet_complete. exact Hx.
Qed.

Lemma forallb_ext_in {A} (f g : A -> bool) l : (forall x, In x l -> f x = g x) -> forallb f l = forallb g l.
Proof.
  induction l as [|x l IH]; simpl; auto. intro H. rewrite H, IH; auto.
Qed.

Lemma bytes_ok_app a b : bytes_ok (a ++ b) <-> bytes_ok a /\ bytes_ok b.
Proof. unfold bytes_ok. apply Forall_app. Qed.

Lemma iff_bool (a b : bool) : (a = true <-> b = true) -> a = b.
Proof. destruct a, b; intuition congruence. Qed.
