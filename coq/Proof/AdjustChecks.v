(* C20: the validation half.  Each generated decision formula is consumed
   through one characterising lemma against Proof/AdjustSpec.v; the lemmas
   about the model (construct) are for all keyword dictionaries. *)
From Coq Require Import List NArith ZArith Bool Lia.
From WV Require Import Lib.PyBytes Gen.GenAdjust Model.Adjust Proof.AdjustSpec.
Import ListNotations.
Local Open Scope N_scope.

(* ---- reflection helpers ---- *)
Lemma memstr_In : forall x l, memstr x l = true <-> In x l.
Proof.
  intros x l. unfold memstr. rewrite existsb_exists. split.
  - intros [y [Hy E]]. apply beqb_eq in E. subst. exact Hy.
  - intro H. exists x. split; [exact H|]. apply beqb_eq. reflexivity.
Qed.

Lemma memstr_not_In : forall x l, memstr x l = false <-> ~ In x l.
Proof.
  intros x l. rewrite <- memstr_In. destruct (memstr x l); split; intro H; try discriminate; auto.
  exfalso. apply H. reflexivity.
Qed.

Lemma beqb_refl : forall a, beqb a a = true.
Proof. intro a. apply beqb_eq. reflexivity. Qed.

Lemma beqb_neq : forall a b, beqb a b = false <-> a <> b.
Proof.
  intros a b. split.
  - intros H E. subst. rewrite beqb_refl in H. discriminate.
  - intro H. destruct (beqb a b) eqn:E; [|reflexivity]. apply beqb_eq in E. contradiction.
Qed.

Fixpoint nodupb (l : list str) : bool :=
  match l with
  | [] => true
  | x :: l' => negb (memstr x l') && nodupb l'
  end.
Lemma nodupb_NoDup : forall l, nodupb l = true -> NoDup l.
Proof.
  induction l as [|x l IH]; intro H; [constructor|].
  cbn [nodupb] in H. apply andb_true_iff in H as [H1 H2]. constructor.
  - apply memstr_not_In. destruct (memstr x l); [discriminate|reflexivity].
  - apply IH. exact H2.
Qed.

(* ================= mutually exclusive options ================= *)

(* for EVERY way options can be present (the formula reads five names only) *)
Lemma excl_all : forall present : str -> bool, excl present = two_groups present.
Proof.
  intro p. cbv [excl two_groups groups_present n_listen n_host n_port n_sockets n_unix_socket
                s_listen s_host s_port s_sockets s_unix_socket].
  repeat match goal with
         | |- context [p ?x] => let E := fresh "E" in destruct (p x) eqn:E
         end; reflexivity.
Qed.

(* the complete enumeration: all 2^5 subsets of the five names *)
Definition present_of (l : list str) : str -> bool := fun n => memstr n l.

Lemma excl_table_bool :
  forallb (fun l => Bool.eqb (excl (present_of l)) (two_groups (present_of l))) (subsets exclusive_names) = true.
Proof. vm_compute. reflexivity. Qed.

Lemma excl_table : length (subsets exclusive_names) = 32%nat /\
  forall l, In l (subsets exclusive_names) ->
    (excl (present_of l) = true <-> two_groups (present_of l) = true).
Proof.
  split; [reflexivity|]. intros l Hl.
  pose proof (proj1 (forallb_forall _ _) excl_table_bool l Hl) as H. cbv beta in H.
  apply Bool.eqb_prop in H. rewrite H. tauto.
Qed.

Lemma excl_names_are_the_five : excl_names = exclusive_names.
Proof. reflexivity. Qed.

(* the model of Adjustments.__init__ refuses every conflicting dictionary, whatever the values *)
Lemma construct_refuses_conflict : forall e (kw : kwargs),
  two_groups (fun n : list N => memstr n (map (@fst str value) kw)) = true -> construct e kw = Exn ValueError.
Proof. intros e kw H. unfold construct. cbv zeta. rewrite excl_all, H. reflexivity. Qed.

(* ================= unknown names ================= *)
Lemma assign_loop_names_known : forall kw acc a,
  assign_loop kw acc = Ok a -> forall k, In k (map fst kw) -> castof k <> None.
Proof.
  induction kw as [|[k v] kw IH]; intros acc a H k0 Hk; [destruct Hk|].
  cbn [assign_loop] in H. cbn [map fst] in Hk.
  destruct (castof k) as [c|] eqn:Ec.
  - destruct (cast_value c v) as [s|x]; [|discriminate].
    destruct Hk as [Hk|Hk].
    + subst k0. rewrite Ec. discriminate.
    + eapply IH; eassumption.
  - destruct assign_loop_standard; discriminate.
Qed.

Lemma construct_assigns : forall e kw a', construct e kw = Ok a' ->
  exists a, assign_loop kw [] = Ok a.
Proof.
  intros e kw a' H. unfold construct in H.
  destruct (excl _); [discriminate|].
  destruct (assign_loop kw []) as [a|x]; [|discriminate]. exists a. reflexivity.
Qed.

Lemma construct_names_known : forall e kw a',
  construct e kw = Ok a' -> forall k, In k (map fst kw) -> In k (map fst params).
Proof.
  intros e kw a' H k Hk. destruct (construct_assigns _ _ _ H) as [a Ha].
  pose proof (assign_loop_names_known _ _ _ Ha k Hk) as Hn.
  unfold castof in Hn. clear - Hn. induction params as [|[k' c] l IH]; [contradiction Hn; reflexivity|].
  cbn [dict_get] in Hn. cbn [map fst]. destruct (beqb k k') eqn:E.
  - left. apply beqb_eq in E. auto.
  - right. apply IH. exact Hn.
Qed.

Lemma unknown_name_refused : forall e kw k, In k (map fst kw) -> ~ In k (map fst params) ->
  exists x, construct e kw = Exn x.
Proof.
  intros e kw k Hk Hn. destruct (construct e kw) as [a|x] eqn:E; [|exists x; reflexivity].
  exfalso. apply Hn. eapply construct_names_known; eassumption.
Qed.

(* ================= proxy options ================= *)
Lemma proxy_table : forall a b cb c d e f, proxy_refused a b cb c d e f = proxy_spec a b cb c d e f.
Proof. intros [] [] [] [] [] [] []; reflexivity. Qed.

Lemma proxy_defaults_table : forall a b cb c d e f, proxy_refused a b cb c d e f = false ->
  proxy_count_defaulted a b cb c d e f = b /\ proxy_headers_defaulted a b cb c d e f = (negb c && negb a).
Proof. intros [] [] [] [] [] [] []; cbv; intro H; try discriminate H; split; reflexivity. Qed.

Lemma min_count_match : proxy_min_count = 1%Z.
Proof. reflexivity. Qed.

Lemma known_headers_match : known_proxy_headers = spec_known_headers.
Proof. reflexivity. Qed.
Lemma forwarded_name_match : proxy_forwarded_name = s_forwarded.
Proof. reflexivity. Qed.

Lemma dedup_In : forall l x, In x (dedup l) <-> In x l.
Proof.
  induction l as [|y l IH]; intro x; [tauto|]. cbn [dedup].
  destruct (memstr y l) eqn:E.
  - rewrite IH. split; [intro; right; assumption|]. intros [H|H]; [|exact H].
    subst. apply memstr_In. exact E.
  - cbn [In]. rewrite IH. tauto.
Qed.

Definition attr_headers (a : attrs) : list str :=
  match dict_get k_trusted_proxy_headers a with Some (SSet l) => l | _ => [] end.
Definition attr_tp_none (a : attrs) : bool :=
  match dict_get k_trusted_proxy a with None => true | Some SNone => true | Some _ => false end.
Definition proxy_stage_refused (a : attrs) : bool :=
  let '(x1, x2, x3, x4, x5, x6, x7) := proxy_atoms a in proxy_refused x1 x2 x3 x4 x5 x6 x7.

(* over the configured values, for every count and every header list *)
Lemma proxy_stage_spec : forall a,
  proxy_stage_refused a = true <-> proxy_conflict (attr_tp_none a) (attr_count a) (attr_headers a).
Proof.
  intro a. unfold proxy_stage_refused, proxy_atoms.
  fold (attr_headers a). rewrite proxy_table.
  change (match dict_get k_trusted_proxy a with
          | None => defaults_proxy_and_sockets_empty | Some SNone => true | Some _ => false end)
    with (attr_tp_none a).
  set (hs := attr_headers a). set (tp := attr_tp_none a). set (cn := attr_count a).
  rewrite known_headers_match, forwarded_name_match, min_count_match.
  unfold proxy_spec, proxy_conflict.
  assert (Hne : nonempty_l hs = true <-> hs <> []).
  { destruct hs; cbn; split; intro H; try discriminate; try reflexivity. exfalso; apply H; reflexivity. }
  assert (Hc1 : negb (match cn with None => true | Some _ => false end) = true <-> cn <> None).
  { destruct cn; cbn; split; intro H; try discriminate; try reflexivity. exfalso; apply H; reflexivity. }
  assert (Hc2 : match cn with Some z => Z.ltb z 1 | None => false end = true <-> exists z, cn = Some z /\ (z < 1)%Z).
  { destruct cn as [z|]; split.
    - intro H. exists z. split; [reflexivity|]. apply Z.ltb_lt. exact H.
    - intros [z' [E H]]. injection E as ->. apply Z.ltb_lt. exact H.
    - discriminate.
    - intros [z' [E _]]. discriminate. }
  assert (Hc3 : (exists z, cn = Some z /\ (z < 1)%Z) -> cn <> None).
  { intros [z [E _]]. rewrite E. discriminate. }
  assert (Hu : existsb (fun h => negb (memstr h spec_known_headers)) (lowered_headers hs) = true
               <-> exists h, In h hs /\ ~ In (lower_latin1 h) spec_known_headers).
  { rewrite existsb_exists. unfold lowered_headers. split.
    - intros [x [Hx Hn]]. apply (proj1 (dedup_In _ _)) in Hx. apply in_map_iff in Hx as [h [Eh Hh]].
      exists h. split; [exact Hh|]. subst x. apply memstr_not_In.
      destruct (memstr _ _); [discriminate|reflexivity].
    - intros [h [Hh Hn]]. exists (lower_latin1 h). split.
      + apply (proj2 (dedup_In _ _)). apply in_map. exact Hh.
      + apply memstr_not_In in Hn. rewrite Hn. reflexivity. }
  assert (Hf : memstr s_forwarded (lowered_headers hs) = true <-> In s_forwarded (map lower_latin1 hs)).
  { rewrite memstr_In. unfold lowered_headers. apply dedup_In. }
  assert (Ho : existsb (fun h => negb (beqb h s_forwarded)) (lowered_headers hs) = true
               <-> exists h, In h hs /\ lower_latin1 h <> s_forwarded).
  { rewrite existsb_exists. unfold lowered_headers. split.
    - intros [x [Hx Hn]]. apply (proj1 (dedup_In _ _)) in Hx. apply in_map_iff in Hx as [h [Eh Hh]].
      exists h. split; [exact Hh|]. subst x. apply beqb_neq.
      destruct (beqb _ _); [discriminate|reflexivity].
    - intros [h [Hh Hn]]. exists (lower_latin1 h). split.
      + apply (proj2 (dedup_In _ _)). apply in_map. exact Hh.
      + apply beqb_neq in Hn. rewrite Hn. reflexivity. }
  assert (Hun : (exists h, In h hs /\ ~ In (lower_latin1 h) spec_known_headers) -> hs <> []).
  { intros [h [Hh _]] E. rewrite E in Hh. destruct Hh. }
  assert (Hfn : In s_forwarded (map lower_latin1 hs) -> hs <> []).
  { intros H E. rewrite E in H. destruct H. }
  rewrite !orb_true_iff, !andb_true_iff, Hc1, Hc2, Hne, Hu, Hf, Ho.
  tauto.
Qed.

Lemma construct_ok_proxy : forall e kw a', construct e kw = Ok a' ->
  exists a, assign_loop kw [] = Ok a /\ proxy_stage_refused a = false.
Proof.
  intros e kw a' H. unfold construct in H.
  destruct (excl _); [discriminate|].
  destruct (assign_loop kw []) as [a|x]; [|discriminate]. exists a. split; [reflexivity|].
  destruct (families_refused _ _ _); [discriminate|].
  destruct (listen_loop _ _ _ _ _) as [w|x]; [|discriminate].
  unfold proxy_stage_refused. destruct (proxy_atoms a) as [[[[[[x1 x2] x3] x4] x5] x6] x7].
  destruct (proxy_refused x1 x2 x3 x4 x5 x6 x7); [discriminate|reflexivity].
Qed.

(* a configuration that is accepted has no proxy conflict *)
Lemma construct_ok_no_proxy_conflict : forall e kw a', construct e kw = Ok a' ->
  exists a, assign_loop kw [] = Ok a
            /\ ~ proxy_conflict (attr_tp_none a) (attr_count a) (attr_headers a).
Proof.
  intros e kw a' H. destruct (construct_ok_proxy _ _ _ H) as [a [Ha Hp]].
  exists a. split; [exact Ha|]. rewrite <- proxy_stage_spec, Hp. discriminate.
Qed.

(* ================= socket lists ================= *)
Lemma sock_is_inet : forall e s, sock_is sock_inet e s = skind_eqb (sock_kind e s) KInet.
Proof. intros [h6 hu] [[i f] t]; destruct f, t, hu; reflexivity. Qed.
Lemma sock_is_unix : forall e s, sock_is sock_unix e s = skind_eqb (sock_kind e s) KUnix.
Proof. intros [h6 hu] [[i f] t]; destruct f, t, hu; reflexivity. Qed.
Lemma sock_is_unsup : forall e s, sock_is sock_unsup e s = skind_eqb (sock_kind e s) KUnsupported.
Proof. intros [h6 hu] [[i f] t]; destruct f, t, hu; reflexivity. Qed.

Lemma socks_refused_table : forall u i x, socks_refused u i x = (u && i) || x.
Proof. intros [] [] []; reflexivity. Qed.

Lemma existsb_kind : forall e k g l, (forall s, g s = skind_eqb (sock_kind e s) k) ->
  (existsb g l = true <-> exists s, In s l /\ sock_kind e s = k).
Proof.
  intros e k g l Hg. rewrite existsb_exists. split; intros [s [Hs H]]; exists s; split; auto.
  - rewrite Hg in H. destruct (sock_kind e s), k; try discriminate; reflexivity.
  - rewrite Hg, H. destruct k; reflexivity.
Qed.

(* for every list of sockets *)
Lemma check_sockets_spec : forall e l, check_sockets e l = true <-> socks_conflict e l.
Proof.
  intros e l. unfold check_sockets, socks_conflict. rewrite socks_refused_table.
  rewrite orb_true_iff, andb_true_iff.
  rewrite (existsb_kind e KUnix _ l (sock_is_unix e)).
  rewrite (existsb_kind e KInet _ l (sock_is_inet e)).
  rewrite (existsb_kind e KUnsupported _ l (sock_is_unsup e)).
  tauto.
Qed.

(* ================= address families ================= *)
(* both families disabled is refused; everything that is not refused hands getaddrinfo a
   family that allows exactly the enabled ones *)
Lemma families_full : forall ipv4 ipv6 h6,
  (ipv4 = false -> ipv6 = false -> families_refused ipv4 ipv6 h6 = true)
  /\ (families_refused ipv4 ipv6 h6 = false -> honours ipv4 ipv6 (families_value ipv4 ipv6 h6)).
Proof. intros [] [] []; cbv; split; intros; try discriminate; try split; reflexivity. Qed.

Example families_some : families_refused false false true = true
  /\ families_refused true false true = false /\ families_value true false true = FamInet
  /\ families_value false true true = FamInet6 /\ families_value true true false = FamUnspec.
Proof. repeat split; reflexivity. Qed.

(* ================= host / port override, truthy, defaults ================= *)
Lemma hostport_table : forall hm pm, hostport_override hm pm = hostport_spec hm pm.
Proof. intros [] []; reflexivity. Qed.

Lemma truthy_match : truthy = spec_truthy.
Proof. reflexivity. Qed.

(* documented in docs/arguments.rst and runner.HELP alike: 0.0.0.0, 8080, both families enabled *)
Lemma defaults_match :
  default_host = [48;46;48;46;48;46;48] /\ default_port = 8080 /\ default_ipv4 = true /\ default_ipv6 = true
  /\ defaults_proxy_and_sockets_empty = true /\ assign_loop_standard = true
  /\ proxy_default_count = 1 /\ proxy_default_headers = [xfwd [112;114;111;116;111]].
Proof. repeat split; reflexivity. Qed.

(* asbool on strings: membership of the stripped, lower-cased text in the six words *)
Lemma asbool_spelling : forall s, asbool (VStr s) = Ok (memstr (lower_latin1 (strip_by is_str_ws s)) spec_truthy).
Proof. intro s. unfold asbool, py_str. rewrite truthy_match. reflexivity. Qed.

(* ================= everything that is accepted is free of every listed conflict ================= *)
Lemma dict_get_set_neq : forall {V} k k' (v : V) d, beqb k k' = false ->
  dict_get k (dict_set k' v d) = dict_get k d.
Proof.
  intros V k k' v. induction d as [|[k2 v2] d IH]; intro H; cbn [dict_set dict_get].
  - rewrite H. reflexivity.
  - destruct (beqb k' k2) eqn:E.
    + apply beqb_eq in E. subst k2. cbn [dict_get]. rewrite H. reflexivity.
    + cbn [dict_get]. destruct (beqb k k2); [reflexivity|]. apply IH. exact H.
Qed.

Definition attr_sockets (a : attrs) : list sock :=
  match dict_get k_sockets a with Some (SSocks l) => l | _ => [] end.
Definition attr_ipv4 (a : attrs) : bool := get_bool k_ipv4 a true.
Definition attr_ipv6 (a : attrs) : bool := get_bool k_ipv6 a true.

Definition accepted_ok (e : env) (kw : kwargs) (a : attrs) : Prop :=
  two_groups (fun n : list N => memstr n (map (@fst str value) kw)) = false
  /\ (forall k, In k (map fst kw) -> In k (map fst params))
  /\ ~ proxy_conflict (attr_tp_none a) (attr_count a) (attr_headers a)
  /\ ~ socks_conflict e (attr_sockets a)
  /\ (attr_ipv4 a || attr_ipv6 a = true)
  /\ honours (attr_ipv4 a) (attr_ipv6 a) (families_value (attr_ipv4 a) (attr_ipv6 a) (has_ipv6 e)).

Lemma construct_ok_sound : forall e kw a', construct e kw = Ok a' ->
  exists a, assign_loop kw [] = Ok a /\ accepted_ok e kw a.
Proof.
  intros e kw a' H.
  destruct (construct_ok_no_proxy_conflict _ _ _ H) as [a [Ha Hp]].
  exists a. split; [exact Ha|]. unfold accepted_ok.
  split; [|split; [|split; [exact Hp|]]].
  - destruct (two_groups _) eqn:E; [|reflexivity].
    rewrite (construct_refuses_conflict e kw E) in H. discriminate.
  - intros k Hk. eapply construct_names_known; eassumption.
  - unfold construct in H. cbv zeta in H.
    destruct (excl _); [discriminate|]. rewrite Ha in H.
    destruct (families_refused _ _ _) eqn:Ef; [discriminate|].
    destruct (listen_loop _ _ _ _ _) as [w|x]; [|discriminate].
    destruct (proxy_atoms a) as [[[[[[x1 x2] x0] x3] x4] x5] x6].
    destruct (proxy_refused x1 x2 x0 x3 x4 x5 x6); [discriminate|].
    split.
    + match type of H with
      | (if check_sockets e ?l then _ else _) = _ => destruct (check_sockets e l) eqn:Ec; [discriminate|];
          assert (El : l = attr_sockets a)
      end.
      { unfold attr_sockets. rewrite dict_get_set_neq by reflexivity.
        destruct (proxy_headers_defaulted _ _ _ _ _ _ _); [rewrite dict_get_set_neq by reflexivity|
          destruct x3; [rewrite dict_get_set_neq by reflexivity|]];
        (destruct (proxy_count_defaulted _ _ _ _ _ _ _); [rewrite dict_get_set_neq by reflexivity|]); reflexivity. }
      rewrite El in Ec. intro Hc. apply check_sockets_spec in Hc. rewrite Hc in Ec. discriminate.
    + assert (D4 : default_ipv4 = true) by reflexivity. assert (D6 : default_ipv6 = true) by reflexivity.
      rewrite D4, D6 in Ef. fold (attr_ipv4 a) in Ef. fold (attr_ipv6 a) in Ef.
      destruct (families_full (attr_ipv4 a) (attr_ipv6 a) (has_ipv6 e)) as [F1 F2].
      split; [|apply F2; exact Ef].
      destruct (attr_ipv4 a); [reflexivity|]. destruct (attr_ipv6 a); [reflexivity|].
      rewrite F1 in Ef by reflexivity. discriminate.
Qed.

(* the trusted_proxy_count an accepted configuration ends up with is at least 1 *)
Lemma dict_get_set_eq : forall {V} k (v : V) d, dict_get k (dict_set k v d) = Some v.
Proof.
  intros V k v. induction d as [|[k2 v2] d IH]; cbn [dict_set dict_get].
  - rewrite beqb_refl. reflexivity.
  - destruct (beqb k k2) eqn:E; cbn [dict_get]; rewrite E; [reflexivity|exact IH].
Qed.

Lemma proxy_atoms_count : forall a,
  let '(_, x2, x0, _, _, _, _) := proxy_atoms a in
  x2 = match attr_count a with None => true | Some _ => false end
  /\ x0 = match attr_count a with Some z => Z.ltb z proxy_min_count | None => false end.
Proof. intro a. unfold proxy_atoms. split; reflexivity. Qed.

Lemma construct_ok_count : forall e kw a', construct e kw = Ok a' ->
  exists z, dict_get k_trusted_proxy_count a' = Some (SInt z) /\ (1 <= z)%Z.
Proof.
  intros e kw a' H. unfold construct in H. cbv zeta in H.
  destruct (excl _); [discriminate|].
  destruct (assign_loop kw []) as [a|x]; [|discriminate].
  destruct (families_refused _ _ _); [discriminate|].
  destruct (listen_loop _ _ _ _ _) as [w|x]; [|discriminate].
  pose proof (proxy_atoms_count a) as PC.
  destruct (proxy_atoms a) as [[[[[[x1 x2] x0] x3] x4] x5] x6]. destruct PC as [P2 P0].
  destruct (proxy_refused x1 x2 x0 x3 x4 x5 x6) eqn:Er; [discriminate|].
  destruct (proxy_defaults_table _ _ _ _ _ _ _ Er) as [Dc _].
  rewrite proxy_table in Er. unfold proxy_spec in Er.
  match type of H with (if ?c then _ else _) = _ => destruct c; [discriminate|] end.
  injection H as <-.
  rewrite dict_get_set_neq by reflexivity.
  assert (G : forall a1, (exists z, dict_get k_trusted_proxy_count a1 = Some (SInt z) /\ (1 <= z)%Z) ->
    exists z, dict_get k_trusted_proxy_count
      (if proxy_headers_defaulted x1 x2 x0 x3 x4 x5 x6
       then dict_set k_trusted_proxy_headers (SSet proxy_default_headers) a1
       else if x3 then dict_set k_trusted_proxy_headers
                         (SSet (lowered_headers match dict_get k_trusted_proxy_headers a1 with
                                                | Some (SSet l) => l | _ => [] end)) a1
            else a1) = Some (SInt z) /\ (1 <= z)%Z).
  { intros a1 Hz. destruct (proxy_headers_defaulted _ _ _ _ _ _ _); [rewrite dict_get_set_neq by reflexivity; exact Hz|].
    destruct x3; [rewrite dict_get_set_neq by reflexivity|]; exact Hz. }
  apply G. rewrite Dc. destruct x2.
  - rewrite dict_get_set_eq. exists (Z.of_N proxy_default_count). split; [reflexivity|]. cbv. discriminate.
  - unfold attr_count in P2, P0.
    destruct (dict_get k_trusted_proxy_count a) as [[| | z | | | | |]|]; try discriminate P2.
    exists z. split; [reflexivity|].
    subst x0. cbn [negb andb orb] in Er.
    destruct (Z.ltb z proxy_min_count) eqn:El.
    + destruct x1; cbn in Er; discriminate Er.
    + apply Z.ltb_ge in El. exact El.
Qed.

(* ================= middleware switch (server.py) ================= *)
Lemma middleware_table : forall tp clear, middleware_installed tp clear = tp || clear.
Proof. intros [] []; reflexivity. Qed.

(* ================= option names ================= *)
Definition no_underscore_prefix : str := [110;111;95].   (* no_ *)
Definition no_dash_prefix : str := [110;111;45].         (* no- *)

Definition name_ok (pc : str * cast) : bool :=
  let p := fst pc in
  beqb (cli_unmangle (dashdash ++ cli_mangle p)) p
  && negb (startswith p no_underscore_prefix)
  && beqb (cli_unmangle (dashdash ++ no_dash_prefix ++ cli_mangle p)) (no_underscore_prefix ++ p)
  && negb (memb 61 (cli_mangle p)).

Lemma names_bool1 : forallb name_ok params = true.
Proof. vm_compute. reflexivity. Qed.
Lemma names_bool2 : nodupb (map (fun pc => cli_mangle (fst pc)) params) = true.
Proof. vm_compute. reflexivity. Qed.
Lemma names_bool3 : nodupb cli_long_opts = true.
Proof. vm_compute. reflexivity. Qed.
Lemma names_bool4 : nodupb (map fst params) = true.
Proof. vm_compute. reflexivity. Qed.

Lemma names_ok : forall p c, In (p, c) params ->
  cli_unmangle (dashdash ++ cli_mangle p) = p
  /\ startswith p no_underscore_prefix = false
  /\ cli_unmangle (dashdash ++ no_dash_prefix ++ cli_mangle p) = no_underscore_prefix ++ p.
Proof.
  intros p c H.
  pose proof (proj1 (forallb_forall _ _) names_bool1 (p, c) H) as Hp. unfold name_ok in Hp. cbn [fst] in Hp.
  apply andb_true_iff in Hp as [Hp H4]. apply andb_true_iff in Hp as [Hp H3].
  apply andb_true_iff in Hp as [H1 H2].
  apply beqb_eq in H1. split; [exact H1|]. split.
  - destruct (startswith p no_underscore_prefix); [discriminate|reflexivity].
  - apply beqb_eq. assumption.
Qed.

Lemma names_distinct :
  NoDup (map (fun pc => cli_mangle (fst pc)) params) /\ NoDup cli_long_opts /\ NoDup (map fst params).
Proof.
  repeat split; apply nodupb_NoDup;
    [exact names_bool2 | exact names_bool3 | exact names_bool4].
Qed.

(* ================= documentation ================= *)
Definition help_names : list str := map (fun h => fst (fst h)) help_opts.
Definition runner_only : list str := [k_help; k_call; k_app].

Definition help_entry_ok (pc : str * cast) : bool :=
  beqb (fst pc) s_sockets
  || existsb (fun h => beqb (fst (fst h)) (cli_mangle (fst pc))
                       && Bool.eqb (snd h) (negb (cast_eqb (snd pc) CBool))) help_opts.

Lemma docs_bool1 : forallb (fun pc => memstr (fst pc) docs_args) params = true.
Proof. vm_compute. reflexivity. Qed.
Lemma docs_bool2 : forallb help_entry_ok params = true.
Proof. vm_compute. reflexivity. Qed.
Lemma docs_bool3 : forallb (fun d => memstr d (map fst params)) docs_args = true.
Proof. vm_compute. reflexivity. Qed.
Lemma docs_bool4 :
  forallb (fun h => memstr h (map (fun pc => cli_mangle (fst pc)) params ++ runner_only)) help_names = true.
Proof. vm_compute. reflexivity. Qed.

Lemma docs_ok :
  (forall p c, In (p, c) params -> In p docs_args)
  /\ (forall p c, In (p, c) params -> p <> s_sockets ->
        exists no_form, In (cli_mangle p, no_form, negb (cast_eqb c CBool)) help_opts)
  /\ (forall d, In d docs_args -> In d (map fst params))
  /\ (forall h, In h help_names -> In h (map (fun pc => cli_mangle (fst pc)) params ++ runner_only)).
Proof.
  split; [|split; [|split]].
  - intros p c Hp. apply memstr_In. exact (proj1 (forallb_forall _ _) docs_bool1 (p, c) Hp).
  - intros p c Hp Hs. pose proof (proj1 (forallb_forall _ _) docs_bool2 (p, c) Hp) as E.
    unfold help_entry_ok in E. cbn [fst snd] in E. apply orb_true_iff in E as [E|E].
    + apply beqb_eq in E. contradiction.
    + apply existsb_exists in E as [[[n nf] tv] [Hin E]]. cbn [fst snd] in E.
      apply andb_true_iff in E as [E1 E2]. apply beqb_eq in E1. apply Bool.eqb_prop in E2.
      subst. exists nf. exact Hin.
  - intros d Hd. apply memstr_In. exact (proj1 (forallb_forall _ _) docs_bool3 d Hd).
  - intros h Hh. apply memstr_In. exact (proj1 (forallb_forall _ _) docs_bool4 h Hh).
Qed.

(* non-vacuity *)
Example excl_some : excl (present_of [s_listen; s_port]) = true /\ excl (present_of [s_host; s_port]) = false.
Proof. split; reflexivity. Qed.
Example proxy_conflict_some :
  proxy_conflict false None [[70;111;114;119;97;114;100;101;100]; xfwd [102;111;114]].  (* Forwarded x-forwarded-for *)
Proof.
  right. right. right. right. split.
  - left. reflexivity.
  - exists (xfwd [102;111;114]). split; [right; left; reflexivity|]. discriminate.
Qed.
Example socks_conflict_some : socks_conflict {| has_ipv6 := true; has_af_unix := true |}
  [(true, SfInet, StStream); (true, SfUnix, StStream)].
Proof.
  right. split.
  - exists (true, SfUnix, StStream). split; [right; left; reflexivity|reflexivity].
  - exists (true, SfInet, StStream). split; [left; reflexivity|reflexivity].
Qed.

(* listen = a:1 b:2, trusted_proxy = *, trusted_proxy_headers = Forwarded : accepted *)
Example construct_accepts_some : exists a,
  construct {| has_ipv6 := true; has_af_unix := true |}
    [(k_listen, VStr [97;58;49;32;98;58;50]); (k_trusted_proxy, VStr [42]);
     (k_trusted_proxy_headers, VStr [70;111;114;119;97;114;100;101;100])] = Ok a.
Proof. eexists. vm_compute. reflexivity. Qed.
(* ... and with x-forwarded-for next to Forwarded: refused *)
Example construct_refuses_some :
  construct {| has_ipv6 := true; has_af_unix := true |}
    [(k_trusted_proxy, VStr [42]);
     (k_trusted_proxy_headers, VStr ([70;111;114;119;97;114;100;101;100;32] ++ xfwd [102;111;114]))] = Exn ValueError.
Proof. vm_compute. reflexivity. Qed.
