(* C17: the hypotheses of the theorems are satisfiable by non-trivial concrete
   histories (computed with the model itself). *)
From Coq Require Import List NArith ZArith Bool Lia.
From WV Require Import Lib.PyBytes Model.Buffers Spec.Fifo Proof.Buffers Proof.BuffersRefine Proof.BuffersRo.
Import ListNotations.
Local Open Scope Z_scope.

(* STRBUF_LIMIT = 4, overflow = 6: plain bytes -> BytesIO -> temporary file,
   with a non-zero read position at the second migration *)
Definition ex_ops : list op :=
  [OAppend [1;2;3]%N; OGet 2 false; OAppend [4;5]%N; OGet 2 true; OSkip 1 true;
   OAppend [6;7;8;9]%N; OGetFile; OSkip 2 false; OLen].

Example ex_live : Forall live ex_ops.
Proof. repeat constructor; discriminate. Qed.

Example ex_passes_through_all_representations :
  rep_of (exec 4 6 o_new (firstn 1 ex_ops)) = Str [1;2;3]%N /\
  rep_of (exec 4 6 o_new (firstn 5 ex_ops)) = Bio (mkfile [1;2;3;4;5]%N 3 false) 2 /\
  rep_of (exec 4 6 o_new ex_ops) = Tmp (mkfile [1;2;3;4;5;6;7;8;9]%N 5 false) 4 /\
  snd (run 4 6 o_new ex_ops) =
    [RUnit; RBytes [1;2;3]%N; RUnit; RBytes [1;2]%N; RUnit; RUnit;
     RFile (mkfile [1;2;3;4;5;6;7;8;9]%N 3 false); RUnit; RLen 4].
Proof. vm_compute. repeat split. Qed.

Example ex_accounting :
  appended_of ex_ops = [1;2;3;4;5;6;7;8;9]%N /\ consumed_of q_empty ex_ops = 5%nat /\
  abs (exec 4 6 o_new ex_ops) = [6;7;8;9]%N.
Proof. vm_compute. repeat split. Qed.

(* the error branch is reachable: plain bytes, skip more than queued *)
Example ex_skip_error :
  step 4 6 (exec 4 6 o_new [OAppend [1;2]%N]) (OSkip 3 true) =
  (mkobuf (Some (mkfbuf KBio (mkfile [1;2]%N 0 false) 2)) [] false, RExn ValueErrorSkip).
Proof. vm_compute. reflexivity. Qed.

Example ex_respects : respects (abs (exec 4 6 o_new ex_ops)) (OSkip 4 true).
Proof. vm_compute. discriminate. Qed.

Example ex_close_file :
  ob_buf (exec 4 6 o_new ex_ops) <> None /\
  snd (step 4 6 (o_close (exec 4 6 o_new ex_ops)) (OGet (-1) false)) = RExn ValueErrorClosed.
Proof. vm_compute. split; [discriminate | reflexivity]. Qed.

(* read-only buffer: 10 byte file positioned at 2, Content-Length 5 *)
Definition ex_ro_ops : list ro_op := [ROGet 3 false; ROGet 3 true; ROSkip 1; ROGet (-1) false; ROGet 18000 true; ROLen].

Example ex_ro_valid : Forall ro_valid ex_ro_ops /\ size_ok (Some 5) /\ (2 <= length [0;1;2;3;4;5;6;7;8;9]%N)%nat.
Proof. vm_compute. repeat constructor; discriminate. Qed.

Example ex_ro_run :
  match ro_prepare (ro_init (mkfile [0;1;2;3;4;5;6;7;8;9]%N 2 false)) (Some 5) with
  | Ok (b0, P) =>
      P = 5 /\
      fst (ro_step (ro_exec b0 (firstn 3 ex_ro_ops)) (ROGet (-1) false)) = ro_exec b0 (firstn 3 ex_ro_ops) /\
      snd (ro_step (ro_exec b0 (firstn 3 ex_ro_ops)) (ROGet (-1) false)) = RBytes [6]%N /\
      ro_exec b0 ex_ro_ops = mkfbuf KRo (mkfile [0;1;2;3;4;5;6;7;8;9]%N 7 false) 0
  | Exn _ => False
  end.
Proof. vm_compute. repeat split. Qed.

(* the drain pattern on plain bytes: get(2) answers all three bytes, two are sent *)
Example ex_flush :
  let o := exec 4 6 o_new [OAppend [1;2;3]%N] in
  snd (step 4 6 o (OGet 2 false)) = RBytes [1;2;3]%N /\
  step 4 6 o (OSkip 2 true) =
    (mkobuf (Some (mkfbuf KBio (mkfile [1;2;3]%N 2 false) 1)) [] false, RUnit).
Proof. vm_compute. split; reflexivity. Qed.

(* faults: BytesIO holding 5 bytes (STRBUF_LIMIT 4, overflow 6), append 2 more;
   TemporaryFile() raises: the exception propagates and all 7 bytes are queued *)
Example ex_fault_ctor :
  let o := exec 4 6 o_new [OAppend [1;2;3;4;5]%N] in
  rep_of o = Bio (mkfile [1;2;3;4;5]%N 0 false) 5 /\
  step_f (FCtor KTmp) 4 6 o (OAppend [6;7]%N) =
    (mkobuf (Some (mkfbuf KBio (mkfile [1;2;3;4;5;6;7]%N 0 false) 7)) [] false, RExn OSFault) /\
  (* plain bytes: nothing at all happens *)
  step_f (FCtor KBio) 4 6 (exec 4 6 o_new [OAppend [1;2]%N]) (OGet 1 true) =
    (exec 4 6 o_new [OAppend [1;2]%N], RExn OSFault).
Proof. vm_compute. repeat split. Qed.

(* the same history with the copy loop's write failing: the BytesIO keeps its place
   (finally: from_file.seek(read_pos), /repo commit c9585b7) *)
Example ex_fault_copy_write :
  step_f FCopyWrite 4 6 (exec 4 6 o_new [OAppend [1;2;3;4;5]%N]) (OAppend [6;7]%N) =
    (mkobuf (Some (mkfbuf KBio (mkfile [1;2;3;4;5;6;7]%N 0 false) 7)) [] false, RExn OSFault).
Proof. vm_compute. reflexivity. Qed.
