(* C17, layer 4: operating-system faults at a representation change.

   FCtor (TemporaryFile() / BytesIO() raises while an operation builds a new
   representation): the exception propagates and the buffer is still a faithful
   queue -- untouched, or, for an append() that had already written its bytes
   to the in-memory file before the spill to disk was attempted, the old queue
   plus those bytes.  Every later history refines the FIFO queue from there.

   FCopyWrite (the copy loop's file.write raises while spilling to disk): the
   source file has been rewound and read and is NOT repositioned; the statement
   above is false for it -- [fault_copy_write_refuted]. *)
From Coq Require Import List NArith ZArith Bool Lia ZifyBool Arith.
From WV Require Import Lib.PyBytes Model.Buffers Spec.Fifo Proof.Buffers Proof.BuffersRefine.
Import ListNotations.
Local Open Scope Z_scope.

Lemma obuf_eta o : mkobuf (ob_buf o) (ob_strbuf o) (ob_overflowed o) = o.
Proof. now destruct o. Qed.

(* a constructor fault of kind k only concerns constructions of kind k *)
Lemma fb_init_ctor k k2 from :
  fb_init (FCtor k) k2 from = if kind_eqb k k2 then InitExn OSFault from else fb_init FNone k2 from.
Proof. destruct k, k2, from; reflexivity. Qed.

Lemma set_large_ctor k o :
  o_set_large_buffer (FCtor k) o = if kind_eqb k KTmp then (o, Exn OSFault) else o_set_large_buffer FNone o.
Proof.
  unfold o_set_large_buffer. rewrite fb_init_ctor. destruct (kind_eqb k KTmp); [now rewrite obuf_eta | reflexivity].
Qed.

Lemma set_small_ctor k o :
  o_set_small_buffer (FCtor k) o = if kind_eqb k KBio then (o, Exn OSFault) else o_set_small_buffer FNone o.
Proof.
  unfold o_set_small_buffer. rewrite fb_init_ctor. destruct (kind_eqb k KBio); [now rewrite obuf_eta | reflexivity].
Qed.

Lemma create_buffer_ctor k ovf o :
  o_create_buffer (FCtor k) ovf o = (o, Exn OSFault) \/
  o_create_buffer (FCtor k) ovf o = o_create_buffer FNone ovf o.
Proof.
  unfold o_create_buffer. rewrite set_large_ctor, set_small_ctor.
  destruct (lenZ (ob_strbuf o) >=? Z.of_N ovf).
  - destruct (kind_eqb k KTmp); [left | right]; reflexivity.
  - destruct (kind_eqb k KBio); [left | right]; reflexivity.
Qed.

(* what a faulted operation leaves behind *)
Definition fault_ok (o : obuf) (p : op) (o' : obuf) : Prop :=
  abs o' = abs o \/ (exists s, p = OAppend s /\ abs o' = abs o ++ s).

Lemma append_tail_ctor k ovf s o b : inv o -> ob_buf o = Some b ->
  let r := o_append_tail (FCtor k) ovf s o b in
  inv (fst r) /\
  ((snd r = Exn OSFault /\ abs (fst r) = abs o ++ s) \/ r = o_append_tail FNone ovf s o b).
Proof.
  intros Hi Hb. assert (Habs0 : abs o = fb_abs b) by (unfold abs; now rewrite Hb).
  destruct (append_tail_spec ovf s o b Hi Hb) as (on & Hn1 & Hn2 & _).
  pose proof Hi as Hi0. inv_some Hi Hb.
  destruct (fb_append_spec b s Hfb) as (b' & Ha & Hi' & Habs & Hk' & Hp & Hc & Hr).
  unfold o_append_tail in *. rewrite Ha in *. cbn [ob_overflowed ob_strbuf] in *.
  destruct (negb (ob_overflowed o)); [|cbv zeta; cbn [fst snd]; split; [inversion Hn1; subst; assumption | right; reflexivity]].
  destruct (fb_len b' >=? Z.of_N ovf); [|cbv zeta; cbn [fst snd]; split; [inversion Hn1; subst; assumption | right; reflexivity]].
  rewrite set_large_ctor. destruct (kind_eqb k KTmp).
  - cbv zeta. cbn [fst snd]. split.
    + unfold inv; cbn [ob_buf ob_strbuf ob_overflowed]. rewrite Hk'.
      repeat split; auto; try apply Hi'; try apply Hov; try discriminate.
    + left. split; [reflexivity|]. unfold abs at 1. cbn [ob_buf]. now rewrite Habs0.
  - cbv zeta. split; [|right; reflexivity].
    destruct (o_set_large_buffer FNone _) as [o3 [x|e]]; cbn [fst]; inversion Hn1; subst; assumption.
Qed.

Lemma fault_ctor_step k limit ovf o p : inv o -> live p ->
  let r := step_f (FCtor k) limit ovf o p in
  inv (fst r) /\
  ((snd r = RExn OSFault /\ fault_ok o p (fst r)) \/ r = step limit ovf o p).
Proof.
  intros Hi Hl. unfold step.
  assert (Hfree : inv (fst (step_f FNone limit ovf o p))) by (apply (step_refines limit ovf o p Hi Hl)).
  destruct p as [s | n sk | n ap | | |]; unfold step_f in *; cbv zeta.
  - unfold o_append in *. destruct (ob_buf o) as [b|] eqn:Hb.
    + destruct (append_tail_ctor k ovf s o b Hi Hb) as (H1 & H2). cbv zeta in H1, H2.
      destruct (o_append_tail (FCtor k) ovf s o b) as [o' r'] eqn:E. cbn [fst snd] in *.
      split; [exact H1|]. destruct H2 as [(-> & H2) | H2].
      * left. split; [reflexivity|]. right. exists s. auto.
      * right. now rewrite <- H2.
    + destruct (lenZ (ob_strbuf o) + lenZ s <? Z.of_N limit) eqn:E.
      * cbn [fst snd]. split; [exact Hfree | right; reflexivity].
      * destruct (create_buffer_ctor k ovf o) as [Hc | Hc]; rewrite Hc.
        -- cbn [fst snd lift]. split; [exact Hi|]. left. split; [reflexivity | now left].
        -- destruct (create_buffer_spec ovf o Hi Hb) as (o1 & b & Hc1 & Hb1 & Hi1 & Ha1 & _).
           rewrite Hc1 in *.
           destruct (append_tail_ctor k ovf s o1 b Hi1 Hb1) as (H1 & H2). cbv zeta in H1, H2.
           destruct (o_append_tail (FCtor k) ovf s o1 b) as [o' r'] eqn:E'. cbn [fst snd] in *.
           split; [exact H1|]. destruct H2 as [(-> & H2) | H2].
           ++ left. split; [reflexivity|]. right. exists s. split; [reflexivity|].
              rewrite H2, Ha1. unfold abs. now rewrite Hb.
           ++ right. now rewrite <- H2.
  - unfold o_get in *. destruct (ob_buf o) as [b|] eqn:Hb.
    + split; [exact Hfree | right; reflexivity].
    + destruct sk; cbn [negb] in *.
      * destruct (create_buffer_ctor k ovf o) as [Hc | Hc]; rewrite Hc.
        -- cbn [fst snd lift]. split; [exact Hi|]. left. split; [reflexivity | now left].
        -- split; [exact Hfree | right; reflexivity].
      * split; [exact Hfree | right; reflexivity].
  - unfold o_skip in *. destruct (ob_buf o) as [b|] eqn:Hb.
    + split; [exact Hfree | right; reflexivity].
    + destruct (ap && (Z.of_N n =? lenZ (ob_strbuf o))) eqn:E.
      * split; [exact Hfree | right; reflexivity].
      * destruct (create_buffer_ctor k ovf o) as [Hc | Hc]; rewrite Hc.
        -- cbn [fst snd lift]. split; [exact Hi|]. left. split; [reflexivity | now left].
        -- split; [exact Hfree | right; reflexivity].
  - split; [exact Hfree | right; reflexivity].
  - unfold o_getfile in *. destruct (ob_buf o) as [b|] eqn:Hb.
    + split; [exact Hfree | right; reflexivity].
    + destruct (create_buffer_ctor k ovf o) as [Hc | Hc]; rewrite Hc.
      * cbn [fst snd lift]. split; [exact Hi|]. left. split; [reflexivity | now left].
      * split; [exact Hfree | right; reflexivity].
  - now elim Hl.
Qed.

(* the fault-free semantics never answers OSFault *)
Lemma step_never_osfault limit ovf o p : inv o -> live p -> snd (step limit ovf o p) <> RExn OSFault.
Proof.
  intros Hi Hp He.
  destruct (step_refines limit ovf o p Hi Hp) as (_ & _ & Hout).
  rewrite He in Hout. unfold out_ok in Hout.
  destruct p as [s | n [|] | n ap | | |]; cbn in Hout; try tauto.
  unfold q_step in Hout. destruct (Z.of_N n <=? q_len (abs o)); cbn in Hout; tauto.
  now elim Hp.
Qed.

(* A fault while creating the new file object, at any point of any history: the
   exception propagates, no byte is lost or duplicated, len stays truthful, and
   every continuation of the history is again a refinement of the FIFO queue. *)
Definition fault_atomicity (flt : fault) : Prop :=
  forall limit ovf ops p more, Forall live ops -> live p -> Forall live more ->
  let o := exec limit ovf o_new ops in
  let q := q_exec_op q_empty ops in
  let r := step_f flt limit ovf o p in
  let o' := fst r in
  (snd r <> RExn OSFault -> r = step limit ovf o p) /\
  (snd r = RExn OSFault ->
     inv o' /\
     (abs o' = q \/ exists s, p = OAppend s /\ abs o' = q ++ s) /\
     o_len o' = q_len (abs o') /\
     let o'' := exec limit ovf o' more in
     inv o'' /\ abs o'' = q_exec_op (abs o') more /\ o_len o'' = q_len (abs o'') /\
     forall p', live p' -> out_ok (abs o'') p' (snd (step limit ovf o'' p'))).

Theorem fault_ctor_history k : fault_atomicity (FCtor k).
Proof.
  intros limit ovf ops p more Hl Hp Hm o q r o'.
  destruct (exec_refines limit ovf ops o_new inv_new Hl) as (Hi & Ha). fold o in Hi, Ha.
  change (abs o_new) with q_empty in Ha. fold q in Ha.
  destruct (fault_ctor_step k limit ovf o p Hi Hp) as (H1 & H2). cbv zeta in H1, H2.
  fold r in H1, H2. fold o' in H1, H2.
  split.
  - intro Hne. destruct H2 as [(H2 & _) | H2]; [now elim Hne | exact H2].
  - intro He.
    assert (H3 : fault_ok o p o').
    { destruct H2 as [(_ & H3) | H2]; [exact H3|]. exfalso.
      apply (step_never_osfault limit ovf o p Hi Hp). now rewrite <- H2. }
    split; [exact H1|]. split.
    + destruct H3 as [H3 | (s & -> & H3)]; [left; now rewrite H3 | right; exists s; split; [reflexivity | now rewrite H3, Ha]].
    + split; [now apply abs_len|]. cbv zeta.
      destruct (exec_refines limit ovf more o' H1 Hm) as (H4 & H5).
      repeat split; auto. * now apply abs_len. * intros p' Hp'. now apply step_refines.
Qed.

(* The copy loop's write failing while spilling to disk: the exception propagates
   but the in-memory file is left rewound-and-read; here len says 7 while nothing
   can be read any more (STRBUF_LIMIT 4, overflow 6: append 5 bytes, then append 2
   bytes with ENOSPC on the temporary file). *)
Lemma fault_copy_write_refuted :
  exists limit ovf ops p,
    Forall live ops /\ live p /\
    let o := exec limit ovf o_new ops in
    let r := step_f FCopyWrite limit ovf o p in
    snd r = RExn OSFault /\
    ~ inv (fst r) /\
    o_len (fst r) = 7 /\
    snd (step limit ovf (fst r) (OGet (-1) false)) = RBytes [] /\
    ~ (abs (fst r) = abs o \/ exists s, p = OAppend s /\ abs (fst r) = abs o ++ s).
Proof.
  exists 4%N, 6%N, [OAppend [1;2;3;4;5]%N], (OAppend [6;7]%N).
  split; [repeat constructor; discriminate|]. split; [discriminate|].
  cbv zeta. vm_compute. repeat split; try reflexivity.
  - intros (_ & (_ & _ & H) & _). discriminate.
  - intros [H | (s & Hs & H)]; [discriminate|]. injection Hs as <-. discriminate.
Qed.

(* what does survive that fault: the file's content is complete (the old content
   followed by the appended bytes) and remain still counts from the old read
   position; only the position is wrong *)
Lemma fault_copy_write_content ovf s o b : inv o -> ob_buf o = Some b ->
  snd (o_append_tail FCopyWrite ovf s o b) = Exn OSFault ->
  exists b', ob_buf (fst (o_append_tail FCopyWrite ovf s o b)) = Some b' /\
             f_content (fb_file b') = f_content (fb_file b) ++ s /\
             fb_remain b' = fb_remain b + lenZ s /\
             f_pos (fb_file b') = length (f_content (fb_file b')) /\
             f_closed (fb_file b') = false.
Proof.
  intros Hi Hb. inv_some Hi Hb.
  destruct (fb_append_spec b s Hfb) as (b' & Ha & Hi' & Habs & Hk' & Hp & Hc & Hr).
  unfold o_append_tail. rewrite Ha. cbn [ob_overflowed ob_strbuf].
  destruct (negb (ob_overflowed o)); [|cbn; discriminate].
  destruct (fb_len b' >=? Z.of_N ovf); [|cbn; discriminate].
  unfold o_set_large_buffer, fb_init. cbn [ob_buf ob_strbuf ob_overflowed].
  destruct Hi' as (Hcl & Hpp & Hrr). rewrite Hcl.
  unfold f_read_all, f_seek_set, f_tell. cbn [f_pos f_content f_closed skipn].
  destruct (f_content (fb_file b')) as [|x c'] eqn:Ec.
  - cbn. discriminate.
  - cbn [fst snd]. intros _. eexists; split; [reflexivity|].
    cbn [fb_file fb_remain f_content f_pos f_closed]. rewrite <- Hc. repeat split; auto.
Qed.

Theorem fault_copy_write_not_atomic : ~ fault_atomicity FCopyWrite.
Proof.
  intro H.
  assert (H1 : Forall live [OAppend [1;2;3;4;5]%N]) by (repeat constructor; discriminate).
  assert (H2 : live (OAppend [6;7]%N)) by discriminate.
  destruct (H 4%N 6%N _ _ [] H1 H2 (Forall_nil _)) as (_ & H3).
  destruct H3 as ((_ & (_ & _ & H3) & _) & _); [vm_compute; reflexivity|].
  rename H3 into HH. clear H. rename HH into H.
  vm_compute in H. discriminate.
Qed.
