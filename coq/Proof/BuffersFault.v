(* C17, layer 4: operating-system faults at a representation change
   (the code after /repo commit c9585b7).

   For every fault of Model/Buffers.v -- the constructor of the new file object
   raising (FCtor k), the copy loop's write raising while spilling to disk
   (FCopyWrite), the write of _create_buffer's buf.append(self.strbuf) raising
   (FCreateWrite), the write of append()'s buf.append(s) raising (FAppendWrite) --
   at any operation of any history: the exception propagates and the buffer is
   still a faithful queue: untouched, or, for an append() whose bytes had
   already been written to the in-memory file before the spill to disk was
   attempted, the old queue plus those bytes.  Every later history refines the
   FIFO queue from there.

   Before c9585b7 this was false for FCopyWrite: [fb_init_old] is the old shape of
   FileBasedBuffer.__init__ and [fault_copy_write_refuted_old] the witness. *)
From Coq Require Import List NArith ZArith Bool Lia ZifyBool Arith.
From WV Require Import Lib.PyBytes Model.Buffers Spec.Fifo Proof.Buffers Proof.BuffersRefine.
Import ListNotations.
Local Open Scope Z_scope.

Lemma obuf_eta o : mkobuf (ob_buf o) (ob_strbuf o) (ob_overflowed o) = o.
Proof. now destruct o. Qed.

(* ------------------------------------------------------- constructors --- *)

Lemma fb_init_none_f flt k :
  fb_init flt k None = if ctor_fails flt k then InitExn OSFault None else fb_init FNone k None.
Proof. unfold fb_init. destruct (ctor_fails flt k); reflexivity. Qed.

(* from an intact buffer the constructor either raises the fault and leaves the
   source exactly as it was, or behaves as without fault *)
Lemma fb_init_some_f flt k b : fb_inv b ->
  fb_init flt k (Some b) = InitExn OSFault (Some b) \/
  fb_init flt k (Some b) = fb_init FNone k (Some b).
Proof.
  intros (Hc & Hp & Hr). destruct b as [k0 [c p cl] r]. cbn in Hc. subst cl.
  unfold fb_init. destruct (ctor_fails flt k) eqn:E; [left; reflexivity|].
  cbn [ctor_fails]. cbn [fb_file f_closed].
  destruct flt; try (right; reflexivity).
  unfold f_read_all, f_seek_set, f_tell. cbn [f_pos f_content f_closed skipn fb_kind fb_remain fb_file].
  destruct c as [|x c]; [right; reflexivity | left; reflexivity].
Qed.

Definition bufs_ok (o : obuf) : Prop := forall b, ob_buf o = Some b -> fb_inv b.

Lemma inv_bufs_ok o : inv o -> bufs_ok o.
Proof. intros Hi b Hb. unfold inv in Hi. rewrite Hb in Hi. tauto. Qed.

Lemma set_large_f flt o : bufs_ok o ->
  o_set_large_buffer flt o = (o, Exn OSFault) \/ o_set_large_buffer flt o = o_set_large_buffer FNone o.
Proof.
  intro Hok. unfold o_set_large_buffer. destruct (ob_buf o) as [b|] eqn:Hb.
  - destruct (fb_init_some_f flt KTmp b (Hok b Hb)) as [H | H]; rewrite H.
    + left. now rewrite <- Hb, obuf_eta.
    + right. reflexivity.
  - rewrite fb_init_none_f. destruct (ctor_fails flt KTmp).
    + left. now rewrite <- Hb, obuf_eta.
    + right. reflexivity.
Qed.

Lemma set_small_f flt o : bufs_ok o ->
  o_set_small_buffer flt o = (o, Exn OSFault) \/ o_set_small_buffer flt o = o_set_small_buffer FNone o.
Proof.
  intro Hok. unfold o_set_small_buffer. destruct (ob_buf o) as [b|] eqn:Hb.
  - destruct (fb_init_some_f flt KBio b (Hok b Hb)) as [H | H]; rewrite H.
    + left. now rewrite <- Hb, obuf_eta.
    + right. reflexivity.
  - rewrite fb_init_none_f. destruct (ctor_fails flt KBio).
    + left. now rewrite <- Hb, obuf_eta.
    + right. reflexivity.
Qed.

(* _create_buffer under any fault: nothing at all has happened, or no fault struck *)
Lemma create_buffer_f flt ovf o : inv o -> ob_buf o = None ->
  o_create_buffer flt ovf o = (o, Exn OSFault) \/
  o_create_buffer flt ovf o = o_create_buffer FNone ovf o.
Proof.
  intros Hi Hb. pose proof (inv_bufs_ok o Hi) as Hok.
  assert (Hov : ob_overflowed o = false) by (unfold inv in Hi; now rewrite Hb in Hi).
  unfold o_create_buffer.
  assert (Hset : forall (setf : fault -> obuf -> obuf * outcome fbuf) k ovd,
            (forall f, setf f o = match fb_init f k (ob_buf o) with
                                  | InitExn e old => (mkobuf old (ob_strbuf o) (ob_overflowed o), Exn e)
                                  | InitOk nb => (mkobuf (Some nb) (ob_strbuf o) ovd, Ok nb) end) ->
            (let '(o1, r) := setf flt o in
             match r with
             | Exn e => (o1, Exn e)
             | Ok buf => match ob_strbuf o with
                         | [] => (o1, Ok buf)
                         | _ :: _ => match fb_append (is_create_write flt) buf (ob_strbuf o1) with
                                     | Exn e => (mkobuf None (ob_strbuf o1) false, Exn e)
                                     | Ok buf' => (mkobuf (Some buf') [] (ob_overflowed o1), Ok buf')
                                     end
                         end
             end) = (o, Exn OSFault) \/
            (let '(o1, r) := setf flt o in
             match r with
             | Exn e => (o1, Exn e)
             | Ok buf => match ob_strbuf o with
                         | [] => (o1, Ok buf)
                         | _ :: _ => match fb_append (is_create_write flt) buf (ob_strbuf o1) with
                                     | Exn e => (mkobuf None (ob_strbuf o1) false, Exn e)
                                     | Ok buf' => (mkobuf (Some buf') [] (ob_overflowed o1), Ok buf')
                                     end
                         end
             end) =
            (let '(o1, r) := setf FNone o in
             match r with
             | Exn e => (o1, Exn e)
             | Ok buf => match ob_strbuf o with
                         | [] => (o1, Ok buf)
                         | _ :: _ => match fb_append (is_create_write FNone) buf (ob_strbuf o1) with
                                     | Exn e => (mkobuf None (ob_strbuf o1) false, Exn e)
                                     | Ok buf' => (mkobuf (Some buf') [] (ob_overflowed o1), Ok buf')
                                     end
                         end
             end)).
  { intros setf k ovd Hs. rewrite !Hs, Hb, !(fb_init_none_f flt), (fb_init_none_f FNone). cbn [ctor_fails].
    destruct (ctor_fails flt k).
    - left. now rewrite <- Hb, obuf_eta.
    - rewrite fb_init_none. cbn [ob_strbuf ob_overflowed].
      destruct (ob_strbuf o) as [|x sb] eqn:Es; [right; reflexivity|].
      destruct flt; try (right; reflexivity).
      left. cbn [is_create_write]. rewrite fb_append_fails by reflexivity.
      destruct o as [ob sb0 ovd0]. cbn in *. now subst. }
  destruct (lenZ (ob_strbuf o) >=? Z.of_N ovf).
  - apply (Hset o_set_large_buffer KTmp true). reflexivity.
  - apply (Hset o_set_small_buffer KBio false). reflexivity.
Qed.

(* what a faulted operation leaves behind *)
Definition fault_ok (o : obuf) (p : op) (o' : obuf) : Prop :=
  abs o' = abs o \/ (exists s, p = OAppend s /\ abs o' = abs o ++ s).

Lemma append_tail_f flt ovf s o b : inv o -> ob_buf o = Some b ->
  let r := o_append_tail flt ovf s o b in
  inv (fst r) /\
  ((snd r = Exn OSFault /\ (abs (fst r) = abs o \/ abs (fst r) = abs o ++ s)) \/
   r = o_append_tail FNone ovf s o b).
Proof.
  intros Hi Hb. assert (Habs0 : abs o = fb_abs b) by (unfold abs; now rewrite Hb).
  destruct (append_tail_spec ovf s o b Hi Hb) as (on & Hn1 & Hn2 & _).
  pose proof Hi as Hi0. inv_some Hi Hb.
  destruct (fb_append_spec b s Hfb) as (b' & Ha & Hi' & Habs & Hk' & Hp & Hc & Hr).
  cbv zeta. unfold o_append_tail in *. cbn [is_append_write] in *.
  destruct (is_append_write flt) eqn:Eaw.
  - rewrite fb_append_fails by apply Hfb. cbv zeta. cbn [fst snd]. split; [exact Hi0|].
    left. split; [reflexivity | now left].
  - rewrite Ha in *. cbn [ob_overflowed ob_strbuf] in *.
    assert (Hi2 : inv (mkobuf (Some b') (ob_strbuf o) (ob_overflowed o))).
    { unfold inv; cbn [ob_buf ob_strbuf ob_overflowed]. rewrite Hk'.
      repeat split; auto; try apply Hi'; try apply Hov; try discriminate. }
    destruct (negb (ob_overflowed o)); [|cbv zeta; cbn [fst snd]; split; [exact Hi2 | right; reflexivity]].
    destruct (fb_len b' >=? Z.of_N ovf); [|cbv zeta; cbn [fst snd]; split; [exact Hi2 | right; reflexivity]].
    destruct (set_large_f flt _ (inv_bufs_ok _ Hi2)) as [H | H]; rewrite H.
    + cbv zeta. cbn [fst snd]. split; [exact Hi2|].
      left. split; [reflexivity|]. right. unfold abs at 1. cbn [ob_buf]. now rewrite Habs0.
    + cbv zeta. split; [|right; reflexivity].
      destruct (o_set_large_buffer FNone _) as [o3 [x|e]]; cbn [fst]; inversion Hn1; subst; assumption.
Qed.

Lemma fault_step flt limit ovf o p : inv o -> live p ->
  let r := step_f flt limit ovf o p in
  inv (fst r) /\
  ((snd r = RExn OSFault /\ fault_ok o p (fst r)) \/ r = step limit ovf o p).
Proof.
  intros Hi Hl. unfold step.
  assert (Hfree : inv (fst (step_f FNone limit ovf o p))) by (apply (step_refines limit ovf o p Hi Hl)).
  destruct p as [s | n sk | n ap | | |]; unfold step_f in *; cbv zeta.
  - unfold o_append in *. destruct (ob_buf o) as [b|] eqn:Hb.
    + destruct (append_tail_f flt ovf s o b Hi Hb) as (H1 & H2). cbv zeta in H1, H2.
      destruct (o_append_tail flt ovf s o b) as [o' r'] eqn:E. cbn [fst snd] in *.
      split; [exact H1|]. destruct H2 as [(-> & H2) | H2].
      * left. split; [reflexivity|]. destruct H2 as [H2 | H2]; [now left | right; exists s; auto].
      * right. now rewrite <- H2.
    + destruct (lenZ (ob_strbuf o) + lenZ s <? Z.of_N limit) eqn:E.
      * cbn [fst snd]. split; [exact Hfree | right; reflexivity].
      * destruct (create_buffer_f flt ovf o Hi Hb) as [Hc | Hc]; rewrite Hc.
        -- cbn [fst snd lift]. split; [exact Hi|]. left. split; [reflexivity | now left].
        -- destruct (create_buffer_spec ovf o Hi Hb) as (o1 & b & Hc1 & Hb1 & Hi1 & Ha1 & _).
           rewrite Hc1 in *.
           assert (E1 : abs o1 = abs o) by (rewrite Ha1; unfold abs; now rewrite Hb).
           destruct (append_tail_f flt ovf s o1 b Hi1 Hb1) as (H1 & H2). cbv zeta in H1, H2.
           destruct (o_append_tail flt ovf s o1 b) as [o' r'] eqn:E'. cbn [fst snd] in *.
           split; [exact H1|]. destruct H2 as [(-> & H2) | H2].
           ++ left. split; [reflexivity|]. rewrite E1 in H2.
              destruct H2 as [H2 | H2]; [now left | right; exists s; auto].
           ++ right. now rewrite <- H2.
  - unfold o_get in *. destruct (ob_buf o) as [b|] eqn:Hb.
    + split; [exact Hfree | right; reflexivity].
    + destruct sk; cbn [negb] in *.
      * destruct (create_buffer_f flt ovf o Hi Hb) as [Hc | Hc]; rewrite Hc.
        -- cbn [fst snd lift]. split; [exact Hi|]. left. split; [reflexivity | now left].
        -- split; [exact Hfree | right; reflexivity].
      * split; [exact Hfree | right; reflexivity].
  - unfold o_skip in *. destruct (ob_buf o) as [b|] eqn:Hb.
    + split; [exact Hfree | right; reflexivity].
    + destruct (ap && (Z.of_N n =? lenZ (ob_strbuf o))) eqn:E.
      * split; [exact Hfree | right; reflexivity].
      * destruct (create_buffer_f flt ovf o Hi Hb) as [Hc | Hc]; rewrite Hc.
        -- cbn [fst snd lift]. split; [exact Hi|]. left. split; [reflexivity | now left].
        -- split; [exact Hfree | right; reflexivity].
  - split; [exact Hfree | right; reflexivity].
  - unfold o_getfile in *. destruct (ob_buf o) as [b|] eqn:Hb.
    + split; [exact Hfree | right; reflexivity].
    + destruct (create_buffer_f flt ovf o Hi Hb) as [Hc | Hc]; rewrite Hc.
      * cbn [fst snd lift]. split; [exact Hi|]. left. split; [reflexivity | now left].
      * split; [exact Hfree | right; reflexivity].
  - now elim Hl.
Qed.

(* the fault-free semantics never answers OSFault *)
Lemma step_never_osfault limit ovf o p : inv o -> live p -> snd (step limit ovf o p) <> RExn OSFault.
Proof.
  intros Hi Hp He.
  destruct (step_refines limit ovf o p Hi Hp) as (_ & _ & Hout).
  rewrite He in Hout. unfold out_ok in Hout.
  destruct p as [s | n [|] | n ap | | |]; cbn in Hout; try tauto.
  unfold q_step in Hout. destruct (Z.of_N n <=? q_len (abs o)); cbn in Hout; tauto.
  now elim Hp.
Qed.

(* A fault at any point of any history: the exception propagates, no byte is lost
   or duplicated, len stays truthful, and every continuation of the history is
   again a refinement of the FIFO queue. *)
Definition fault_atomicity (flt : fault) : Prop :=
  forall limit ovf ops p more, Forall live ops -> live p -> Forall live more ->
  let o := exec limit ovf o_new ops in
  let q := q_exec_op q_empty ops in
  let r := step_f flt limit ovf o p in
  let o' := fst r in
  (snd r <> RExn OSFault -> r = step limit ovf o p) /\
  (snd r = RExn OSFault ->
     inv o' /\
     (abs o' = q \/ exists s, p = OAppend s /\ abs o' = q ++ s) /\
     o_len o' = q_len (abs o') /\
     let o'' := exec limit ovf o' more in
     inv o'' /\ abs o'' = q_exec_op (abs o') more /\ o_len o'' = q_len (abs o'') /\
     forall p', live p' -> out_ok (abs o'') p' (snd (step limit ovf o'' p'))).

Theorem fault_history flt : fault_atomicity flt.
Proof.
  intros limit ovf ops p more Hl Hp Hm o q r o'.
  destruct (exec_refines limit ovf ops o_new inv_new Hl) as (Hi & Ha). fold o in Hi, Ha.
  change (abs o_new) with q_empty in Ha. fold q in Ha.
  destruct (fault_step flt limit ovf o p Hi Hp) as (H1 & H2). cbv zeta in H1, H2.
  fold r in H1, H2. fold o' in H1, H2.
  split.
  - intro Hne. destruct H2 as [(H2 & _) | H2]; [now elim Hne | exact H2].
  - intro He.
    assert (H3 : fault_ok o p o').
    { destruct H2 as [(_ & H3) | H2]; [exact H3|]. exfalso.
      apply (step_never_osfault limit ovf o p Hi Hp). now rewrite <- H2. }
    split; [exact H1|]. split.
    + destruct H3 as [H3 | (s & -> & H3)]; [left; now rewrite H3 | right; exists s; split; [reflexivity | now rewrite H3, Ha]].
    + split; [now apply abs_len|]. cbv zeta.
      destruct (exec_refines limit ovf more o' H1 Hm) as (H4 & H5).
      repeat split; auto. * now apply abs_len. * intros p' Hp'. now apply step_refines.
Qed.

(* the faults are reachable and the append case of the disjunction is real:
   STRBUF_LIMIT 4, overflow 6, append 5 bytes (BytesIO), append 2 bytes *)
Lemma fault_append_case_reachable :
  let o := exec 4 6 o_new [OAppend [1;2;3;4;5]%N] in
  (forall flt, In flt [FCtor KTmp; FCopyWrite] ->
     snd (step_f flt 4 6 o (OAppend [6;7]%N)) = RExn OSFault /\
     abs (fst (step_f flt 4 6 o (OAppend [6;7]%N))) = abs o ++ [6;7]%N) /\
  snd (step_f FAppendWrite 4 6 o (OAppend [6;7]%N)) = RExn OSFault /\
  fst (step_f FAppendWrite 4 6 o (OAppend [6;7]%N)) = o /\
  step_f FCreateWrite 4 6 (exec 4 6 o_new [OAppend [1;2]%N]) (OGet 1 true) =
    (exec 4 6 o_new [OAppend [1;2]%N], RExn OSFault).
Proof.
  cbv zeta. split; [|vm_compute; repeat split].
  intros flt [<- | [<- | []]]; vm_compute; split; reflexivity.
Qed.

(* ------------------------------------------ the code before c9585b7 --- *)

(* FileBasedBuffer.__init__ as it was: the source file is repositioned only when
   the copy succeeds *)
Definition fb_init_old (flt : fault) (k : kind) (from_buffer : option fbuf) : init_result :=
  if ctor_fails flt k then InitExn OSFault from_buffer else
  let file := newfile in
  match from_buffer with
  | None => InitOk (mkfbuf k file 0)
  | Some ob =>
    let from_file := fb_file ob in
    if f_closed from_file then InitExn ValueErrorClosed from_buffer else
    let read_pos := f_tell from_file in
    let from_file := f_seek_set from_file 0 in
    let '(data, from_file) := f_read_all from_file in
    match flt, data with
    | FCopyWrite, _ :: _ => InitExn OSFault (Some (mkfbuf (fb_kind ob) from_file (fb_remain ob)))
    | _, _ =>
      let file := f_write file data in
      let remain := Z.of_nat (f_tell file) - Z.of_nat read_pos in
      let from_file := f_seek_set from_file read_pos in
      let file := f_seek_set file read_pos in
      InitOk (mkfbuf k file remain)
    end
  end.

(* without faults the two shapes agree *)
Lemma fb_init_old_same k from : fb_init_old FNone k from = fb_init FNone k from.
Proof. destruct from as [b|]; reflexivity. Qed.

(* with the copy write failing, the old shape left the source at its end: len 7, nothing readable *)
Lemma fault_copy_write_refuted_old :
  exists b, fb_inv b /\
    match fb_init_old FCopyWrite KTmp (Some b) with
    | InitExn OSFault (Some b') =>
        ~ fb_inv b' /\ fb_remain b' = 7 /\ fb_abs b' = [] /\ f_content (fb_file b') = f_content (fb_file b)
    | _ => False
    end /\
    fb_init FCopyWrite KTmp (Some b) = InitExn OSFault (Some b).
Proof.
  exists (mkfbuf KBio (mkfile [1;2;3;4;5;6;7]%N 0 false) 7).
  split; [repeat split; cbn; lia|]. split; [|reflexivity].
  vm_compute. repeat split; try reflexivity. intros (_ & _ & H). discriminate.
Qed.
