(* Proof/ChanWakeL6.v -- layer 6 of the C05 invariant: the wake-up per cause.  Output at or
   above send_bytes, will_close and close_when_flushed are each either seen by the I/O
   thread's coming select, or announced by a pulled trigger, or owned by a worker whose next
   steps decide about (or perform) the pull_trigger -- no matter how long workers stay inside
   the application (WApp). *)
From Coq Require Import List ZArith Bool Arith Lia.
From WV Require Import Model.ChanWake Proof.ChanWakeInv Proof.ChanWakeBase Proof.ChanWakeL1 Proof.ChanWakeL2
  Proof.ChanWakeL3 Proof.ChanWakeL4.
Import ListNotations.
Open Scope Z_scope.

Definition G6 (c : cfg) (s : state) : Prop :=
  closed s = false ->
  ((0 < total s /\ sb c <= total s) ->
     pulled s = true \/ cov_tot (io s) = true \/ existsb act_tot (ws s) = true) /\
  (wc s = true -> pulled s = true \/ cov_wc (io s) = true \/ existsb act_wc (ws s) = true) /\
  (cwf s = true -> pulled s = true \/ cov_cwf (io s) = true \/ existsb act_cwf (ws s) = true).

Lemma g6_init : forall c nw, G6 c (init nw).
Proof. intros c nw _. simpl. repeat split; intros; try lia; try discriminate. Qed.

Lemma act_notified : forall p,
  (act_tot p = true -> act_tot (notified p) = true) /\ (act_wc p = true -> act_wc (notified p) = true) /\
  (act_cwf p = true -> act_cwf (notified p) = true).
Proof. destruct p; simpl; auto. Qed.

Lemma existsb_notify_mono : forall (f : wpc -> bool) l,
  (forall p, f p = true -> f (notified p) = true) ->
  existsb f l = true -> existsb f (notify_o l) = true.
Proof.
  intros f l Hf H. apply existsb_ex in H. destruct H as (j & p & Hj & Hp).
  destruct (notify_o_fwd _ _ _ Hj) as [H1|[_ H1]]; eapply existsb_nth; eauto.
Qed.

Lemma existsb_add_task_mono : forall (f : wpc -> bool) s,
  Inv2 s -> f WIdle = false -> existsb f (ws s) = true -> existsb f (ws (add_task s)) = true.
Proof.
  intros f s HI Hf H. destruct (add_task_cases s) as [(_ & -> & _)|(w & r & Eq & -> & _)]; auto.
  apply existsb_ex in H. destruct H as (j & p & Hj & Hp).
  destruct (Nat.eq_dec j w).
  - subst. assert (Hw : nth_error (ws s) w = Some WIdle) by (apply (i2_qw _ HI); rewrite Eq; left; auto).
    rewrite Hw in Hj. inversion Hj; subst. congruence.
  - apply existsb_nth with (i := j) (p := p); [rewrite nth_error_upd_other by congruence; exact Hj | exact Hp].
Qed.

Lemma add_task_fields6 : forall s,
  wc (add_task s) = wc s /\ cwf (add_task s) = cwf s /\ total (add_task s) = total s /\
  closed (add_task s) = closed s /\ pulled (add_task s) = pulled s.
Proof. intros. unfold add_task. simpl. destruct (qwait s); simpl; repeat split; reflexivity. Qed.

Lemma g6_step_io : forall c s ch s' l,
  Inv2 s -> G6 c s -> step_io c s ch = Some (s', l) -> G6 c s'.
Proof.
  intros c s ch s' l HI2 HG H.
  pose proof (existsb_notify_mono act_tot (ws s) (fun p => proj1 (act_notified p))) as Hn1.
  pose proof (existsb_notify_mono act_wc (ws s) (fun p => proj1 (proj2 (act_notified p)))) as Hn2.
  pose proof (existsb_notify_mono act_cwf (ws s) (fun p => proj2 (proj2 (act_notified p)))) as Hn3.
  pose proof (existsb_add_task_mono act_tot s HI2 eq_refl) as Ha1.
  pose proof (existsb_add_task_mono act_wc s HI2 eq_refl) as Ha2.
  pose proof (existsb_add_task_mono act_cwf s HI2 eq_refl) as Ha3.
  unfold G6 in HG.
  unfold step_io in H. step_cases H; free_hyps.
  all: unfold after_read, turn_start, hc_return, goio in *.
  all: repeat match goal with |- context [if ?b then _ else _] => destruct b eqn:? end.
  all: z_hyps; nat_hyps.
  all: try match goal with |- context [add_task ?x] =>
         destruct (add_task_fields6 x) as (F1 & F2 & F3 & F4 & F5) end.
  all: unfold G6; simpl; rewrite ?F1, ?F2, ?F3, ?F4, ?F5;
       try match goal with E : io _ = _ |- _ => rewrite ?E; simpl end; intros Hc.
  all: simpl in HG.
  all: try match goal with H : closed _ = true |- _ => simpl in H; congruence end.
  all: try (repeat split; intros; right; left; reflexivity).
  all: try (specialize (HG Hc); destruct HG as (G1 & G2 & G3)).
  all: try (repeat split; intros Hx;
            [ try (destruct G1 as [?|[?|?]]; [split; lia | | | ]; auto; try discriminate; fail)
            | try (destruct (G2 ltac:(first [assumption | congruence])) as [?|[?|?]]; auto; try discriminate; fail)
            | try (destruct (G3 ltac:(first [assumption | congruence])) as [?|[?|?]]; auto; try discriminate; fail) ]).
  all: try (exfalso; lia).
  all: try (exfalso; congruence).
  rewrite Hx. auto.
Qed.

Lemma g6_step_w : forall c s i ch s' l,
  Inv1 s -> Inv2 s -> Inv3 s -> G6 c s -> step_w c s i ch = Some (s', l) -> G6 c s'.
Proof.
  intros c s i ch s' l HI1 HI2 HI3 HG H. unfold step_w in H.
  destruct (getw s i) as [pc|] eqn:Hg; [|discriminate]. unfold getw in Hg.
  assert (Hscx : w_scx pc = true -> conn s = false) by (intros Hx; eapply (i3_scx _ HI3); eauto).
  assert (Hlen : (i < length (ws s))%nat) by (apply nth_error_Some; congruence).
  pose proof (i3_c3 _ HI3) as Hc3.
  assert (Hk : forall (f : wpc -> bool) q, existsb f (ws s) = true -> f pc = false \/ f q = true ->
                                           existsb f (upd i q (ws s)) = true)
    by (intros; eapply existsb_upd_keep; eauto).
  unfold G6 in HG.
  step_cases H; free_hyps; simpl in Hscx.
  all: unfold setw, hw_exit in *.
  all: repeat match goal with |- context [if ?b then _ else _] => destruct b eqn:? end.
  all: repeat match goal with |- context [match ?b with SWr _ => _ | SEnd => _ end] => destruct b eqn:? end.
  all: z_hyps; nat_hyps.
  all: unfold G6; simpl; intros Hc.
  all: try congruence.
  all: try (first [specialize (HG Hc) | specialize (HG eq_refl)]; destruct HG as (G1 & G2 & G3)).
  all: repeat split; intros Hx.
  all: try (right; right; apply existsb_upd_in; [exact Hlen | reflexivity]; fail).
  all: try (left; reflexivity).
  all: try (destruct G1 as [?|[?|?]]; [split; lia | auto | auto | right; right; first [assumption | apply Hk; auto]]; fail).
  all: try (destruct (G2 ltac:(first [assumption | congruence])) as [?|[?|?]]; [auto | auto | right; right; first [assumption | apply Hk; auto]]; fail).
  all: try (destruct (G3 ltac:(first [assumption | congruence])) as [?|[?|?]]; [auto | auto | right; right; first [assumption | apply Hk; auto]]; fail).
  all: try (exfalso; lia).
  all: try (destruct (add_task_fields6 s) as (F1 & F2 & F3 & F4 & F5); rewrite ?F1, ?F2, ?F3, ?F4, ?F5 in *;
            specialize (HG Hc); destruct HG as (G1 & G2 & G3);
            pose proof (add_task_nth_keep s i WK5b HI2 Hg eq_refl) as Hg';
            assert (Hio : io (add_task s) = io s) by (unfold add_task; simpl; destruct (qwait s); reflexivity);
            rewrite Hio).
  - destruct (G1 Hx) as [?|[?|Hex]]; auto. right; right.
    eapply existsb_upd_keep; [exact Hg' | apply (existsb_add_task_mono act_tot s HI2 eq_refl Hex) | left; reflexivity].
  - destruct (G2 Hx) as [?|[?|Hex]]; auto. right; right.
    eapply existsb_upd_keep; [exact Hg' | apply (existsb_add_task_mono act_wc s HI2 eq_refl Hex) | left; reflexivity].
  - destruct (G3 Hx) as [?|[?|Hex]]; auto. right; right.
    eapply existsb_upd_keep; [exact Hg' | apply (existsb_add_task_mono act_cwf s HI2 eq_refl Hex) | left; reflexivity].
  - (* service() ends with connected = False: handle_close is under way *)
    destruct (Hc3 eq_refl) as [Hx'|Hl]; [congruence|].
    right; left. destruct (io s); simpl in Hl; try discriminate; reflexivity.
  - destruct (Hc3 eq_refl) as [Hx'|Hl]; [congruence|].
    right; left. destruct (io s); simpl in Hl; try discriminate; reflexivity.
  - destruct (Hc3 eq_refl) as [Hx'|Hl]; [congruence|].
    right; left. destruct (io s); simpl in Hl; try discriminate; reflexivity.
Qed.

Lemma g6_step : forall c s ch s' l,
  Inv1 s -> Inv2 s -> Inv3 s -> G6 c s -> step c s ch = Some (s', l) -> G6 c s'.
Proof.
  intros c s ch s' l HI1 HI2 HI3 HI H. unfold step in H. destruct ch;
    try (eapply g6_step_io; eauto; fail); try (eapply g6_step_w; eauto; fail).
  - destruct (gone s); [discriminate|]. inversion H; subst. exact HI.
  - destruct (gone s); [discriminate|]. inversion H; subst. exact HI.
Qed.
