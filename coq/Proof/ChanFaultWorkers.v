(* Proof/ChanFaultWorkers.v -- C13_workers: no fault placement and no schedule
   kills a pool worker: whatever escapes service() is caught by handler_thread's
   `except BaseException`, which is always the bottom frame of a busy worker. *)
From Coq Require Import List Arith Bool Lia.
From WV Require Import Lib.Conc Model.ChanFault Proof.ChanFaultSpec Proof.ChanFaultBase Proof.ChanFaultStep.
Import ListNotations.

Definition wtop (s : state) (c : chan) : Prop :=
  let th := getth s (W c) in
  (stk th = [] /\ raising th = None) \/ (exists pre, stk th = pre ++ [KWorkerTop c]).

Definition WInv (s : state) (tr : list label) : Prop :=
  (forall c, wtop s c) /\ workers_ok tr.

Lemma workers_ok_app : forall a b, workers_ok a -> workers_ok b -> workers_ok (a ++ b).
Proof. unfold workers_ok. intros a b Ha Hb c Hin. apply in_app_or in Hin. destruct Hin; [eapply Ha|eapply Hb]; eauto. Qed.

(* the labels of exec and frame never contain LWorkerDied *)
Lemma exec_no_wdied : forall g t i a s,
  match exec g t i a s with
  | Blocked => True
  | Norm _ _ ls => workers_ok ls
  | Raise _ _ ls => workers_ok ls
  end.
Proof.
  intros. destruct i; cbn [exec]; repeat split_innermost; auto;
  unfold workers_ok; simpl; intros cc Hin; intuition discriminate.
Qed.

Lemma frame_no_wdied : forall t k x s,
  match frame t k x s with
  | FCatch _ _ ls => workers_ok ls
  | FPass _ => True
  end.
Proof.
  intros. destruct k; cbn [frame]; repeat split_innermost; auto;
  unfold workers_ok; simpl; intros cc Hin; intuition discriminate.
Qed.

Lemma app_last_cases : forall (i : instr) rest pre k,
  i :: rest = pre ++ [k] -> (rest = [] /\ i = k) \/ (exists pre', rest = pre' ++ [k]).
Proof.
  intros i rest pre k E. destruct pre as [|j pre]; simpl in E; inversion E; subst; eauto.
Qed.

(* what the running thread's stack looks like after its step *)
Lemma wtop_after : forall s1 t stack r lx ls lc c,
  (t = W c -> (stack = [] /\ r = None) \/ exists pre, stack = pre ++ [KWorkerTop c]) ->
  (t <> W c -> wtop s1 c) ->
  wtop (setth s1 t (mkTh stack r lx ls lc)) c.
Proof.
  intros s1 t stack r lx ls lc c Hst Ho. unfold wtop. destruct (tid_dec t (W c)) as [E|NE].
  - subst t. rewrite getth_setth_same. simpl. auto.
  - rewrite getth_setth_other by auto. apply Ho. auto.
Qed.

Lemma no_frame_no_top : forall pre k, is_frame k = true -> drop_to_frame (pre ++ [k]) <> [].
Proof.
  induction pre as [|i pre IH]; simpl; intros k Hk.
  - rewrite Hk. discriminate.
  - destruct (is_frame i); [discriminate|auto].
Qed.

Lemma WInv_step : forall g s tr c s' l, WInv s tr -> step g s c = Some (s', l) -> WInv s' (tr ++ l).
Proof.
  intros g s tr [t a] s' l [Hw Htr] H.
  assert (Hother : forall u, t <> u -> getth s' u = getth s u) by (intros; eapply step_other_thread; eauto).
  assert (Hwo : forall c, t <> W c -> wtop s' c).
  { intros c NE. unfold wtop. rewrite Hother by auto. apply Hw. }
  unfold step in H.
  destruct (raising (getth s t)) as [x|] eqn:R.
  - destruct (drop_to_frame (stk (getth s t))) as [|k rest] eqn:D.
    + destruct t as [|c].
      * injection H as Es El. subst s' l. split.
        -- intro c. apply Hwo. discriminate.
        -- apply workers_ok_app; auto. intros cc Hin. simpl in Hin. intuition discriminate.
      * exfalso. destruct (Hw c) as [[E1 E2]|[pre E]]; [congruence|].
        rewrite E in D. eapply no_frame_no_top; eauto. reflexivity.
    + pose proof (frame_no_wdied t k x s) as FL.
      destruct (frame t k x s) as [s1 push ls|s1] eqn:F; injection H as Es El; subst l; split.
      * intro c. destruct (tid_dec t (W c)) as [Et|NE]; [|auto].
        subst s'. unfold set_raising. apply wtop_after; [|congruence]. intros _. subst t.
        destruct (Hw c) as [[E1 E2]|[pre E]]; [congruence|].
        rewrite E in D. destruct (drop_to_frame_last pre (KWorkerTop c) eq_refl _ _ D) as [[Er Ek]|[pre' Er]]; subst.
        -- cbn [frame] in F. injection F as _ Ep _. subst push. left. auto.
        -- right. exists (push ++ pre'). rewrite app_assoc. reflexivity.
      * apply workers_ok_app; auto.
      * intro c. destruct (tid_dec t (W c)) as [Et|NE]; [|auto].
        subst s'. unfold set_raising. apply wtop_after; [|congruence]. intros _. subst t.
        destruct (Hw c) as [[E1 E2]|[pre E]]; [congruence|].
        rewrite E in D. destruct (drop_to_frame_last pre (KWorkerTop c) eq_refl _ _ D) as [[Er Ek]|[pre' Er]]; subst.
        -- cbn [frame] in F. discriminate.
        -- right. exists pre'. reflexivity.
      * rewrite app_nil_r. auto.
  - destruct (stk (getth s t)) as [|i rest] eqn:S.
    + destruct t as [|c]; try discriminate.
      destruct (queued (getc s c)); [|discriminate]. injection H as Es El. subst l. split.
      * intro d. destruct (tid_dec (W c) (W d)) as [Et|NE]; [|auto].
        injection Et as Et. subst d s'. unfold set_stk. apply wtop_after; [|congruence].
        intros _. right. exists [ISvcStart c]. reflexivity.
      * rewrite app_nil_r. auto.
    + pose proof (exec_no_wdied g t i a s) as EL.
      pose proof (exec_own_stack g t i a s) as OS.
      destruct (exec g t i a s) as [|s1 push ls|s1 x ls] eqn:E; [discriminate| |]; injection H as Es El; subst l; split.
      * intro c. destruct (tid_dec t (W c)) as [Et|NE]; [|auto].
        subst s'. unfold set_stk. apply wtop_after; [|congruence]. intros _. subst t.
        destruct (Hw c) as [[E1 E2]|[pre Ep]]; [congruence|].
        rewrite Ep in S. symmetry in S. destruct (app_last_cases _ _ _ _ S) as [[Er Ek]|[pre' Er]]; subst.
        -- cbn [exec] in E. injection E as _ Epu _. subst push. left. split; [reflexivity|].
           destruct OS as [_ OS]. congruence.
        -- right. exists (push ++ pre'). rewrite app_assoc. reflexivity.
      * apply workers_ok_app; auto.
      * intro c. destruct (tid_dec t (W c)) as [Et|NE]; [|auto].
        subst s'. unfold set_raising. apply wtop_after; [|congruence]. intros _. subst t.
        destruct (Hw c) as [[E1 E2]|[pre Ep]]; [congruence|].
        rewrite Ep in S. symmetry in S. destruct (app_last_cases _ _ _ _ S) as [[Er Ek]|[pre' Er]]; subst.
        -- cbn [exec] in E. discriminate.
        -- right. exists pre'. reflexivity.
      * apply workers_ok_app; auto.
Qed.

Theorem workers_never_die : forall g sched, workers_ok (ChanFault.trace g sched).
Proof.
  intros g sched.
  apply (inv_rule_tr g WInv).
  - split.
    + intro c. left. destruct c; split; reflexivity.
    + intros c H. inversion H.
  - apply WInv_step.
Qed.
