(* Splitting a serialised head on CRLF gives back its lines, provided no line
   contains CR or LF (PyBytes.split = bytes.split). *)
From Coq Require Import List NArith Bool Lia Arith.
From WV Require Import Lib.PyBytes Model.Task.
Import ListNotations.
Local Open Scope N_scope.

Definition terminated (lines : list str) : str := flat_map (fun l => l ++ CRLF) lines.

Lemma has_crlf_app a b : has_crlf (a ++ b) = false <-> has_crlf a = false /\ has_crlf b = false.
Proof.
  unfold has_crlf, memb. rewrite !existsb_app.
  destruct (existsb (N.eqb LF) a), (existsb (N.eqb CR) a), (existsb (N.eqb LF) b), (existsb (N.eqb CR) b);
    simpl; split; intros; try discriminate; try tauto; destruct H; discriminate.
Qed.

Lemma has_crlf_cons x l : has_crlf (x :: l) = false <-> x <> CR /\ x <> LF /\ has_crlf l = false.
Proof.
  unfold has_crlf, memb. cbn [existsb]. unfold CR, LF.
  destruct (10 =? x) eqn:E1, (13 =? x) eqn:E2;
    destruct (existsb (N.eqb 10) l), (existsb (N.eqb 13) l); cbn [orb];
    apply N.eqb_eq in E1 || apply N.eqb_neq in E1; apply N.eqb_eq in E2 || apply N.eqb_neq in E2;
    split; intros H; try discriminate; try (destruct H as (H1 & H2 & H3)); try discriminate;
    try congruence; repeat split; auto; try congruence.
Qed.

Lemma find_from_shift s p i : find_from s p i = option_map (fun k => (i + k)%nat) (find_from s p 0).
Proof.
  revert i; induction s as [|x s IH]; intro i; cbn [find_from].
  - destruct (startswith [] p); cbn [option_map]; auto; f_equal; lia.
  - destruct (startswith (x :: s) p); cbn [option_map]; [f_equal; lia|].
    rewrite IH. rewrite (IH 1%nat). destruct (find_from s p 0); cbn [option_map]; auto; f_equal; lia.
Qed.

Lemma find_line l rest : has_crlf l = false -> find (l ++ CRLF ++ rest) CRLF = Some (length l).
Proof.
  unfold find. induction l as [|x l IH]; intro H.
  - change ([] ++ CRLF ++ rest) with (CR :: LF :: rest). cbn [find_from].
    assert (startswith (CR :: LF :: rest) CRLF = true) as -> by (destruct rest; reflexivity). reflexivity.
  - apply has_crlf_cons in H as (H1 & H2 & H3).
    cbn [List.app find_from].
    assert (startswith (x :: l ++ CRLF ++ rest) CRLF = false) as ->.
    { unfold CRLF. cbn [startswith]. unfold CR in H1. destruct (13 =? x) eqn:E; auto.
      apply N.eqb_eq in E. congruence. }
    rewrite find_from_shift, IH; auto.
Qed.

Lemma split_terminated lines : Forall (fun l => has_crlf l = false) lines ->
  forall fuel, (length (terminated lines) < fuel)%nat ->
  split_fuel fuel (terminated lines) CRLF = lines ++ [[]].
Proof.
  induction 1 as [|l ls Hl Hls IH]; intros fuel Hf.
  - destruct fuel; reflexivity.
  - destruct fuel as [|f]; [simpl in Hf; lia|].
    change (terminated (l :: ls)) with ((l ++ CRLF) ++ terminated ls) in *.
    rewrite <- app_assoc in *.
    cbn [split_fuel]. rewrite find_line by auto.
    rewrite firstn_app, firstn_all, Nat.sub_diag. cbn [firstn]. rewrite app_nil_r.
    rewrite skipn_app.
    assert (length l + length CRLF - length l = 2)%nat as -> by (simpl; lia).
    rewrite skipn_all2 by (simpl; lia). cbn [List.app].
    change (skipn 2 (CRLF ++ terminated ls)) with (terminated ls).
    rewrite IH. reflexivity.
    rewrite !app_length in Hf. simpl in Hf. lia.
Qed.

Lemma join_terminated l ls : join CRLF (l :: ls) ++ CRLF = terminated (l :: ls).
Proof.
  revert l; induction ls as [|m ls IH]; intro l.
  - simpl. rewrite app_nil_r. reflexivity.
  - change (join CRLF (l :: m :: ls)) with (l ++ CRLF ++ join CRLF (m :: ls)).
    rewrite <- !app_assoc. rewrite IH. unfold terminated. cbn [flat_map].
    rewrite <- !app_assoc. reflexivity.
Qed.

(* the head  "\r\n".join(lines) + "\r\n\r\n"  split on CRLF *)
Theorem split_head l ls : Forall (fun x => has_crlf x = false) (l :: ls) ->
  split (join CRLF (l :: ls) ++ CRLF ++ CRLF) CRLF = (l :: ls) ++ [[]; []].
Proof.
  intro H. rewrite app_assoc, join_terminated.
  change (terminated (l :: ls) ++ CRLF) with (terminated (l :: ls) ++ terminated [[]]).
  unfold terminated at 1 2. rewrite <- flat_map_app.
  unfold split. fold (terminated ((l :: ls) ++ [[]])).
  rewrite split_terminated.
  - rewrite <- app_assoc. reflexivity.
  - apply Forall_app. split; auto.
  - apply Nat.lt_succ_diag_r.
Qed.
