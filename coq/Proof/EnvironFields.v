(* The header part of the environ is the CGI image of the field lines:
   an invariant of add_header_lines by induction over the line list, the
   injectivity of the key mapping, and the comparison with Spec/Pep3333. *)
From Coq Require Import List NArith ZArith Bool Lia.
From RecordUpdate Require Import RecordUpdate.
From WV Require Import Lib.PyBytes Lib.Regex Gen.GenRegex Model.Receiver Model.UrlSplit Model.Parser
  Model.Environ Spec.Pep3333 Proof.EnvironDict Proof.EnvironParse Proof.EnvironRun.
Import ListNotations.
Local Open Scope N_scope.

(* ------------------------------------------------------------------ *)
(* the parser's dictionary *)

Definition hkeys (h : hdict) : list bytes := map fst h.

Lemma hget_hset h k v k' : hget (hset h k v) k' = if beqb k' k then Some v else hget h k'.
Proof.
  induction h as [|[k0 v0] h IH]; simpl.
  - reflexivity.
  - destruct (beqb k k0) eqn:E0; simpl.
    + apply beqb_eq in E0. subst k0. destruct (beqb k' k); reflexivity.
    + destruct (beqb k' k0) eqn:E1.
      * apply beqb_eq in E1. subst k0. rewrite beqb_sym, E0. reflexivity.
      * apply IH.
Qed.

Lemma hget_none_notin h k : ~ In k (hkeys h) -> hget h k = None.
Proof.
  induction h as [|[k0 v0] h IH]; simpl; auto. intro H.
  destruct (beqb k k0) eqn:E.
  - apply beqb_eq in E. subst. tauto.
  - apply IH. tauto.
Qed.

Lemma hkeys_hset_in h k v x : In x (hkeys (hset h k v)) <-> x = k \/ In x (hkeys h).
Proof.
  induction h as [|[k0 v0] h IH]; simpl.
  - intuition.
  - destruct (beqb k k0) eqn:E; simpl.
    + apply beqb_eq in E. subst. intuition.
    + rewrite IH. intuition.
Qed.

Lemma hset_nodup h k v : NoDup (hkeys h) -> NoDup (hkeys (hset h k v)).
Proof.
  induction h as [|[k0 v0] h IH]; simpl; intro H.
  - constructor; [intros []|constructor].
  - inversion H; subst. destruct (beqb k k0) eqn:E; simpl.
    + constructor; auto.
    + constructor; auto. intro X. apply hkeys_hset_in in X. destruct X as [->|X]; auto.
      rewrite beqb_refl in E. discriminate.
Qed.

Lemma hkeys_hpop_in h k x : In x (hkeys (hpop h k)) -> In x (hkeys h).
Proof.
  induction h as [|[k0 v0] h IH]; simpl; auto.
  destruct (beqb k k0); simpl; intuition.
Qed.

Lemma hpop_nodup h k : NoDup (hkeys h) -> NoDup (hkeys (hpop h k)).
Proof.
  induction h as [|[k0 v0] h IH]; simpl; intro H; auto.
  inversion H; subst. destruct (beqb k k0); simpl; auto.
  constructor; auto. intro X. apply hkeys_hpop_in in X. contradiction.
Qed.

Lemma hget_hpop h k k' :
  NoDup (hkeys h) -> hget (hpop h k) k' = if beqb k' k then None else hget h k'.
Proof.
  induction h as [|[k0 v0] h IH]; simpl; intro H.
  - destruct (beqb k' k); reflexivity.
  - inversion H; subst. destruct (beqb k k0) eqn:E0.
    + apply beqb_eq in E0. subst k0. destruct (beqb k' k) eqn:E1.
      * apply beqb_eq in E1. subst k'. apply hget_none_notin. assumption.
      * reflexivity.
    + simpl. destruct (beqb k' k0) eqn:E1.
      * apply beqb_eq in E1. subst k0. rewrite beqb_sym in E0. rewrite E0. reflexivity.
      * apply IH. assumption.
Qed.

(* ------------------------------------------------------------------ *)
(* one field line *)

Definition field_of_line (line : bytes) : bytes * bytes :=
  let '(n, _, r) := partition line [58] in (n, r).

Definition line_adds (k : bytes) (line : bytes) : list bytes :=
  let '(n, r) := field_of_line line in
  if negb (memb 95 n) && beqb (header_key n) k then [strip_by is_sp_htab r] else [].

Definition append_value (acc : option bytes) (v : bytes) : option bytes :=
  Some (match acc with Some old => old ++ [44; 32] ++ v | None => v end).

Lemma add_header_line_hget h line h' k :
  add_header_line h line = inr h' ->
  hget h' k = fold_left append_value (line_adds k line) (hget h k).
Proof.
  unfold add_header_line, line_adds, field_of_line.
  destruct (negb (matches gate_header_field line)); [discriminate|].
  destruct (partition line [58]) as [[n sep] r].
  destruct (memb 95 n) eqn:Eu; simpl.
  - intro H. injection H as <-. reflexivity.
  - destruct (hget h (header_key n)) as [old|] eqn:Eold.
    + destruct (is_singleton (header_key n)); [discriminate|].
      intro H. injection H as <-. rewrite hget_hset. rewrite (beqb_sym (header_key n) k).
      destruct (beqb k (header_key n)) eqn:E; simpl; auto.
      apply beqb_eq in E. subst k. rewrite Eold. reflexivity.
    + intro H. injection H as <-. rewrite hget_hset. rewrite (beqb_sym (header_key n) k).
      destruct (beqb k (header_key n)) eqn:E; simpl; auto.
      apply beqb_eq in E. subst k. rewrite Eold. reflexivity.
Qed.

Lemma add_header_line_nodup h line h' :
  add_header_line h line = inr h' -> NoDup (hkeys h) -> NoDup (hkeys h').
Proof.
  unfold add_header_line.
  destruct (negb (matches gate_header_field line)); [discriminate|].
  destruct (partition line [58]) as [[n sep] r].
  destruct (memb 95 n).
  - intro H. injection H as <-. auto.
  - destruct (hget h (header_key n)).
    + destruct (is_singleton (header_key n)); [discriminate|].
      intro H. injection H as <-. apply hset_nodup.
    + intro H. injection H as <-. apply hset_nodup.
Qed.

(* the invariant of the header loop, for every list of lines *)
Lemma add_header_lines_hget lines : forall h h' k,
  add_header_lines h lines = inr h' ->
  hget h' k = fold_left append_value (flat_map (line_adds k) lines) (hget h k).
Proof.
  induction lines as [|l lines IH]; intros h h' k H; simpl in *.
  - injection H as <-. reflexivity.
  - destruct (add_header_line h l) as [e|h1] eqn:E1; [discriminate|].
    rewrite fold_left_app. rewrite <- (add_header_line_hget _ _ _ _ E1). apply IH. assumption.
Qed.

Lemma add_header_lines_nodup lines : forall h h',
  add_header_lines h lines = inr h' -> NoDup (hkeys h) -> NoDup (hkeys h').
Proof.
  induction lines as [|l lines IH]; intros h h' H N; simpl in *.
  - injection H as <-. assumption.
  - destruct (add_header_line h l) as [e|h1] eqn:E1; [discriminate|].
    eapply IH; eauto. eapply add_header_line_nodup; eauto.
Qed.

Lemma fold_append_some vs : forall x,
  fold_left append_value vs (Some x) = Some (x ++ concat (map (fun w => comma_sp ++ w) vs)).
Proof.
  induction vs as [|v vs IH]; intro x; cbn [fold_left map concat].
  - rewrite app_nil_r. reflexivity.
  - change (append_value (Some x) v) with (Some (x ++ [44; 32] ++ v)).
    rewrite IH. unfold comma_sp. rewrite <- !app_assoc. reflexivity.
Qed.

Lemma fold_append_joined vs : fold_left append_value vs None = joined vs.
Proof. destruct vs as [|v vs]; simpl; auto. apply fold_append_some. Qed.

(* ------------------------------------------------------------------ *)
(* model primitives = specification primitives *)

Lemma header_key_cgi_base n : header_key n = cgi_base n.
Proof.
  unfold header_key, cgi_base, replace_byte, upper_ascii. rewrite map_map.
  apply map_ext. intro x. unfold upper_ascii_b, cgi_char.
  destruct (x =? 45) eqn:E45.
  - apply N.eqb_eq in E45. subst. reflexivity.
  - destruct ((97 <=? x) && (x <=? 122)) eqn:Elow.
    + apply andb_true_iff in Elow as [A B]. apply N.leb_le in A. apply N.leb_le in B.
      destruct (x - 32 =? 45) eqn:E; auto. apply N.eqb_eq in E. lia.
    + rewrite E45. reflexivity.
Qed.

Lemma env_key_cgi_key n : env_key (header_key n) = cgi_key n.
Proof.
  unfold env_key, rename_headers, cgi_key. rewrite header_key_cgi_base.
  change c_CONTENT_LENGTH with s_CONTENT_LENGTH. change c_CONTENT_TYPE with s_CONTENT_TYPE.
  destruct (beqb (cgi_base n) s_CONTENT_LENGTH) eqn:E1; simpl.
  - apply beqb_eq in E1. auto.
  - destruct (beqb (cgi_base n) s_CONTENT_TYPE) eqn:E2; simpl.
    + apply beqb_eq in E2. auto.
    + reflexivity.
Qed.

Lemma lstrip_trim_left s : lstrip_by is_sp_htab s = trim_left s.
Proof. induction s as [|x s IH]; simpl; auto. unfold is_sp_htab, ows in *. destruct ((x =? 32) || (x =? 9)); auto. Qed.

Lemma lstrip_snoc f s x :
  lstrip_by f (s ++ [x]) = match lstrip_by f s with [] => if f x then [] else [x] | t => t ++ [x] end.
Proof.
  induction s as [|y s IH]; simpl.
  - reflexivity.
  - destruct (f y); auto.
Qed.

Lemma rstrip_trim_right s : rstrip_by is_sp_htab s = trim_right s.
Proof.
  unfold rstrip_by. induction s as [|x s IH]; simpl; auto.
  rewrite lstrip_snoc. rewrite <- IH.
  destruct (lstrip_by is_sp_htab (rev s)) as [|y t] eqn:E; simpl.
  - unfold is_sp_htab, ows. destruct ((x =? 32) || (x =? 9)); reflexivity.
  - rewrite rev_app_distr. simpl. destruct (rev t ++ [y]) eqn:E2.
    + destruct (rev t); discriminate.
    + reflexivity.
Qed.

Lemma strip_trim s : strip_by is_sp_htab s = trim s.
Proof. unfold strip_by, trim. rewrite rstrip_trim_right, lstrip_trim_left. reflexivity. Qed.

(* the text before and after the first colon, written without find/firstn/skipn *)
Fixpoint cut_colon (l : bytes) : bytes * bytes :=
  match l with
  | [] => ([], [])
  | x :: l' => if x =? 58 then ([], l') else let '(n, v) := cut_colon l' in (x :: n, v)
  end.

Lemma find_from_shift s p : forall i, find_from s p (S i) = option_map S (find_from s p i).
Proof.
  induction s as [|x s IH]; intro i; cbn [find_from].
  - destruct (startswith [] p); reflexivity.
  - destruct (startswith (x :: s) p); [reflexivity|]. apply IH.
Qed.

Lemma startswith_single x s c : startswith (x :: s) [c] = (c =? x).
Proof. simpl. destruct s; rewrite andb_true_r; reflexivity. Qed.

Lemma field_of_line_cut line : field_of_line line = cut_colon line.
Proof.
  unfold field_of_line, partition, find.
  induction line as [|x l IH].
  - reflexivity.
  - cbn [find_from]. rewrite startswith_single. cbn [cut_colon].
    rewrite (N.eqb_sym 58 x). destruct (x =? 58) eqn:E.
    + reflexivity.
    + rewrite find_from_shift. destruct (find_from l [58] 0) as [i|]; simpl in *.
      * destruct (cut_colon l) as [n v]. injection IH as <- <-. reflexivity.
      * destruct (cut_colon l) as [n v]. injection IH as <- <-. reflexivity.
Qed.

(* ------------------------------------------------------------------ *)
(* the key mapping is injective; its partial inverse *)

Definition unkey (ek : bytes) : option bytes :=
  if beqb ek s_CONTENT_LENGTH then Some s_CONTENT_LENGTH
  else if beqb ek s_CONTENT_TYPE then Some s_CONTENT_TYPE
  else if startswith ek k_HTTP_ then
    let k := skipn 5 ek in
    if beqb k s_CONTENT_LENGTH || beqb k s_CONTENT_TYPE then None else Some k
  else None.

Lemma startswith_prefix s p : startswith s p = true -> s = p ++ skipn (length p) s.
Proof.
  revert s. induction p as [|x p IH]; intros s H; simpl.
  - reflexivity.
  - destruct s as [|y s]; simpl in H; [discriminate|].
    apply andb_true_iff in H as [H1 H2]. apply N.eqb_eq in H1. subst y.
    f_equal. apply IH. assumption.
Qed.

Lemma unkey_spec ek key :
  beqb ek (env_key key) = match unkey ek with Some k' => beqb k' key | None => false end.
Proof.
  unfold unkey, env_key, rename_headers.
  destruct (beqb key s_CONTENT_LENGTH) eqn:K1.
  { apply beqb_eq in K1. subst key.
    destruct (beqb ek s_CONTENT_LENGTH) eqn:E1; [reflexivity|].
    destruct (beqb ek s_CONTENT_TYPE) eqn:E2.
    { reflexivity. }
    destruct (startswith ek k_HTTP_) eqn:E3; [|reflexivity].
    cbv zeta. destruct (beqb (skipn 5 ek) s_CONTENT_LENGTH || beqb (skipn 5 ek) s_CONTENT_TYPE) eqn:E4; [reflexivity|].
    apply orb_false_iff in E4 as [E4 _]. symmetry. exact E4. }
  destruct (beqb key s_CONTENT_TYPE) eqn:K2.
  { apply beqb_eq in K2. subst key.
    destruct (beqb ek s_CONTENT_LENGTH) eqn:E1.
    { apply beqb_eq in E1. subst. reflexivity. }
    destruct (beqb ek s_CONTENT_TYPE) eqn:E2; [reflexivity|].
    destruct (startswith ek k_HTTP_) eqn:E3; [|reflexivity].
    cbv zeta. destruct (beqb (skipn 5 ek) s_CONTENT_LENGTH || beqb (skipn 5 ek) s_CONTENT_TYPE) eqn:E4; [reflexivity|].
    apply orb_false_iff in E4 as [_ E4]. symmetry. exact E4. }
  destruct (beqb ek s_CONTENT_LENGTH) eqn:E1.
  { apply beqb_eq in E1. subst ek. rewrite (beqb_sym s_CONTENT_LENGTH key), K1. reflexivity. }
  destruct (beqb ek s_CONTENT_TYPE) eqn:E2.
  { apply beqb_eq in E2. subst ek. rewrite (beqb_sym s_CONTENT_TYPE key), K2. reflexivity. }
  destruct (startswith ek k_HTTP_) eqn:E3.
  - apply startswith_prefix in E3. cbv zeta. change (length k_HTTP_) with 5%nat in E3.
    destruct (beqb (skipn 5 ek) s_CONTENT_LENGTH || beqb (skipn 5 ek) s_CONTENT_TYPE) eqn:E4.
    + apply beqb_neq. intro X. rewrite X in E4.
      change (skipn 5 (k_HTTP_ ++ key)) with key in E4. rewrite K1, K2 in E4. discriminate.
    + destruct (beqb (skipn 5 ek) key) eqn:E5.
      * apply beqb_eq in E5. apply beqb_eq. rewrite E3, E5. reflexivity.
      * apply beqb_neq. intro X. rewrite X in E5.
        change (skipn 5 (k_HTTP_ ++ key)) with key in E5. rewrite beqb_refl in E5. discriminate.
  - apply beqb_neq. intro X. subst ek. rewrite startswith_app in E3. discriminate.
Qed.

(* ------------------------------------------------------------------ *)
(* the header loop of get_environment *)

Fixpoint hfind (h : hdict) (ek : bytes) : option bytes :=
  match h with
  | [] => None
  | (key, v) :: h' => if beqb ek (env_key key) then Some v else hfind h' ek
  end.

Lemma hfind_unkey h ek :
  hfind h ek = match unkey ek with Some key => hget h key | None => None end.
Proof.
  induction h as [|[key v] h IH]; simpl.
  - destruct (unkey ek); reflexivity.
  - rewrite unkey_spec, IH. destruct (unkey ek) as [k'|]; reflexivity.
Qed.

Lemma fold_add_header_eget h : forall e ek,
  eget (fold_left add_header h e) ek =
  match eget e ek with Some v => Some v | None => option_map VStr (hfind h ek) end.
Proof.
  induction h as [|[key v] h IH]; intros e ek; cbn [fold_left hfind].
  - destruct (eget e ek); reflexivity.
  - rewrite IH. rewrite add_header_unfold.
    destruct (emem e (env_key key)) eqn:Em; cbn [negb].
    + destruct (eget e ek) eqn:Ee; auto.
      destruct (beqb ek (env_key key)) eqn:Eb; auto.
      apply beqb_eq in Eb. subst ek. rewrite emem_eget, Ee in Em. discriminate.
    + rewrite eget_app. destruct (eget e ek) eqn:Ee; auto. simpl.
      destruct (beqb ek (env_key key)); reflexivity.
Qed.

Lemma base_environ_no_header_key c p ek : is_header_key ek = true -> eget (base_environ c p) ek = None.
Proof.
  intro H.
  assert (G : forall l : edict, (forall k, In k (map fst l) -> is_header_key k = false) -> eget l ek = None).
  { induction l as [|[k v] l IH]; simpl; auto. intro A.
    destruct (beqb ek k) eqn:E.
    - apply beqb_eq in E. subst k. rewrite A in H; auto. discriminate.
    - apply IH. intros k0 Hk. apply A. auto. }
  apply G. rewrite base_environ_keys. intros k Hk. apply server_key_not_header. right. exact Hk.
Qed.

(* every protocol-specific entry of the environ comes from the parser's dictionary *)
Lemma environ_header_entry c p ek :
  is_header_key ek = true ->
  eget (get_environment c p) ek =
  option_map VStr (match unkey ek with Some key => hget (headers p) key | None => None end).
Proof.
  intro H. unfold get_environment. rewrite eget_eset.
  assert (Hne : beqb ek k_waitress_client_disconnected = false).
  { apply beqb_neq. intro E. subst ek. vm_compute in H. discriminate. }
  rewrite Hne, fold_add_header_eget, base_environ_no_header_key by assumption.
  rewrite hfind_unkey. reflexivity.
Qed.

(* ------------------------------------------------------------------ *)
(* the dictionary a task sees, for every accepted run *)

Lemma te_ne_cl : beqb s_TRANSFER_ENCODING s_CONTENT_LENGTH = false.
Proof. reflexivity. Qed.

Lemma final_headers a ds p p0 p1 hp fl lines h1 :
  accepted_run a ds p p0 p1 hp -> accepted_head a p0 p1 hp fl lines h1 ->
  forall key, hget (headers p) key =
    if beqb (version p) s_1_1 && beqb key s_TRANSFER_ENCODING then None
    else if chunked p && beqb key s_CONTENT_LENGTH then Some (to_dec (lenN (get_body_stream p)))
    else joined (flat_map (line_adds key) lines).
Proof.
  intros AR AH key.
  destruct AR as [F _ _ R C _ B]. destruct AH as [_ _ AL _ _ _ _ _ AF].
  destruct F as (Fh & Fb & Fc & _). rewrite Fh in AL.
  pose proof (add_header_lines_hget _ _ _ key AL) as Hg. cbn [hget] in Hg. rewrite fold_append_joined in Hg.
  assert (ND : NoDup (hkeys h1)) by (eapply add_header_lines_nodup; [exact AL|constructor]).
  assert (V : version p = version p1) by (unfold reqline in R; congruence).
  rewrite V, C. unfold get_body_stream.
  destruct AF as [(Ac & Av & Ab & Ah & _)|(Ac & Ah & _)].
  - rewrite Ac, Av. rewrite beqb_refl. cbn [andb].
    destruct (body p) as [[f|c]|].
    + destruct B as (X & _). congruence.
    + destruct B as (_ & Bh). rewrite Bh, Ah, hget_hset. cbn [body_bytes].
      destruct (beqb key s_TRANSFER_ENCODING) eqn:Et.
      * apply beqb_eq in Et. subst key. rewrite te_ne_cl.
        rewrite hget_hpop by (apply hpop_nodup; exact ND). rewrite te_ne_cl.
        rewrite hget_hpop by exact ND. rewrite beqb_refl. reflexivity.
      * destruct (beqb key s_CONTENT_LENGTH) eqn:Ec; [reflexivity|].
        rewrite hget_hpop by (apply hpop_nodup; exact ND). rewrite Ec.
        rewrite hget_hpop by exact ND. rewrite Et. exact Hg.
    + destruct B as (X & _). congruence.
  - rewrite Ac, Fc. cbn [andb].
    assert (Bh : headers p = headers p1).
    { destruct (body p) as [[f|c]|]; [tauto| |tauto]. destruct B as (X & _). congruence. }
    rewrite Bh, Ah.
    destruct (beqb (version p1) s_1_1); cbn [andb].
    + rewrite hget_hpop by exact ND. destruct (beqb key s_TRANSFER_ENCODING); [reflexivity|exact Hg].
    + exact Hg.
Qed.

(* the request the specification is applied to: the request-line pieces the
   parser kept, the field lines cut at their first colon, the framing verdict
   and the body behind wsgi.input *)
Definition request_of (p : parser) (lines : list bytes) : request :=
  {| rq_method := command p; rq_target := request_uri p; rq_version := version p;
     rq_fields := map cut_colon lines; rq_chunked := chunked p; rq_body := get_body_stream p |}.

Lemma field_values_line_adds lines ek key :
  unkey ek = Some key ->
  field_values (map cut_colon lines) ek = flat_map (line_adds key) lines.
Proof.
  intro U. unfold field_values. induction lines as [|l lines IH]; cbn [map flat_map]; auto.
  rewrite IH. f_equal. unfold line_adds. rewrite field_of_line_cut.
  destruct (cut_colon l) as [n r]. cbn [fst snd].
  change (has_underscore n) with (memb 95 n).
  rewrite <- env_key_cgi_key. rewrite beqb_sym, unkey_spec, U, beqb_sym, strip_trim. reflexivity.
Qed.

Lemma field_values_no_key fields ek : unkey ek = None -> field_values fields ek = [].
Proof.
  intro U. unfold field_values. induction fields as [|[n v] fields IH]; cbn [flat_map fst snd]; auto.
  rewrite IH, app_nil_r. rewrite <- env_key_cgi_key, beqb_sym, unkey_spec, U, andb_false_r. reflexivity.
Qed.

Lemma header_entries_image a ds p p0 p1 hp fl lines h1 :
  accepted_run a ds p p0 p1 hp -> accepted_head a p0 p1 hp fl lines h1 ->
  forall c ek, is_header_key ek = true ->
  eget (get_environment c p) ek = option_map VStr (spec_header (request_of p lines) ek).
Proof.
  intros AR AH c ek Hk. rewrite environ_header_entry by exact Hk. f_equal.
  unfold spec_header, request_of. cbn [rq_version rq_chunked rq_body rq_fields].
  change c_1_1 with s_1_1.
  change c_HTTP_TRANSFER_ENCODING with (env_key s_TRANSFER_ENCODING).
  change c_CONTENT_LENGTH with (env_key s_CONTENT_LENGTH).
  rewrite !unkey_spec.
  destruct (unkey ek) as [key|] eqn:U.
  - rewrite (final_headers _ _ _ _ _ _ _ _ _ AR AH key).
    rewrite (field_values_line_adds _ _ _ U). reflexivity.
  - rewrite !andb_false_r. rewrite field_values_no_key by exact U. reflexivity.
Qed.

(* where the lines come from: the head block of the run *)
Definition head_lines (hp fl : bytes) (lines : list bytes) : Prop :=
  exists index, find hp CRLF = Some index /\
                fl = rstrip_by is_reqline_ws (firstn index hp) /\
                get_header_lines (skipn (index + 2) hp) = inr lines.

Theorem fields_image a ds p :
  feed_all a ds = Some p -> completed p = true -> error p = None -> empty p = false ->
  exists hp fl lines,
    head_of ds hp /\ head_lines hp fl lines /\
    forall c ek, is_header_key ek = true ->
      eget (get_environment c p) ek = option_map VStr (spec_header (request_of p lines) ek).
Proof.
  intros H Hc He Hm.
  destruct (run_accepted _ _ _ H Hc He Hm) as (p0 & p1 & hp & AR).
  destruct (parse_header_ok _ _ _ _ (ar_parse _ _ _ _ _ _ AR)) as (fl & lines & h1 & AH).
  exists hp, fl, lines. split; [exact (ar_head _ _ _ _ _ _ AR)|]. split.
  - exact (ah_find _ _ _ _ _ _ _ AH).
  - intros c ek Hk. eapply header_entries_image; eauto.
Qed.

Lemma cgi_key_header_form n : is_header_key (cgi_key n) = true.
Proof. rewrite <- env_key_cgi_key. apply env_key_header_form. Qed.

(* ------------------------------------------------------------------ *)
(* names with an underscore *)

Definition underscore_line (l : bytes) : bool := has_underscore (fst (cut_colon l)).

Lemma add_header_line_underscore h l h' :
  add_header_line h l = inr h' -> underscore_line l = true -> h' = h.
Proof.
  unfold add_header_line, underscore_line. rewrite <- field_of_line_cut. unfold field_of_line.
  destruct (negb (matches gate_header_field l)); [discriminate|].
  destruct (partition l [58]) as [[n sep] r]. cbn [fst].
  change (has_underscore n) with (memb 95 n). intros H U. rewrite U in H. injection H as <-. reflexivity.
Qed.

(* deleting every field line whose name contains "_" leaves the dictionary,
   hence the environ, exactly as it was *)
Lemma add_header_lines_drop_underscore lines : forall h h',
  add_header_lines h lines = inr h' ->
  add_header_lines h (filter (fun l => negb (underscore_line l)) lines) = inr h'.
Proof.
  induction lines as [|l lines IH]; intros h h' H; cbn [filter add_header_lines] in *; auto.
  destruct (add_header_line h l) as [e|h1] eqn:E1; [discriminate|].
  destruct (underscore_line l) eqn:U; cbn [negb].
  - apply add_header_line_underscore in E1; auto. subst h1. apply IH. exact H.
  - cbn [add_header_lines]. rewrite E1. apply IH. exact H.
Qed.

Lemma field_values_drop_underscore fields ek :
  field_values (filter (fun nv => negb (has_underscore (fst nv))) fields) ek = field_values fields ek.
Proof.
  unfold field_values. induction fields as [|[n v] fields IH]; cbn [filter flat_map fst snd]; auto.
  destruct (has_underscore n) eqn:U; cbn [negb andb flat_map fst snd app].
  - exact IH.
  - rewrite U. cbn [negb andb]. rewrite IH. reflexivity.
Qed.

Lemma spec_header_drop_underscore rq ek :
  spec_header {| rq_method := rq_method rq; rq_target := rq_target rq; rq_version := rq_version rq;
                 rq_fields := filter (fun nv => negb (has_underscore (fst nv))) (rq_fields rq);
                 rq_chunked := rq_chunked rq; rq_body := rq_body rq |} ek
  = spec_header rq ek.
Proof. unfold spec_header. cbn [rq_version rq_chunked rq_body rq_fields]. rewrite field_values_drop_underscore. reflexivity. Qed.

(* ------------------------------------------------------------------ *)
(* the header lines are the CRLF-separated lines of the header block, folded
   lines joined *)

Lemma header_lines_go_gather ls : forall cur r out,
  header_lines_go ls (cur :: r) = inr out -> out = rev r ++ gather cur ls.
Proof.
  induction ls as [|l ls IH]; intros cur r out; cbn [header_lines_go gather].
  - intro H. injection H as <-. reflexivity.
  - destruct l as [|c l']; [apply IH|].
    destruct (has_cr_or_lf (c :: l')); [discriminate|].
    change (ows c) with ((c =? 32) || (c =? 9)).
    destruct ((c =? 32) || (c =? 9)).
    + apply IH.
    + intro H. apply IH in H. rewrite H. cbn [rev]. rewrite <- app_assoc. reflexivity.
Qed.

Lemma header_lines_go_unfold ls : forall out,
  header_lines_go ls [] = inr out -> out = unfold_lines ls.
Proof.
  induction ls as [|l ls IH]; intro out; cbn [header_lines_go unfold_lines].
  - intro H. injection H as <-. reflexivity.
  - destruct l as [|c l']; [apply IH|].
    destruct (has_cr_or_lf (c :: l')); [discriminate|].
    destruct ((c =? 32) || (c =? 9)); [discriminate|].
    intro H. apply header_lines_go_gather in H. exact H.
Qed.

Theorem get_header_lines_unfold header lines :
  get_header_lines header = inr lines -> lines = unfold_lines (split header CRLF).
Proof. apply header_lines_go_unfold. Qed.
