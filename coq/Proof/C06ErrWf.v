(* C06, composition with C03: the error response a refused message gets.

   The parser model (Model/Receiver.v, Model/Parser.v) records a refusal as a tag
   e : perr; the real parser stores an instance of one of four classes of
   waitress/utilities.py whose (code, reason) pairs are regenerated from the
   source on every run (Gen/GenTables.v: err_BadRequest ...).  perr_class maps
   each tag to its class; perr_class_code shows that this agrees with the code
   the C01/C06 theorems speak about (perr_code); K-parse compares class and
   message of the real error object with the tag on every generated stream.
   error_response_wf instantiates C03's frame theorems (Proof/TaskFrame2Err.v,
   over Model/Task.v, tied by K-task) with every tag: whatever text the error
   carries (the message may quote request bytes, CR / LF included), the client
   reads exactly one complete response with that status, a single
   "Connection: close", nothing left over, and the connection is closed. *)
From Coq Require Import String.
From Coq Require Import List NArith ZArith Bool.
From WV Require Import Lib.PyBytes Gen.GenTables Model.Receiver Model.Task Spec.ClientParse
  Proof.TaskHead Proof.TaskFrameClient Proof.TaskFrame2Err.
Import ListNotations.
Local Open Scope N_scope.

Definition perr_class (e : perr) : list N * list N :=
  match e with
  | EHeaderTooLarge => err_RequestHeaderFieldsTooLarge
  | EBodyTooLarge => err_RequestEntityTooLarge
  | ETENotSupported | ETEMultipleChunked => err_ServerNotImplemented
  | _ => err_BadRequest
  end.

Definition all_perr : list perr :=
  [EChunkNotTerminated; EInvalidChunkExt; EInvalidChunkSize; EHeaderTooLarge; EBodyTooLarge;
   EHeaderInvalid; EBareCRLFFirstLine; EBareCRLFHeader; EMalformedHeaderLine; EInvalidHeader;
   EDuplicateHeader; EStartLineInvalid; EMalformedMethod; EContentLengthInvalid; EBadURI;
   ETENotSupported; ETEMultipleChunked].

Lemma all_perr_complete e : In e all_perr.
Proof. destruct e; cbn; tauto. Qed.

(* the class table agrees with the numeric code of the parser model *)
Lemma perr_class_code e : dec_value (fst (perr_class e)) = perr_code e.
Proof. destruct e; vm_compute; reflexivity. Qed.

Definition class_ok (cr : list N * list N) : bool :=
  negb (has_crlf (fst cr)) && negb (has_crlf (snd cr)) &&
  negb (startswith (fst cr ++ [32] ++ snd cr) (lit "1"%string) || startswith (fst cr ++ [32] ++ snd cr) (lit "204"%string)
        || startswith (fst cr ++ [32] ++ snd cr) (lit "304"%string)).

Lemma perr_class_ok e : class_ok (perr_class e) = true.
Proof. destruct e; vm_compute; reflexivity. Qed.

Lemma class_ok_elim cr : class_ok cr = true ->
  clean (fst cr) /\ clean (snd cr) /\
  startswith (fst cr ++ [32] ++ snd cr) (lit "1"%string) || startswith (fst cr ++ [32] ++ snd cr) (lit "204"%string)
    || startswith (fst cr ++ [32] ++ snd cr) (lit "304"%string) = false.
Proof.
  unfold class_ok, clean. intros H.
  apply andb_true_iff in H. destruct H as [H H3].
  apply andb_true_iff in H. destruct H as [H1 H2].
  apply negb_true_iff in H1. apply negb_true_iff in H2. apply negb_true_iff in H3.
  split; [exact H1 | split; [exact H2 | exact H3]].
Qed.

Theorem error_response_wf c r a e body :
  cfg_clean c -> r_error r = Some (perr_class e, body) -> r_head r = false ->
  let res := run_task c r a None in
  o_raw res = None ->
  let code := fst (perr_class e) in let reason := snd (perr_class e) in
  let bodyb := err_body c reason body in
  exists fields,
    parse_one false (wire (o_writes res))
    = Some (mkResponse (sl_err (r_version r) (code ++ [32] ++ reason)) fields (FLength (lenN bodyb)) bodyb, [])
    /\ filter (field_is (lit "connection"%string)) fields = [(lit "Connection"%string, lit "close"%string)]
    /\ o_close res = true /\ o_next res = false /\ o_served_500 res = false /\ o_escaped res = None.
Proof.
  intros Hc He Hh. cbn zeta. intros Hraw.
  destruct (class_ok_elim _ (perr_class_ok e)) as [H1 [H2 H3]].
  assert (He' : r_error r = Some ((fst (perr_class e), snd (perr_class e)), body)).
  { rewrite He. destruct (perr_class e); reflexivity. }
  destruct (frame_error c r a _ _ body Hc He' Hh H1 H2 H3 Hraw) as [fields [P [F [_ R]]]].
  exists fields. split; [exact P | split; [exact F | exact R]].
Qed.

Theorem error_response_wf_head c r a e body :
  cfg_clean c -> r_error r = Some (perr_class e, body) -> r_head r = true ->
  let res := run_task c r a None in
  o_raw res = None ->
  let code := fst (perr_class e) in let reason := snd (perr_class e) in
  exists fields,
    parse_one true (wire (o_writes res))
    = Some (mkResponse (sl_err (r_version r) (code ++ [32] ++ reason)) fields FNoBody [], [])
    /\ filter (field_is (lit "connection"%string)) fields = [(lit "Connection"%string, lit "close"%string)]
    /\ o_close res = true /\ o_next res = false /\ o_served_500 res = false /\ o_escaped res = None.
Proof.
  intros Hc He Hh. cbn zeta. intros Hraw.
  destruct (class_ok_elim _ (perr_class_ok e)) as [H1 [H2 H3]].
  assert (He' : r_error r = Some ((fst (perr_class e), snd (perr_class e)), body)).
  { rewrite He. destruct (perr_class e); reflexivity. }
  destruct (frame_error_head c r a _ _ body Hc He' Hh H1 H2 H3 Hraw) as [fields [P [F [_ [_ R]]]]].
  exists fields. split; [exact P | split; [exact F | exact R]].
Qed.

(* ---- "stops consuming", at the level of the I/O loop -------------------------

   C06_stop says that received() consumes nothing once the connection is closing.
   The loop-level half: the I/O loop does not even call recv() then.  Both loop
   bodies (wasyncore.poll and poll2 + readwrite) and HTTPChannel.readable are
   regenerated from the source on every run (Gen/GenPreds.v); Proof/ServerLoop.v
   proves that a read event is dispatched only to an object whose readable() was
   true at scan time.  Composed with the generated readable predicate: a channel
   that is marked will_close or close_when_flushed, has output pending, or has
   more than `lookahead` requests queued gets no handle_read_event in that turn,
   whichever loop variant runs (asyncore_use_poll on or off) and whatever the
   kernel reports (within the stated select / poll contract). *)
From WV Require Import Gen.GenPreds Proof.ServerBase Proof.ServerLoop.

Theorem no_read_when_not_readable_select wc cwf n la tot w a ret_r ret_w ret_e :
  (wc || cwf || (la <? n)%Z || negb (tot =? 0)%Z) = true ->
  select_returns (gen_poll_r (gen_chan_readable wc cwf n la tot) w a)
                 (gen_poll_w (gen_chan_readable wc cwf n la tot) w a)
                 (gen_poll_e (gen_chan_readable wc cwf n la tot) w a) ret_r ret_w ret_e ->
  sel_read (select_turn ret_r ret_w ret_e) = false.
Proof.
  intros H Hs.
  destruct (sel_read (select_turn ret_r ret_w ret_e)) eqn:E; [|reflexivity].
  pose proof (proj1 loop_read_only_if_readable _ _ _ _ _ _ Hs E) as R.
  rewrite gen_chan_readable_spec, H in R. discriminate R.
Qed.

Theorem no_read_when_not_readable_poll2 wc cwf n la tot w a rv :
  (wc || cwf || (la <? n)%Z || negb (tot =? 0)%Z) = true ->
  poll_returns (gen_poll2_reg (gen_chan_readable wc cwf n la tot) w a) rv ->
  p2_read (poll2_turn rv) = false.
Proof.
  intros H Hs.
  destruct (p2_read (poll2_turn rv)) eqn:E; [|reflexivity].
  pose proof (proj2 loop_read_only_if_readable _ _ _ _ Hs E) as R.
  rewrite gen_chan_readable_spec, H in R. discriminate R.
Qed.
