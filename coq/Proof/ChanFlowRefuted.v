(* Proof/ChanFlowRefuted.v -- the full release / abort statements and their refutations
   (witness schedules from ChanFlowWit.v). *)
From Coq Require Import List ZArith Bool Arith.
From WV Require Import Lib.Conc Model.ChanFlow Proof.ChanFlow Proof.ChanFlowReq Proof.ChanFlowFlags
  Proof.ChanFlowAcct Proof.ChanFlowLive Proof.ChanFlowWit.
Import ListNotations.
Local Open Scope Z_scope.

(* the full statement: whenever the I/O thread is idle (blocked in select, or spinning through
   poll turns that change nothing) and the client reads, no producer is parked un-notified *)
Definition C12_release_statement (p : params) : Prop :=
  forall sched, let s := run p sched in
  io_idle p s = true -> client_reads s = true -> w_parked s = true -> False.

Lemma release_partial : forall p,
  1 <= hw p -> sb p <= hw p -> tail_safe p -> C12_release_statement p.
Proof. intros p A B C sched. exact (release_idle p sched A B C). Qed.

Lemma release_refuted_hw_zero :
  exists p sched, hw p = 0 /\ tail_safe p /\
    let s := run p sched in
    quiescent s = true /\ io_blocked s = true /\ client_reads s = true /\ w_parked s = true
    /\ total s = 0 /\ connected s = true.
Proof.
  exists p_f23, s_f23. destruct wit_hw_zero as (A & B & C & D & E & F & _ & G & _).
  repeat split; auto. right; reflexivity.
Qed.

Lemma release_refuted_below_send_bytes :
  exists p sched, 1 <= hw p /\ tail_safe p /\ ~ C12_release_statement p /\
    let s := run p sched in
    io_spinning p s = true /\ client_reads s = true /\ w_parked s = true /\ hw p < total s < sb p.
Proof.
  exists p_spin, s_spin. destruct wit_below_send_bytes as (A & B & C & D & E & F & _).
  split; [exact A|]. split; [right; reflexivity|]. split.
  - intros H. apply (H s_spin); [unfold io_idle; rewrite B; apply orb_true_r | exact C | exact D].
  - repeat split; auto.
Qed.

Lemma release_refuted_at_mark :
  exists p sched, 1 <= hw p /\ tail_safe p /\
    let s := run p sched in
    io_spinning p s = true /\ client_reads s = true /\ w_parked s = true /\ total s = hw p.
Proof.
  exists p_eq, s_eq. destruct wit_at_mark as (A & B & C & D & E & _).
  repeat split; auto. right; reflexivity.
Qed.

Lemma abort_refuted_tail_race :
  exists p sched, 1 <= hw p /\ sb p <= hw p /\
    let s := run p sched in
    quiescent s = true /\ w_parked s = true /\ connected s = false /\ in_map s = false
    /\ is_hcnotify (io s) = false.
Proof.
  exists p_tail, s_tail. destruct wit_tail_race as (A & B & C & D & E & F & _).
  repeat split; auto.
Qed.
