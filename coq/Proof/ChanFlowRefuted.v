(* Proof/ChanFlowRefuted.v -- the release / abort statements, and the witnesses that each of the
   three repaired statements of channel.py is NECESSARY: with one of the shape flags of [params]
   set to the old form (the code before 6aba4bf / daf1a85 / 7fa6a60) the statement is false
   (witness schedules from ChanFlowWit.v; the same situations were reproduced on the real
   HTTPChannel before the repairs and are re-found by checks/C12.py when a repair is reverted). *)
From Coq Require Import List ZArith Bool Arith.
From WV Require Import Lib.Conc Model.ChanFlow Proof.ChanFlow Proof.ChanFlowReq Proof.ChanFlowFlags
  Proof.ChanFlowAcct Proof.ChanFlowLive Proof.ChanFlowWit.
Import ListNotations.
Local Open Scope Z_scope.

(* whenever the I/O thread is idle (blocked in select, or spinning through poll turns that change
   nothing) and the client reads, no producer is parked un-notified *)
Definition C12_release_statement (p : params) : Prop :=
  forall sched, let s := run p sched in
  io_idle p s = true -> client_reads s = true -> w_parked s = true -> False.

(* a producer parked while connected is False is being notified by handle_close right now *)
Definition C12_abort_statement (p : params) : Prop :=
  forall sched, let s := run p sched in
  w_parked s = true -> connected s = false -> is_hcnotify (io s) = true.

Lemma release_full : forall p, 0 <= hw p -> fixed p -> C12_release_statement p.
Proof. intros p A B sched. exact (release_idle p sched A B). Qed.

Lemma abort_full : forall p, 0 <= hw p -> fixed p -> C12_abort_statement p.
Proof. intros p A B sched. exact (abort_notified p sched A B). Qed.

(* before 6aba4bf (notify only if total < high_watermark): false at high_watermark = 0 (F23) ... *)
Lemma release_refuted_old_notify_hw_zero :
  exists p, hw p = 0 /\ fx_notify_le p = false /\ fx_drain p = true /\ fx_recheck p = true
    /\ ~ C12_release_statement p
    /\ exists sched, let s := run p sched in
       quiescent s = true /\ client_reads s = true /\ w_parked s = true /\ total s = 0 /\ connected s = true.
Proof.
  exists p_f23. destruct wit_hw_zero as (A & B & C & D & E & F & _ & G & _).
  split; [exact A|]. do 3 (split; [reflexivity|]). split.
  - intros H. apply (H s_f23); [unfold io_idle; rewrite C; reflexivity | exact D | exact E].
  - exists s_f23. repeat split; assumption.
Qed.

(* ... and whenever the drain stops exactly at the mark, for 1 <= high_watermark < send_bytes *)
Lemma release_refuted_old_notify_at_mark :
  exists p, 1 <= hw p /\ fx_notify_le p = false /\ fx_drain p = true /\ fx_recheck p = true
    /\ ~ C12_release_statement p
    /\ exists sched, let s := run p sched in
       io_spinning p s = true /\ client_reads s = true /\ w_parked s = true /\ total s = hw p.
Proof.
  exists p_eq. destruct wit_at_mark as (A & B & C & D & E & _).
  split; [exact A|]. do 3 (split; [reflexivity|]). split.
  - intros H. apply (H s_eq); [unfold io_idle; rewrite B; apply orb_true_r | exact C | exact D].
  - exists s_eq. repeat split; assumption.
Qed.

(* before daf1a85 (handle_write flushes only if total >= send_bytes while a task runs): false
   whenever a producer can be parked with high_watermark < total < send_bytes *)
Lemma release_refuted_old_drain :
  exists p, 1 <= hw p /\ fx_notify_le p = true /\ fx_drain p = false /\ fx_recheck p = true
    /\ ~ C12_release_statement p
    /\ exists sched, let s := run p sched in
       io_spinning p s = true /\ client_reads s = true /\ w_parked s = true /\ hw p < total s < sb p.
Proof.
  exists p_spin. destruct wit_below_send_bytes as (A & B & C & D & E & F & _).
  split; [exact A|]. do 3 (split; [reflexivity|]). split.
  - intros H. apply (H s_spin); [unfold io_idle; rewrite B; apply orb_true_r | exact C | exact D].
  - exists s_spin. repeat split; assumption.
Qed.

(* before 7fa6a60 (no re-test of connected under the lock): with lookahead >= 1 the service()-side
   watermark wait parks a worker on a channel that is already closed *)
Lemma abort_refuted_old_recheck :
  exists p, 1 <= hw p /\ sb p <= hw p /\ fx_notify_le p = true /\ fx_drain p = true /\ fx_recheck p = false
    /\ ~ C12_abort_statement p
    /\ exists sched, let s := run p sched in
       quiescent s = true /\ w_parked s = true /\ connected s = false /\ in_map s = false.
Proof.
  exists p_tail. destruct wit_tail_race as (A & B & C & D & E & F & _ & G).
  split; [exact A|]. split; [exact B|]. do 3 (split; [reflexivity|]). split.
  - intros H. specialize (H s_tail D E). cbv zeta in G. rewrite G in H. discriminate H.
  - exists s_tail. repeat split; assumption.
Qed.
