(* Proof/ChanFaultIso2Proj.v -- the projection used by the trace-level isolation theorem.

   [a] is the connection whose socket calls are faulted (or anything else), [b] the
   connection that is observed.
     vis b / view b   what an observer of connection b sees of a trace: every label of b
                      (accept, set-up faults, environment answers, wire bytes, handle_close,
                      buffers closed, map / active_channels deletions, socket.close, the
                      application's actions, its worker's caught exceptions and death) AND
                      every label that belongs to no connection: the loop dying or ending,
                      the listener and the trigger being closed or leaving the map.  Hidden:
                      the labels of the other connection, and [LCaught IO _] (the I/O
                      thread's "a ladder swallowed x", which does not say for whom).
     strip a / proj a the I/O thread's stack with the instructions of a removed and FC a
                      removed from the lists a pending select carries
     tr_ans a         the environment's answer with a removed: select does not report FC a,
                      accept() does not deliver a (it answers EWOULDBLOCK instead)
   and the per-instruction facts about them (all by case analysis over the instruction set). *)
From Coq Require Import List Arith ZArith Bool Lia.
From WV Require Import Lib.Conc Model.ChanFault Proof.ChanFaultSpec Proof.ChanFaultBase Proof.ChanFaultStep
                       Proof.ChanFaultOnce Proof.ChanFaultIso Proof.ChanFaultIso2Cov.
Import ListNotations.

(* ---- the observer's view of a trace ------------------------------------------------------------------ *)
Definition vis (b : chan) (l : label) : bool :=
  match l with
  | LCaught IO _ => false
  | LCaught (W c) _ => chan_eqb b c
  | _ => match label_chan l with Some c => chan_eqb b c | None => true end
  end.
Definition view (b : chan) (ls : list label) : list label := filter (vis b) ls.
Definition hidden (d : chan) (ls : list label) : bool := forallb (fun l => negb (vis d l)) ls.

Lemma view_app : forall b x y, view b (x ++ y) = view b x ++ view b y.
Proof. intros. unfold view. apply filter_app. Qed.

Lemma hidden_view : forall d ls, hidden d ls = true -> view d ls = [].
Proof.
  unfold hidden, view. induction ls as [|l ls IH]; simpl; intro H; auto.
  apply andb_true_iff in H. destruct H as [Hl Hr]. apply negb_true_iff in Hl. rewrite Hl. auto.
Qed.

Lemma hidden_labels_of : forall d ls, hidden d ls = true -> labels_of d ls = [].
Proof.
  unfold hidden, labels_of. induction ls as [|l ls IH]; simpl; intro H; auto.
  apply andb_true_iff in H. destruct H as [Hl Hr]. rewrite IH by auto.
  apply negb_true_iff in Hl. destruct l; simpl in *;
  try match goal with f : fdt |- _ => destruct f; simpl in * end;
  try discriminate; try rewrite Hl; auto.
Qed.

Lemma labels_of_app : forall c x y, labels_of c (x ++ y) = labels_of c x ++ labels_of c y.
Proof. intros. unfold labels_of. apply filter_app. Qed.

(* ---- removing a from descriptor lists, instructions, stacks, answers ---------------------------------- *)
Definition isfa (a : chan) (f : fdt) : bool := fdt_eqb f (FC a).
Definition filt (a : chan) (l : list fdt) : list fdt := filter (fun f => negb (isfa a f)) l.
Definition filtp (a : chan) (l : list (fdt * (bool * bool) * (bool * bool))) :=
  filter (fun p => negb (isfa a (fst (fst p)))) l.

Definition strip (a : chan) (i : instr) : instr :=
  match i with
  | ISelect r w e => ISelect (filt a r) (filt a w) (filt a e)
  | ISelWait r w e => ISelWait (filt a r) (filt a w) (filt a e)
  | _ => i
  end.
Definition proj (a : chan) (l : list instr) : list instr :=
  map (strip a) (filter (fun i => negb (about a i)) l).

Definition tr_ans (a : chan) (ans : answer) : answer :=
  match ans with
  | ASel r w e => ASel (filt a r) (filt a w) (filt a e)
  | APoll2 l => APoll2 (filtp a l)
  | AAcc (AccConn c) => if chan_eqb c a then AAcc (AccErr EWOULDBLOCK) else ans
  | _ => ans
  end.

Lemma proj_app : forall a p r, proj a (p ++ r) = proj a p ++ proj a r.
Proof. intros. unfold proj. rewrite filter_app, map_app. reflexivity. Qed.

Lemma proj_about_a : forall a p, forallb (about a) p = true -> proj a p = [].
Proof.
  unfold proj. induction p as [|i p IH]; simpl; intro H; auto.
  apply andb_true_iff in H. destruct H as [Hi Hp]. rewrite Hi. simpl. auto.
Qed.

Lemma about_other : forall a b i, a <> b -> about b i = true -> about a i = false.
Proof.
  intros a b i Hab H. apply about_chan_of in H. unfold about. rewrite H. apply neq_eqb. auto.
Qed.

Lemma strip_about : forall a b i, about b i = true -> strip a i = i.
Proof. intros a b i H. destruct i; simpl; auto; discriminate. Qed.

Lemma proj_about_b : forall a b p, a <> b -> forallb (about b) p = true -> proj a p = p.
Proof.
  unfold proj. induction p as [|i p IH]; simpl; intros Hab H; auto.
  apply andb_true_iff in H. destruct H as [Hi Hp]. rewrite (about_other a b i Hab Hi). simpl.
  rewrite (strip_about a b i Hi), IH by auto. reflexivity.
Qed.

Lemma proj_cons_a : forall a i r, about a i = true -> proj a (i :: r) = proj a r.
Proof. intros. unfold proj. simpl. rewrite H. reflexivity. Qed.
Lemma proj_cons_na : forall a i r, about a i = false -> proj a (i :: r) = strip a i :: proj a r.
Proof. intros. unfold proj. simpl. rewrite H. reflexivity. Qed.

Lemma is_frame_strip : forall a i, is_frame (strip a i) = is_frame i.
Proof. destruct i; reflexivity. Qed.

(* unwinding commutes with the projection when the part that is unwound belongs to b *)
Lemma prot_drop_proj : forall a b os l, a <> b -> prot os b l = true ->
  exists k rest, drop_to_frame l = k :: rest /\ drop_to_frame (proj a l) = k :: proj a rest /\
    about b k = true /\ (catcher os k = true \/ prot os b rest = true).
Proof.
  intros a b os l Hab. induction l as [|i r IH]; simpl; intro H; [discriminate|].
  apply andb_true_iff in H. destruct H as [Hi H].
  rewrite (proj_cons_na a i r (about_other a b i Hab Hi)), (strip_about a b i Hi). simpl.
  destruct (is_frame i) eqn:F.
  - exists i, r. repeat split; auto. apply orb_true_iff in H. auto.
  - assert (Hc : catcher os i = false).
    { destruct (catcher os i) eqn:E; auto. apply catcher_frame in E. congruence. }
    rewrite Hc in H. simpl in H. auto.
Qed.

(* ---- descriptor lists ----------------------------------------------------------------------------------- *)
Lemma mem_fd_filt : forall a f l, mem_fd f (filt a l) = mem_fd f l && negb (isfa a f).
Proof.
  intros a f l. unfold mem_fd, filt. induction l as [|x l IH]; simpl; auto.
  destruct (isfa a x) eqn:Ex; simpl.
  - rewrite IH. destruct (fdt_eqb f x) eqn:Ef; simpl; auto.
    assert (f = x) by (destruct f as [| |[|]], x as [| |[|]]; simpl in Ef; congruence).
    subst. rewrite Ex. simpl. rewrite andb_false_r. reflexivity.
  - rewrite IH. destruct (fdt_eqb f x) eqn:Ef; simpl; auto.
    assert (f = x) by (destruct f as [| |[|]], x as [| |[|]]; simpl in Ef; congruence).
    subst. rewrite Ex. reflexivity.
Qed.

Lemma subset_filt : forall a x y, subset_fd x y = true -> subset_fd (filt a x) (filt a y) = true.
Proof.
  intros a x y. unfold subset_fd. induction x as [|f x IH]; simpl; intro H; auto.
  apply andb_true_iff in H. destruct H as [Hf Hx].
  destruct (isfa a f) eqn:Ef; simpl; auto.
  rewrite mem_fd_filt, Hf, Ef, IH by auto. reflexivity.
Qed.

Lemma forallb_filter : forall (A : Type) (p q : A -> bool) l, forallb p l = true -> forallb p (filter q l) = true.
Proof.
  induction l as [|x l IH]; simpl; intro H; auto. apply andb_true_iff in H. destruct H as [Hx Hl].
  destruct (q x); simpl; auto. rewrite Hx. auto.
Qed.

Lemma filt_app : forall a x y, filt a (x ++ y) = filt a x ++ filt a y.
Proof. intros. unfold filt. apply filter_app. Qed.

Lemma about_disp : forall a k f, about a (IDisp k f) = isfa a f.
Proof. intros a k f. unfold about, isfa. destruct f as [| |c]; simpl; auto. destruct a, c; reflexivity. Qed.

Lemma proj_map_disp : forall a k l, proj a (map (IDisp k) l) = map (IDisp k) (filt a l).
Proof.
  intros a k l. unfold proj, filt. induction l as [|f l IH]; simpl; auto.
  rewrite about_disp. destruct (isfa a f); simpl; auto. rewrite IH. reflexivity.
Qed.

Lemma proj_map_p2 : forall a l, proj a (map p2_instr l) = map p2_instr (filtp a l).
Proof.
  intros a l. unfold proj, filtp. induction l as [|p l IH]; simpl; auto.
  destruct p as [[f [rd wr]] [pri hup]]. simpl.
  replace (about a (IDisp2 f rd wr pri hup)) with (isfa a f)
    by (unfold about, isfa; destruct f as [| |c]; simpl; auto; destruct a, c; reflexivity).
  destruct (isfa a f); simpl; auto. rewrite IH. reflexivity.
Qed.

Lemma p2_ok_filt : forall a r w e l, p2_ok r w e l = true -> p2_ok (filt a r) (filt a w) (filt a e) (filtp a l) = true.
Proof.
  intros a r w e l. unfold p2_ok, filtp. induction l as [|p l IH]; simpl; intro H; auto.
  apply andb_true_iff in H. destruct H as [Hp Hl].
  destruct p as [[f [rd wr]] [pri hup]]. simpl. destruct (isfa a f) eqn:Ef; simpl; auto.
  rewrite IH by auto. rewrite andb_true_r.
  unfold p2_entry_ok in *. rewrite !mem_fd_filt, Ef. simpl. rewrite !andb_true_r. exact Hp.
Qed.

(* ---- DET without the thread's locals ------------------------------------------------------------------ *)
Definition same_out (c : chan) (r1 r2 : result) : Prop :=
  match r1, r2 with
  | Blocked, Blocked => True
  | Norm s1 p1 l1, Norm s2 p2 l2 => p1 = p2 /\ l1 = l2 /\ getc s1 c = getc s2 c
  | Raise s1 x1 l1, Raise s2 x2 l2 => x1 = x2 /\ l1 = l2 /\ getc s1 c = getc s2 c
  | _, _ => False
  end.

(* an instruction of connection c that can stand on the I/O thread's stack does the same in any two
   states that agree on c -- whatever the thread's locals, the other connection, the rest of the state *)
Lemma exec_det2 : forall g t i a s1 s2 c,
  ioable i = true -> chan_of i = Some c -> getc s1 c = getc s2 c ->
  same_out c (exec g t i a s1) (exec g t i a s2).
Proof.
  intros g t i a s1 s2 c Hi Hc H12.
  destruct i; try discriminate Hi; try discriminate Hc; simpl in Hc;
  try match goal with f : fdt |- _ => destruct f as [| |cc]; try discriminate Hc end;
  injection Hc as ->;
  unfold same_out; cbn [exec fd_in_map]; rewrite ?H12;
  repeat split_innermost; auto;
  repeat split; auto;
  rewrite ?getc_setth, ?getc_setc_same; auto.
Qed.

Definition same_fr (c : chan) (r1 r2 : fres) : Prop :=
  match r1, r2 with
  | FCatch s1 p1 l1, FCatch s2 p2 l2 => p1 = p2 /\ l1 = l2 /\ getc s1 c = getc s2 c
  | FPass s1, FPass s2 => getc s1 c = getc s2 c
  | _, _ => False
  end.

Lemma frame_det2 : forall t k x s1 s2 c,
  chan_of k = Some c -> getc s1 c = getc s2 c -> same_fr c (frame t k x s1) (frame t k x s2).
Proof.
  intros t k x s1 s2 c Hc H12.
  destruct k; try discriminate Hc; simpl in Hc;
  try match goal with f : fdt |- _ => destruct f as [| |cc]; try discriminate Hc end;
  injection Hc as ->;
  unfold same_fr; cbn [frame]; rewrite ?H12;
  repeat split_innermost; auto;
  repeat split; auto;
  rewrite ?getc_setth, ?getc_setc_same; auto.
Qed.

(* ---- the labels of an instruction of c are hidden from the observer of d ------------------------------- *)
Lemma exec_hidden : forall g t i a s c d, chan_of i = Some c -> d <> c -> t <> W d ->
  match exec g t i a s with
  | Blocked => True
  | Norm _ _ ls | Raise _ _ ls => hidden d ls = true
  end.
Proof.
  intros g t i a s c d Hc Hd Ht. pose proof (neq_eqb c d Hd) as Hn.
  assert (Hv : forall x, vis d (LCaught t x) = false).
  { intro x. destruct t as [|tc]; simpl; auto. apply neq_eqb. congruence. }
  destruct i; try discriminate Hc; simpl in Hc;
  try match goal with f : fdt |- _ => destruct f as [| |cc]; try discriminate Hc end;
  injection Hc as ->;
  try match goal with k : evk |- _ => destruct k end;
  cbn [exec]; repeat split_innermost; auto;
  unfold hidden; cbn [forallb]; rewrite ?Hv; simpl; rewrite ?Hn; reflexivity.
Qed.

Lemma frame_hidden : forall t k x s d, t <> W d ->
  match frame t k x s with
  | FCatch _ _ ls => hidden d ls = true
  | FPass _ => True
  end.
Proof.
  intros t k x s d Ht.
  assert (Hv : forall y, vis d (LCaught t y) = false).
  { intro y. destruct t as [|tc]; simpl; auto. apply neq_eqb. congruence. }
  destruct k; cbn [frame]; repeat split_innermost; auto; unfold hidden; cbn [forallb]; rewrite ?Hv; reflexivity.
Qed.
