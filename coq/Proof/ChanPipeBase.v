(* Proof/ChanPipeBase.v -- regions of the program points of Model/ChanPipe.v,
   tactics to take a step apart, list lemmas.  Layer L0: lock well-formedness. *)
From Coq Require Import List Arith Bool ZArith Lia.
From WV Require Import Model.ChanPipe.
Import ListNotations.

(* ------------------------------------------------------------ tactics *)

(* take apart the matches / ifs of a hypothesis [H : ... = Some _] *)
Ltac break_step H :=
  repeat (match type of H with
          | context [match ?x with _ => _ end] =>
              lazymatch x with
              | context [match _ with _ => _ end] => fail
              | _ => first [ is_var x; destruct x | let E := fresh "E" in destruct x eqn:E ]
              end
          end; try discriminate H).

Ltac inv_some H := injection H as; subst.

Lemma free_none : forall l, free l = true -> l = None.
Proof. destruct l; simpl; congruence. Qed.
Lemma free_some : forall l, free l = false -> exists t, l = Some t.
Proof. destruct l; simpl; try congruence; eauto. Qed.

Lemma upd_same : forall f i x, upd f i x i = x.
Proof. intros. unfold upd. rewrite Nat.eqb_refl. reflexivity. Qed.
Lemma upd_other : forall f i x j, j <> i -> upd f i x j = f j.
Proof. intros. unfold upd. destruct (Nat.eqb_spec j i); congruence. Qed.

(* ------------------------------------------------------------ regions *)

Definition sc_ol (c : scpc) : bool := match c with ScAcq => false | _ => true end.
Definition at_dl (a : atpc) : bool := match a with AtAcq => false | _ => true end.

Definition io_rl (pc : iopc) : bool :=
  match pc with
  | IoRcWc | IoRcCwf | IoRcItem | IoRcChk | IoRcSc _ | IoRcApp | IoRcApp2 | IoRcLen | IoRcAt _ | IoRcRel => true
  | _ => false
  end.
Definition io_ol (pc : iopc) : bool :=
  match pc with
  | IoRcSc c => sc_ol c
  | IoHwFlL _ | IoHwNTot | IoHwNotify | IoHwRel | IoHwRelX => true
  | IoHc h _ => match h with HcAcq | HcConn2 => false | _ => true end
  | _ => false
  end.
Definition io_dl (pc : iopc) : bool := match pc with IoRcAt a => at_dl a | _ => false end.

Definition wk_rl (pc : wkpc) : bool :=
  match pc with
  | WCbCwf | WCbReq | WCbClr | WCbRel | WKbPop | WKbConn | WKbReq | WKbAt _ | WKbConn2 | WKbSc _ | WKbRel => true
  | _ => false
  end.
Definition wk_ol (pc : wkpc) : bool :=
  match pc with
  | WWsHw | WWsConn2 | WWsRelX | WWsRot | WWsApp | WWsTotR | WWsTotW _ | WWsChk | WWsFl _ | WWsExcW | WWsChk2 | WWsTrig | WWsRel => true
  | WKbSc c => sc_ol c
  | _ => false
  end.
Definition wk_dl (pc : wkpc) : bool :=
  match pc with WWait | WRelD => true | WKbAt a => at_dl a | _ => false end.

(* ------------------------------------------------------------ L0 *)

Definition lock_ok (lk : shared -> option tid) (ior : iopc -> bool) (wkr : wkpc -> bool) (st : state) : Prop :=
  (lk (sh st) = Some TIo <-> ior (ipc (io st)) = true) /\
  (forall j, lk (sh st) = Some (TW j) <-> wkr (wpc (wk st j)) = true).

Record L0 (st : state) : Prop := {
  l0_r : lock_ok rlock io_rl wk_rl st;
  l0_o : lock_ok olock io_ol wk_ol st;
  l0_d : lock_ok dlock io_dl wk_dl st
}.

Lemma L0_init : L0 init.
Proof. split; split; simpl; intros; split; intros; discriminate. Qed.

(* consequences *)
Lemma lock_ok_io_excl : forall lk ior wkr st, lock_ok lk ior wkr st ->
  ior (ipc (io st)) = true -> forall j, wkr (wpc (wk st j)) = false.
Proof.
  unfold lock_ok. intros lk ior wkr st H Hio j. destruct H as [H1 H2].
  pose proof (proj2 H1 Hio) as Hl.
  destruct (wkr (wpc (wk st j))) eqn:E; auto. pose proof (proj2 (H2 j) E). congruence.
Qed.
Lemma lock_ok_wk_excl : forall lk ior wkr st, lock_ok lk ior wkr st ->
  forall j k, wkr (wpc (wk st j)) = true -> wkr (wpc (wk st k)) = true -> j = k.
Proof.
  unfold lock_ok. intros lk ior wkr st H j k Hj Hk. destruct H as [H1 H2].
  pose proof (proj2 (H2 j) Hj). pose proof (proj2 (H2 k) Hk). congruence.
Qed.
Lemma lock_ok_wk_io : forall lk ior wkr st, lock_ok lk ior wkr st ->
  forall j, wkr (wpc (wk st j)) = true -> ior (ipc (io st)) = false.
Proof.
  unfold lock_ok. intros lk ior wkr st H j Hj. destruct H as [H1 H2].
  pose proof (proj2 (H2 j) Hj).
  destruct (ior (ipc (io st))) eqn:E; auto. pose proof (proj2 H1 eq_refl). congruence.
Qed.


(* the standard opening of a preservation proof: [step_cases Hs] turns
   Hs : step P st c = Some (st', l) into one goal per program point and branch, with
   st = {| sh := s; io := i; wk := w |} taken apart and st' replaced by its value.
   In the worker goals Hw : w me = {| wpc := <pc>; ... |}. *)
Ltac step_io Hs :=
  match type of Hs with step ?P ?st (CIo ?e) = Some (?st', ?l) =>
    unfold step in Hs;
    let E := fresh "E" in
    destruct (io_step P (sh st) (io st) e) as [[[s' i'] l']|] eqn:E; [|discriminate Hs];
    inv_some Hs;
    unfold io_step, sc_step, at_step, fl_step, sc_enter, io_after_read in E;
    destruct st as [s i w]; cbn [sh io wk] in *;
    destruct i as [pc ir iw iws its icur icomp]; cbn [ipc i_r i_w i_ws i_items i_cur i_comp] in *;
    destruct pc; break_step E; inv_some E
  end.

Ltac step_wk Hs :=
  match type of Hs with step ?P ?st (CWk ?me ?e) = Some (?st', ?l) =>
    unfold step in Hs;
    let Hme := fresh "Hme" in
    destruct (Nat.ltb me (p_nw P)) eqn:Hme; [|discriminate Hs];
    let E := fresh "E" in
    destruct (wk_step P me (sh st) (wk st me) e) as [[[s' w'] l']|] eqn:E; [|discriminate Hs];
    inv_some Hs;
    unfold wk_step, sc_step, at_step, fl_step, sc_enter, wk_next_write in E;
    destruct st as [s i w]; cbn [sh io wk] in *;
    let Hw := fresh "Hw" in
    destruct (w me) as [pc cur idx off cl] eqn:Hw; cbn [wpc w_cur w_idx w_off w_close] in *;
    destruct pc; break_step E; inv_some E
  end.

Ltac bool_hyps :=
  repeat match goal with
  | H : (_ && _)%bool = true |- _ => apply andb_true_iff in H; destruct H
  | H : (_ && _)%bool = false |- _ => apply andb_false_iff in H
  | H : negb _ = true |- _ => apply negb_true_iff in H
  | H : negb _ = false |- _ => apply negb_false_iff in H
  | H : free ?l = true |- _ => apply free_none in H
  | H : free ?l = false |- _ => apply free_some in H; destruct H as [? H]
  | H : Nat.eqb _ _ = true |- _ => apply Nat.eqb_eq in H
  | H : Nat.eqb _ _ = false |- _ => apply Nat.eqb_neq in H
  | H : Nat.ltb _ _ = true |- _ => apply Nat.ltb_lt in H
  | H : Nat.ltb _ _ = false |- _ => apply Nat.ltb_ge in H
  | H : Nat.leb _ _ = true |- _ => apply Nat.leb_le in H
  | H : Nat.leb _ _ = false |- _ => apply Nat.leb_gt in H
  end.

(* for a goal [forall j, ... (upd w me x j) ...] *)
Ltac upd_cases j me :=
  unfold upd; destruct (Nat.eqb_spec j me); [subst j|].

