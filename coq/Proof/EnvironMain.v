(* Packaging of the C07 statements whose proof combines several lemmas. *)
From Coq Require Import List NArith ZArith Bool.
From RecordUpdate Require Import RecordUpdate.
From WV Require Import Lib.PyBytes Lib.Regex Gen.GenRegex Model.Receiver Model.UrlSplit Model.Parser
  Model.Environ Spec.Pep3333
  Proof.EnvironDict Proof.EnvironParse Proof.EnvironRun Proof.EnvironFields Proof.EnvironTarget
  Proof.EnvironLatin1 Proof.EnvironBody Proof.EnvironImage.
Import ListNotations.
Local Open Scope N_scope.

Lemma no_underscore_both :
  (forall lines h h', add_header_lines h lines = inr h' ->
     add_header_lines h (filter (fun l => negb (underscore_line l)) lines) = inr h') /\
  (forall rq ek,
     spec_header {| rq_method := rq_method rq; rq_target := rq_target rq; rq_version := rq_version rq;
                    rq_fields := filter (fun nv => negb (has_underscore (fst nv))) (rq_fields rq);
                    rq_chunked := rq_chunked rq; rq_body := rq_body rq |} ek
     = spec_header rq ek).
Proof. split; [exact add_header_lines_drop_underscore | exact spec_header_drop_underscore]. Qed.

Lemma no_override_full : forall c p k, In k server_keys ->
  eget (get_environment c p) k = eget (base_environ c p) k /\
  (exists v, eget (base_environ c p) k = Some v) /\
  (forall h, eget (get_environment c (p <| headers := h |>)) k = eget (get_environment c p) k) /\
  eget (get_environment c p) k_waitress_client_disconnected = Some VDisconnected.
Proof.
  intros c p k H. split; [apply no_override; exact H|]. split; [apply base_environ_defines; exact H|].
  split; [intro h; apply no_override_any_headers; exact H | apply client_disconnected_defined].
Qed.

Lemma header_keys_disjoint :
  (forall key, is_header_key (env_key key) = true) /\
  (forall k, In k (k_waitress_client_disconnected :: server_keys) -> is_header_key k = false).
Proof. split; [exact env_key_header_form | exact server_key_not_header]. Qed.

Lemma target_functions :
  (forall s, unquote_to_bytes s = pct_decode s) /\
  (forall prefix path0, environ_path prefix path0 = path_info prefix (collapse path0)) /\
  (forall t sc nl pa qu fr, wf_target t -> split_uri t = SOk sc nl pa qu fr ->
     pa = pct_decode (raw_path t) /\ qu = raw_query t).
Proof. split; [exact unquote_pct|]. split; [exact environ_path_spec | exact split_uri_spec]. Qed.
