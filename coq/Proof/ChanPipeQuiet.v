(* Proof/ChanPipeQuiet.v -- layer L4: no lost task.  When every worker is parked (and not
   notified) and the I/O thread is not in the middle of add_task, the dispatcher queue is empty;
   with L1/L2: on an open, not closing connection every request that arrived has been executed. *)
From Coq Require Import List Arith Bool ZArith Lia Permutation.
From WV Require Import Model.ChanPipe Proof.ChanPipeBase Proof.ChanPipeOwn Proof.ChanPipeLog.
Import ListNotations.

Definition is_wwait (pc : wkpc) : bool := match pc with WWait => true | _ => false end.
Definition is_parked (pc : wkpc) : bool := match pc with WParked => true | _ => false end.
Definition awake (pc : wkpc) : bool := match pc with WWait | WParked => false | _ => true end.
Definition io_at_notify (pc : iopc) : bool := match pc with IoRcAt AtNotify => true | _ => false end.

Section L4.
Variable P : params.

Record L4 (st : state) : Prop := {
  q_out : forall j, p_nw P <= j -> wk st j = wk0;
  q_wait : forall j, is_wwait (wpc (wk st j)) = true -> queue (sh st) = 0;
  q_w : forall j, In j (qwait (sh st) ++ qnotified (sh st)) -> j < p_nw P /\ is_parked (wpc (wk st j)) = true;
  q_p : forall j, is_parked (wpc (wk st j)) = true -> In j (qwait (sh st) ++ qnotified (sh st));
  q_nd : NoDup (qwait (sh st) ++ qnotified (sh st));
  q_live : 1 <= p_nw P -> 1 <= queue (sh st) ->
           (exists j, j < p_nw P /\ awake (wpc (wk st j)) = true) \/ qnotified (sh st) <> [] \/
           io_at_notify (ipc (io st)) = true
}.

Lemma L4_init : L4 init.
Proof.
  split; simpl; intros; auto; try discriminate; try contradiction; try lia. constructor.
Qed.

Definition wa4 (pc : wkpc) := (is_wwait pc, is_parked pc, awake pc).

Lemma L4_frame : forall st st',
  queue (sh st') = queue (sh st) -> qwait (sh st') = qwait (sh st) -> qnotified (sh st') = qnotified (sh st) ->
  io_at_notify (ipc (io st')) = io_at_notify (ipc (io st)) ->
  (forall j, wa4 (wpc (wk st' j)) = wa4 (wpc (wk st j))) ->
  (forall j, p_nw P <= j -> wk st' j = wk st j) ->
  L4 st -> L4 st'.
Proof.
  intros st st' Hq Hw Hn Hi Ha Ho [A B C D E F].
  assert (A1 : forall j, is_wwait (wpc (wk st' j)) = is_wwait (wpc (wk st j))) by (intro j; specialize (Ha j); unfold wa4 in Ha; congruence).
  assert (A2 : forall j, is_parked (wpc (wk st' j)) = is_parked (wpc (wk st j))) by (intro j; specialize (Ha j); unfold wa4 in Ha; congruence).
  assert (A3 : forall j, awake (wpc (wk st' j)) = awake (wpc (wk st j))) by (intro j; specialize (Ha j); unfold wa4 in Ha; congruence).
  split; rewrite ?Hq, ?Hw, ?Hn, ?Hi; intros.
  - rewrite Ho; auto.
  - rewrite A1 in H. eauto.
  - rewrite A2. eauto.
  - rewrite A2 in H. eauto.
  - assumption.
  - destruct (F H H0) as [[j [J1 J2]]|X]; auto. left. exists j. rewrite A3. auto.
Qed.
End L4.

(* ---- list facts for the waiter lists *)
Lemma notify_perm : forall (w : nat) r n, Permutation ((w :: r) ++ n) (r ++ n ++ [w]).
Proof.
  intros. simpl. rewrite app_assoc. apply Permutation_cons_append.
Qed.

Lemma In_filter_ne : forall me l j, In j (filter (fun k => negb (Nat.eqb me k)) l) <-> In j l /\ j <> me.
Proof.
  intros. rewrite filter_In. split; intros [A B]; split; auto.
  - apply negb_true_iff in B. apply Nat.eqb_neq in B. auto.
  - apply negb_true_iff. apply Nat.eqb_neq. auto.
Qed.

Lemma NoDup_app_filter : forall me (a b : list nat), NoDup (a ++ b) ->
  NoDup (a ++ filter (fun k => negb (Nat.eqb me k)) b).
Proof.
  intros me a b H. induction a as [|x a IH]; simpl in *.
  - apply NoDup_filter. auto.
  - inversion H; subst. constructor; auto.
    intro X. apply H2. apply in_app_or in X. apply in_or_app. destruct X as [X|X]; auto.
    apply In_filter_ne in X. tauto.
Qed.

Lemma existsb_In : forall me l, existsb (Nat.eqb me) l = true -> In me l.
Proof. intros. apply existsb_exists in H. destruct H as [x [A B]]. apply Nat.eqb_eq in B. subst. auto. Qed.

Lemma NoDup_app_both : forall (a b : list nat) x, NoDup (a ++ b) -> In x a -> In x b -> False.
Proof.
  induction a as [|y a IH]; simpl; intros b x H Ha Hb; [contradiction|].
  inversion H; subst. destruct Ha as [->|Ha].
  - apply H2. apply in_or_app. auto.
  - eapply IH; eauto.
Qed.

