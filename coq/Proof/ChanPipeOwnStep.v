(* Proof/ChanPipeOwnStep.v -- layer L1 is preserved by every step. *)
From Coq Require Import List Arith Bool ZArith Lia.
From WV Require Import Model.ChanPipe Proof.ChanPipeBase Proof.ChanPipeOwn Proof.ChanPipeOwnStepIo
                       Proof.ChanPipeOwnStepW0 Proof.ChanPipeOwnStepW1 Proof.ChanPipeOwnStepW2.
Import ListNotations.

Theorem L1_step : forall P st c st' l, L0 st -> L1 st -> step P st c = Some (st', l) -> L1 st'.
Proof.
  intros P st c st' l HL0 HL1 Hs. destruct c as [e | me e].
  - eapply L1_step_io; eauto.
  - destruct (grp1 (wpc (wk st me))) as [|[|[|n]]] eqn:Hg.
    + eapply L1_step_wk0; eauto.
    + eapply L1_step_wk1; eauto.
    + eapply L1_step_wk2; eauto.
    + exfalso. destruct (wpc (wk st me)); simpl in Hg; discriminate.
Qed.
