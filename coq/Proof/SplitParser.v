(* C02 at the parser level: HTTPRequestParser.received fed one byte and then the
   rest versus everything at once (head accumulator, fixed and chunked body,
   running counters, both limits).  The outcomes coincide -- exactly, up to the
   dead carry fields -- unless the byte itself completes the message with an
   error, in which case both runs refuse the message (same observation up to
   the identification of 413 with a chunk error inside a chunked body). *)
From Coq Require Import List NArith ZArith Bool Lia Arith.
From RecordUpdate Require Import RecordUpdate.
From WV Require Import Lib.PyBytes Lib.Regex Gen.GenRegex Model.Receiver Model.UrlSplit Model.Parser
  Proof.PyBytesFacts Proof.ReceiverTotal Proof.ReceiverSplit Proof.ParserTotal Proof.ParserTotalLimits.
Import ListNotations.
Local Open Scope N_scope.

Definition hp_set (x : bytes) (p : parser) : parser := p <| header_plus := x |>.

Definition rmap (f : parser -> parser) (r : rcv_res) : rcv_res :=
  match r with ROk p n => ROk (f p) n | x => x end.

Lemma cset_hp x k p : header_bytes_received p = k -> cset x k p = hp_set x p.
Proof. intros <-. destruct p. reflexivity. Qed.

Lemma hp_set_hp_set x y p : hp_set x (hp_set y p) = hp_set x p.
Proof. reflexivity. Qed.

Lemma hp_set_id p : hp_set (header_plus p) p = p.
Proof. destruct p. reflexivity. Qed.

(* ------------------------------------------------------------------ *)
(* the head phase of received(), restated over the accumulated string *)
Definition head_431 (a : adj) (p : parser) (consumed : Z) : rcv_res :=
      match parse_header a p fake_head_431 with
      | (p1, PSOk) => ROk (p1 <| error := Some EHeaderTooLarge |> <| completed := true |>) consumed
      | (_, PSError _) => REscapes
      | (_, PSEscapes) => REscapes
      | (_, PSUnmodelled) => RUnmodelled
      end.

Definition head_found (a : adj) (p0 : parser) (s : bytes) (i : nat) (consumed : Z) : rcv_res :=
  let p := p0 <| header_bytes_received := N.of_nat i |> in
  if max_request_header_size a <=? N.of_nat i then head_431 a p consumed
  else
      let hp := lstrip_by is_reqline_ws (strip_leading_crlf (length s) (firstn i s)) in
      match hp with
      | [] => ROk (p <| empty := true |> <| completed := true |> <| headers_finished := true |>) consumed
      | _ =>
        match parse_header a p hp with
        | (_, PSEscapes) => REscapes
        | (_, PSUnmodelled) => RUnmodelled
        | (p1, PSError e) =>
          ROk (p1 <| error := Some e |> <| completed := true |> <| headers_finished := true |>) consumed
        | (p1, PSOk) =>
          let p2 := match body p1 with
                    | None => p1 <| completed := true |>
                    | Some _ => p1
                    end in
          let p3 := if (0 <? content_length p2) && (max_request_body_size a <=? content_length p2)
                    then p2 <| error := Some EBodyTooLarge |> <| completed := true |> else p2 in
          ROk (p3 <| headers_finished := true |>) consumed
        end
      end.

Definition head_more (a : adj) (p0 : parser) (s : bytes) (datalen : N) : rcv_res :=
  let hbr := header_bytes_received p0 + datalen in
  let p := p0 <| header_bytes_received := hbr |> in
  if max_request_header_size a <=? hbr then head_431 a p (Z.of_N datalen)
  else ROk (p <| header_plus := s |>) (Z.of_N datalen).

Lemma received_head_eq a hp data :
  received a (P0 hp) data =
  match find_double_newline (hp ++ data) with
  | Some i => head_found a (P0 hp) (hp ++ data) i
                (Z.of_N (lenN data) - (Z.of_nat (length (hp ++ data)) - Z.of_nat i))%Z
  | None => head_more a (P0 hp) (hp ++ data) (lenN data)
  end.
Proof.
  unfold received. change (completed (P0 hp)) with false. change (body (P0 hp)) with (@None body_rcv).
  cbv iota. change (header_plus (P0 hp)) with hp. cbv zeta.
  change (header_bytes_received (P0 hp)) with (lenN hp).
  unfold head_found, head_more, head_431.
  change (header_bytes_received (P0 hp)) with (lenN hp).
  destruct (find_double_newline (hp ++ data)); cbv beta iota zeta; reflexivity.
Qed.

(* the stored prefix only shows in the header_plus field of the result *)
Lemma head_431_cset a x k p n : header_bytes_received p = k ->
  head_431 a (cset x k p) n = rmap (hp_set x) (head_431 a p n).
Proof.
  intros Hk. unfold head_431. rewrite parse_header_hp.
  pose proof (parse_header_frame a p fake_head_431) as Fr.
  destruct (parse_header a p fake_head_431) as [p1 st]. cbn [fst] in Fr.
  destruct Fr as (_ & _ & _ & _ & F5 & _).
  destruct st; cbn [rmap]; try reflexivity.
  rewrite cset_hp by congruence. reflexivity.
Qed.

Lemma head_found_cset a x k p0 s i n :
  head_found a (cset x k p0) s i n = rmap (hp_set x) (head_found a p0 s i n).
Proof.
  unfold head_found. cbv zeta.
  change (cset x k p0 <| header_bytes_received := N.of_nat i |>)
    with (cset x (N.of_nat i) (p0 <| header_bytes_received := N.of_nat i |>)).
  set (q := p0 <| header_bytes_received := N.of_nat i |>).
  assert (Hq : header_bytes_received q = N.of_nat i) by reflexivity.
  destruct (max_request_header_size a <=? N.of_nat i).
  - apply head_431_cset; auto.
  - destruct (lstrip_by _ _) as [|h0 hs].
    + cbn [rmap]. reflexivity.
    + rewrite parse_header_hp.
      pose proof (parse_header_frame a q (h0 :: hs)) as Fr.
      destruct (parse_header a q (h0 :: hs)) as [p1 st]. cbn [fst] in Fr.
      destruct Fr as (_ & _ & _ & _ & F5 & _).
      rewrite cset_hp by congruence.
      destruct st; cbn [rmap]; try reflexivity.
      unfold hp_set. psimpl.
      destruct (body p1); psimpl;
        destruct ((0 <? content_length p1) && (max_request_body_size a <=? content_length p1)); reflexivity.
Qed.

Definition rshift (k : Z) (r : rcv_res) : rcv_res :=
  match r with ROk p n => ROk p (n + k)%Z | x => x end.

Lemma head_431_shift a p n k : head_431 a p (n + k) = rshift k (head_431 a p n).
Proof. unfold head_431. destruct (parse_header a p fake_head_431) as [p1 []]; reflexivity. Qed.

Lemma head_found_shift a p s i n k : head_found a p s i (n + k) = rshift k (head_found a p s i n).
Proof.
  unfold head_found. cbv zeta. destruct (_ <=? _); [apply head_431_shift|].
  destruct (lstrip_by _ _); [reflexivity|].
  destruct (parse_header a _ _) as [p1 []]; reflexivity.
Qed.

Lemma strip_crlf_fuel f1 : forall f2 t, (length t <= f1)%nat -> (length t <= f2)%nat ->
  strip_leading_crlf f1 t = strip_leading_crlf f2 t.
Proof.
  induction f1 as [|f1 IH]; intros f2 t H1 H2.
  - destruct t; [|simpl in H1; lia]. destruct f2; reflexivity.
  - destruct f2 as [|f2].
    + destruct t; [reflexivity | simpl in H2; lia].
    + cbn [strip_leading_crlf].
      destruct t as [|x [|y t']]; try reflexivity.
      rewrite (IH f2 t') by (simpl in *; lia). reflexivity.
Qed.

Lemma head_found_firstn a p s s' i n : firstn i s = firstn i s' ->
  (i <= length s)%nat -> (i <= length s')%nat ->
  head_found a p s i n = head_found a p s' i n.
Proof.
  intros H L1 L2. unfold head_found. rewrite H.
  rewrite (strip_crlf_fuel (length s) (length s') (firstn i s')); [reflexivity| |];
    rewrite firstn_length; lia.
Qed.

(* a head that ends at the byte b: the bytes behind it are not looked at *)
Lemma head_stop a hp b s i :
  find_double_newline (hp ++ [b]) = Some i ->
  received a (P0 hp) (b :: s) = received a (P0 hp) [b].
Proof.
  intros Hi. rewrite !received_head_eq.
  assert (E : hp ++ b :: s = (hp ++ [b]) ++ s) by (rewrite <- app_assoc; reflexivity).
  rewrite E. pose proof Hi as Hi'. apply fdn_Some in Hi' as (j & Hj & ->).
  pose proof (find_bound _ _ _ Hj) as B. change (length CRLFCRLF) with 4%nat in B.
  unfold find_double_newline at 1. rewrite (find_app_l _ s _ _ Hj). rewrite Hi.
  rewrite (head_found_firstn a (P0 hp) ((hp ++ [b]) ++ s) (hp ++ [b]) (j + 4));
    [|apply firstn_app_le; lia | rewrite app_length; lia | lia].
  f_equal. rewrite !app_length, !lenN_cons, lenN_nil. unfold lenN. cbn [length]. lia.
Qed.

Lemma P0_cset hp x : P0 (hp ++ x) = cset (hp ++ x) (lenN (hp ++ x)) (P0 hp).
Proof. reflexivity. Qed.

(* the head goes on after b: the rest is processed as if it had come with b *)
Lemma head_cont a hp b s :
  exists R0 f, (f = hp_set (hp ++ [b]) \/ f = (fun p => p)) /\
    received a (P0 hp) (b :: s) = rshift 1 R0 /\
    received a (P0 (hp ++ [b])) s = rmap f R0 /\
    (forall r n, R0 = ROk r n -> completed r = false -> f = hp_set (hp ++ [b]) -> headers_finished r = true).
Proof.
  rewrite !received_head_eq.
  assert (E : hp ++ b :: s = (hp ++ [b]) ++ s) by (rewrite <- app_assoc; reflexivity).
  rewrite E. set (S := (hp ++ [b]) ++ s).
  destruct (find_double_newline S) as [i|] eqn:Hi.
  - exists (head_found a (P0 hp) S i (Z.of_N (lenN s) - (Z.of_nat (length S) - Z.of_nat i))%Z), (hp_set (hp ++ [b])).
    split; [left; reflexivity|]. split; [|split].
    + rewrite <- head_found_shift. f_equal. rewrite lenN_cons. lia.
    + rewrite P0_cset. apply head_found_cset.
    + intros r n HR Hc _. revert HR. unfold head_found, head_431. cbv zeta.
      destruct (_ <=? _).
      * destruct (parse_header a _ fake_head_431) as [p1 []]; try discriminate.
        intros H; injection H as <- <-. psimpl. discriminate.
      * destruct (lstrip_by _ _); [intros H; injection H as <- <-; reflexivity|].
        destruct (parse_header a _ _) as [p1 []]; try discriminate; intros H; injection H as <- <-; reflexivity.
  - unfold head_more. cbv zeta. change (header_bytes_received (P0 hp)) with (lenN hp).
    change (header_bytes_received (P0 (hp ++ [b]))) with (lenN (hp ++ [b])).
    assert (EH : lenN (hp ++ [b]) + lenN s = lenN hp + lenN (b :: s)).
    { rewrite lenN_app, lenN_cons, lenN_cons, lenN_nil. lia. }
    rewrite EH. set (H := lenN hp + lenN (b :: s)).
    destruct (max_request_header_size a <=? H).
    + exists (head_431 a (P0 hp <| header_bytes_received := H |>) (Z.of_N (lenN s))), (hp_set (hp ++ [b])).
      split; [left; reflexivity|]. split; [|split].
      * rewrite <- head_431_shift. f_equal. rewrite lenN_cons. lia.
      * change (P0 (hp ++ [b]) <| header_bytes_received := H |>)
          with (cset (hp ++ [b]) H (P0 hp <| header_bytes_received := H |>)).
        apply head_431_cset. reflexivity.
      * intros r n HR Hc _. revert HR. unfold head_431.
        destruct (parse_header a _ fake_head_431) as [p1 []]; try discriminate.
        intros HH; injection HH as <- <-. psimpl. discriminate.
    + exists (ROk (P0 hp <| header_bytes_received := H |> <| header_plus := S |>) (Z.of_N (lenN s))), (fun p => p).
      split; [right; reflexivity|]. split; [|split].
      * cbn [rshift]. f_equal. rewrite lenN_cons. lia.
      * reflexivity.
      * intros r n _ _ Hf. exfalso.
        pose proof (f_equal (fun g => header_plus (g parser_init)) Hf) as X. cbn in X.
        destruct hp; discriminate.
Qed.

(* ------------------------------------------------------------------ *)
(* what a task can see of a request *)
Definition abs_err (p : parser) (e : perr) : perr :=
  if chunked p && headers_finished p then
    match e with
    | EChunkNotTerminated | EInvalidChunkExt | EInvalidChunkSize | EBodyTooLarge => EBodyTooLarge
    | _ => e
    end
  else e.

Definition obs_body (p : parser) : option body_rcv :=
  match error p with
  | Some _ => None
  | None => match body p with
            | None => None
            | Some b => Some (BFixed {| f_remain := 0; f_buf := body_bytes b; f_completed := true |})
            end
  end.

(* [ab = true]: a refusal raised inside a chunked body is only observed as
   "refused" (the tags 413 / 400-chunk-error are identified); [ab = false]: exact tags *)
Definition obs (ab : bool) (p : parser) : parser :=
  p <| header_plus := [] |> <| header_bytes_received := 0 |> <| body_bytes_received := 0%Z |>
    <| body := obs_body p |>
    <| error := if ab then option_map (abs_err p) (error p) else error p |>.

Lemma obs_hp_set ab x p : obs ab (hp_set x p) = obs ab p.
Proof. reflexivity. Qed.

(* ------------------------------------------------------------------ *)
(* the body phase of received(), restated *)
Definition body_fin (a : adj) (p : parser) (br' : body_rcv) (consumed : Z)
    (brerr : option perr) (brdone : bool) : rcv_res :=
      let bbr := (body_bytes_received p + consumed)%Z in
      let p1 := p <| body := Some br' |> <| body_bytes_received := bbr |> in
      let max_body := max_request_body_size a in
      if (Z.of_N max_body <=? bbr)%Z
      then ROk (p1 <| error := Some EBodyTooLarge |> <| completed := true |>) consumed
      else match brerr with
      | Some e => ROk (p1 <| error := Some e |> <| completed := true |>) consumed
      | None =>
        if brdone then
          let p2 := p1 <| completed := true |> in
          ROk (if chunked p2
               then p2 <| headers := hset (headers p2) s_CONTENT_LENGTH (to_dec (body_len br')) |>
               else p2) consumed
        else ROk p1 consumed
      end.

Lemma received_body_eq a p br data : completed p = false -> body p = Some br ->
  received a p data =
  match br with
  | BFixed f => let '(f', n) := fixed_received f data in body_fin a p (BFixed f') n None (f_completed f')
  | BChunked c => match chunked_received c data with
                  | Some (c', n) => body_fin a p (BChunked c') n (c_error c') (c_completed c')
                  | None => ROutOfFuel
                  end
  end.
Proof.
  intros Hc Hb. unfold received, body_fin. rewrite Hc, Hb. cbv iota.
  destruct br as [f|c].
  - destruct (fixed_received f data) as [f' n]. reflexivity.
  - destruct (chunked_received c data) as [[c' n]|]; reflexivity.
Qed.

(* one byte counted first, then the rest: same as all at once *)
Lemma body_fin_step a p X k br' n e d :
  body_fin a p br' (k + n) e d =
  rshift k (body_fin a (p <| body := X |> <| body_bytes_received := (body_bytes_received p + k)%Z |>) br' n e d).
Proof.
  unfold body_fin. psimpl. cbv zeta.
  replace (body_bytes_received p + k + n)%Z with (body_bytes_received p + (k + n))%Z by lia.
  destruct (_ <=? _)%Z; [cbn [rshift]; f_equal; lia|].
  destruct e; [cbn [rshift]; f_equal; lia|].
  destruct d; [|cbn [rshift]; f_equal; lia].
  psimpl. destruct (chunked p); cbn [rshift]; f_equal; lia.
Qed.

(* ------------------------------------------------------------------ *)
(* one byte, then the rest, versus everything at once: the parser *)

(* equal, or equal up to the (dead) header_plus field of a parser past its head *)
Definition peq (r r' : parser) : Prop :=
  r = r' \/ (headers_finished r' = true /\ exists x, r = hp_set x r').

Definition cont_rel (a : adj) (r0 r1 : parser) (b : N) (s : bytes) : Prop :=
  match received a r1 s with
  | ROk r2 n2 =>
      exists r2' nw, received a r0 (b :: s) = ROk r2' nw /\
        obs true r2 = obs true r2' /\ completed r2 = completed r2' /\
        (error r2 = None ->
           nw = (1 + n2)%Z /\ obs false r2 = obs false r2' /\ (completed r2 = false -> peq r2 r2'))
  | RUnmodelled => received a r0 (b :: s) = RUnmodelled
  | _ => True
  end.

Inductive split_case (a : adj) (r0 : parser) (b : N) (s : bytes) : Prop :=
| SC_unmodelled :
    received a r0 [b] = RUnmodelled -> received a r0 (b :: s) = RUnmodelled -> split_case a r0 b s
| SC_stop r1 :
    received a r0 [b] = ROk r1 1%Z -> received a r0 (b :: s) = ROk r1 1%Z -> split_case a r0 b s
| SC_cont r1 :
    received a r0 [b] = ROk r1 1%Z -> completed r1 = false -> wf_p a r1 ->
    (headers_finished r1 = false \/
     (headers_finished r0 = true /\ headers_finished r1 = true /\ expect_continue r1 = expect_continue r0)) ->
    cont_rel a r0 r1 b s -> split_case a r0 b s
| SC_error r1 r1' n' :
    received a r0 [b] = ROk r1 1%Z -> completed r1 = true -> error r1 <> None ->
    received a r0 (b :: s) = ROk r1' n' -> completed r1' = true -> obs true r1 = obs true r1' ->
    split_case a r0 b s.

Lemma received_one a p b : wf_p a p ->
  received a p [b] = RUnmodelled \/
  exists p', received a p [b] = ROk p' 1%Z /\ (completed p' = true \/ wf_p a p').
Proof.
  intros W. destruct (received_total a p [b] W ltac:(discriminate)) as [E|(p' & n & E & Bn & H)]; auto.
  right. exists p'. cbn [length] in Bn. replace n with 1%Z in E by lia. auto.
Qed.

(* the 431 result does not depend on the carry fields *)
Definition r431 (a : adj) : parser :=
  fst (parse_header a parser_init fake_head_431) <| error := Some EHeaderTooLarge |> <| completed := true |>.

Lemma head_431_obs ab a x k n :
  exists r, head_431 a (cset x k parser_init) n = ROk r n /\ obs ab r = obs ab (r431 a) /\ completed r = true
            /\ error r = Some EHeaderTooLarge.
Proof.
  unfold head_431, r431. rewrite parse_header_hp.
  pose proof (fake_head_ok a [] 0) as Fk. change (P0 [] <| header_bytes_received := 0 |>) with parser_init in Fk.
  destruct (parse_header a parser_init fake_head_431) as [p1 st]. cbn [snd fst] in *. subst st.
  eexists. split; [reflexivity|]. split; [reflexivity|]. split; reflexivity.
Qed.

Lemma split_head a hp b s :
  find hp CRLFCRLF = None -> (hp = [] \/ lenN hp < max_request_header_size a) -> s <> [] ->
  split_case a (P0 hp) b s.
Proof.
  intros Hf Hl Hs.
  assert (W0 : wf_p a (P0 hp)).
  { unfold wf_p, wf_body. change (body (P0 hp)) with (@None body_rcv).
    split; [reflexivity|]. split; [reflexivity|]. split; [exists hp; auto|]. split; [exact Hl | left; reflexivity]. }
  destruct (find_double_newline (hp ++ [b])) as [i|] eqn:Hi.
  - (* the head ends at b *)
    pose proof (head_stop a hp b s i Hi) as E.
    destruct (received_one a (P0 hp) b W0) as [U|(r1 & E1 & _)].
    + apply SC_unmodelled; congruence.
    + apply (SC_stop _ _ _ _ r1); congruence.
  - pose proof (received_head_eq a hp [b]) as E1. rewrite Hi in E1.
    unfold head_more in E1. cbv zeta in E1. change (header_bytes_received (P0 hp)) with (lenN hp) in E1.
    change (lenN [b]) with 1 in E1.
    destruct (max_request_header_size a <=? lenN hp + 1) eqn:Hmax.
    + (* 431 at b *)
      apply N.leb_le in Hmax.
      change (P0 hp <| header_bytes_received := lenN hp + 1 |>) with (cset hp (lenN hp + 1) parser_init) in E1.
      destruct (head_431_obs true a hp (lenN hp + 1) (Z.of_N 1)) as (r1 & H1 & O1 & C1 & X1).
      rewrite H1 in E1. change (Z.of_N 1) with 1%Z in E1.
      (* the whole read *)
      pose proof (received_head_eq a hp (b :: s)) as Ew.
      assert (Hw : exists r1' n', received a (P0 hp) (b :: s) = ROk r1' n' /\ obs true r1' = obs true (r431 a)
                                 /\ completed r1' = true).
      { assert (E : hp ++ b :: s = (hp ++ [b]) ++ s) by (rewrite <- app_assoc; reflexivity).
        destruct (find_double_newline (hp ++ b :: s)) as [j|] eqn:Hj.
        - unfold head_found in Ew. cbv zeta in Ew.
          assert (Hge : max_request_header_size a <= N.of_nat j).
          { rewrite E in Hj. apply fdn_Some in Hj as (j0 & Hj0 & ->).
            apply fdn_None in Hi. pose proof (find_app_none_l _ _ _ _ Hi Hj0) as B.
            change (length CRLFCRLF) with 4%nat in B. rewrite app_length in B. cbn [length] in B.
            unfold lenN in Hmax. lia. }
          apply N.leb_le in Hge. rewrite Hge in Ew.
          change (P0 hp <| header_bytes_received := N.of_nat j |>) with (cset hp (N.of_nat j) parser_init) in Ew.
          destruct (head_431_obs true a hp (N.of_nat j)
                      (Z.of_N (lenN (b :: s)) - (Z.of_nat (length (hp ++ b :: s)) - Z.of_nat j))%Z)
            as (r & H & O & C & _).
          rewrite H in Ew. eauto.
        - unfold head_more in Ew. cbv zeta in Ew. change (header_bytes_received (P0 hp)) with (lenN hp) in Ew.
          assert (Hge : max_request_header_size a <= lenN hp + lenN (b :: s)) by (rewrite lenN_cons; lia).
          apply N.leb_le in Hge. rewrite Hge in Ew.
          change (P0 hp <| header_bytes_received := lenN hp + lenN (b :: s) |>)
            with (cset hp (lenN hp + lenN (b :: s)) parser_init) in Ew.
          destruct (head_431_obs true a hp (lenN hp + lenN (b :: s)) (Z.of_N (lenN (b :: s)))) as (r & H & O & C & _).
          rewrite H in Ew. eauto. }
      destruct Hw as (r1' & n' & Ew' & Ow & Cw).
      apply (SC_error _ _ _ _ r1 r1' n'); auto; congruence.
    + (* the head goes on *)
      apply N.leb_gt in Hmax.
      assert (EP : P0 hp <| header_bytes_received := lenN hp + 1 |> <| header_plus := hp ++ [b] |> = P0 (hp ++ [b])).
      { change 1 with (lenN [b]). apply P0_app. }
      rewrite EP in E1. change (Z.of_N 1) with 1%Z in E1.
      assert (W1 : wf_p a (P0 (hp ++ [b]))).
      { unfold wf_p, wf_body. change (body (P0 (hp ++ [b]))) with (@None body_rcv).
        split; [reflexivity|]. split; [reflexivity|]. split; [exists (hp ++ [b]); split; [reflexivity | apply fdn_None; exact Hi]|].
        split; [right; change (header_plus (P0 (hp ++ [b]))) with (hp ++ [b]); rewrite lenN_app; change (lenN [b]) with 1; lia
               | left; reflexivity]. }
      apply (SC_cont _ _ _ _ (P0 (hp ++ [b]))); auto.
      unfold cont_rel.
      destruct (head_cont a hp b s) as (R0 & f & Hfm & Ew & Es & Hhf).
      rewrite Es, Ew. destruct R0 as [r n| | |]; cbn [rmap rshift]; auto.
      exists r, (n + 1)%Z. split; [reflexivity|].
      assert (Of : forall ab, obs ab (f r) = obs ab r) by (intros ab; destruct Hfm as [-> | ->]; reflexivity).
      assert (Cf : completed (f r) = completed r) by (destruct Hfm as [-> | ->]; reflexivity).
      split; [apply Of|]. split; [exact Cf|]. intros _. split; [lia|]. split; [apply Of|].
      intros Hc. rewrite Cf in Hc. destruct Hfm as [-> | ->]; [|left; reflexivity].
      right. split; [eapply Hhf; eauto | eexists; reflexivity].
Qed.

Lemma body_fin_ok a p br' n e d : exists q, body_fin a p br' n e d = ROk q n.
Proof.
  unfold body_fin. cbv zeta. destruct (_ <=? _)%Z; [eauto|]. destruct e; [eauto|]. destruct d; eauto.
Qed.

Lemma split_fixed a r0 f b s :
  wf_p a r0 -> body r0 = Some (BFixed f) -> s <> [] -> split_case a r0 b s.
Proof.
  intros W Hb Hs. pose proof W as (Wc & We & Wb & Wh & Wbb). unfold wf_body in Wb. rewrite Hb in Wb.
  destruct Wb as (Hhf & Hfc & Hfr).
  destruct (fixed_one_byte f b s Hfr Hs) as (f1 & E1 & Cases).
  pose proof (received_body_eq a r0 _ [b] Wc Hb) as R1. cbv beta iota in R1. rewrite E1 in R1.
  pose proof (received_body_eq a r0 _ (b :: s) Wc Hb) as Rw. cbv beta iota in Rw.
  destruct Cases as [(Hr1 & Hc1 & Ew)|(Hr & Hc1 & Hr1 & Ew)].
  - (* last body byte *)
    rewrite Ew in Rw. destruct (body_fin_ok a r0 (BFixed f1) 1 None (f_completed f1)) as (q & Eq).
    apply (SC_stop _ _ _ _ q); congruence.
  - destruct (fixed_received f1 s) as [f2 n2] eqn:E2. specialize (Ew f2 n2 eq_refl). rewrite Ew in Rw.
    pose proof (fixed_received_spec f1 s Hr1 Hs) as S2. rewrite E2 in S2. destruct S2 as (Bn2 & _).
    rewrite Hc1, Hfc in R1.
    destruct (Z.of_N (max_request_body_size a) <=? body_bytes_received r0 + 1)%Z eqn:Hmax.
    + (* 413 at b *)
      unfold body_fin in R1, Rw. cbv zeta in R1, Rw. rewrite Hmax in R1.
      apply Z.leb_le in Hmax.
      assert (Hmax2 : (Z.of_N (max_request_body_size a) <=? body_bytes_received r0 + (1 + n2))%Z = true)
        by (apply Z.leb_le; lia).
      rewrite Hmax2 in Rw.
      eapply SC_error; [exact R1 | reflexivity | discriminate | exact Rw | reflexivity | reflexivity].
    + set (r1 := r0 <| body := Some (BFixed f1) |> <| body_bytes_received := (body_bytes_received r0 + 1)%Z |>).
      assert (R1' : received a r0 [b] = ROk r1 1%Z).
      { rewrite R1. unfold body_fin. cbv zeta. rewrite Hmax. reflexivity. }
      destruct (received_one a r0 b W) as [U|(p' & Ep & Hp)]; [congruence|].
      assert (p' = r1) by congruence. subst p'.
      destruct Hp as [Hp|W1]; [discriminate Hp + (cbn in Hp; congruence)|].
      assert (Cr1 : completed r1 = false) by exact Wc.
      apply (SC_cont _ _ _ _ r1 R1' Cr1 W1).
      * right. split; [exact Hhf|]. split; [exact Hhf | reflexivity].
      * unfold cont_rel.
        rewrite (received_body_eq a r1 (BFixed f1) s Cr1 eq_refl). cbv beta iota. rewrite E2.
        rewrite (body_fin_step a r0 (Some (BFixed f1)) 1 (BFixed f2) n2 None (f_completed f2)) in Rw.
        fold r1 in Rw.
        destruct (body_fin_ok a r1 (BFixed f2) n2 None (f_completed f2)) as (q & Eq).
        rewrite Eq in *. cbn [rshift] in Rw.
        exists q, (n2 + 1)%Z. split; [exact Rw|]. split; [reflexivity|]. split; [reflexivity|].
        intros _. split; [lia|]. split; [reflexivity|]. intros _. left; reflexivity.
Qed.

Lemma ceq_fields c2 c' : ceq c2 c' ->
  c_error c2 = c_error c' /\ c_completed c2 = c_completed c' /\ c_buf c2 = c_buf c' /\
  (c_completed c2 = false -> c2 = c').
Proof.
  intros [(H & ->)|(H & E)]; [auto|].
  pose proof (f_equal c_error E) as E1. pose proof (f_equal c_completed E) as E2.
  pose proof (f_equal c_buf E) as E3. cbn in E1, E2, E3.
  repeat split; auto. congruence.
Qed.

Lemma abs_chunk_err p e : chunked p = true -> headers_finished p = true ->
  chunk_err (Some e) -> abs_err p e = EBodyTooLarge.
Proof. intros H1 H2 H. unfold abs_err. rewrite H1, H2. destruct e; cbn in *; tauto. Qed.

Lemma split_chunked a r0 c b s :
  wf_p a r0 -> body r0 = Some (BChunked c) -> s <> [] -> split_case a r0 b s.
Proof.
  intros W Hb Hs. pose proof W as (Wc & We & Wb & Wh & Wbb). unfold wf_body in Wb. rewrite Hb in Wb.
  destruct Wb as (Hhf & Wfc & Hcc & Hce & Hphi & Hch).
  destruct (chunked_one_byte c b s Wfc Hcc Hce Hs) as (c1 & E1 & Cases).
  pose proof (received_body_eq a r0 _ [b] Wc Hb) as R1. cbv beta iota in R1. rewrite E1 in R1.
  pose proof (received_body_eq a r0 _ (b :: s) Wc Hb) as Rw. cbv beta iota in Rw.
  destruct (chunked_received_spec c [b] Wfc Hcc ltac:(discriminate)) as (c1' & n1' & E1' & Wc1 & _).
  assert (c1' = c1) by congruence. subst c1'. clear E1' n1'.
  destruct Cases as [(He1 & Hc1 & Ew)|[(He1 & Hc1 & Ew)|(e & He1 & c' & n' & Ew & He')]].
  - (* the body ends at b *)
    rewrite Ew in Rw. destruct (body_fin_ok a r0 (BChunked c1) 1 (c_error c1) (c_completed c1)) as (q & Eq).
    apply (SC_stop _ _ _ _ q); congruence.
  - destruct (chunked_received_spec c1 s Wc1 Hc1 Hs) as (c2 & n2 & E2 & Wc2 & Bn2 & _).
    destruct (Ew c2 n2 E2) as (c' & Ew' & Q). rewrite Ew' in Rw.
    destruct (ceq_fields c2 c' Q) as (Qe & Qc & Qb & Qeq).
    rewrite He1, Hc1 in R1.
    destruct (Z.of_N (max_request_body_size a) <=? body_bytes_received r0 + 1)%Z eqn:Hmax.
    + (* 413 at b *)
      unfold body_fin in R1, Rw. cbv zeta in R1, Rw. rewrite Hmax in R1.
      apply Z.leb_le in Hmax.
      assert (Hmax2 : (Z.of_N (max_request_body_size a) <=? body_bytes_received r0 + (1 + n2))%Z = true)
        by (apply Z.leb_le; lia).
      rewrite Hmax2 in Rw.
      eapply SC_error; [exact R1 | reflexivity | discriminate | exact Rw | reflexivity | reflexivity].
    + set (r1 := r0 <| body := Some (BChunked c1) |> <| body_bytes_received := (body_bytes_received r0 + 1)%Z |>).
      assert (R1' : received a r0 [b] = ROk r1 1%Z).
      { rewrite R1. unfold body_fin. cbv zeta. rewrite Hmax. reflexivity. }
      destruct (received_one a r0 b W) as [U|(p' & Ep & Hp)]; [congruence|].
      assert (p' = r1) by congruence. subst p'.
      assert (Cr1 : completed r1 = false) by exact Wc.
      destruct Hp as [Hp|W1]; [congruence|].
      apply (SC_cont _ _ _ _ r1 R1' Cr1 W1).
      * right. split; [exact Hhf|]. split; [exact Hhf | reflexivity].
      * unfold cont_rel.
        rewrite (received_body_eq a r1 (BChunked c1) s Cr1 eq_refl). cbv beta iota. rewrite E2.
        rewrite (body_fin_step a r0 (Some (BChunked c1)) 1 (BChunked c') n2 (c_error c') (c_completed c')) in Rw.
        fold r1 in Rw. rewrite <- Qe, <- Qc in Rw.
        destruct (c_completed c2) eqn:Hc2.
        -- (* completed: the receivers may differ in their trailer field *)
           unfold body_fin in *. cbv zeta in *.
           destruct (Z.of_N (max_request_body_size a) <=? body_bytes_received r1 + n2)%Z.
           ++ cbn [rshift] in Rw. eexists _, _. split; [exact Rw|]. split; [reflexivity|]. split; [reflexivity|].
              intros X; discriminate X.
           ++ destruct (c_error c2) eqn:Hec2.
              ** cbn [rshift] in Rw. eexists _, _. split; [exact Rw|]. split; [reflexivity|]. split; [reflexivity|].
                 intros X; discriminate X.
              ** assert (Hch1 : chunked (r1 <| body := Some (BChunked c2) |> <| body_bytes_received := (body_bytes_received r1 + n2)%Z |> <| completed := true |>) = true) by exact Hch.
                 assert (Hch2 : chunked (r1 <| body := Some (BChunked c') |> <| body_bytes_received := (body_bytes_received r1 + n2)%Z |> <| completed := true |>) = true) by exact Hch.
                 rewrite Hch1. rewrite Hch2 in Rw. cbn [rshift] in Rw.
                 eexists _, _. split; [exact Rw|].
                 assert (BL : body_len (BChunked c2) = body_len (BChunked c')) by (cbn; now rewrite Qb).
                 rewrite BL.
                 assert (O : forall ab,
                   obs ab (r1 <| body := Some (BChunked c2) |> <| body_bytes_received := (body_bytes_received r1 + n2)%Z |>
                              <| completed := true |> <| headers := hset (headers r1) s_CONTENT_LENGTH (to_dec (body_len (BChunked c'))) |>) =
                   obs ab (r1 <| body := Some (BChunked c') |> <| body_bytes_received := (body_bytes_received r1 + n2)%Z |>
                              <| completed := true |> <| headers := hset (headers r1) s_CONTENT_LENGTH (to_dec (body_len (BChunked c'))) |>)).
                 { intros ab. unfold obs, obs_body. psimpl. change (error r1) with (error r0). rewrite We.
                   cbn [body_bytes]. rewrite Qb. reflexivity. }
                 split; [apply O|]. split; [reflexivity|]. intros _. split; [lia|]. split; [apply O|].
                 intros X; discriminate X.
        -- (* still open: identical *)
           rewrite <- (Qeq eq_refl) in Rw.
           destruct (body_fin_ok a r1 (BChunked c2) n2 (c_error c2) false) as (q & Eq).
           rewrite Eq in *. cbn [rshift] in Rw.
           exists q, (n2 + 1)%Z. split; [exact Rw|]. split; [reflexivity|]. split; [reflexivity|].
           intros _. split; [lia|]. split; [reflexivity|]. intros _. left; reflexivity.
  - (* a chunk error raised by b *)
    rewrite Ew in Rw. rewrite He1 in R1. rewrite He' in Rw.
    assert (Ce : chunk_err (Some e)).
    { pose proof (chunked_received_err c [b] c1 1%Z) as Y. rewrite Hce, He1 in Y. apply Y; [exact I | exact E1]. }
    unfold body_fin in R1, Rw. cbv zeta in R1, Rw.
    assert (A : abs_err r0 e = EBodyTooLarge) by (apply abs_chunk_err; auto).
    assert (A2 : abs_err r0 EBodyTooLarge = EBodyTooLarge) by (unfold abs_err; rewrite Hch, Hhf; reflexivity).
    destruct (Z.of_N (max_request_body_size a) <=? body_bytes_received r0 + 1)%Z;
      destruct (Z.of_N (max_request_body_size a) <=? body_bytes_received r0 + n')%Z;
      (eapply SC_error; [exact R1 | reflexivity | discriminate | exact Rw | reflexivity |]);
      unfold obs, obs_body; psimpl; cbn [option_map];
      change (abs_err (r0 <| body := _ |> <| body_bytes_received := _ |> <| error := _ |> <| completed := _ |>)) with (abs_err r0);
      rewrite ?A, ?A2; reflexivity.
Qed.

(* the parser: one byte and then the rest versus everything at once *)
Theorem parser_split a r0 b s : wf_p a r0 -> s <> [] -> split_case a r0 b s.
Proof.
  intros W Hs. destruct (body r0) as [[f|c]|] eqn:Hb.
  - eapply split_fixed; eauto.
  - eapply split_chunked; eauto.
  - pose proof W as (Wc & We & Wb & Wh & Wbb). unfold wf_body in Wb. rewrite Hb in Wb.
    destruct Wb as (hp & -> & Hf). apply split_head; auto.
Qed.
