(* C03, widening: what HTTPChannel.service writes and decides for the
   applications of class [wapp] (start_response, write() calls, iterable). *)
From Coq Require Import String.
From Coq Require Import List NArith ZArith Bool Lia Arith.
From WV Require Import Lib.PyBytes Gen.GenTables Model.Task Spec.ClientParse
  Proof.TaskLines Proof.TaskHead Proof.TaskStart Proof.TaskRun Proof.TaskChunk Proof.TaskC09
  Proof.TaskBody Proof.TaskSimple Proof.TaskFrame2Sem.
Import ListNotations.
Local Open Scope N_scope.

Section Run2.
Variable cap : str -> str.
Variable lower : str -> str.
Variable c : cfg.
Variable r : req.

Lemma run_actions_cons disc s a l :
  run_actions cap lower c r disc s (a :: l) =
  match run_action cap lower c r disc s a with
  | (s1, Exn e) => (s1, Exn e)
  | (s1, Ok _) => run_actions cap lower c r disc s1 l
  end.
Proof. reflexivity. Qed.

Lemma scof_wrote_eq t : t_wrote_header t = true -> set_close_on_finish cap lower t = set_cof true t.
Proof. intro H. unfold set_close_on_finish. rewrite H. reflexivity. Qed.

Lemma toofew_adj_wrote t : t_wrote_header t = true ->
  t_cof (toofew_adj cap lower r t) = t_cof t || toofew r t
  /\ t_chunked (toofew_adj cap lower r t) = t_chunked t
  /\ t_wrote_header (toofew_adj cap lower r t) = true.
Proof.
  intro H. rewrite toofew_adj_spec. destruct (toofew r t).
  - rewrite scof_wrote_eq by auto. cbn. rewrite orb_true_r. auto.
  - rewrite orb_false_r. auto.
Qed.

Lemma toofew_adj_fresh t : t_complete t = true -> t_wrote_header t = false ->
  t_complete (toofew_adj cap lower r t) = true /\ t_wrote_header (toofew_adj cap lower r t) = false.
Proof.
  intros Hc Hw. rewrite toofew_adj_spec. destruct (toofew r t); auto.
  destruct (keeps_scof cap lower t) as [(K1 & _) _]. rewrite (scof_wrote cap lower). split; congruence.
Qed.

(* the iterable is iterated: by its kind / a write() before it, or because the accepted
   status has no body (then not even a seekable file wrapper is handed over: fix d117733).
   Also: the task closes the iterable (if it has close()), nothing is handed over. *)
Theorem wapp_wire_gen status hs ws kind chunks hc :
  r_error r = None ->
  (no_handover kind ws \/
   forall t1, start_response lower (new_task (r_version r) false) (PStr status) hs None = (t1, Ok tt) ->
              has_body t1 = false) ->
  (forall t1, start_response lower (new_task (r_version r) false) (PStr status) hs None = (t1, Ok tt) ->
              len1 kind && match t_clen t1 with None => true | Some _ => false end = false) ->
  let res := channel_service cap lower c r (wapp status hs ws kind chunks hc) None in
  o_raw res = None ->
  exists t1, start_response lower (new_task (r_version r) false) (PStr status) hs None = (t1, Ok tt) /\
    let ds := ws ++ eff kind chunks in
    (ds = [] ->
       exists tp head, build_response_header cap lower c r (toofew_adj cap lower r t1) = (tp, Ok head)
         /\ wire (o_writes res) = head ++ (if t_chunked tp && negb (r_head r) then chunk_terminator else [])
         /\ o_close res = t_cof tp /\ o_next res = negb (t_cof tp))
    /\ (ds <> [] ->
       exists tp head, build_response_header cap lower c r t1 = (tp, Ok head)
         /\ wire (o_writes res) = head ++ snd (ws_sem (set_wrote true tp) ds)
                                  ++ (if t_chunked tp && negb (r_head r) then chunk_terminator else [])
         /\ o_close res = t_cof tp || toofew r (fst (ws_sem (set_wrote true tp) ds))
         /\ o_next res = negb (t_cof tp || toofew r (fst (ws_sem (set_wrote true tp) ds))))
    /\ o_handover res = false /\ o_closes res = (if hc then 1 else 0)%nat.
Proof.
  intros He Hnh Hl1. cbn zeta. unfold channel_service. rewrite He. cbn [connected].
  set (t0 := new_task (r_version r) false).
  match goal with |- context [ladder cap lower c r None ?x0 ?raw0] =>
    destruct (ladder_fields cap lower c r None x0 raw0) as (_ & _ & _ & Eraw & _) end.
  cbn zeta in Eraw. rewrite Eraw. clear Eraw.
  unfold task_service.
  destruct (x_out (task_run cap lower c r None (t0, mkChan [] 0) (inl (wapp status hs ws kind chunks hc)))) as [[]|e] eqn:Eraw;
    [|intro X; discriminate X].
  intros _. unfold ladder. rewrite Eraw. cbn [o_writes o_close o_next o_escaped o_handover o_closes fst snd].
  revert Eraw. unfold task_run, wsgi_execute.
  change (a_call (wapp status hs ws kind chunks hc)) with (AStart (PStr status) hs None :: map AWrite ws).
  rewrite run_actions_cons. cbn [run_action fst snd].
  destruct (start_response lower t0 (PStr status) hs None) as [t1 [[]|e1]] eqn:Esr; cbn [fst snd];
    [|cbn; intro X; discriminate X].
  destruct (start_response_ok lower _ _ _ _ _ Esr) as (_ & _ & _ & Hc1 & Hw1 & _).
  cbn [t_wrote_header new_task t0] in Hw1.
  specialize (Hl1 t1 Esr).
  rewrite run_actions_writes.
  destruct (tw_seq cap lower c r (t1, mkChan [] 0) ws) as [[t1w ch1w] [[]|e]] eqn:Ews; [|cbn; intro X; discriminate X].
  assert (Hwh : ws <> [] -> t_wrote_header t1w = true).
  { intro Hne. destruct ws as [|w ws']; [congruence|].
    destruct (tw_seq_fresh cap lower c r w ws' t1 (mkChan [] 0) _ Hc1 Hw1 Ews) as (tp & head & _ & Ef & _).
    cbn [fst] in Ef. rewrite Ef.
    destruct (ws_sem_same (w :: ws') (set_wrote true tp)) as (_ & _ & _ & A4 & _). rewrite A4. reflexivity. }
  assert (Hcl : t_clen t1w = t_clen t1) by (apply (tw_seq_clen cap lower c r _ _ _ _ Ews)).
  rewrite (execute_body_iterated cap lower c r kind chunks t1w ch1w (wapp status hs ws kind chunks hc) eq_refl eq_refl).
  2: { destruct Hnh as [[H|[H|H]]|H]; auto.
       destruct ws as [|w ws']; [|right; right; left; apply Hwh; discriminate].
       cbn [tw_seq] in Ews. injection Ews as <- _. right. right. right. apply H. exact Esr. }
  2: { rewrite Hcl. exact Hl1. }
  destruct (tw_seq cap lower c r (t1w, ch1w) (eff kind chunks)) as [[t2 ch2] [[]|e]] eqn:Eit.
  2: { change (a_has_close (wapp status hs ws kind chunks hc)) with hc. destruct (true && hc); cbn; intro X; discriminate X. }
  change (a_has_close (wapp status hs ws kind chunks hc)) with hc.
  change (a_close_exn (wapp status hs ws kind chunks hc)) with (@None exn).
  assert (Eall : tw_seq cap lower c r (t1, mkChan [] 0) (ws ++ eff kind chunks) = ((t2, ch2), Ok tt))
    by (rewrite tw_seq_app, Ews; exact Eit).
  set (tf := toofew_adj cap lower r t2).
  assert (Hafter : x_out (if true && hc then mkExec (tf, ch2) (Ok tt) 1 false true
                          else mkExec (tf, ch2) (Ok tt) 0 (negb true) true) = Ok tt
     /\ x_st (if true && hc then mkExec (tf, ch2) (Ok tt) 1 false true
              else mkExec (tf, ch2) (Ok tt) 0 (negb true) true) = (tf, ch2)
     /\ x_handover (if true && hc then mkExec (tf, ch2) (Ok tt) 1 false true
              else mkExec (tf, ch2) (Ok tt) 0 (negb true) true) = false
     /\ x_closes (if true && hc then mkExec (tf, ch2) (Ok tt) 1 false true
              else mkExec (tf, ch2) (Ok tt) 0 (negb true) true) = (if hc then 1 else 0)%nat)
    by (destruct hc; auto).
  destruct Hafter as (Ho & Hst2 & Hho & Hcs). rewrite Ho, Hst2, Hho, Hcs. clear Ho Hst2 Hho Hcs.
  destruct (task_finish cap lower c r None (tf, ch2)) as [s3 [[]|e3]] eqn:Efin; cbn [x_out x_st x_handover x_closes];
    [|intro X; discriminate X].
  intros _. exists t1. split; [reflexivity|]. cbn zeta.
  match goal with |- ?A /\ ?B /\ ?R =>
    refine ((fun (pq : A /\ B) (r0 : R) => conj (proj1 pq) (conj (proj2 pq) r0)) _ _); [|split; reflexivity] end.
  destruct (ws ++ eff kind chunks) as [|d ds] eqn:Eds.
  - (* no Task.write at all: finish() sends the head *)
    cbn [tw_seq] in Eall. inversion Eall; subst t2 ch2. clear Eall.
    destruct (toofew_adj_fresh t1 Hc1 Hw1) as [Hcf Hwf]. fold tf in Hcf, Hwf.
    split; [|intro X; congruence]. intros _.
    destruct (finish_fresh cap lower c r tf (mkChan [] 0) s3 (Ok tt) Hcf Hwf Efin eq_refl) as (tp & head & Eb & Ht & W).
    exists tp, head. split; [exact Eb|]. fold (chan_wire (snd s3)). rewrite W, Ht.
    cbn [t_cof set_wrote chan_wire ch_writes rev wire flat_map List.app]. auto.
  - (* the first Task.write sent the head *)
    destruct (tw_seq_fresh cap lower c r d ds t1 (mkChan [] 0) _ Hc1 Hw1 Eall) as (tp & head & Eb & Ef & W2).
    cbn [fst snd] in Ef, W2.
    pose proof (ws_sem_same (d :: ds) (set_wrote true tp)) as (A1 & A2 & A3 & A4 & A5 & A6 & A7 & A8).
    rewrite <- Ef in A1, A2, A3, A4, A5, A6, A7, A8.
    cbn [t_status t_chunked t_cof t_wrote_header t_complete t_clen t_rh t_v11 set_wrote] in *.
    destruct (toofew_adj_wrote t2 A4) as (T1 & T2 & T3). fold tf in T1, T2, T3.
    destruct (finish_after_head cap lower c r tf ch2 T3) as (ch3 & Ef3 & W3). rewrite Ef3 in Efin.
    inversion Efin; subst s3. clear Efin. cbn [fst snd].
    split; [intro X; discriminate X|]. intros _.
    exists tp, head. split; [exact Eb|]. fold (chan_wire ch3). rewrite W3, W2, T1, T2, A2, A3, <- Ef.
    cbn [chan_wire ch_writes rev wire flat_map List.app]. rewrite <- !app_assoc. auto.
Qed.

Theorem wapp_wire status hs ws kind chunks hc :
  r_error r = None ->
  no_handover kind ws ->
  (forall t1, start_response lower (new_task (r_version r) false) (PStr status) hs None = (t1, Ok tt) ->
              len1 kind && match t_clen t1 with None => true | Some _ => false end = false) ->
  let res := channel_service cap lower c r (wapp status hs ws kind chunks hc) None in
  o_raw res = None ->
  exists t1, start_response lower (new_task (r_version r) false) (PStr status) hs None = (t1, Ok tt) /\
    let ds := ws ++ eff kind chunks in
    (ds = [] ->
       exists tp head, build_response_header cap lower c r (toofew_adj cap lower r t1) = (tp, Ok head)
         /\ wire (o_writes res) = head ++ (if t_chunked tp && negb (r_head r) then chunk_terminator else [])
         /\ o_close res = t_cof tp /\ o_next res = negb (t_cof tp))
    /\ (ds <> [] ->
       exists tp head, build_response_header cap lower c r t1 = (tp, Ok head)
         /\ wire (o_writes res) = head ++ snd (ws_sem (set_wrote true tp) ds)
                                  ++ (if t_chunked tp && negb (r_head r) then chunk_terminator else [])
         /\ o_close res = t_cof tp || toofew r (fst (ws_sem (set_wrote true tp) ds))
         /\ o_next res = negb (t_cof tp || toofew r (fst (ws_sem (set_wrote true tp) ds)))).
Proof.
  intros He Hnh Hl1. cbn zeta. intro Hraw.
  destruct (wapp_wire_gen status hs ws kind chunks hc He (or_introl Hnh) Hl1 Hraw) as (t1 & Esr & H0 & H1 & _).
  exists t1. auto.
Qed.

End Run2.
