(* C16 extension, part 3: consequences of the exact characterisation
   (Proof/ProxyConverse2.v trusted_exact): refused iff a reason exists, every
   reason is one of the listed categories and holds of the request, the
   HTTP_HOST / SERVER_PORT formatting rules, dependence on the trusted suffix only. *)
From Coq Require Import String.
From Coq Require Import List NArith ZArith Bool Lia.
From WV Require Import Lib.PyBytes Lib.PyStrProxy Lib.Regex Gen.GenRegex Spec.Grammar Model.Proxy
  Spec.ProxySpec Proof.ProxyDict Proof.ProxyStr Proof.ProxyStages Proof.ProxyTotal Proof.ProxyHops
  Proof.ProxyCats Proof.ProxyConverse1 Proof.ProxyConverse2.
Import ListNotations.
Local Open Scope N_scope.

(* ---- refused iff there is a reason ---------------------------------------------------------------- *)
Theorem refused_iff c e p :
  on_trusted_path c e = true -> has_key k_url_scheme e -> trusted_proxy_count c = Zpos p ->
  ((exists h, middleware c e = Malformed h) <-> refusal_reason (tph_of c) (Pos.to_nat p) e <> None) /\
  ((exists o, middleware c e = Ok o) <-> refusal_reason (tph_of c) (Pos.to_nat p) e = None).
Proof.
  intros Hp Hk Hc. pose proof (trusted_exact c e p Hp Hk Hc) as T.
  destruct (refusal_reason (tph_of c) (Pos.to_nat p) e) as [cat|].
  - rewrite T. split; split.
    + discriminate.
    + eauto.
    + intros [o Ho]. discriminate.
    + discriminate.
  - destruct T as (o & -> & _). split; split.
    + intros [h Hh]. discriminate.
    + congruence.
    + reflexivity.
    + eauto.
Qed.

(* ---- a reason holds of the request; whenever a category holds there is a reason ------------------------- *)
Lemma first_some_in {A B} (f : A -> option B) l b : first_some f l = Some b -> exists x, In x l /\ f x = Some b.
Proof.
  induction l as [|x l IH]; [discriminate|]. cbn [first_some]. destruct (f x) eqn:E.
  - intro H. injection H as <-. exists x. split; [left; reflexivity|exact E].
  - intro H. destruct (IH H) as (y & Hin & Hy). exists y. split; [right; exact Hin|exact Hy].
Qed.

Lemma orelse_none {A} (a b : option A) : orelse a b = None <-> a = None /\ b = None.
Proof. destruct a; cbn; split; try tauto; try discriminate; intros [H _]; discriminate. Qed.

Lemma forwarded_reason_sound raw c : forwarded_reason raw = Some c ->
  exists el p, In el (elements raw) /\ In p (split (strip el) [semi]) /\ pair_reason (lower_latin1 p) = Some c.
Proof.
  intro H. apply first_some_in in H as (el & Hin & He). unfold element_reason in He.
  apply first_some_in in He as (p & Hp & Hq). eauto.
Qed.

Lemma pair_in_existsb (g : str -> bool) raw el p :
  In el (elements raw) -> In p (split (strip el) [semi]) -> g (lower_latin1 p) = true ->
  existsb (fun el => existsb (fun p => g (lower_latin1 p)) (split (strip el) [semi])) (elements raw) = true.
Proof.
  intros H1 H2 H3. apply existsb_exists. exists el. split; [exact H1|].
  apply existsb_exists. exists p. split; assumption.
Qed.

Theorem reason_holds tph k e c : refusal_reason tph k e = Some c -> category_holds tph k e c = true.
Proof.
  unfold refusal_reason, syntax_reason.
  destruct (list_reason tph nm_xff hk_xff e CatXffQuoting) eqn:E1; cbn [orelse].
  { intro H. injection H as <-. pose proof (list_reason_cat _ _ _ _ _ _ E1). subst. unfold list_reason in E1. cbn [category_holds].
    destruct (trusts tph nm_xff); [|discriminate]. destruct (lookup hk_xff e); [|discriminate].
    destruct (cat_list_quoting s); [reflexivity|discriminate]. }
  destruct (list_reason tph nm_xfh hk_xfh e CatXfhQuoting) eqn:E2; cbn [orelse].
  { intro H. injection H as <-. pose proof (list_reason_cat _ _ _ _ _ _ E2). subst. unfold list_reason in E2. cbn [category_holds].
    destruct (trusts tph nm_xfh); [|discriminate]. destruct (lookup hk_xfh e); [|discriminate].
    destruct (cat_list_quoting s); [reflexivity|discriminate]. }
  destruct (single_reason tph nm_xfproto hk_xfproto e CatProtoQuoting CatProtoSeveral) eqn:E3; cbn [orelse].
  { intro H. injection H as <-. unfold single_reason in E3. destruct (trusts tph nm_xfproto) eqn:Et; [|discriminate].
    destruct (cat_single_quoting (hdr hk_xfproto e)) eqn:Eq; [injection E3 as <-; cbn [category_holds]; rewrite Et, Eq; reflexivity|].
    destruct (cat_several_values (hdr hk_xfproto e)) eqn:Es; [injection E3 as <-; cbn [category_holds]; rewrite Et, Es; reflexivity|discriminate]. }
  destruct (single_reason tph nm_xfport hk_xfport e CatPortQuoting CatPortSeveral) eqn:E4; cbn [orelse].
  { intro H. injection H as <-. unfold single_reason in E4. destruct (trusts tph nm_xfport) eqn:Et; [|discriminate].
    destruct (cat_single_quoting (hdr hk_xfport e)) eqn:Eq; [injection E4 as <-; cbn [category_holds]; rewrite Et, Eq; reflexivity|].
    destruct (cat_several_values (hdr hk_xfport e)) eqn:Es; [injection E4 as <-; cbn [category_holds]; rewrite Et, Es; reflexivity|discriminate]. }
  destruct (fwd_active tph e) eqn:Ea.
  - destruct (forwarded_reason (hdr hk_fwd e)) as [c'|] eqn:Ef; cbn [orelse].
    + intro H. injection H as <-. apply forwarded_reason_sound in Ef as (el & p & H1 & H2 & H3).
      unfold pair_reason in H3.
      destruct (cat_pair_no_eq (lower_latin1 p)) eqn:Q1.
      { injection H3 as <-. cbn [category_holds]. rewrite Ea. apply (pair_in_existsb cat_pair_no_eq _ _ _ H1 H2 Q1). }
      destruct (cat_pair_padded (lower_latin1 p)) eqn:Q2.
      { injection H3 as <-. cbn [category_holds]. rewrite Ea. apply (pair_in_existsb cat_pair_padded _ _ _ H1 H2 Q2). }
      destruct (cat_pair_quoting (lower_latin1 p)) eqn:Q3; [|discriminate].
      injection H3 as <-. cbn [category_holds]. rewrite Ea. apply (pair_in_existsb cat_pair_quoting _ _ _ H1 H2 Q3).
    + unfold selection_reason.
      destruct (cat_scheme _) eqn:S1; [intro H; injection H as <-; exact S1|].
      destruct (empty_host _) eqn:S2; [intro H; injection H as <-; exact S2|].
      destruct (bad_client _) eqn:S3; [intro H; injection H as <-; exact S3|discriminate].
  - cbn [orelse]. unfold selection_reason.
    destruct (cat_scheme _) eqn:S1; [intro H; injection H as <-; exact S1|].
    destruct (empty_host _) eqn:S2; [intro H; injection H as <-; exact S2|].
    destruct (bad_client _) eqn:S3; [intro H; injection H as <-; exact S3|discriminate].
Qed.

Lemma pair_cat_bad (g : str -> bool) raw :
  (forall q, g q = true -> pair_bad q = true) ->
  existsb (fun el => existsb (fun p => g (lower_latin1 p)) (split (strip el) [semi])) (elements raw) = true ->
  forwarded_reason raw <> None.
Proof.
  intros Hg H. apply existsb_exists in H as (el & H1 & H). apply existsb_exists in H as (p & H2 & H3).
  pose proof (forwarded_reason_bad raw) as Hb. intro Hn. rewrite Hn in Hb.
  assert (Hc : cat_forwarded raw = true).
  { unfold cat_forwarded. apply existsb_exists. exists el. split; [exact H1|].
    unfold element_bad. apply existsb_exists. exists p. split; [exact H2|apply Hg; exact H3]. }
  congruence.
Qed.

Theorem category_refuses tph k e c : category_holds tph k e c = true -> refusal_reason tph k e <> None.
Proof.
  intros H Hn. unfold refusal_reason in Hn. apply orelse_none in Hn as [Hs Hsel].
  unfold syntax_reason in Hs.
  apply orelse_none in Hs as [S1 Hs]. apply orelse_none in Hs as [S2 Hs].
  apply orelse_none in Hs as [S3 Hs]. apply orelse_none in Hs as [S4 S5].
  unfold selection_reason in Hsel.
  destruct c; cbn [category_holds] in H.
  - unfold list_reason in S1. apply andb_true_iff in H as [Ht H]. rewrite Ht in S1.
    destruct (lookup hk_xff e); [|discriminate]. rewrite H in S1. discriminate.
  - unfold list_reason in S2. apply andb_true_iff in H as [Ht H]. rewrite Ht in S2.
    destruct (lookup hk_xfh e); [|discriminate]. rewrite H in S2. discriminate.
  - unfold single_reason in S3. apply andb_true_iff in H as [Ht H]. rewrite Ht, H in S3. discriminate.
  - unfold single_reason in S3. apply andb_true_iff in H as [Ht H]. rewrite Ht, H in S3.
    destruct (cat_single_quoting _); discriminate.
  - unfold single_reason in S4. apply andb_true_iff in H as [Ht H]. rewrite Ht, H in S4. discriminate.
  - unfold single_reason in S4. apply andb_true_iff in H as [Ht H]. rewrite Ht, H in S4.
    destruct (cat_single_quoting _); discriminate.
  - apply andb_true_iff in H as [Ha H]. rewrite Ha in S5. revert S5.
    apply (pair_cat_bad cat_pair_no_eq); [|exact H]. intros q Hq. unfold pair_bad. rewrite Hq. reflexivity.
  - apply andb_true_iff in H as [Ha H]. rewrite Ha in S5. revert S5.
    apply (pair_cat_bad cat_pair_padded); [|exact H]. intros q Hq. unfold pair_bad. rewrite Hq. apply orb_true_r || (destruct (cat_pair_no_eq q); reflexivity).
  - apply andb_true_iff in H as [Ha H]. rewrite Ha in S5. revert S5.
    apply (pair_cat_bad cat_pair_quoting); [|exact H]. intros q Hq. unfold pair_bad. rewrite Hq. apply orb_true_r.
  - rewrite H in Hsel. discriminate.
  - rewrite H in Hsel. destruct (cat_scheme _); discriminate.
  - rewrite H in Hsel. destruct (cat_scheme _); [discriminate|]. destruct (empty_host _); discriminate.
Qed.

(* ---- HTTP_HOST / SERVER_NAME / SERVER_PORT / wsgi.url_scheme of an accepted request ------------------------ *)
Theorem accepted_host_rules c e p :
  on_trusted_path c e = true -> has_key k_url_scheme e -> trusted_proxy_count c = Zpos p ->
  refusal_reason (tph_of c) (Pos.to_nat p) e = None ->
  let s := select (tph_of c) (Pos.to_nat p) e in
  exists o, middleware c e = Ok o /\
    lookup k_url_scheme o = final_scheme s e /\
    lookup k_server_name o = (if truthy (sel_host s) then Some (server_name_value (sel_host s)) else lookup k_server_name e) /\
    lookup k_server_port o = (if truthy (final_port s) then Some (final_port s) else lookup k_server_port e) /\
    lookup k_http_host o = (if truthy (sel_host s) then Some (http_host_value s e) else lookup k_http_host e) /\
    lookup k_remote_addr o = (if truthy (sel_client s) then Some (unbracket (addr_text (sel_client s))) else lookup k_remote_addr e) /\
    lookup k_remote_host o = (if truthy (sel_client s) then Some (unbracket (addr_text (sel_client s))) else lookup k_remote_host e) /\
    lookup k_remote_port o = (match port_text (sel_client s) with Some pt => Some pt | None => lookup k_remote_port e end).
Proof.
  intros Hp Hk Hc Hr. pose proof (trusted_exact c e p Hp Hk Hc) as T. rewrite Hr in T.
  destruct T as (o & Ho & Hl). cbv zeta. exists o. split; [exact Ho|].
  repeat split; rewrite Hl; reflexivity.
Qed.

(* the formatting rule itself, spelled out: a host that carries a port is handed on as it is; otherwise
   the port is appended unless it is empty or the default port of the final scheme *)
Theorem http_host_formatting (s : selection) (e : dict str) sch :
  final_scheme s e = Some sch -> has_port (sel_host s) = false ->
  let h := sel_host s in let pt := port_before_host s in
  (pt = [] -> http_host_value s e = h) /\
  (pt = p80 -> sch = t_http -> http_host_value s e = h) /\
  (pt = p443 -> sch = t_https -> http_host_value s e = h) /\
  (pt <> [] -> ~ (pt = p80 /\ sch = t_http) -> ~ (pt = p443 /\ sch = t_https) -> http_host_value s e = h ++ colon :: pt).
Proof.
  intros Hs Hh. cbv zeta. unfold http_host_value. rewrite Hh, Hs. unfold port_is_default.
  repeat split.
  - intros ->. reflexivity.
  - intros -> ->. reflexivity.
  - intros -> ->. reflexivity.
  - intros H0 H1 H2. destruct (port_before_host s) as [|x t] eqn:E; [congruence|]. cbn [truthy andb].
    destruct (beqb (x :: t) p80 && beqb sch t_http) eqn:B1.
    { apply andb_true_iff in B1 as [B1 B1']. apply beqb_eq in B1, B1'. tauto. }
    destruct (beqb (x :: t) p443 && beqb sch t_https) eqn:B2.
    { apply andb_true_iff in B2 as [B2 B2']. apply beqb_eq in B2, B2'. tauto. }
    reflexivity.
Qed.

(* ---- only the trusted suffix matters (a hop left of it never reaches a selected value); every field of a
   forwarded-element is read from that element alone ----------------------------------------------------------- *)
Theorem suffix_only raw1 raw2 k : suffix (elements raw1) k = suffix (elements raw2) k ->
  picked raw1 k = picked raw2 k /\ pruned raw1 k = pruned raw2 k /\
  forall name, fwd_oldest name raw1 k = fwd_oldest name raw2 k.
Proof.
  intro H. unfold picked, pruned, fwd_oldest. rewrite <- !suffix_hd, H. auto.
Qed.

(* the hop of the seeded change C16-w3m1: the trusted element has no host= / proto=; nothing of the
   untrusted element to its left reaches the application *)
Definition w3m1_cfg : config :=
  {| trusted_proxy := Some (s2l "10.0.0.1"%string); trusted_proxy_count := 1%Z;
     trusted_proxy_headers := Some [n_fwd]; clear_untrusted := true |}.
Definition w3m1_env : environ :=
  [(k_remote_addr, s2l "10.0.0.1"%string); (k_url_scheme, s_http); (k_server_name, s2l "backend.internal"%string);
   (k_http_host, s2l "backend.internal:8080"%string); (k_server_port, s2l "8080"%string);
   (k_fwd, s2l "for=6.6.6.6;host=evil.example;proto=https, for=192.0.2.7"%string)].

Example left_element_never_inherited :
  exists o, middleware w3m1_cfg w3m1_env = Ok o /\
    lookup k_remote_addr o = Some (s2l "192.0.2.7"%string) /\
    lookup k_server_name o = Some (s2l "backend.internal"%string) /\
    lookup k_http_host o = Some (s2l "backend.internal:8080"%string) /\
    lookup k_server_port o = Some (s2l "8080"%string) /\
    lookup k_url_scheme o = Some s_http /\
    lookup k_fwd o = Some (s2l "for=192.0.2.7"%string).
Proof. eexists. split; [vm_compute; reflexivity|]. repeat split; vm_compute; reflexivity. Qed.

(* non-vacuity of the characterisation: one witness per category, and an accepted request *)
Definition ex_cfg (tph : list str) (k : Z) : config :=
  {| trusted_proxy := Some s_star; trusted_proxy_count := k; trusted_proxy_headers := Some tph; clear_untrusted := true |}.
Definition ex_env (hs : list (str * str)) : environ :=
  (k_remote_addr, s2l "10.0.0.1"%string) :: (k_url_scheme, s_http) :: hs.

Example reasons_nonvacuous :
  refusal_reason [n_xff] 1 (ex_env [(k_xff, s2l "1.2.3.4, ""a"%string)]) = Some CatXffQuoting /\
  refusal_reason [n_xfh] 1 (ex_env [(k_xfh, s2l "h"""%string)]) = Some CatXfhQuoting /\
  refusal_reason [n_xfproto] 1 (ex_env [(k_xfproto, s2l """http"%string)]) = Some CatProtoQuoting /\
  refusal_reason [n_xfproto] 1 (ex_env [(k_xfproto, s2l "http,https"%string)]) = Some CatProtoSeveral /\
  refusal_reason [n_xfport] 1 (ex_env [(k_xfport, s2l "8"""%string)]) = Some CatPortQuoting /\
  refusal_reason [n_xfport] 1 (ex_env [(k_xfport, s2l "80,81"%string)]) = Some CatPortSeveral /\
  refusal_reason [n_fwd] 1 (ex_env [(k_fwd, s2l "for=1.2.3.4;secret"%string)]) = Some CatPairNoEq /\
  refusal_reason [n_fwd] 2 (ex_env [(k_fwd, s2l "for =1.2.3.4, for=5.6.7.8"%string)]) = Some CatPairPadded /\
  refusal_reason [n_fwd] 1 (ex_env [(k_fwd, s2l "for=""1.2.3.4"%string)]) = Some CatPairQuoting /\
  refusal_reason [n_fwd] 1 (ex_env [(k_fwd, s2l "for=1.2.3.4;proto=ftp"%string)]) = Some CatScheme /\
  refusal_reason [n_xfh] 1 (ex_env [(k_xfh, s2l ":80"%string)]) = Some CatEmptyHost /\
  refusal_reason [n_fwd] 1 (ex_env [(k_fwd, s2l "for=:80"%string)]) = Some CatEmptyClient /\
  refusal_reason [n_fwd] 2 (ex_env [(k_fwd, s2l "For=""[2001:db8::1]:4711"";Host=""Example.com:8443"";proto=HTTPS, for=_hidden"%string)]) = None.
Proof. repeat split; vm_compute; reflexivity. Qed.
