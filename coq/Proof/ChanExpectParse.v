(* Proof/ChanExpectParse.v -- which attributes parse_header (Model/Parser.v) may
   change: expect_continue is assigned only inside the `if version == "1.1"`
   block, from the Expect field; completed / headers_finished / empty never. *)
From Coq Require Import List NArith ZArith Bool Lia.
From RecordUpdate Require Import RecordUpdate.
From WV Require Import Lib.PyBytes Lib.Regex Gen.GenRegex Model.Receiver Model.UrlSplit Model.Parser Model.ChanSeq.
Import ListNotations.
Local Open Scope N_scope.

(* the value `expect == "100-continue"` computed by parse_header from the headers dict *)
Definition expect_value (p : parser) : bool :=
  beqb (lower_latin1 (hget_default (headers p) s_EXPECT [])) s_100_continue.

Ltac dm := match goal with
  | H : context[match ?x with _ => _ end] |- _ => destruct x eqn:?
  | H : context[if ?x then _ else _] |- _ => destruct x eqn:?
  end.
Ltac inj := repeat match goal with
  | H : (_, _) = (_, _) |- _ => inversion H; subst; clear H
  | H : Some _ = Some _ |- _ => inversion H; subst; clear H
  | H : Some _ = None |- _ => discriminate H
  | H : None = Some _ |- _ => discriminate H
  end.

(* parse_header touches expect_continue only in the `if version == "1.1"` block *)
Lemma parse_header_flags : forall a p hp p' st,
  parse_header a p hp = (p', st) ->
  completed p' = completed p /\ headers_finished p' = headers_finished p /\ empty p' = empty p /\
  (expect_continue p' = expect_continue p \/
   (version p' = s_1_1 /\ expect_continue p' = expect_value p')).
Proof.
  intros a p hp p' st H. unfold parse_header in H.
  repeat (dm; try (inversion H; subst; clear H; cbn; auto; fail)).
  all: inj; cbn; auto.
  all: try (repeat split; auto; right; split; [ apply beqb_eq; assumption | reflexivity ]).
Qed.
