(* C18, admission control: the size of the socket map over all event histories,
   no accept at the limit, accepting resumes below it. *)
From Coq Require Import List ZArith Bool Lia ZifyBool Arith.
From WV Require Import Gen.GenPreds Model.Server Proof.ServerBase.
Import ListNotations.
Local Open Scope Z_scope.

Definition nlisteners (s : state) : Z := Z.of_nat (length (st_listeners s)).

(* what the code guarantees: every listener tests len(map) < connection_limit
   in the first loop of poll() and then accepts one connection, so a turn that
   starts below the limit can add one descriptor per listener; the 2 * listeners
   fixed descriptors (listener + trigger) are there whatever the limit is *)
Definition bound (p : params) (nl : Z) : Z := Z.max (2 * nl) (p_limit p + nl - 1).

Lemma add_backlog_len : forall i k ls ls', add_backlog i k ls = Some ls' -> length ls' = length ls.
Proof.
  induction i as [|i IH]; intros k ls ls' H; destruct ls as [|l r]; cbn in H; try discriminate.
  - inversion H; reflexivity.
  - destruct (add_backlog i k r) eqn:E; [|discriminate]. inversion H; subst. cbn. f_equal. eapply IH; eauto.
Qed.

Lemma step_listeners_len : forall p s e, length (st_listeners (step p s e)) = length (st_listeners s).
Proof.
  intros p s e. destruct e; cbn [step]; try (unfold upd_sock, upd_chan; cbn; rewrite ?map_length; reflexivity).
  - destruct (add_backlog l _ (st_listeners s)) eqn:E; [|reflexivity]. cbn. eapply add_backlog_len; eauto.
  - rewrite poll_eq. cbn. apply map_length.
Qed.

Lemma step_chans_len_nonpoll : forall p s e, e <> EPoll -> length (st_chans (step p s e)) = length (st_chans s).
Proof.
  intros p s e H. destruct e; cbn [step]; try (unfold upd_sock, upd_chan; cbn; rewrite ?map_length; reflexivity).
  - destruct (add_backlog l _ (st_listeners s)); reflexivity.
  - congruence.
Qed.

Lemma poll_chans_len : forall p s,
  Z.of_nat (length (poll_chans p s)) <=
  Z.of_nat (length (st_chans s)) + (if map_len s <? p_limit p then nlisteners s else 0).
Proof.
  intros p s. unfold poll_chans. rewrite app_length.
  pose proof (flat_map_len_le _ _ (chan_turn p (st_clock s)) (map (mark p (st_clock s) 0 (st_listeners s)) (st_chans s))
                (chan_turn_len p (st_clock s))) as H1.
  rewrite map_length in H1.
  destruct (Z.ltb_spec (map_len s) (p_limit p)).
  - pose proof (accepted_len p (st_clock s) (map_len s) (st_listeners s) 0). unfold nlisteners. lia.
  - rewrite accepted_nil_at_limit by lia. cbn [length]. lia.
Qed.

Lemma step_map_len : forall p s e,
  map_len (step p s e) <= map_len s + (match e with EPoll => if map_len s <? p_limit p then nlisteners s else 0 | _ => 0 end).
Proof.
  intros p s e. unfold map_len at 1, map_len_of. rewrite step_listeners_len.
  destruct e; try (rewrite step_chans_len_nonpoll by discriminate; unfold map_len, map_len_of; lia).
  cbn [step]. rewrite poll_eq. cbn [st_chans]. pose proof (poll_chans_len p s).
  destruct (map_len s <? p_limit p); unfold map_len, map_len_of, nlisteners in *; lia.
Qed.

Lemma step_bound : forall p s e,
  map_len s <= bound p (nlisteners s) -> map_len (step p s e) <= bound p (nlisteners s).
Proof.
  intros p s e H. pose proof (step_map_len p s e) as S. unfold bound in *.
  destruct e; try lia. destruct (Z.ltb_spec (map_len s) (p_limit p)); lia.
Qed.

Lemma nlisteners_step : forall p s e, nlisteners (step p s e) = nlisteners s.
Proof. intros. unfold nlisteners. rewrite step_listeners_len. reflexivity. Qed.

Lemma nlisteners_run : forall p es s, nlisteners (run p s es) = nlisteners s.
Proof.
  induction es as [|e es IH]; intros; cbn; [reflexivity|]. unfold run in IH. rewrite IH. apply nlisteners_step.
Qed.

Lemma run_bound : forall p es s,
  map_len s <= bound p (nlisteners s) -> map_len (run p s es) <= bound p (nlisteners s).
Proof.
  induction es as [|e es IH]; intros s H; cbn; [exact H|].
  unfold run in IH. rewrite <- (nlisteners_step p s e). apply IH. rewrite nlisteners_step. apply step_bound. exact H.
Qed.

Lemma init_map_len : forall nl t0 fd0, map_len (init nl t0 fd0) = 2 * Z.of_nat nl.
Proof. intros. unfold map_len, map_len_of, init. cbn. rewrite repeat_length. lia. Qed.

Lemma init_nlisteners : forall nl t0 fd0, nlisteners (init nl t0 fd0) = Z.of_nat nl.
Proof. intros. unfold nlisteners, init. cbn. rewrite repeat_length. reflexivity. Qed.

(* the limit over all histories, all parameter values, any number of listeners *)
Theorem limit_all_histories : forall p nl t0 fd0 es,
  map_len (run p (init nl t0 fd0) es) <= bound p (Z.of_nat nl).
Proof.
  intros. rewrite <- (init_nlisteners nl t0 fd0). apply run_bound.
  rewrite init_map_len, init_nlisteners. unfold bound. lia.
Qed.

(* the property's wording, for every configuration in which the limit leaves
   room for at least one connection besides ... the listeners themselves *)
Corollary limit_property_wording : forall p nl t0 fd0 es,
  Z.of_nat nl + 1 <= p_limit p ->
  map_len (run p (init nl t0 fd0) es) <= p_limit p + (Z.of_nat nl - 1).
Proof.
  intros. pose proof (limit_all_histories p nl t0 fd0 es). unfold bound in *. lia.
Qed.

(* the bound is reached: two listeners, limit 5, both pass the test in the same turn *)
Definition p_ex : params := mkParams 5 120 30 1 0 65536 16777216.
Example limit_tight :
  map_len (run p_ex (init 2 1000 1000) [EConnect 0; EConnect 1; EPoll]) = p_limit p_ex + 1.
Proof. vm_compute. reflexivity. Qed.

(* a degenerate configuration: with connection_limit <= listeners the fixed
   descriptors alone exceed connection_limit (and nothing is ever accepted) *)
Example limit_degenerate :
  map_len (run (mkParams 1 120 30 1 0 65536 16777216) (init 1 1000 1000) [EConnect 0; EPoll]) = 2.
Proof. vm_compute. reflexivity. Qed.

(* ------------------------------------------------------------------------- *)
(* nothing is accepted while at the limit *)

Lemma in_poll_chans_old : forall p s c,
  In c (flat_map (chan_turn p (st_clock s)) (map (mark p (st_clock s) 0 (st_listeners s)) (st_chans s))) ->
  exists c0, In c0 (st_chans s) /\ c_fd c = c_fd c0 /\ c_owner c = c_owner c0.
Proof.
  intros p s c H. apply in_flat_map in H. destruct H as (c1 & H1 & H2).
  apply in_map_iff in H1. destruct H1 as (c0 & <- & H0).
  apply chan_turn_id in H2. destruct H2 as [A B].
  exists c0. split; [exact H0|]. rewrite A, B, mark_fd.
  destruct (mark_fields p (st_clock s) 0 (st_listeners s) c0) as (_ & O & _). rewrite O. auto.
Qed.

Theorem no_accept_at_limit : forall p s,
  p_limit p <= map_len s ->
  (forall c, In c (st_chans (poll p s)) -> In (c_fd c) (map c_fd (st_chans s))) /\
  (forall l, In l (st_listeners (poll p s)) -> exists l0, In l0 (st_listeners s) /\ l_backlog l = l_backlog l0).
Proof.
  intros p s H. rewrite poll_eq. cbn [st_chans st_listeners]. split.
  - intros c Hc. unfold poll_chans in Hc. rewrite accepted_nil_at_limit in Hc by assumption.
    rewrite app_nil_r in Hc. apply in_poll_chans_old in Hc. destruct Hc as (c0 & H0 & A & _).
    rewrite A. apply in_map. exact H0.
  - intros l Hl. apply in_map_iff in Hl. destruct Hl as (l0 & <- & H0). exists l0. split; [exact H0|].
    unfold la_listener, acc_ok. cbn. destruct (Z.ltb_spec (map_len s) (p_limit p)); [lia|].
    rewrite andb_false_r. reflexivity.
Qed.

(* ------------------------------------------------------------------------- *)
(* accepting resumes below the limit: every accepting listener with a pending
   connection accepts it in the turn, and in_connection_overflow reflects the
   test made in this turn *)

Lemma accepted_nth : forall p now mlen ls idx i l k bl,
  nth_error ls i = Some l -> acc_ok p mlen l = true -> l_backlog l = k :: bl ->
  In (new_chan now (idx + i) k) (accepted p now mlen idx ls).
Proof.
  induction ls as [|l0 r IH]; intros idx i l k bl Hn Ha Hb; destruct i as [|i]; cbn in Hn; try discriminate.
  - inversion Hn; subst. cbn [accepted]. rewrite Ha, Hb. rewrite Nat.add_0_r. left. reflexivity.
  - cbn [accepted]. apply in_or_app. right. replace (idx + S i)%nat with (S idx + i)%nat by lia.
    eapply IH; eauto.
Qed.

Theorem accept_resumes : forall p s i l k bl,
  nth_error (st_listeners s) i = Some l ->
  l_accepting l = true -> map_len s < p_limit p -> l_backlog l = k :: bl ->
  In (new_chan (st_clock s) i k) (st_chans (poll p s)) /\
  exists l', nth_error (st_listeners (poll p s)) i = Some l' /\
             l_backlog l' = bl /\ l_overflow l' = false /\ l_accepting l' = true.
Proof.
  intros p s i l k bl Hn Ha Hm Hb.
  assert (OK : acc_ok p (map_len s) l = true).
  { unfold acc_ok. rewrite Ha, Hb. cbn. destruct (Z.ltb_spec (map_len s) (p_limit p)); [reflexivity|lia]. }
  rewrite poll_eq. cbn [st_chans st_listeners]. split.
  - unfold poll_chans. apply in_or_app. right.
    apply (accepted_nth p (st_clock s) (map_len s) (st_listeners s) 0 i l k bl); assumption.
  - exists (la_listener p (st_clock s) (map_len s) l). split.
    + rewrite nth_error_map, Hn. reflexivity.
    + unfold la_listener. cbn. rewrite OK, Ha, Hb. cbn.
      destruct (Z.leb_spec (p_limit p) (map_len s)); [lia|]. auto.
Qed.

Theorem overflow_flag_after_poll : forall p s l,
  In l (st_listeners (poll p s)) -> l_accepting l = true ->
  l_overflow l = (p_limit p <=? map_len s).
Proof.
  intros p s l H Ha. rewrite poll_eq in H. cbn in H. apply in_map_iff in H. destruct H as (l0 & <- & _).
  unfold la_listener in *. cbn in *. rewrite Ha. reflexivity.
Qed.

(* the hypotheses of the admission theorems are satisfiable: at the limit the
   third connection stays in the backlog; after a disconnect has been noticed
   (first turn) the next turn starts below the limit and accepts it *)
Example admission_example :
  let p := mkParams 4 120 30 1 0 65536 16777216 in
  let s := run p (init 1 1000 1000) [EConnect 0; EConnect 0; EConnect 0; EPoll; EPoll] in
  map_len s = p_limit p /\
  map c_fd (st_chans (poll p s)) = [1000; 1001] /\
  map l_overflow (st_listeners (poll p s)) = [true] /\
  map c_fd (st_chans (run p s [EDisconnect 1000; EPoll; EPoll])) = [1001; 1002] /\
  map l_overflow (st_listeners (run p s [EDisconnect 1000; EPoll; EPoll])) = [false].
Proof. vm_compute. repeat split; reflexivity. Qed.
