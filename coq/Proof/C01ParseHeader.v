(* T1 + T3 composed over the bytes of a head: what Parser.parse_header makes
   of a head block written as request-line CRLF *( field-line CRLF ) CRLF is
   what the reference makes of its lines -- same refusals, same method,
   target, version, same field dict, same framing decision. *)
From Coq Require Import List NArith ZArith Bool Lia Arith.
From RecordUpdate Require Import RecordUpdate.
From WV Require Import Lib.PyBytes Lib.Regex Gen.GenRegex Spec.Grammar.
From WV Require Import Model.Receiver Model.UrlSplit Model.Parser Spec.Ref9112.
From WV Require Import Proof.C01Lib Proof.C01Framing Proof.C01Head Proof.C01Body Proof.C01ReqLine Proof.C01Block.
Import ListNotations.
Local Open Scope N_scope.

(* ---------------------------------------------------------------- *)
(* field values contain no CR / LF *)

Lemma field_char_clean x : is_field_char x = true -> in_ranges x [(0,9); (11,12); (14,255)] = true.
Proof.
  intro H.
  assert (Hx : x < 256).
  { unfold is_field_char, is_ows, is_field_vchar in H.
    repeat (apply orb_true_iff in H as [H|H]);
      try (apply N.eqb_eq in H; lia);
      apply andb_true_iff in H as [_ H]; apply N.leb_le in H; lia. }
  pose proof (byte_table (fun x => implb (is_field_char x) (in_ranges x [(0,9); (11,12); (14,255)]))
                         (fun _ => true) ltac:(vm_compute; reflexivity) x Hx) as T.
  cbv beta in T. rewrite H in T. exact T.
Qed.

Lemma forallb_drop_while (P f : N -> bool) s : forallb P s = true -> forallb P (drop_while f s) = true.
Proof.
  induction s as [|x s IH]; cbn [drop_while forallb]; auto. intro H.
  destruct (f x); auto. apply andb_true_iff in H as [_ H]. auto.
Qed.

Lemma forallb_rev (P : N -> bool) s : forallb P (rev s) = forallb P s.
Proof.
  induction s as [|x s IH]; cbn [rev forallb]; auto.
  rewrite forallb_app, IH. cbn [forallb]. rewrite andb_true_r. apply andb_comm.
Qed.

Lemma forallb_trim (P f : N -> bool) s : forallb P s = true -> forallb P (trim f s) = true.
Proof.
  intro H. unfold trim. rewrite forallb_rev. apply forallb_drop_while. rewrite forallb_rev.
  apply forallb_drop_while. exact H.
Qed.

Lemma parse_field_line_clean l n v : parse_field_line l = Some (n, v) -> clean v = true.
Proof.
  unfold parse_field_line. destruct (split_colon l []) as [[name rest]|]; [|discriminate].
  destruct (nonempty name && forallb is_tchar name && forallb is_field_char rest) eqn:C; [|discriminate].
  intro H. injection H as _ <-. apply andb_true_iff in C as [_ C].
  unfold clean. apply forallb_trim. rewrite forallb_forall in *. intros x Hx. apply field_char_clean. auto.
Qed.

Definition values_clean (d : list (bytes * bytes)) : Prop := Forall (fun kv => clean (snd kv) = true) d.

Lemma parse_fields_clean : forall ls fs, parse_fields ls = Some fs -> values_clean fs.
Proof.
  induction ls as [|l ls IH]; intros fs; cbn [parse_fields].
  - intro H. injection H as <-. constructor.
  - destruct (parse_field_line l) as [[n v]|] eqn:E; [|discriminate].
    destruct (parse_fields ls) as [fs'|]; [|discriminate]. intro H. injection H as <-.
    constructor; [cbn; eapply parse_field_line_clean; eauto | apply IH; reflexivity].
Qed.

Lemma combine_add_clean d k v : values_clean d -> clean v = true -> values_clean (combine_add d k v).
Proof.
  intros Hd Hv. induction Hd as [|[k' v'] d Hkv Hd IH]; cbn [combine_add].
  - constructor; auto.
  - destruct (beqb k k').
    + constructor; auto. cbn [snd] in *. rewrite !clean_app, Hkv, Hv. reflexivity.
    + constructor; auto.
Qed.

Lemma fold_add_clean : forall fs d, values_clean d -> values_clean fs -> values_clean (fold_add d fs).
Proof.
  induction fs as [|[n v] fs IH]; intros d Hd Hf; cbn [fold_add fold_left]; auto.
  inversion Hf; subst. apply IH; auto. apply combine_add_clean; auto.
Qed.

Lemma hget_clean d k v : values_clean d -> hget d k = Some v -> clean v = true.
Proof.
  intro Hd. induction Hd as [|[k' v'] d Hkv Hd IH]; cbn [hget]; [discriminate|].
  destruct (beqb k k'); auto. intro H. injection H as <-. exact Hkv.
Qed.

Lemma head_fields_clean ls fs : head_fields ls = Some fs -> values_clean (combined fs).
Proof.
  unfold head_fields. destruct (unfold_lines ls None) as [joined|]; [|discriminate].
  destruct (parse_fields joined) as [fs0|] eqn:P; [|discriminate].
  destruct (no_repeated_single [] (drop_underscore fs0)); [|discriminate].
  intro H. injection H as <-. apply (fold_add_clean _ []); [constructor|].
  apply parse_fields_clean in P. unfold drop_underscore, values_clean in *.
  rewrite Forall_forall in *. intros x Hx. apply filter_In in Hx as [Hx _]. auto.
Qed.

(* ---------------------------------------------------------------- *)
(* the early exits of parse_header *)

Section Early.
Variables (a : adj) (p : parser) (hp : bytes) (index : nat).
Hypothesis Hfind : find hp CRLF = Some index.
Let fl := rstrip_by is_reqline_ws (firstn index hp).
Hypothesis Hcr : has_cr_or_lf fl = false.

Lemma ph_lines_error e : get_header_lines (skipn (index + 2) hp) = inl e ->
  snd (parse_header a p hp) = PSError e.
Proof. intro H. unfold parse_header. rewrite Hfind. fold fl. rewrite Hcr, H. reflexivity. Qed.

Lemma ph_fields_error lines e h : get_header_lines (skipn (index + 2) hp) = inr lines ->
  add_header_lines (headers p) lines = inl (e, h) -> snd (parse_header a p hp) = PSError e.
Proof.
  intros H1 H2. unfold parse_header. rewrite Hfind. fold fl. rewrite Hcr, H1. cbn [headers set].
  rewrite H2. reflexivity.
Qed.

Lemma ph_method_error lines h1 : get_header_lines (skipn (index + 2) hp) = inr lines ->
  add_header_lines (headers p) lines = inr h1 -> crack_first_line fl = None ->
  snd (parse_header a p hp) = PSError EMalformedMethod.
Proof.
  intros H1 H2 H3. unfold parse_header. rewrite Hfind. fold fl. rewrite Hcr, H1. cbn [headers set].
  rewrite H2, H3. reflexivity.
Qed.

Lemma ph_startline_error lines h1 cmd uri ver : get_header_lines (skipn (index + 2) hp) = inr lines ->
  add_header_lines (headers p) lines = inr h1 -> crack_first_line fl = Some (cmd, uri, ver) ->
  beqb cmd [] && beqb uri [] && beqb ver [] = true ->
  snd (parse_header a p hp) = PSError EStartLineInvalid.
Proof.
  intros H1 H2 H3 H4. unfold parse_header. rewrite Hfind. fold fl. rewrite Hcr, H1. cbn [headers set].
  rewrite H2, H3, H4. reflexivity.
Qed.

Lemma ph_uri_error lines h1 cmd uri ver : get_header_lines (skipn (index + 2) hp) = inr lines ->
  add_header_lines (headers p) lines = inr h1 -> crack_first_line fl = Some (cmd, uri, ver) ->
  beqb cmd [] && beqb uri [] && beqb ver [] = false -> split_uri uri = SBadURI ->
  snd (parse_header a p hp) = PSError EBadURI.
Proof.
  intros H1 H2 H3 H4 H5. unfold parse_header. rewrite Hfind. fold fl. rewrite Hcr, H1. cbn [headers set].
  rewrite H2, H3, H4, H5. reflexivity.
Qed.
End Early.

(* ---------------------------------------------------------------- *)

Definition ref_head (rl : bytes) (flines : list bytes)
  : option (bytes * bytes * bytes * list (bytes * bytes)) :=
  match head_fields flines, request_line_shape rl with
  | Some fs, Some mtv => Some (mtv, fs)
  | _, _ => None
  end.

Theorem parse_header_equiv : forall a rl flines,
  bytes_ok rl -> has_crlf_byte rl = false -> rstrip_by is_reqline_ws rl = rl ->
  Forall bytes_ok flines -> Forall (fun l => l <> []) flines -> forallb crlf_free flines = true ->
  let '(p', st) := parse_header a parser_init (head_block rl flines) in
  match ref_head rl flines with
  | None => exists e, st = PSError e /\ perr_code e = 400
  | Some ((m, t, v), fs) =>
    match split_uri t with
    | SBadURI => st = PSError EBadURI
    | SOk _ _ _ _ _ =>
      command p' = m /\ request_uri p' = t /\ version p' = v /\
      match framing_of v (combined fs) with
      | FrRefuse code => exists e, st = PSError e /\ perr_code e = code
      | FrChunked =>
          st = PSOk /\ chunked p' = true /\ body p' = Some (BChunked chunked_init)
          /\ headers p' = hpop (hpop (combined fs) s_TRANSFER_ENCODING) s_CONTENT_LENGTH
          /\ connection_close p' = model_cc (combined fs) v
      | FrLength n =>
          st = PSOk /\ chunked p' = false /\ body p' = Some (BFixed (fixed_init n)) /\ content_length p' = n
          /\ connection_close p' = model_cc (combined fs) v
      | FrNone => st = PSOk /\ chunked p' = false /\ body p' = None /\ connection_close p' = model_cc (combined fs) v
      end
    | _ => True
    end
  end.
Proof.
  intros a rl flines Hok Hc Htight Hokf Hnef Hfree.
  destruct (head_block_cut rl flines (no_crlf_byte_crlf_free rl Hc) Hfree) as (Hfind & Hfirst & Hlines).
  assert (Hfl : rstrip_by is_reqline_ws (firstn (length rl) (head_block rl flines)) = rl)
    by (rewrite Hfirst; exact Htight).
  assert (Hcr : has_cr_or_lf (rstrip_by is_reqline_ws (firstn (length rl) (head_block rl flines))) = false)
    by (rewrite Hfl, has_cr_or_lf_ref; exact Hc).
  pose proof (head_equiv flines Hokf Hnef) as HE.
  pose proof (request_line_equiv rl Hok Hc) as RE.
  unfold ref_head.
  destruct (parse_header a parser_init (head_block rl flines)) as [p' st] eqn:PH.
  assert (Est : st = snd (parse_header a parser_init (head_block rl flines))) by (rewrite PH; reflexivity).
  destruct (header_lines_go flines []) as [e|joined] eqn:Eg.
  { destruct HE as [HF Hcode]. rewrite HF. exists e. split; auto.
    rewrite Est. eapply ph_lines_error; eauto; try (rewrite Hlines; reflexivity). }
  destruct (add_header_lines [] joined) as [[e h]|h1] eqn:Ea.
  { destruct HE as [HF Hcode]. rewrite HF. exists e. split; auto.
    rewrite Est. eapply ph_fields_error; eauto. }
  destruct HE as (fs & HF & Hcomb). rewrite HF.
  destruct (crack_first_line rl) as [[[cmd uri] ver]|] eqn:Ec.
  2:{ rewrite RE. exists EMalformedMethod. split; auto.
      rewrite Est. eapply ph_method_error; eauto. rewrite Hfl. exact Ec. }
  destruct (beqb cmd [] && beqb uri [] && beqb ver []) eqn:Eempty.
  { rewrite RE. exists EStartLineInvalid. split; auto.
    rewrite Est. eapply ph_startline_error; eauto. rewrite Hfl. exact Ec. }
  rewrite RE.
  destruct (split_uri uri) as [sc nl pa qu fr| | |] eqn:Eu; auto.
  2:{ rewrite Est. eapply ph_uri_error; eauto. rewrite Hfl. exact Ec. }
  pose proof (parse_header_framing a parser_init (head_block rl flines) (length rl) joined h1 cmd uri ver
                sc nl pa qu fr eq_refl eq_refl eq_refl Hfind Hcr) as PF.
  rewrite Hlines in PF. specialize (PF eq_refl Ea). rewrite Hfl in PF. specialize (PF Ec Eempty Eu).
  rewrite PH in PF. destruct PF as (P1 & P2 & P3 & PF).
  repeat (split; [assumption|]).
  assert (Hclean : forall c, hget h1 s_CONTENT_LENGTH = Some c -> clean c = true).
  { intros c Hcl. rewrite <- Hcomb in Hcl. eapply hget_clean; eauto. eapply head_fields_clean; eauto. }
  pose proof (framing_decision h1 ver Hclean) as FD. rewrite Hcomb.
  destruct (model_framing h1 ver) as [|n| |e]; cbn [choice_framing] in FD; rewrite <- FD.
  - destruct PF as (A & B & C & _ & D). auto.
  - exact PF.
  - exact PF.
  - exists e. auto.
Qed.

(* "GET /a HTTP/1.1" ; "Host: h" ; "Content-Length: 3" *)
Example parse_header_equiv_example :
  ref_head [71;69;84;32;47;97;32;72;84;84;80;47;49;46;49]
           [[72;111;115;116;58;32;104]; [67;111;110;116;101;110;116;45;76;101;110;103;116;104;58;32;51]]
  = Some (([71;69;84], [47;97], [49;46;49]),
          [([72;111;115;116], [104]); ([67;111;110;116;101;110;116;45;76;101;110;103;116;104], [51])]).
Proof. vm_compute. reflexivity. Qed.
