(* Block-by-block facts about parse_proxy_headers (Model/Proxy.v): what each
   block can return, which local variables and environ keys it leaves alone. *)
From Coq Require Import List NArith ZArith Bool Lia.
From WV Require Import Lib.PyBytes Lib.PyStrProxy Lib.Regex Gen.GenRegex Model.Proxy Spec.ProxySpec
  Proof.ProxyDict Proof.ProxyStr.
Import ListNotations.
Local Open Scope N_scope.

(* ---- the key literals are pairwise different (decided by computation) ---- *)
Ltac keq := vm_compute; reflexivity.

(* ---- results ---------------------------------------------------------------- *)
Definition is_exn {A} (r : result A) : Prop := exists e, r = Exn e.
Definition no_exn {A} (r : result A) : Prop := forall e, r <> Exn e.

Lemma catch_all_no_exn {A} h (r : result A) : no_exn (catch_all h r).
Proof. intros e. destruct r; simpl; discriminate. Qed.

Lemma bind_ok {A B} (r : result A) (f : A -> result B) b :
  bind r f = Ok b -> exists a, r = Ok a /\ f a = Ok b.
Proof. destruct r; simpl; try discriminate. eauto. Qed.

Lemma catch_all_ok {A} h (r : result A) a : catch_all h r = Ok a -> r = Ok a.
Proof. destruct r; simpl; congruence. Qed.

(* ---- undquote ----------------------------------------------------------------- *)
Lemma undquote_cases v : (exists u, undquote v = Ok u) \/ undquote v = Exn ValueError.
Proof.
  unfold undquote.
  destruct (startswith v [c_dquote] && endswith v [c_dquote]).
  - destruct (matches gate_quoted_string v); eauto.
  - destruct (negb (startswith v [c_dquote]) && negb (endswith v [c_dquote])); eauto.
Qed.

Lemma undquote_no_malformed v h : undquote v <> Malformed h.
Proof. destruct (undquote_cases v) as [[u H]|H]; rewrite H; discriminate. Qed.

Lemma undquote_nil : undquote [] = Ok [].
Proof. reflexivity. Qed.

Lemma xff_hop_no_malformed a h : xff_hop a <> Malformed h.
Proof.
  unfold xff_hop. destruct (undquote_cases (strip a)) as [[u H]|H]; rewrite H; simpl; try discriminate.
  destruct (negb (has_char c_dot u) && has_char c_colon u); try discriminate.
  destruct (last_opt u); try discriminate. destruct (negb (n =? c_rbr)); discriminate.
Qed.

Lemma xfh_hop_no_malformed a h : xfh_hop a <> Malformed h.
Proof. apply undquote_no_malformed. Qed.

(* ---- blk_xff ------------------------------------------------------------------ *)
Lemma blk_xff_no_exn k tph s : no_exn (blk_xff k tph s).
Proof.
  unfold blk_xff. destruct (has tph n_xff); [|discriminate].
  destruct (lookup k_xff (env s)); [|discriminate]. apply catch_all_no_exn.
Qed.

Lemma blk_xff_malformed k tph s h : blk_xff k tph s = Malformed h -> h = h_xff.
Proof.
  unfold blk_xff. destruct (has tph n_xff); [|discriminate].
  destruct (lookup k_xff (env s)); [|discriminate].
  match goal with |- catch_all _ ?r = _ -> _ => destruct r eqn:E end; simpl; try congruence.
  exfalso.
  destruct (mapM xff_hop (split s0 [c_comma])) as [cs| |] eqn:Em; simpl in E.
  - destruct (index0 (py_lastk cs k)) eqn:Ei; simpl in E; try discriminate.
    + destruct (rm_for (unt s)) eqn:Er; simpl in E; try discriminate. unfold rm_for in Er. destruct (u_for (unt s)); discriminate.
    + unfold index0 in Ei. destruct (py_lastk cs k); discriminate.
  - eapply mapM_no_malformed; eauto using xff_hop_no_malformed.
  - discriminate.
Qed.

(* complete description of a successful run of the block *)
Lemma blk_xff_ok k tph s s' : blk_xff k tph s = Ok s' ->
  (s' = s /\ (has tph n_xff = false \/ lookup k_xff (env s) = None)) \/
  (exists raw cs c u,
     has tph n_xff = true /\ lookup k_xff (env s) = Some raw /\
     mapM xff_hop (split raw [c_comma]) = Ok cs /\ hd_error (py_lastk cs k) = Some c /\
     rm_for (unt s) = Ok u /\
     s' = {| env := set k_xff (strip (join [c_comma] (py_lastk (split raw [c_comma]) k))) (env s);
             client := Some c; fhost := fhost s; fproto := fproto s; fport := fport s;
             fwd := fwd s; unt := u |}).
Proof.
  unfold blk_xff. destruct (has tph n_xff); [|intro H; injection H as <-; auto].
  destruct (lookup k_xff (env s)) as [raw|]; [|intro H; injection H as <-; auto].
  intro H. apply catch_all_ok in H. right.
  apply bind_ok in H as (cs & Hm & H). apply bind_ok in H as (c & Hi & H).
  apply bind_ok in H as (u & Hu & H). injection H as <-.
  exists raw, cs, c, u. repeat split; auto.
  unfold index0 in Hi. destruct (py_lastk cs k); [discriminate|]. injection Hi as ->. reflexivity.
Qed.

(* ---- blk_xfh ------------------------------------------------------------------ *)
Lemma blk_xfh_no_exn k tph s : no_exn (blk_xfh k tph s).
Proof.
  unfold blk_xfh. destruct (has tph n_xfh); [|discriminate].
  destruct (lookup k_xfh (env s)); [|discriminate]. apply catch_all_no_exn.
Qed.

Lemma blk_xfh_ok k tph s s' : blk_xfh k tph s = Ok s' ->
  (s' = s /\ (has tph n_xfh = false \/ lookup k_xfh (env s) = None)) \/
  (exists raw cs c u,
     has tph n_xfh = true /\ lookup k_xfh (env s) = Some raw /\
     mapM xfh_hop (split raw [c_comma]) = Ok cs /\ hd_error (py_lastk cs k) = Some c /\
     rm_host (unt s) = Ok u /\
     s' = {| env := set k_xfh (strip (join [c_comma] (py_lastk (split raw [c_comma]) k))) (env s);
             client := client s; fhost := c; fproto := fproto s; fport := fport s;
             fwd := fwd s; unt := u |}).
Proof.
  unfold blk_xfh. destruct (has tph n_xfh); [|intro H; injection H as <-; auto].
  destruct (lookup k_xfh (env s)) as [raw|]; [|intro H; injection H as <-; auto].
  intro H. apply catch_all_ok in H. right.
  apply bind_ok in H as (cs & Hm & H). apply bind_ok in H as (c & Hi & H).
  apply bind_ok in H as (u & Hu & H). injection H as <-.
  exists raw, cs, c, u. repeat split; auto.
  unfold index0 in Hi. destruct (py_lastk cs k); [discriminate|]. injection Hi as ->. reflexivity.
Qed.

(* ---- the single-valued headers -------------------------------------------------- *)
Lemma single_value_no_malformed key e h : single_value key e <> Malformed h.
Proof.
  unfold single_value.
  destruct (undquote_cases (match lookup key e with Some v => v | None => [] end)) as [[u H]|H]; rewrite H; simpl.
  - destruct (has_char c_comma u); discriminate.
  - discriminate.
Qed.

Lemma single_value_absent key e : lookup key e = None -> single_value key e = Ok [].
Proof. intro H. unfold single_value. rewrite H. reflexivity. Qed.

Lemma blk_proto_no_exn tph s : u_proto (unt s) = true -> no_exn (blk_proto tph s).
Proof.
  intros Hu e. unfold blk_proto. destruct (has tph n_xfproto); [|discriminate].
  unfold handler_single. destruct (lookup k_xfproto (env s)) eqn:El.
  - match goal with |- match ?r with _ => _ end <> _ => destruct r end; discriminate.
  - rewrite single_value_absent by auto. unfold rm_proto. rewrite Hu. discriminate.
Qed.

Lemma blk_proto_ok tph s s' : blk_proto tph s = Ok s' ->
  (s' = s /\ has tph n_xfproto = false) \/
  (exists v u, has tph n_xfproto = true /\ single_value k_xfproto (env s) = Ok v /\ rm_proto (unt s) = Ok u /\
     s' = {| env := env s; client := client s; fhost := fhost s; fproto := v; fport := fport s; fwd := fwd s; unt := u |}).
Proof.
  unfold blk_proto. destruct (has tph n_xfproto); [|intro H; injection H as <-; auto].
  unfold handler_single. intro H. right.
  destruct (single_value k_xfproto (env s)) as [v| |] eqn:Ev; simpl in H.
  - destruct (rm_proto (unt s)) as [u| |] eqn:Eu; simpl in H.
    + injection H as <-. eauto 8.
    + discriminate.
    + destruct (lookup k_xfproto (env s)); discriminate.
  - discriminate.
  - destruct (lookup k_xfproto (env s)); discriminate.
Qed.

Lemma blk_port_no_exn tph s : u_port (unt s) = true -> no_exn (blk_port tph s).
Proof.
  intros Hu e. unfold blk_port. destruct (has tph n_xfport); [|discriminate].
  unfold handler_single. destruct (lookup k_xfport (env s)) eqn:El.
  - match goal with |- match ?r with _ => _ end <> _ => destruct r end; discriminate.
  - rewrite single_value_absent by auto. unfold rm_port. rewrite Hu. discriminate.
Qed.

Lemma blk_port_ok tph s s' : blk_port tph s = Ok s' ->
  (s' = s /\ has tph n_xfport = false) \/
  (exists v u, has tph n_xfport = true /\ single_value k_xfport (env s) = Ok v /\ rm_port (unt s) = Ok u /\
     s' = {| env := env s; client := client s; fhost := fhost s; fproto := fproto s; fport := v; fwd := fwd s; unt := u |}).
Proof.
  unfold blk_port. destruct (has tph n_xfport); [|intro H; injection H as <-; auto].
  unfold handler_single. intro H. right.
  destruct (single_value k_xfport (env s)) as [v| |] eqn:Ev; simpl in H.
  - destruct (rm_port (unt s)) as [u| |] eqn:Eu; simpl in H.
    + injection H as <-. eauto 8.
    + discriminate.
    + destruct (lookup k_xfport (env s)); discriminate.
  - discriminate.
  - destruct (lookup k_xfport (env s)); discriminate.
Qed.

Lemma blk_by_no_exn tph s : u_by (unt s) = true -> no_exn (blk_by tph s).
Proof.
  intros Hu e. unfold blk_by. destruct (has tph n_xfby); [|discriminate].
  unfold rm_by. rewrite Hu. discriminate.
Qed.

Lemma blk_by_ok tph s s' : blk_by tph s = Ok s' ->
  env s' = env s /\ client s' = client s /\ fhost s' = fhost s /\ fproto s' = fproto s /\
  fport s' = fport s /\ fwd s' = fwd s.
Proof.
  unfold blk_by. destruct (has tph n_xfby); [|intro H; injection H as <-; auto 10].
  unfold rm_by. destruct (u_by (unt s)); simpl; [|discriminate]. intro H. injection H as <-. auto 10.
Qed.

(* ---- Forwarded -------------------------------------------------------------------- *)
Lemma fwd_pair_no_malformed acc p h : fwd_pair acc p <> Malformed h.
Proof.
  unfold fwd_pair. destruct (negb (truthy (lower_latin1 p))); [discriminate|].
  destruct (partition (lower_latin1 p) [c_eq]) as [[token equals] value].
  destruct (negb (beqb equals [c_eq])); [discriminate|].
  destruct (negb (beqb (strip token) token)); [discriminate|].
  destruct (negb (beqb (strip value) value)); [discriminate|].
  destruct (undquote_cases value) as [[u H]|H];
    destruct (beqb token s_by); [rewrite H; discriminate| |rewrite H; discriminate|];
    (destruct (beqb token s_for); [rewrite H; discriminate|]);
    (destruct (beqb token s_host); [rewrite H; discriminate|]);
    (destruct (beqb token s_proto); [rewrite H; discriminate|]); discriminate.
Qed.

Lemma foldM_no_malformed {A B} (f : A -> B -> result A) l a :
  (forall a b h, f a b <> Malformed h) -> forall h, foldM f a l <> Malformed h.
Proof.
  intro Hf. revert a. induction l as [|x l IH]; intros a h; simpl; [discriminate|].
  destruct (f a x) eqn:E; simpl; try discriminate; auto.
  intro H. injection H as ->. eapply Hf; eauto.
Qed.

Lemma fwd_element_no_malformed el h : fwd_element el <> Malformed h.
Proof. apply foldM_no_malformed. apply fwd_pair_no_malformed. Qed.

(* for proxy in proxies[::-1]: the oldest entry that has the field wins *)
Lemma fwd_fill_fold l c0 h0 p0 :
  fold_left fwd_fill (rev l) (c0, h0, p0) =
  (match first_nonempty (map f_for l) with [] => c0 | x => Some x end,
   match first_nonempty (map f_host l) with [] => h0 | x => x end,
   match first_nonempty (map f_proto l) with [] => p0 | x => x end).
Proof.
  induction l as [|x l IH]; [reflexivity|].
  cbn [rev]. rewrite fold_left_app, IH. cbn [fold_left fwd_fill map first_nonempty].
  unfold str_or. destruct (f_for x), (f_host x), (f_proto x); reflexivity.
Qed.

Definition fwd_precond (s : pst) : Prop :=
  opt_truthy (fwd s) = true -> lookup k_fwd (env s) <> None.

Lemma blk_forwarded_no_exn k s : fwd_precond s -> no_exn (blk_forwarded k s).
Proof.
  intros Hp e. unfold blk_forwarded. destruct (fwd s) as [[|c f]|] eqn:Ef; try discriminate.
  assert (Hl : lookup k_fwd (env s) <> None) by (apply Hp; rewrite Ef; reflexivity).
  destruct (mapM fwd_element (split (c :: f) [c_comma])) as [ps| |] eqn:Em; simpl.
  - destruct (fold_left fwd_fill _ _) as [[a b] d]. discriminate.
  - discriminate.
  - destruct (lookup k_fwd (env s)); [discriminate|congruence].
Qed.

Lemma blk_forwarded_malformed k s h : blk_forwarded k s = Malformed h -> h = h_fwd.
Proof.
  unfold blk_forwarded. destruct (fwd s) as [[|c f]|]; try discriminate.
  destruct (mapM fwd_element (split (c :: f) [c_comma])) as [ps| |] eqn:Em; simpl.
  - destruct (fold_left fwd_fill _ _) as [[a b] d]. discriminate.
  - intros _. exfalso. eapply mapM_no_malformed; eauto using fwd_element_no_malformed.
  - destruct (lookup k_fwd (env s)); [|discriminate]. intro H. injection H as <-. reflexivity.
Qed.

Lemma blk_forwarded_ok k s s' : blk_forwarded k s = Ok s' ->
  (s' = s /\ opt_truthy (fwd s) = false) \/
  (exists raw ps, fwd s = Some raw /\ truthy raw = true /\
     mapM fwd_element (split raw [c_comma]) = Ok ps /\
     s' = {| env := set k_fwd (strip (join [c_comma] (py_lastk (split raw [c_comma]) k))) (env s);
             client := match first_nonempty (map f_for (py_lastk ps k)) with [] => client s | x => Some x end;
             fhost := match first_nonempty (map f_host (py_lastk ps k)) with [] => f_host (last ps fwd_empty) | x => x end;
             fproto := match first_nonempty (map f_proto (py_lastk ps k)) with [] => f_proto (last ps fwd_empty) | x => x end;
             fport := []; fwd := fwd s; unt := unt s |}).
Proof.
  unfold blk_forwarded. destruct (fwd s) as [[|c f]|] eqn:Ef;
    try (intro H; injection H as <-; left; split; reflexivity).
  intro H. right. exists (c :: f).
  destruct (mapM fwd_element (split (c :: f) [c_comma])) as [ps| |] eqn:Em; simpl in H.
  - exists ps. rewrite fwd_fill_fold in H. injection H as <-. repeat split; reflexivity.
  - discriminate.
  - destruct (lookup k_fwd (env s)); discriminate.
Qed.

(* ---- writing the selection into the environ ------------------------------------------ *)
Lemma stage_proto_no_exn s : no_exn (stage_proto s).
Proof.
  intro e. unfold stage_proto. cbv zeta. destruct (truthy (fproto s)); [|discriminate].
  destruct (negb (_ || _)); discriminate.
Qed.

Lemma stage_proto_ok s s' : stage_proto s = Ok s' ->
  client s' = client s /\ fhost s' = fhost s /\ fwd s' = fwd s /\ unt s' = unt s /\
  ((s' = s /\ fproto s = []) \/
   (fproto s <> [] /\ cat_scheme (fproto s) = false /\ fproto s' = lower_latin1 (fproto s) /\
    env s' = set k_url_scheme (lower_latin1 (fproto s)) (env s))).
Proof.
  unfold stage_proto. cbv zeta. destruct (truthy (fproto s)) eqn:Et.
  - destruct (negb (beqb (lower_latin1 (fproto s)) s_http || beqb (lower_latin1 (fproto s)) s_https)) eqn:En; [intro; discriminate|].
    intro H. injection H as <-. cbn. repeat split; auto. right.
    repeat split; auto.
    + apply truthy_true. exact Et.
    + unfold cat_scheme. rewrite Et. change t_http with s_http.
      change t_https with s_https. rewrite En. reflexivity.
  - intro H. injection H as <-. repeat split; auto. left. split; auto. apply truthy_false. exact Et.
Qed.

Lemma stage_proto_malformed s h : stage_proto s = Malformed h ->
  cat_scheme (fproto s) = true /\ h = if opt_truthy (fwd s) then h_fwd_proto else h_xfproto.
Proof.
  unfold stage_proto. cbv zeta. destruct (truthy (fproto s)) eqn:Et; [|discriminate].
  destruct (negb (beqb (lower_latin1 (fproto s)) s_http || beqb (lower_latin1 (fproto s)) s_https)) eqn:En; [|discriminate].
  intro H. injection H as <-. split; auto. unfold cat_scheme. rewrite Et.
  change t_http with s_http.
  change t_https with s_https. rewrite En. reflexivity.
Qed.

Lemma stage_proto_scheme s : cat_scheme (fproto s) = true -> exists h, stage_proto s = Malformed h.
Proof.
  unfold cat_scheme, stage_proto. cbv zeta. destruct (truthy (fproto s)); [|discriminate]. cbn [andb].
  change t_http with s_http.
  change t_https with s_https.
  intros ->. eauto.
Qed.

Definition has_key (k : str) (e : environ) : Prop := lookup k e <> None.

Lemma has_key_set k k2 v e : has_key k e -> has_key k (set k2 v e).
Proof. unfold has_key. rewrite lookup_set. destruct (beqb k k2); [discriminate|auto]. Qed.

Lemma stage_proto_has_key k s s' : stage_proto s = Ok s' -> has_key k (env s) -> has_key k (env s').
Proof.
  intros H Hk. apply stage_proto_ok in H as (_ & _ & _ & _ & [[-> _]|(_ & _ & _ & ->)]); auto.
  apply has_key_set. exact Hk.
Qed.

(* the host text of Spec.empty_host, as the model computes it *)
Lemma empty_host_model s l : truthy (fhost s) = true -> last_opt (fhost s) = Some l ->
  empty_host (fhost s) =
  if has_char c_colon (fhost s) && negb (l =? c_rbr)
  then negb (truthy (strip (before_last colon (fhost s)))) else negb (truthy (strip (fhost s))).
Proof.
  intros Et El. unfold empty_host, host_text, has_port, ends_with_char. rewrite Et, El. cbn [andb].
  change (memb colon (fhost s)) with (has_char c_colon (fhost s)). change rbr with c_rbr.
  destruct (has_char c_colon (fhost s) && negb (l =? c_rbr)); reflexivity.
Qed.

Lemma stage_host_no_exn s : has_key k_url_scheme (env s) -> no_exn (stage_host s).
Proof.
  intros Hk e. unfold stage_host. cbv zeta. destruct (truthy (fhost s)) eqn:Et; [|discriminate].
  destruct (last_opt_truthy _ Et) as [l ->].
  destruct (has_char c_colon (fhost s) && negb (l =? c_rbr)) eqn:Ec.
  - apply andb_true_iff in Ec as [Ec _]. unfold has_char in Ec.
    rewrite (rsplit1_has _ _ Ec). destruct (negb (truthy _)); discriminate.
  - destruct (negb (truthy (strip (fhost s)))); [discriminate|].
    assert (Hk2 : has_key k_url_scheme (set k_http_host (fhost s) (set k_server_name (fhost s) (env s))))
      by (do 2 apply has_key_set; exact Hk).
    unfold has_key in Hk2.
    destruct (truthy (fport s)); [|cbn [bind]; discriminate].
    destruct (negb (beqb (fport s) s_443 || beqb (fport s) s_80)); [cbn [bind]; discriminate|].
    destruct (beqb (fport s) s_80).
    + destruct (lookup k_url_scheme _); [|congruence]. destruct (negb (beqb _ _)); cbn [bind]; discriminate.
    + destruct (lookup k_url_scheme _); [|congruence]. destruct (negb (beqb _ _)); cbn [bind]; discriminate.
Qed.

(* the host stage refuses exactly the empty host *)
Lemma stage_host_malformed s h : stage_host s = Malformed h ->
  empty_host (fhost s) = true /\ h = if opt_truthy (fwd s) then h_fwd_host else h_xfh.
Proof.
  unfold stage_host. cbv zeta. destruct (truthy (fhost s)) eqn:Et; [|discriminate].
  destruct (last_opt (fhost s)) as [l|] eqn:El; [|discriminate].
  rewrite (empty_host_model s l Et El).
  destruct (has_char c_colon (fhost s) && negb (l =? c_rbr)) eqn:Ec.
  - pose proof Ec as Ec'. apply andb_true_iff in Ec' as [Ec' _]. unfold has_char in Ec'.
    rewrite (rsplit1_has _ _ Ec'). change c_colon with colon.
    destruct (negb (truthy (strip (before_last colon (fhost s))))); [|discriminate].
    intro H. injection H as <-. auto.
  - destruct (negb (truthy (strip (fhost s)))).
    + intro H. injection H as <-. auto.
    + destruct (truthy (fport s)); [|cbn [bind]; discriminate].
      destruct (negb (beqb (fport s) s_443 || beqb (fport s) s_80)); [cbn [bind]; discriminate|].
      destruct (beqb (fport s) s_80); destruct (lookup k_url_scheme _); cbn [bind]; try discriminate;
        destruct (negb (beqb _ _)); cbn [bind]; discriminate.
Qed.

Lemma stage_host_empty s : empty_host (fhost s) = true -> exists h, stage_host s = Malformed h.
Proof.
  intro He. unfold stage_host. cbv zeta.
  destruct (truthy (fhost s)) eqn:Et; [|unfold empty_host in He; rewrite Et in He; discriminate].
  destruct (last_opt_truthy _ Et) as [l El]. rewrite El. rewrite (empty_host_model s l Et El) in He.
  destruct (has_char c_colon (fhost s) && negb (l =? c_rbr)) eqn:Ec.
  - pose proof Ec as Ec'. apply andb_true_iff in Ec' as [Ec' _]. unfold has_char in Ec'.
    rewrite (rsplit1_has _ _ Ec'). change c_colon with colon. rewrite He. eauto.
  - rewrite He. eauto.
Qed.

(* the host stage only writes SERVER_NAME and HTTP_HOST and leaves the client alone *)
Lemma stage_host_ok s s' : stage_host s = Ok s' ->
  client s' = client s /\ fwd s' = fwd s /\ unt s' = unt s /\ fproto s' = fproto s /\
  (forall key, beqb key k_server_name = false -> beqb key k_http_host = false ->
               lookup key (env s') = lookup key (env s)) /\
  (fhost s = [] -> s' = s) /\
  (fhost s <> [] -> lookup k_server_name (env s') = Some (strip (host_text (fhost s))) \/
                    lookup k_server_name (env s') = Some (fhost s) /\ has_port (fhost s) = false) /\
  empty_host (fhost s) = false.
Proof.
  unfold stage_host. cbv zeta. destruct (truthy (fhost s)) eqn:Et.
  2:{ intro H. injection H as <-. repeat split; auto.
      - intro Hn. apply truthy_false in Et. congruence.
      - unfold empty_host. rewrite Et. reflexivity. }
  destruct (last_opt (fhost s)) as [l|] eqn:El; [|discriminate].
  assert (Hne : fhost s <> []) by (apply truthy_true; exact Et).
  assert (Hhp : has_port (fhost s) = has_char c_colon (fhost s) && negb (l =? c_rbr)).
  { unfold has_port, ends_with_char. rewrite El. reflexivity. }
  rewrite (empty_host_model s l Et El).
  destruct (has_char c_colon (fhost s) && negb (l =? c_rbr)) eqn:Ec.
  - pose proof Ec as Ec'. apply andb_true_iff in Ec' as [Ec' _]. unfold has_char in Ec'.
    rewrite (rsplit1_has _ _ Ec'). change c_colon with colon.
    destruct (negb (truthy (strip (before_last colon (fhost s))))); [discriminate|].
    intro H. injection H as <-. cbn.
    repeat split; auto.
    + intros key H1 H2. rewrite !lookup_set, H1, H2. reflexivity.
    + congruence.
    + intros _. left. rewrite lookup_set_other by keq. rewrite lookup_set_same.
      unfold host_text. rewrite Hhp. reflexivity.
  - destruct (negb (truthy (strip (fhost s)))); [discriminate|].
    intro H. apply bind_ok in H as (e3 & He3 & H). injection H as <-. cbn.
    assert (Hfr : forall key, beqb key k_server_name = false -> beqb key k_http_host = false ->
                  lookup key e3 = lookup key (env s)).
    { intros key H1 H2.
      assert (Ha : lookup key (set k_http_host (fhost s) (set k_server_name (fhost s) (env s))) = lookup key (env s))
        by (rewrite !lookup_set, H1, H2; reflexivity).
      assert (Hb : lookup key (set k_http_host (host_colon_port (fhost s) (fport s))
                      (set k_http_host (fhost s) (set k_server_name (fhost s) (env s)))) = lookup key (env s))
        by (rewrite !lookup_set, H1, H2; reflexivity).
      destruct (truthy (fport s)); [|injection He3 as <-; exact Ha].
      destruct (negb (beqb (fport s) s_443 || beqb (fport s) s_80)); [injection He3 as <-; exact Hb|].
      destruct (beqb (fport s) s_80); destruct (lookup k_url_scheme _); try discriminate;
        destruct (negb (beqb _ _)); injection He3 as <-; auto. }
    repeat split; auto.
    + congruence.
    + intros _. right. split; [|exact Hhp].
      assert (Ha : lookup k_server_name (set k_http_host (fhost s) (set k_server_name (fhost s) (env s))) = Some (fhost s))
        by (rewrite lookup_set_other by keq; apply lookup_set_same).
      assert (Hb : lookup k_server_name (set k_http_host (host_colon_port (fhost s) (fport s))
                      (set k_http_host (fhost s) (set k_server_name (fhost s) (env s)))) = Some (fhost s))
        by (rewrite lookup_set_other by keq; exact Ha).
      destruct (truthy (fport s)); [|injection He3 as <-; exact Ha].
      destruct (negb (beqb (fport s) s_443 || beqb (fport s) s_80)); [injection He3 as <-; exact Hb|].
      destruct (beqb (fport s) s_80); destruct (lookup k_url_scheme _); try discriminate;
        destruct (negb (beqb _ _)); injection He3 as <-; auto.
Qed.

Lemma stage_port_facts s :
  client (stage_port s) = client s /\ fwd (stage_port s) = fwd s /\ unt (stage_port s) = unt s /\
  (forall key, beqb key k_server_port = false -> lookup key (env (stage_port s)) = lookup key (env s)).
Proof.
  unfold stage_port. destruct (truthy (fport s)); cbn; repeat split; auto.
  intros key H. rewrite lookup_set, H. reflexivity.
Qed.

(* ---- the client stage: where F19 lives --------------------------------------------------- *)
Lemma strip_brackets_spec a :
  strip_brackets a = match a with [] => Exn IndexError | _ => Ok (unbracket a) end.
Proof.
  unfold strip_brackets, unbracket, ends_with_char. destruct a as [|x a]; [reflexivity|].
  cbn [first_opt]. change c_lbr with lbr. change c_rbr with rbr.
  destruct (x =? lbr); [|reflexivity].
  destruct (last_opt_truthy (x :: a) eq_refl) as [l ->]. simpl.
  destruct (l =? rbr); reflexivity.
Qed.

Lemma stage_client_spec s :
  stage_client s =
  match client s with
  | Some (c0 :: c') =>
    let c := c0 :: c' in
    if bad_client c then Malformed (if opt_truthy (fwd s) then h_fwd else h_xff)
    else
      let e1 := set k_remote_addr (unbracket (addr_text c)) (env s) in
      let e2 := match port_text c with Some p => set k_remote_port p e1 | None => e1 end in
      Ok {| env := set k_remote_host (unbracket (addr_text c)) e2; client := client s; fhost := fhost s;
            fproto := fproto s; fport := fport s; fwd := fwd s; unt := unt s |}
  | _ => Ok s
  end.
Proof.
  unfold stage_client. destruct (client s) as [[|c0 c']|]; try reflexivity.
  set (c := c0 :: c'). cbv zeta.
  destruct (last_opt_truthy c eq_refl) as [l Hl]. rewrite Hl.
  assert (Hhp : has_port c = has_char c_colon c && negb (l =? c_rbr)).
  { unfold has_port, ends_with_char. rewrite Hl. reflexivity. }
  unfold bad_client, addr_text, port_text. rewrite Hhp. change (truthy c) with true. cbn [andb].
  destruct (has_char c_colon c && negb (l =? c_rbr)) eqn:Ec.
  - pose proof Ec as Ec'. apply andb_true_iff in Ec' as [Ec' _]. unfold has_char in Ec'.
    rewrite (rsplit1_has _ _ Ec'). change c_colon with colon.
    rewrite strip_brackets_spec. destruct (strip (before_last colon c)) eqn:Ea; [reflexivity|].
    cbn [bind truthy negb]. rewrite lookup_set_other by keq. rewrite lookup_set_same. reflexivity.
  - rewrite strip_brackets_spec. destruct (strip c) eqn:Ea; [reflexivity|].
    cbn [bind truthy negb]. rewrite lookup_set_same. reflexivity.
Qed.
