(* Block-by-block facts about parse_proxy_headers (Model/Proxy.v): what each
   block can return, which local variables and environ keys it leaves alone. *)
From Coq Require Import List NArith ZArith Bool Lia.
From WV Require Import Lib.PyBytes Lib.PyStrProxy Lib.Regex Gen.GenRegex Model.Proxy Spec.ProxySpec
  Proof.ProxyDict Proof.ProxyStr.
Import ListNotations.
Local Open Scope N_scope.

(* ---- the key literals are pairwise different (decided by computation) ---- *)
Ltac keq := vm_compute; reflexivity.

(* ---- results ---------------------------------------------------------------- *)
Definition is_exn {A} (r : result A) : Prop := exists e, r = Exn e.
Definition no_exn {A} (r : result A) : Prop := forall e, r <> Exn e.

Lemma catch_all_no_exn {A} h (r : result A) : no_exn (catch_all h r).
Proof. intros e. destruct r; simpl; discriminate. Qed.

Lemma bind_ok {A B} (r : result A) (f : A -> result B) b :
  bind r f = Ok b -> exists a, r = Ok a /\ f a = Ok b.
Proof. destruct r; simpl; try discriminate. eauto. Qed.

Lemma catch_all_ok {A} h (r : result A) a : catch_all h r = Ok a -> r = Ok a.
Proof. destruct r; simpl; congruence. Qed.

(* ---- undquote ----------------------------------------------------------------- *)
Lemma undquote_cases v : (exists u, undquote v = Ok u) \/ undquote v = Exn ValueError.
Proof.
  unfold undquote.
  destruct (startswith v [c_dquote] && endswith v [c_dquote]).
  - destruct (matches gate_quoted_string v); eauto.
  - destruct (negb (startswith v [c_dquote]) && negb (endswith v [c_dquote])); eauto.
Qed.

Lemma undquote_no_malformed v h : undquote v <> Malformed h.
Proof. destruct (undquote_cases v) as [[u H]|H]; rewrite H; discriminate. Qed.

Lemma undquote_nil : undquote [] = Ok [].
Proof. reflexivity. Qed.

Lemma xff_hop_no_malformed a h : xff_hop a <> Malformed h.
Proof.
  unfold xff_hop. destruct (undquote_cases (strip a)) as [[u H]|H]; rewrite H; simpl; try discriminate.
  destruct (negb (has_char c_dot u) && has_char c_colon u); try discriminate.
  destruct (last_opt u); try discriminate. destruct (negb (n =? c_rbr)); discriminate.
Qed.

Lemma xfh_hop_no_malformed a h : xfh_hop a <> Malformed h.
Proof. apply undquote_no_malformed. Qed.

(* ---- blk_xff ------------------------------------------------------------------ *)
Lemma blk_xff_no_exn k tph s : no_exn (blk_xff k tph s).
Proof.
  unfold blk_xff. destruct (has tph n_xff); [|discriminate].
  destruct (lookup k_xff (env s)); [|discriminate]. apply catch_all_no_exn.
Qed.

Lemma blk_xff_malformed k tph s h : blk_xff k tph s = Malformed h -> h = h_xff.
Proof.
  unfold blk_xff. destruct (has tph n_xff); [|discriminate].
  destruct (lookup k_xff (env s)); [|discriminate].
  match goal with |- catch_all _ ?r = _ -> _ => destruct r eqn:E end; simpl; try congruence.
  exfalso.
  destruct (mapM xff_hop (split s0 [c_comma])) as [cs| |] eqn:Em; simpl in E.
  - destruct (index0 (py_lastk cs k)) eqn:Ei; simpl in E; try discriminate.
    + destruct (rm_for (unt s)) eqn:Er; simpl in E; try discriminate. unfold rm_for in Er. destruct (u_for (unt s)); discriminate.
    + unfold index0 in Ei. destruct (py_lastk cs k); discriminate.
  - eapply mapM_no_malformed; eauto using xff_hop_no_malformed.
  - discriminate.
Qed.

(* complete description of a successful run of the block *)
Lemma blk_xff_ok k tph s s' : blk_xff k tph s = Ok s' ->
  (s' = s /\ (has tph n_xff = false \/ lookup k_xff (env s) = None)) \/
  (exists raw cs c u,
     has tph n_xff = true /\ lookup k_xff (env s) = Some raw /\
     mapM xff_hop (split raw [c_comma]) = Ok cs /\ hd_error (py_lastk cs k) = Some c /\
     rm_for (unt s) = Ok u /\
     s' = {| env := set k_xff (strip (join [c_comma] (py_lastk (split raw [c_comma]) k))) (env s);
             client := Some c; fhost := fhost s; fproto := fproto s; fport := fport s;
             fwd := fwd s; unt := u |}).
Proof.
  unfold blk_xff. destruct (has tph n_xff); [|intro H; injection H as <-; auto].
  destruct (lookup k_xff (env s)) as [raw|]; [|intro H; injection H as <-; auto].
  intro H. apply catch_all_ok in H. right.
  apply bind_ok in H as (cs & Hm & H). apply bind_ok in H as (c & Hi & H).
  apply bind_ok in H as (u & Hu & H). injection H as <-.
  exists raw, cs, c, u. repeat split; auto.
  unfold index0 in Hi. destruct (py_lastk cs k); [discriminate|]. injection Hi as ->. reflexivity.
Qed.

(* ---- blk_xfh ------------------------------------------------------------------ *)
Lemma blk_xfh_no_exn k tph s : no_exn (blk_xfh k tph s).
Proof.
  unfold blk_xfh. destruct (has tph n_xfh); [|discriminate].
  destruct (lookup k_xfh (env s)); [|discriminate]. apply catch_all_no_exn.
Qed.

Lemma blk_xfh_ok k tph s s' : blk_xfh k tph s = Ok s' ->
  (s' = s /\ (has tph n_xfh = false \/ lookup k_xfh (env s) = None)) \/
  (exists raw cs c u,
     has tph n_xfh = true /\ lookup k_xfh (env s) = Some raw /\
     mapM xfh_hop (split raw [c_comma]) = Ok cs /\ hd_error (py_lastk cs k) = Some c /\
     rm_host (unt s) = Ok u /\
     s' = {| env := set k_xfh (strip (join [c_comma] (py_lastk (split raw [c_comma]) k))) (env s);
             client := client s; fhost := c; fproto := fproto s; fport := fport s;
             fwd := fwd s; unt := u |}).
Proof.
  unfold blk_xfh. destruct (has tph n_xfh); [|intro H; injection H as <-; auto].
  destruct (lookup k_xfh (env s)) as [raw|]; [|intro H; injection H as <-; auto].
  intro H. apply catch_all_ok in H. right.
  apply bind_ok in H as (cs & Hm & H). apply bind_ok in H as (c & Hi & H).
  apply bind_ok in H as (u & Hu & H). injection H as <-.
  exists raw, cs, c, u. repeat split; auto.
  unfold index0 in Hi. destruct (py_lastk cs k); [discriminate|]. injection Hi as ->. reflexivity.
Qed.

(* ---- the single-valued headers -------------------------------------------------- *)
Lemma single_value_no_malformed key e h : single_value key e <> Malformed h.
Proof.
  unfold single_value.
  destruct (undquote_cases (match lookup key e with Some v => v | None => [] end)) as [[u H]|H]; rewrite H; simpl.
  - destruct (has_char c_comma u); discriminate.
  - discriminate.
Qed.

Lemma single_value_absent key e : lookup key e = None -> single_value key e = Ok [].
Proof. intro H. unfold single_value. rewrite H. reflexivity. Qed.

Lemma blk_proto_no_exn tph s : u_proto (unt s) = true -> no_exn (blk_proto tph s).
Proof.
  intros Hu e. unfold blk_proto. destruct (has tph n_xfproto); [|discriminate].
  unfold handler_single. destruct (lookup k_xfproto (env s)) eqn:El.
  - match goal with |- match ?r with _ => _ end <> _ => destruct r end; discriminate.
  - rewrite single_value_absent by auto. unfold rm_proto. rewrite Hu. discriminate.
Qed.

Lemma blk_proto_ok tph s s' : blk_proto tph s = Ok s' ->
  (s' = s /\ has tph n_xfproto = false) \/
  (exists v u, has tph n_xfproto = true /\ single_value k_xfproto (env s) = Ok v /\ rm_proto (unt s) = Ok u /\
     s' = {| env := env s; client := client s; fhost := fhost s; fproto := v; fport := fport s; fwd := fwd s; unt := u |}).
Proof.
  unfold blk_proto. destruct (has tph n_xfproto); [|intro H; injection H as <-; auto].
  unfold handler_single. intro H. right.
  destruct (single_value k_xfproto (env s)) as [v| |] eqn:Ev; simpl in H.
  - destruct (rm_proto (unt s)) as [u| |] eqn:Eu; simpl in H.
    + injection H as <-. eauto 8.
    + discriminate.
    + destruct (lookup k_xfproto (env s)); discriminate.
  - discriminate.
  - destruct (lookup k_xfproto (env s)); discriminate.
Qed.

Lemma blk_port_no_exn tph s : u_port (unt s) = true -> no_exn (blk_port tph s).
Proof.
  intros Hu e. unfold blk_port. destruct (has tph n_xfport); [|discriminate].
  unfold handler_single. destruct (lookup k_xfport (env s)) eqn:El.
  - match goal with |- match ?r with _ => _ end <> _ => destruct r end; discriminate.
  - rewrite single_value_absent by auto. unfold rm_port. rewrite Hu. discriminate.
Qed.

Lemma blk_port_ok tph s s' : blk_port tph s = Ok s' ->
  (s' = s /\ has tph n_xfport = false) \/
  (exists v u, has tph n_xfport = true /\ single_value k_xfport (env s) = Ok v /\ rm_port (unt s) = Ok u /\
     s' = {| env := env s; client := client s; fhost := fhost s; fproto := fproto s; fport := v; fwd := fwd s; unt := u |}).
Proof.
  unfold blk_port. destruct (has tph n_xfport); [|intro H; injection H as <-; auto].
  unfold handler_single. intro H. right.
  destruct (single_value k_xfport (env s)) as [v| |] eqn:Ev; simpl in H.
  - destruct (rm_port (unt s)) as [u| |] eqn:Eu; simpl in H.
    + injection H as <-. eauto 8.
    + discriminate.
    + destruct (lookup k_xfport (env s)); discriminate.
  - discriminate.
  - destruct (lookup k_xfport (env s)); discriminate.
Qed.

Lemma blk_by_no_exn tph s : u_by (unt s) = true -> no_exn (blk_by tph s).
Proof.
  intros Hu e. unfold blk_by. destruct (has tph n_xfby); [|discriminate].
  unfold rm_by. rewrite Hu. discriminate.
Qed.

Lemma blk_by_ok tph s s' : blk_by tph s = Ok s' ->
  env s' = env s /\ client s' = client s /\ fhost s' = fhost s /\ fproto s' = fproto s /\
  fport s' = fport s /\ fwd s' = fwd s.
Proof.
  unfold blk_by. destruct (has tph n_xfby); [|intro H; injection H as <-; auto 10].
  unfold rm_by. destruct (u_by (unt s)); simpl; [|discriminate]. intro H. injection H as <-. auto 10.
Qed.
