(* What a plain application (one start_response, then an iterable of byte
   chunks, no faults, client connected) puts on the wire (C03). *)
From Coq Require Import String.
From Coq Require Import List NArith ZArith Bool Lia Arith.
From WV Require Import Lib.PyBytes Gen.GenTables Model.Task Spec.ClientParse
  Proof.TaskLines Proof.TaskHead Proof.TaskStart Proof.TaskRun Proof.TaskChunk Proof.TaskC09.
Import ListNotations.
Local Open Scope N_scope.

Definition plain_steps (chunks : list bytes) : list istep := map (fun b => mkStep [] (SYield b)) chunks.

Definition chan_wire (ch : chan) : bytes := wire (rev (ch_writes ch)).

Lemma wire_app a b : wire (a ++ b) = wire a ++ wire b.
Proof. unfold wire. apply flat_map_app. Qed.

Lemma write_soon_connected ch x b :
  write_soon None ch (WBytes (x :: b)) = (mkChan (WBytes (x :: b) :: ch_writes ch) (S (ch_nws ch)), Ok tt).
Proof. reflexivity. Qed.

Lemma chan_wire_push ws n b : chan_wire (mkChan (WBytes b :: ws) n) = wire (rev ws) ++ b.
Proof. unfold chan_wire. cbn [ch_writes rev]. rewrite wire_app. cbn. rewrite app_nil_r. reflexivity. Qed.

Section Body.
Variable cap : str -> str.
Variable lower : str -> str.
Variable c : cfg.
Variable r : req.

(* the body bytes for a list of chunks once the head (task tp) is out, without a declared length *)
Definition body_enc (tp : task) (chunks : list bytes) : bytes :=
  if has_body tp then
    if t_chunked tp then flat_map encode_chunk chunks else concat chunks
  else [].

(* fields of the task that the body phase does not touch *)
Definition same_head (t t' : task) : Prop :=
  t_status t' = t_status t /\ t_chunked t' = t_chunked t /\ t_cof t' = t_cof t
  /\ t_wrote_header t' = t_wrote_header t /\ t_complete t' = t_complete t /\ t_clen t' = t_clen t
  /\ t_rh t' = t_rh t /\ t_v11 t' = t_v11 t.

Lemma same_head_refl t : same_head t t.
Proof. unfold same_head; tauto. Qed.
Lemma same_head_trans a b d : same_head a b -> same_head b d -> same_head a d.
Proof. unfold same_head. intuition congruence. Qed.
Lemma same_head_has_body t t' : same_head t t' -> has_body t' = has_body t.
Proof. intros (H & _). unfold has_body. rewrite H. reflexivity. Qed.

Lemma write_body_nolen t ch data : t_clen t = None ->
  exists t' ch', write_body None (t, ch) data = ((t', ch'), Ok tt)
    /\ same_head t t'
    /\ chan_wire ch' = chan_wire ch ++ body_enc t [data].
Proof.
  intro Hcl. unfold write_body, body_enc.
  destruct data as [|x data].
  - exists t, ch. repeat split; auto. destruct (has_body t); [destruct (t_chunked t)|]; cbn; rewrite app_nil_r; auto.
  - destruct (has_body t) eqn:HB.
    + destruct (t_chunked t) eqn:CK.
      * destruct (to_hex_upper (lenN (x :: data)) ++ CRLF ++ (x :: data) ++ CRLF) as [|y tw] eqn:Et.
        { exfalso. pose proof (to_hex_nonempty (lenN (x :: data))) as Hne.
          destruct (to_hex_upper (lenN (x :: data))); [congruence|discriminate]. }
        rewrite write_soon_connected. eexists t, _. split; [reflexivity|]. split; [apply same_head_refl|].
        destruct ch as [ws n]. rewrite chan_wire_push. unfold chan_wire. cbn [ch_writes flat_map encode_chunk].
        rewrite app_nil_r, Et. reflexivity.
      * rewrite Hcl. rewrite write_soon_connected. eexists t, _. split; [reflexivity|]. split; [apply same_head_refl|].
        destruct ch as [ws n]. rewrite chan_wire_push. unfold chan_wire. cbn [ch_writes concat]. rewrite app_nil_r. reflexivity.
    + eexists _, ch. split; [reflexivity|]. split; [unfold same_head; cbn; tauto|]. rewrite app_nil_r. reflexivity.
Qed.

Lemma body_enc_app tp a b : body_enc tp (a ++ b) = body_enc tp a ++ body_enc tp b.
Proof.
  unfold body_enc. destruct (has_body tp); [|reflexivity].
  destruct (t_chunked tp); [apply flat_map_app|apply concat_app].
Qed.

Lemma body_enc_same t t' chunks : same_head t t' -> body_enc t' chunks = body_enc t chunks.
Proof. intros H. unfold body_enc. rewrite (same_head_has_body _ _ H). destruct H as (_ & -> & _). reflexivity. Qed.

Lemma body_enc_empty tp : body_enc tp [[]] = [].
Proof. unfold body_enc. destruct (has_body tp); [destruct (t_chunked tp)|]; reflexivity. Qed.

(* Task.write once the head is out *)
Lemma task_write_body t ch data : t_complete t = true -> t_wrote_header t = true ->
  task_write cap lower c r None (t, ch) data = write_body None (t, ch) data.
Proof. intros Hc Hw. unfold task_write, write_header. cbn [fst]. rewrite Hc, Hw. reflexivity. Qed.

(* the iteration, from a state where the head is out *)
Lemma iterate_after_head chunks : forall t ch is_first,
  t_complete t = true -> t_wrote_header t = true -> t_clen t = None ->
  exists t' ch',
    iterate cap lower c r None false false is_first (t, ch) (plain_steps chunks) = ((t', ch'), Ok tt)
    /\ same_head t t' /\ chan_wire ch' = chan_wire ch ++ body_enc t chunks.
Proof.
  induction chunks as [|d chunks IH]; intros t ch is_first Hc Hw Hcl.
  - exists t, ch. cbn. split; auto. split; [apply same_head_refl|].
    unfold body_enc. destruct (has_body t); [destruct (t_chunked t)|]; cbn; rewrite app_nil_r; reflexivity.
  - cbn [plain_steps map iterate run_actions s_acts s_res andb].
    assert (Ht1 : (if is_first then match t_clen t with None => t | Some _ => t end else t) = t)
      by (destruct is_first; [rewrite Hcl|]; reflexivity).
    rewrite Hcl. assert (Hif : (if is_first then t else t) = t) by (destruct is_first; reflexivity).
    rewrite Hif.
    destruct d as [|x d].
    + destruct (IH t ch false Hc Hw Hcl) as (t' & ch' & E & S1 & W1).
      exists t', ch'. fold (plain_steps chunks). rewrite E. split; [reflexivity|]. split; [exact S1|].
      rewrite W1. change (([] : bytes) :: chunks) with ([[]] ++ chunks). rewrite body_enc_app, body_enc_empty. reflexivity.
    + rewrite task_write_body by auto.
      destruct (write_body_nolen t ch (x :: d) Hcl) as (t1 & ch1 & E1 & S1 & W1). rewrite E1.
      destruct S1 as (A1 & A2 & A3 & A4 & A5 & A6 & A7 & A8).
      destruct (IH t1 ch1 false) as (t' & ch' & E & S2 & W2); try congruence.
      exists t', ch'. fold (plain_steps chunks). rewrite E. split; [reflexivity|].
      assert (S1 : same_head t t1) by (unfold same_head; tauto).
      split; [eapply same_head_trans; eauto|].
      rewrite W2, W1, <- app_assoc. f_equal.
      change ((x :: d) :: chunks) with ([x :: d] ++ chunks). rewrite body_enc_app.
      rewrite (body_enc_same _ _ chunks S1). reflexivity.
Qed.

Lemma write_header_fresh t ch s' o : t_wrote_header t = false ->
  write_header cap lower c r None (t, ch) = (s', o) ->
  match build_response_header cap lower c r t with
  | (tp, Ok head) => o = Ok tt /\ fst s' = set_wrote true tp /\ chan_wire (snd s') = chan_wire ch ++ head
  | (tp, Exn e) => o = Exn e
  end.
Proof.
  intros Hw. unfold write_header. rewrite Hw. cbn [negb].
  destruct (build_response_header cap lower c r t) as [tp [head|e]] eqn:Eb.
  - assert (Hne : exists x b', head = x :: b').
    { unfold build_response_header, head_text in Eb. injection Eb as _ Hrh. eapply encode_nonempty; eauto. }
    destruct Hne as (x & b' & ->). rewrite write_soon_connected.
    intro H; inversion H; subst. cbn [fst snd]. repeat split; auto.
    destruct ch as [ws n]. apply chan_wire_push.
  - intro H; inversion H; subst. reflexivity.
Qed.

Definition all_empty (chunks : list bytes) : Prop := Forall (fun d => d = []) chunks.

Lemma body_enc_all_empty tp chunks : all_empty chunks -> body_enc tp chunks = [].
Proof.
  intro H. unfold body_enc. destruct (has_body tp); [|reflexivity].
  destruct (t_chunked tp); induction H as [|d l -> Hl IH]; cbn; auto.
Qed.

(* the iteration from a fresh state: either every chunk was empty and nothing
   happened, or the first non-empty chunk sent the head and the rest follows *)
Lemma iterate_fresh chunks : forall t ch is_first s' o,
  t_complete t = true -> t_wrote_header t = false -> t_clen t = None ->
  iterate cap lower c r None false false is_first (t, ch) (plain_steps chunks) = (s', o) ->
  o = Ok tt ->
  (all_empty chunks /\ s' = (t, ch))
  \/ (exists tp head, build_response_header cap lower c r t = (tp, Ok head)
        /\ same_head (set_wrote true tp) (fst s')
        /\ chan_wire (snd s') = chan_wire ch ++ head ++ body_enc tp chunks).
Proof.
  induction chunks as [|d chunks IH]; intros t ch is_first s' o Hc Hw Hcl H Ho.
  - cbn in H. inversion H; subst. left. split; [constructor|reflexivity].
  - cbn [plain_steps map iterate run_actions s_acts s_res andb] in H.
    rewrite Hcl in H. assert (Hif : (if is_first then t else t) = t) by (destruct is_first; reflexivity).
    rewrite Hif in H.
    destruct d as [|x d].
    + fold (plain_steps chunks) in H. destruct (IH t ch false s' o Hc Hw Hcl H Ho) as [[Ha ->]|(tp & head & Eb & S1 & W1)].
      * left. split; [constructor; auto|reflexivity].
      * right. exists tp, head. split; [exact Eb|]. split; [exact S1|]. rewrite W1.
        change (([] : bytes) :: chunks) with ([[]] ++ chunks). rewrite body_enc_app, body_enc_empty. reflexivity.
    + right. unfold task_write in H. cbn [fst] in H. rewrite Hc in H. cbn [negb] in H.
      destruct (write_header cap lower c r None (t, ch)) as [s1 o1] eqn:Eh.
      pose proof (write_header_fresh t ch s1 o1 Hw Eh) as Hh.
      destruct (build_response_header cap lower c r t) as [tp [head|e]] eqn:Eb.
      2: { subst o1. inversion H; subst. discriminate. }
      destruct Hh as (-> & Ht & Hwire). destruct s1 as [t1 ch1]. cbn [fst snd] in *. subst t1.
      assert (Ktp : t_complete tp = true /\ t_clen tp = None).
      { unfold build_response_header in Eb. injection Eb as <- _.
        destruct (keeps_bh_prepare cap lower c r t) as (K1 & _ & K3 & _). split; congruence. }
      destruct Ktp as [Kc Kl].
      destruct (write_body_nolen (set_wrote true tp) ch1 (x :: d)) as (t2 & ch2 & E2 & S2 & W2); [exact Kl|].
      rewrite E2 in H. fold (plain_steps chunks) in H.
      destruct S2 as (A1 & A2 & A3 & A4 & A5 & A6 & A7 & A8).
      destruct (iterate_after_head chunks t2 ch2 false) as (t3 & ch3 & E3 & S3 & W3); try (cbn in *; congruence).
      rewrite E3 in H. inversion H; subst. cbn [fst snd].
      exists tp, head. split; auto.
      assert (S2 : same_head (set_wrote true tp) t2) by (unfold same_head; tauto).
      split; [eapply same_head_trans; eauto|].
      rewrite W3, W2, Hwire, <- !app_assoc. f_equal. f_equal.
      change ((x :: d) :: chunks) with ([x :: d] ++ chunks). rewrite body_enc_app.
      rewrite (body_enc_same _ _ chunks S2).
      assert (S0 : same_head tp (set_wrote true tp) -> True) by auto.
      unfold body_enc. cbn [has_body t_status set_wrote t_chunked]. reflexivity.
Qed.

(* Task.finish *)
Lemma finish_after_head t ch : t_wrote_header t = true ->
  exists ch', task_finish cap lower c r None (t, ch) = ((t, ch'), Ok tt)
    /\ chan_wire ch' = chan_wire ch ++ (if t_chunked t && negb (r_head r) then chunk_terminator else []).
Proof.
  intro Hw. unfold task_finish. cbn [fst]. rewrite Hw. cbn [negb].
  destruct (t_chunked t && negb (r_head r)).
  - unfold chunk_terminator. rewrite write_soon_connected. eexists. split; [reflexivity|].
    destruct ch as [ws n]. apply chan_wire_push.
  - exists ch. rewrite app_nil_r. auto.
Qed.

Lemma finish_fresh t ch s' o : t_complete t = true -> t_wrote_header t = false ->
  task_finish cap lower c r None (t, ch) = (s', o) -> o = Ok tt ->
  exists tp head, build_response_header cap lower c r t = (tp, Ok head)
    /\ fst s' = set_wrote true tp
    /\ chan_wire (snd s') = chan_wire ch ++ head ++ (if t_chunked tp && negb (r_head r) then chunk_terminator else []).
Proof.
  intros Hc Hw H Ho. unfold task_finish in H. cbn [fst] in H. rewrite Hw in H. cbn [negb] in H.
  unfold task_write in H. cbn [fst] in H. rewrite Hc in H. cbn [negb] in H.
  destruct (write_header cap lower c r None (t, ch)) as [s1 o1] eqn:Eh.
  pose proof (write_header_fresh t ch s1 o1 Hw Eh) as Hh.
  destruct (build_response_header cap lower c r t) as [tp [head|e]] eqn:Eb.
  2: { subst o1. destruct s1. injection H as _ H2. rewrite <- H2 in Ho. discriminate Ho. }
  destruct Hh as (-> & Ht & Hwire). destruct s1 as [t1 ch1]. cbn [fst snd write_body] in *. subst t1.
  cbn [t_chunked set_wrote] in H.
  exists tp, head. split; auto.
  destruct (t_chunked tp && negb (r_head r)).
  - unfold chunk_terminator in *. rewrite write_soon_connected in H. inversion H; subst. cbn [fst snd].
    split; auto. destruct ch1 as [ws n]. rewrite chan_wire_push. unfold chan_wire in Hwire at 1. cbn [ch_writes] in Hwire.
    cbn [ch_writes]. rewrite Hwire, <- app_assoc. reflexivity.
  - inversion H; subst. cbn [fst snd]. split; auto. rewrite Hwire, app_nil_r. reflexivity.
Qed.

End Body.

(* ---- with a declared length ---------------------------------------------------- *)

Section BodyLen.
Variable cap : str -> str.
Variable lower : str -> str.
Variable c : cfg.
Variable r : req.

Lemma py_slice_all d k : (Z.of_nat (length d) <= k)%Z -> py_slice_to d k = d.
Proof.
  intro H. unfold py_slice_to. destruct (k <? 0)%Z eqn:E; [lia|].
  apply firstn_all2. lia.
Qed.

(* a chunk that fits into what is left of the declared length goes out unchanged *)
Lemma write_body_len t ch data cl :
  t_clen t = Some cl -> t_chunked t = false -> has_body t = true ->
  (t_cbw t + Z.of_nat (length data) <= cl)%Z ->
  exists t' ch', write_body None (t, ch) data = ((t', ch'), Ok tt)
    /\ same_head t t' /\ t_cbw t' = (t_cbw t + Z.of_nat (length data))%Z
    /\ chan_wire ch' = chan_wire ch ++ data.
Proof.
  intros Hcl Hck Hb Hfit. unfold write_body.
  destruct data as [|x data].
  - exists t, ch. repeat split; auto; try apply same_head_refl. cbn. lia. rewrite app_nil_r. auto.
  - rewrite Hb, Hck, Hcl.
    rewrite py_slice_all by lia.
    rewrite write_soon_connected. eexists _, _. split; [reflexivity|].
    split; [unfold same_head; cbn; tauto|]. split; [reflexivity|].
    destruct ch as [ws n]. apply chan_wire_push.
Qed.

Lemma iterate_after_head_len l1 chunks : forall t ch is_first cl,
  t_complete t = true -> t_wrote_header t = true -> t_clen t = Some cl ->
  t_chunked t = false -> has_body t = true ->
  (t_cbw t + Z.of_nat (length (concat chunks)) <= cl)%Z ->
  exists t' ch',
    iterate cap lower c r None false l1 is_first (t, ch) (plain_steps chunks) = ((t', ch'), Ok tt)
    /\ same_head t t' /\ t_cbw t' = (t_cbw t + Z.of_nat (length (concat chunks)))%Z
    /\ chan_wire ch' = chan_wire ch ++ concat chunks.
Proof.
  induction chunks as [|d chunks IH]; intros t ch is_first cl Hc Hw Hcl Hck Hb Hfit.
  - exists t, ch. cbn. repeat split; auto; try apply same_head_refl. lia. rewrite app_nil_r. reflexivity.
  - cbn [plain_steps map iterate run_actions s_acts s_res andb].
    rewrite Hcl. assert (Hif : (if is_first then t else t) = t) by (destruct is_first; reflexivity).
    rewrite Hif. cbn [concat] in Hfit. rewrite app_length, Nat2Z.inj_add in Hfit.
    destruct d as [|x d].
    + destruct (IH t ch false cl Hc Hw Hcl Hck Hb) as (t' & ch' & E & S1 & B1 & W1); [cbn in Hfit; lia|].
      exists t', ch'. fold (plain_steps chunks). rewrite E. cbn [concat List.app].
      split; [reflexivity|]. split; [exact S1|]. split; [exact B1|exact W1].
    + rewrite task_write_body by auto.
      destruct (write_body_len t ch (x :: d) cl Hcl Hck Hb) as (t1 & ch1 & E1 & S1 & B1 & W1); [lia|].
      rewrite E1.
      pose proof S1 as (A1 & A2 & A3 & A4 & A5 & A6 & A7 & A8).
      destruct (IH t1 ch1 false cl) as (t' & ch' & E & S2 & B2 & W2); try congruence.
      { rewrite (same_head_has_body _ _ S1). exact Hb. }
      { rewrite B1. clear - Hfit. lia. }
      exists t', ch'. fold (plain_steps chunks). rewrite E. split; [reflexivity|].
      split; [eapply same_head_trans; eauto|]. split.
      * rewrite B2, B1. cbn [concat]. rewrite app_length, Nat2Z.inj_add. clear. lia.
      * rewrite W2, W1, <- app_assoc. reflexivity.
Qed.

Lemma all_empty_concat chunks : all_empty chunks -> concat chunks = [].
Proof. induction 1 as [|d l -> Hl IH]; cbn; auto. Qed.

Lemma iterate_fresh_len l1 chunks : forall t ch is_first cl s' o,
  t_complete t = true -> t_wrote_header t = false -> t_clen t = Some cl -> t_cbw t = 0%Z ->
  t_chunked (bh_prepare cap lower c r t) = false -> has_body t = true ->
  (Z.of_nat (length (concat chunks)) <= cl)%Z ->
  iterate cap lower c r None false l1 is_first (t, ch) (plain_steps chunks) = (s', o) ->
  o = Ok tt ->
  (all_empty chunks /\ s' = (t, ch))
  \/ (exists tp head, build_response_header cap lower c r t = (tp, Ok head)
        /\ same_head (set_wrote true tp) (fst s')
        /\ t_cbw (fst s') = Z.of_nat (length (concat chunks))
        /\ chan_wire (snd s') = chan_wire ch ++ head ++ concat chunks).
Proof.
  induction chunks as [|d chunks IH]; intros t ch is_first cl s' o Hc Hw Hcl Hcbw Hck Hb Hfit H Ho.
  - cbn in H. inversion H; subst. left. split; [constructor|reflexivity].
  - cbn [plain_steps map iterate run_actions s_acts s_res andb] in H.
    rewrite Hcl in H. assert (Hif : (if is_first then t else t) = t) by (destruct is_first; reflexivity).
    rewrite Hif in H. cbn [concat] in Hfit. rewrite app_length, Nat2Z.inj_add in Hfit.
    destruct d as [|x d].
    + fold (plain_steps chunks) in H.
      destruct (IH t ch false cl s' o Hc Hw Hcl Hcbw Hck Hb) as [[Ha ->]|(tp & head & Eb & S1 & B1 & W1)]; auto.
      * left. split; [constructor; auto|reflexivity].
      * right. exists tp, head. cbn [concat List.app]. auto.
    + right. unfold task_write in H. cbn [fst] in H. rewrite Hc in H. cbn [negb] in H.
      destruct (write_header cap lower c r None (t, ch)) as [s1 o1] eqn:Eh.
      pose proof (write_header_fresh cap lower c r t ch s1 o1 Hw Eh) as Hh.
      destruct (build_response_header cap lower c r t) as [tp [head|e]] eqn:Eb.
      2: { subst o1. destruct s1. inversion H; subst. discriminate. }
      destruct Hh as (-> & Ht & Hwire). destruct s1 as [t1 ch1]. cbn [fst snd] in *. subst t1.
      assert (Etp : tp = bh_prepare cap lower c r t) by (unfold build_response_header in Eb; inversion Eb; auto).
      destruct (keeps_bh_prepare cap lower c r t) as (K1 & _ & K3 & K4 & K5).
      rewrite <- Etp in K1, K3, K4, K5, Hck.
      assert (Hbp : has_body tp = true) by (unfold has_body in *; rewrite K5; exact Hb).
      destruct (write_body_len (set_wrote true tp) ch1 (x :: d) cl) as (t2 & ch2 & E2 & S2 & B2 & W2);
        try (cbn [t_clen t_chunked t_cbw set_wrote]; congruence); auto.
      { cbn [t_cbw set_wrote]. rewrite K4, Hcbw. clear - Hfit. lia. }
      rewrite E2 in H. fold (plain_steps chunks) in H.
      pose proof S2 as (A1 & A2 & A3 & A4 & A5 & A6 & A7 & A8).
      cbn [t_status t_chunked t_cof t_wrote_header t_complete t_clen t_rh t_v11 t_cbw set_wrote] in *.
      destruct (iterate_after_head_len l1 chunks t2 ch2 false cl) as (t3 & ch3 & E3 & S3 & B3 & W3); try congruence.
      { rewrite (same_head_has_body _ _ S2). exact Hbp. }
      { rewrite B2, K4, Hcbw. clear - Hfit. lia. }
      rewrite E3 in H. clear Etp. inversion H; subst. cbn [fst snd].
      exists tp, head. split; auto. split; [eapply same_head_trans; eauto|]. split.
      * rewrite B3, B2, K4, Hcbw. cbn [concat]. rewrite app_length, Nat2Z.inj_add. clear. lia.
      * rewrite W3, W2, Hwire, <- !app_assoc. reflexivity.
Qed.

End BodyLen.
