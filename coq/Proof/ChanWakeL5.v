(* Proof/ChanWakeL5.v -- layer 5 of the C05 invariant, the wake-up invariant itself:
   whenever the channel would be polled for writing (reading) if the interest set were
   evaluated now, the trigger is pulled, or the I/O thread has not yet committed to an
   interest set without POLLOUT (POLLIN), or some worker is on its way to a pull_trigger. *)
From Coq Require Import List ZArith Bool Arith Lia.
From WV Require Import Model.ChanWake Proof.ChanWakeInv Proof.ChanWakeBase Proof.ChanWakeL1 Proof.ChanWakeL2
  Proof.ChanWakeL3 Proof.ChanWakeL4.
Import ListNotations.
Open Scope Z_scope.

Definition Jw (s : state) : Prop :=
  closed s = false -> (0 < total s \/ wc s = true \/ cwf s = true) ->
  pulled s = true \/
  ((0 < total s /\ cov_tot (io s) = true) \/ (wc s = true /\ cov_wc (io s) = true) \/
   (cwf s = true /\ cov_cwf (io s) = true)) \/
  existsb will_pull (ws s) = true.

Definition Jr (c : cfg) (s : state) : Prop :=
  closed s = false ->
  (wc s = false /\ cwf s = false /\ (nreq s <= lookahead c)%nat /\ total s = 0) ->
  pulled s = true \/ rcov (io s) = true \/ existsb will_pull (ws s) = true.

Definition Inv5 (c : cfg) (s : state) : Prop := Jw s /\ Jr c s.

Lemma inv5_init : forall c nw, Inv5 c (init nw).
Proof.
  intros. split; intros Hc H; simpl in *.
  - destruct H as [H|[H|H]]; try lia; discriminate.
  - auto.
Qed.

Lemma will_pull_notified : forall p, will_pull p = true -> will_pull (notified p) = true.
Proof. destruct p; simpl; auto. Qed.

Lemma existsb_wp_notify : forall l, existsb will_pull l = true -> existsb will_pull (notify_o l) = true.
Proof.
  intros l H. apply existsb_ex in H. destruct H as (j & p & Hj & Hp).
  destruct (notify_o_fwd _ _ _ Hj) as [H1|[_ H1]].
  - eapply existsb_nth; eauto.
  - eapply existsb_nth; eauto. apply will_pull_notified; auto.
Qed.

Lemma existsb_wp_add_task : forall s,
  Inv2 s -> existsb will_pull (ws s) = true -> existsb will_pull (ws (add_task s)) = true.
Proof.
  intros s HI H. destruct (add_task_cases s) as [(_ & -> & _)|(w & r & Eq & -> & _)]; auto.
  apply existsb_ex in H. destruct H as (j & p & Hj & Hp).
  destruct (Nat.eq_dec j w).
  - subst. assert (Hw : nth_error (ws s) w = Some WIdle) by (apply (i2_qw _ HI); rewrite Eq; left; auto).
    rewrite Hw in Hj. inversion Hj; subst. discriminate.
  - apply existsb_nth with (i := j) (p := p); [rewrite nth_error_upd_other by congruence; exact Hj | exact Hp].
Qed.

Lemma add_task_fields5 : forall s,
  wc (add_task s) = wc s /\ cwf (add_task s) = cwf s /\ total (add_task s) = total s /\
  closed (add_task s) = closed s /\ pulled (add_task s) = pulled s /\ nreq (add_task s) = nreq s.
Proof. intros. unfold add_task. simpl. destruct (qwait s); simpl; repeat split; reflexivity. Qed.

Ltac use_pre H :=
  try (specialize (H ltac:(first [assumption | reflexivity | congruence])));
  try (specialize (H ltac:(first [tauto | lia | intuition (try lia; try congruence)]))).

Lemma inv5_step_io : forall c s ch s' l,
  0 <= hw c -> Inv1 s -> Inv2 s -> Inv3 s -> Inv4 c s -> Inv5 c s ->
  step_io c s ch = Some (s', l) -> Inv5 c s'.
Proof.
  intros c s ch s' l Hhw HI1 HI2 HI3 HI4 [HJw HJr] H.
  pose proof (existsb_wp_notify (ws s)) as Hwn. pose proof (existsb_wp_add_task s HI2) as Hwa.
  unfold Jw, Jr in HJw, HJr.
  unfold step_io in H. step_cases H; free_hyps.
  all: unfold after_read, turn_start, hc_return, goio in *.
  all: repeat match goal with |- context [if ?b then _ else _] => destruct b eqn:? end.
  all: z_hyps; nat_hyps.
  all: try match goal with |- context [add_task ?x] =>
         destruct (add_task_fields5 x) as (F1 & F2 & F3 & F4 & F5 & F6) end.
  all: split; [unfold Jw | unfold Jr]; simpl; rewrite ?F1, ?F2, ?F3, ?F4, ?F5, ?F6;
       try match goal with E : io _ = _ |- _ => rewrite ?E; simpl end; intros Hc Hw'.
  all: simpl in HJw, HJr.
  all: try match goal with H : closed _ = true |- _ => simpl in H; congruence end.
  all: try (right; left; reflexivity).
  all: try (right; left; destruct Hw' as [Hx|[Hx|Hx]]; [left|right;left|right;right]; (split; [exact Hx|reflexivity]); fail).
  all: try (right; left; tauto).
  all: try (right; left; intuition (try lia; try congruence); fail).
  all: try (destruct Hw' as (Ew & Ec & En & Et); rewrite ?Et; simpl; tauto).
  all: use_pre HJw; use_pre HJr.
  all: try (destruct HJw as [HJw|[HJw|HJw]]; [tauto | | auto]; fail).
  all: try (destruct HJr as [HJr|[HJr|HJr]]; [tauto | | auto]; fail).
  all: try tauto.
  all: destruct (cwf s); simpl in *; intuition congruence.
Qed.


Lemma length_ws_add_task : forall s, length (ws (add_task s)) = length (ws s).
Proof.
  intros. destruct (add_task_cases s) as [(_ & -> & _)|(w & r & _ & -> & _)]; auto. apply length_upd.
Qed.

Lemma hc_late_cov : forall p, io_hc_late p = true ->
  cov_tot p = true /\ cov_wc p = true /\ cov_cwf p = true /\ rcov p = true.
Proof. destruct p; simpl; intros; try discriminate; auto. Qed.

Lemma inv5_step_w : forall c s i ch s' l,
  0 <= hw c -> Inv1 s -> Inv2 s -> Inv3 s -> Inv4 c s -> Inv5 c s ->
  step_w c s i ch = Some (s', l) -> Inv5 c s'.
Proof.
  intros c s i ch s' l Hhw HI1 HI2 HI3 HI4 [HJw HJr] H. unfold step_w in H.
  destruct (getw s i) as [pc|] eqn:Hg; [|discriminate]. unfold getw in Hg.
  assert (Hscx : w_scx pc = true -> conn s = false) by (intros Hx; eapply (i3_scx _ HI3); eauto).
  assert (Hlen : (i < length (ws s))%nat) by (apply nth_error_Some; congruence).
  pose proof (HI4 _ _ Hg) as Hi4. pose proof (i3_c3 _ HI3) as Hc3.
  unfold Jw, Jr in HJw, HJr.
  step_cases H; free_hyps; simpl in Hscx.
  all: unfold setw, hw_exit in *.
  all: repeat match goal with |- context [if ?b then _ else _] => destruct b eqn:? end.
  all: repeat match goal with |- context [match ?b with SWr _ => _ | SEnd => _ end] => destruct b eqn:? end.
  (* the worker is (still) on its way to a pull_trigger *)
  all: try (split; intros Hc Hw'; right; right; simpl;
            first [ apply existsb_upd_in; [rewrite ?length_ws_add_task; exact Hlen | reflexivity]
                  | eapply existsb_nth; [exact Hg | reflexivity] ]; fail).
  all: try (specialize (Hscx eq_refl); destruct (Hc3 Hscx) as [Hcl|Hl];
            [ split; intros Hc Hw'; simpl in *; congruence
            | destruct (hc_late_cov _ Hl) as (C1 & C2 & C3 & C4);
              split; intros Hc Hw'; simpl in *; rewrite ?C1, ?C2, ?C3, ?C4; auto; right; left; tauto ]; fail).
  - (* WAcq -> WIdle *)
    split; intros Hc Hw'; simpl in *.
    + destruct (HJw Hc Hw') as [H1|[H1|H1]]; auto. right; right. eapply existsb_upd_keep; eauto.
    + destruct (HJr Hc Hw') as [H1|[H1|H1]]; auto. right; right. eapply existsb_upd_keep; eauto.
  - split; intros Hc Hw'; simpl in *.
    + destruct (HJw Hc Hw') as [H1|[H1|H1]]; auto. right; right. eapply existsb_upd_keep; eauto.
    + destruct (HJr Hc Hw') as [H1|[H1|H1]]; auto. right; right. eapply existsb_upd_keep; eauto.
  - (* parks after the exception branch: will_close is set, the trigger pulled *)
    simpl in Hi4. destruct Hi4 as (Hwc & _ & Hcov). split; intros Hc Hw'; simpl in *.
    + destruct Hcov as [H1|[H1|H1]]; [congruence | auto | right; left; right; left; auto].
    + destruct Hw' as (Hx & _). congruence.
  - (* parks in the watermark loop: output above the watermark, the trigger pulled *)
    simpl in Hi4. destruct Hi4 as (Hcn & Hab & Hcov). split; intros Hc Hw'; simpl in *.
    + destruct Hcov as [H1|[H1|H1]]; [congruence | auto | right; left; left; split; auto; lia].
    + destruct Hw' as (_ & _ & _ & Hx). lia.
  - (* service() ends without pull_trigger: connected is False, handle_close is under way *)
    destruct (Hc3 eq_refl) as [Hcl|Hl].
    + split; intros Hc Hw'; simpl in *; congruence.
    + destruct (hc_late_cov _ Hl) as (C1 & C2 & C3 & C4).
      split; intros Hc Hw'; simpl in *; rewrite ?C1, ?C2, ?C3, ?C4; auto.
      right; left. tauto.
  - split; intros Hc Hw'; simpl in *; auto.
Qed.

Lemma inv5_step : forall c s ch s' l,
  0 <= hw c -> Inv1 s -> Inv2 s -> Inv3 s -> Inv4 c s -> Inv5 c s ->
  step c s ch = Some (s', l) -> Inv5 c s'.
Proof.
  intros c s ch s' l Hhw HI1 HI2 HI3 HI4 HI H. unfold step in H. destruct ch;
    try (eapply inv5_step_io; eauto; fail); try (eapply inv5_step_w; eauto; fail).
  - destruct (gone s); [discriminate|]. inversion H; subst. exact HI.
  - destruct (gone s); [discriminate|]. inversion H; subst. exact HI.
Qed.
