(* C16 (c): for a trusted peer the application sees a trusted list-valued
   header only through its trusted suffix: two requests whose header values
   have the same last k elements (and are both accepted) produce the same
   environ, on every key. *)
From Coq Require Import List NArith ZArith Bool Lia.
From WV Require Import Lib.PyBytes Lib.PyStrProxy Lib.Regex Gen.GenRegex Model.Proxy Spec.ProxySpec
  Proof.ProxyDict Proof.ProxyStr Proof.ProxyStages Proof.ProxyTotal Proof.ProxyHops Proof.ProxyRel
  Proof.ProxyC15 Proof.ProxyKinds.
Import ListNotations.
Local Open Scope N_scope.

Definition none : str -> bool := fun _ => false.

Lemma rrel_oks D r1 r2 a b : rrel D r1 r2 -> r1 = Ok a -> r2 = Ok b -> rel D a b.
Proof. intros H -> ->. exact H. Qed.

Lemma mapM_suffix {A B} (f : A -> result B) l cs k : mapM f l = Ok cs -> mapM f (suffix l k) = Ok (suffix cs k).
Proof.
  intro H. unfold suffix. rewrite (mapM_ok_length _ _ _ H). apply mapM_ok_skipn. exact H.
Qed.

Lemma mapM_suffix_eq {A B} (f : A -> result B) l1 l2 cs1 cs2 k :
  mapM f l1 = Ok cs1 -> mapM f l2 = Ok cs2 -> suffix l1 k = suffix l2 k -> suffix cs1 k = suffix cs2 k.
Proof.
  intros H1 H2 Hs. apply (mapM_suffix _ _ _ k) in H1, H2. rewrite Hs in H1. congruence.
Qed.

Lemma agree_set_only K v (e1 e2 : environ) : agree (only K) e1 e2 -> agree none (set K v e1) (set K v e2).
Proof.
  intros H key _. rewrite !lookup_set. destruct (beqb key K) eqn:E; auto.
Qed.

Lemma rel_weaken D s1 s2 : rel none s1 s2 -> rel D s1 s2.
Proof. intros [r_env0 ? ? ? ? ? ?]. constructor; auto. intros key _. apply r_env0. reflexivity. Qed.

Lemma blk_xff_prune tph p s1 s2 raw1 raw2 a b :
  has tph n_xff = true -> rel (only k_xff) s1 s2 ->
  lookup k_xff (env s1) = Some raw1 -> lookup k_xff (env s2) = Some raw2 ->
  suffix (split raw1 [c_comma]) (Pos.to_nat p) = suffix (split raw2 [c_comma]) (Pos.to_nat p) ->
  blk_xff (Zpos p) tph s1 = Ok a -> blk_xff (Zpos p) tph s2 = Ok b -> rel none a b.
Proof.
  intros Ht [r_env0 r_client0 r_fhost0 r_fproto0 r_fport0 r_fwd0 r_unt0] L1 L2 Hs A B.
  apply blk_xff_ok in A as [[_ [Hc|Hc]]|(r1 & cs1 & c1 & u1 & _ & L1' & M1 & H1 & U1 & ->)]; try congruence.
  apply blk_xff_ok in B as [[_ [Hc|Hc]]|(r2 & cs2 & c2 & u2 & _ & L2' & M2 & H2 & U2 & ->)]; try congruence.
  rewrite L1 in L1'. injection L1' as <-. rewrite L2 in L2'. injection L2' as <-.
  rewrite py_lastk_pos in H1, H2. rewrite !py_lastk_pos, Hs.
  pose proof (mapM_suffix_eq _ _ _ _ _ _ M1 M2 Hs) as Hc. rewrite Hc in H1.
  constructor; cbn [env client fhost fproto fport fwd unt]; auto; try congruence.
  apply agree_set_only. exact r_env0.
Qed.

Lemma blk_xfh_prune tph p s1 s2 raw1 raw2 a b :
  has tph n_xfh = true -> rel (only k_xfh) s1 s2 ->
  lookup k_xfh (env s1) = Some raw1 -> lookup k_xfh (env s2) = Some raw2 ->
  suffix (split raw1 [c_comma]) (Pos.to_nat p) = suffix (split raw2 [c_comma]) (Pos.to_nat p) ->
  blk_xfh (Zpos p) tph s1 = Ok a -> blk_xfh (Zpos p) tph s2 = Ok b -> rel none a b.
Proof.
  intros Ht [r_env0 r_client0 r_fhost0 r_fproto0 r_fport0 r_fwd0 r_unt0] L1 L2 Hs A B.
  apply blk_xfh_ok in A as [[_ [Hc|Hc]]|(r1 & cs1 & c1 & u1 & _ & L1' & M1 & H1 & U1 & ->)]; try congruence.
  apply blk_xfh_ok in B as [[_ [Hc|Hc]]|(r2 & cs2 & c2 & u2 & _ & L2' & M2 & H2 & U2 & ->)]; try congruence.
  rewrite L1 in L1'. injection L1' as <-. rewrite L2 in L2'. injection L2' as <-.
  rewrite py_lastk_pos in H1, H2. rewrite !py_lastk_pos, Hs.
  pose proof (mapM_suffix_eq _ _ _ _ _ _ M1 M2 Hs) as Hc. rewrite Hc in H1.
  constructor; cbn [env client fhost fproto fport fwd unt]; auto; try congruence.
  apply agree_set_only. exact r_env0.
Qed.

Lemma blk_fwd_prune tph p s1 s2 raw1 raw2 a b :
  has tph n_fwd = true -> rel (only k_fwd) s1 s2 ->
  lookup k_fwd (env s1) = Some raw1 -> lookup k_fwd (env s2) = Some raw2 ->
  truthy raw1 = true -> truthy raw2 = true ->
  suffix (split raw1 [c_comma]) (Pos.to_nat p) = suffix (split raw2 [c_comma]) (Pos.to_nat p) ->
  blk_forwarded (Zpos p) (blk_fwd_get tph s1) = Ok a -> blk_forwarded (Zpos p) (blk_fwd_get tph s2) = Ok b ->
  rel none a b.
Proof.
  intros Ht [r_env0 r_client0 r_fhost0 r_fproto0 r_fport0 r_fwd0 r_unt0] L1 L2 T1 T2 Hs A B. unfold blk_fwd_get in A, B. rewrite Ht in A, B.
  apply blk_forwarded_ok in A as [[_ Hc]|(r1 & ps1 & F1 & _ & M1 & ->)];
    [cbn [fwd] in Hc; rewrite L1 in Hc; cbn in Hc; congruence|].
  apply blk_forwarded_ok in B as [[_ Hc]|(r2 & ps2 & F2 & _ & M2 & ->)];
    [cbn [fwd] in Hc; rewrite L2 in Hc; cbn in Hc; congruence|].
  cbn [fwd] in F1, F2. rewrite L1 in F1. injection F1 as <-. rewrite L2 in F2. injection F2 as <-.
  cbn [env client fhost fproto fport fwd unt].
  assert (N1 : ps1 <> []).
  { intro Hn. subst ps1. apply mapM_ok_length in M1. destruct (split raw1 [c_comma]) eqn:Es; [|discriminate].
    eapply split_nonempty; eauto. }
  assert (N2 : ps2 <> []).
  { intro Hn. subst ps2. apply mapM_ok_length in M2. destruct (split raw2 [c_comma]) eqn:Es; [|discriminate].
    eapply split_nonempty; eauto. }
  rewrite !py_lastk_pos.
  rewrite <- (suffix_last ps1 (Pos.to_nat p) fwd_empty N1) by lia.
  rewrite <- (suffix_last ps2 (Pos.to_nat p) fwd_empty N2) by lia.
  rewrite (mapM_suffix_eq _ _ _ _ _ _ M1 M2 Hs), Hs, r_client0.
  constructor; cbn [env client fhost fproto fport fwd unt]; auto.
  - apply agree_set_only. exact r_env0.
  - rewrite L1, L2. cbn. congruence.
Qed.

(* the state before the Forwarded block still has forwarded = "" *)
Lemma pre_fwd k tph e s1 s2 s3 s4 s5 :
  blk_xff k tph (init_pst e) = Ok s1 -> blk_xfh k tph s1 = Ok s2 -> blk_proto tph s2 = Ok s3 ->
  blk_port tph s3 = Ok s4 -> blk_by tph s4 = Ok s5 ->
  fwd s5 = Some [] /\
  (forall key, beqb key k_xff = false -> beqb key k_xfh = false -> lookup key (env s5) = lookup key e) /\
  (forall key, beqb key k_xff = false -> lookup key (env s1) = lookup key e).
Proof.
  intros E1 E2 E3 E4 E5.
  assert (F : fwd s5 = Some []).
  { apply blk_by_ok in E5 as (_ & _ & _ & _ & _ & ->).
    apply blk_port_ok in E4 as [[-> _]|(? & ? & _ & _ & _ & ->)];
    apply blk_proto_ok in E3 as [[-> _]|(? & ? & _ & _ & _ & ->)]; cbn [fwd];
    rewrite (fr_fwd _ _ (blk_xfh_frame _ _ _ _ E2)), (fr_fwd _ _ (blk_xff_frame _ _ _ _ E1)); reflexivity. }
  assert (K1 : forall key, beqb key k_xff = false -> lookup key (env s1) = lookup key e).
  { intros key H1. apply blk_xff_ok in E1 as [[-> _]|(? & ? & ? & ? & _ & _ & _ & _ & _ & ->)]; auto.
    cbn [env init_pst]. apply lookup_set_other. exact H1. }
  repeat split; auto.
  intros key H1 H2. apply blk_by_ok in E5 as (-> & _). rewrite (blk_port_env _ _ _ E4), (blk_proto_env _ _ _ E3).
  rewrite <- K1 by exact H1.
  apply blk_xfh_ok in E2 as [[-> _]|(? & ? & ? & ? & _ & _ & _ & _ & _ & ->)]; auto.
  cbn [env]. apply lookup_set_other. exact H2.
Qed.

Lemma select_prune c kd e1 e2 raw1 raw2 p s t :
  (kd = KFor \/ kd = KHost \/ kd = KFwd /\ truthy raw1 = true /\ truthy raw2 = true) ->
  has (tph_of c) (name_of kd) = true ->
  agree (only (key_of kd)) e1 e2 ->
  lookup (key_of kd) e1 = Some raw1 -> lookup (key_of kd) e2 = Some raw2 ->
  suffix (split raw1 [c_comma]) (Pos.to_nat p) = suffix (split raw2 [c_comma]) (Pos.to_nat p) ->
  parse_select e1 (Zpos p) (tph_of c) = Ok s -> parse_select e2 (Zpos p) (tph_of c) = Ok t ->
  rel none s t.
Proof.
  intros Hkd Ht Ha L1 L2 Hs S T.
  apply select_ok_inv in S as (a1 & a2 & a3 & a4 & a5 & A1 & A2 & A3 & A4 & A5 & A6).
  apply select_ok_inv in T as (b1 & b2 & b3 & b4 & b5 & B1 & B2 & B3 & B4 & B5 & B6).
  destruct (pre_fwd _ _ _ _ _ _ _ _ A1 A2 A3 A4 A5) as (FA & KA & KA1).
  destruct (pre_fwd _ _ _ _ _ _ _ _ B1 B2 B3 B4 B5) as (FB & KB & KB1).
  set (tph := tph_of c) in *.
  assert (U : unread none tph) by (constructor; reflexivity).
  destruct Hkd as [-> | [-> | (-> & T1 & T2)]]; cbn [key_of name_of] in *.
  - (* X-Forwarded-For *)
    pose proof (blk_xff_prune tph p _ _ raw1 raw2 a1 b1 Ht (init_rel _ _ _ Ha) L1 L2 Hs A1 B1) as R1.
    pose proof (rrel_oks _ _ _ _ _ (blk_xfh_rel none _ tph _ _ R1 (ur_xfh _ _ U)) A2 B2) as R2.
    pose proof (rrel_oks _ _ _ _ _ (blk_proto_rel none tph _ _ R2 (ur_proto _ _ U)) A3 B3) as R3.
    pose proof (rrel_oks _ _ _ _ _ (blk_port_rel none tph _ _ R3 (ur_port _ _ U)) A4 B4) as R4.
    pose proof (rrel_oks _ _ _ _ _ (blk_by_rel none tph _ _ R4) A5 B5) as R5.
    exact (rrel_oks _ _ _ _ _ (blk_fwd_rel none _ tph _ _ R5 FA FB (ur_fwd _ _ U)) A6 B6).
  - (* X-Forwarded-Host *)
    assert (R1 : rel (only k_xfh) a1 b1).
    { refine (rrel_oks _ _ _ _ _ (blk_xff_rel (only k_xfh) _ tph _ _ (init_rel _ _ _ Ha) _) A1 B1). intros _. keq. }
    assert (L1' : lookup k_xfh (env a1) = Some raw1) by (rewrite KA1 by keq; exact L1).
    assert (L2' : lookup k_xfh (env b1) = Some raw2) by (rewrite KB1 by keq; exact L2).
    pose proof (blk_xfh_prune tph p _ _ raw1 raw2 a2 b2 Ht R1 L1' L2' Hs A2 B2) as R2.
    pose proof (rrel_oks _ _ _ _ _ (blk_proto_rel none tph _ _ R2 (ur_proto _ _ U)) A3 B3) as R3.
    pose proof (rrel_oks _ _ _ _ _ (blk_port_rel none tph _ _ R3 (ur_port _ _ U)) A4 B4) as R4.
    pose proof (rrel_oks _ _ _ _ _ (blk_by_rel none tph _ _ R4) A5 B5) as R5.
    exact (rrel_oks _ _ _ _ _ (blk_fwd_rel none _ tph _ _ R5 FA FB (ur_fwd _ _ U)) A6 B6).
  - (* Forwarded *)
    assert (R1 : rel (only k_fwd) a1 b1).
    { refine (rrel_oks _ _ _ _ _ (blk_xff_rel (only k_fwd) _ tph _ _ (init_rel _ _ _ Ha) _) A1 B1). intros _. keq. }
    assert (R2 : rel (only k_fwd) a2 b2).
    { refine (rrel_oks _ _ _ _ _ (blk_xfh_rel (only k_fwd) _ tph _ _ R1 _) A2 B2). intros _. keq. }
    assert (R3 : rel (only k_fwd) a3 b3).
    { refine (rrel_oks _ _ _ _ _ (blk_proto_rel (only k_fwd) tph _ _ R2 _) A3 B3). intros _. keq. }
    assert (R4 : rel (only k_fwd) a4 b4).
    { refine (rrel_oks _ _ _ _ _ (blk_port_rel (only k_fwd) tph _ _ R3 _) A4 B4). intros _. keq. }
    pose proof (rrel_oks _ _ _ _ _ (blk_by_rel (only k_fwd) tph _ _ R4) A5 B5) as R5.
    assert (L1' : lookup k_fwd (env a5) = Some raw1) by (rewrite KA by keq; exact L1).
    assert (L2' : lookup k_fwd (env b5) = Some raw2) by (rewrite KB by keq; exact L2).
    exact (blk_fwd_prune tph p _ _ raw1 raw2 s t Ht R5 L1' L2' T1 T2 Hs A6 B6).
Qed.

Lemma prune_two_runs c kd e1 e2 raw1 raw2 p o1 o2 :
  (kd = KFor \/ kd = KHost \/ kd = KFwd /\ truthy raw1 = true /\ truthy raw2 = true) ->
  has (tph_of c) (name_of kd) = true -> trusted_proxy_count c = Zpos p ->
  on_trusted_path c e1 = true ->
  agree (only (key_of kd)) e1 e2 ->
  lookup (key_of kd) e1 = Some raw1 -> lookup (key_of kd) e2 = Some raw2 ->
  suffix (split raw1 [c_comma]) (Pos.to_nat p) = suffix (split raw2 [c_comma]) (Pos.to_nat p) ->
  middleware c e1 = Ok o1 -> middleware c e2 = Ok o2 ->
  forall key, lookup key o1 = lookup key o2.
Proof.
  intros Hkd Ht Hp Htp Ha L1 L2 Hs M1 M2.
  assert (Htp2 : on_trusted_path c e2 = true).
  { unfold on_trusted_path in *. rewrite <- (Ha k_remote_addr); [exact Htp|]. unfold only. destruct kd; keq. }
  apply middleware_ok_inv in M1 as [[Hc _]|(_ & s & s' & S & A & ->)]; [congruence|].
  apply middleware_ok_inv in M2 as [[Hc _]|(_ & t & t' & T & B & ->)]; [congruence|].
  rewrite Hp in S, T.
  pose proof (select_prune c kd e1 e2 raw1 raw2 p s t Hkd Ht Ha L1 L2 Hs S T) as R.
  pose proof (rrel_oks _ _ _ _ _ (parse_apply_rel none s t eq_refl R) A B) as [r_env0 r_client0 r_fhost0 r_fproto0 r_fport0 r_fwd0 r_unt0].
  intros key. rewrite r_unt0. destruct (clear_untrusted c).
  - apply (clear_agree none); auto.
  - apply r_env0. reflexivity.
Qed.
