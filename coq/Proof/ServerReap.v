(* C18, reaping: an idle connection whose last activity is older than
   channel_timeout is closed by the first poll turn in which its listener's
   maintenance is due -- PROVIDED its socket is writable when polled.  Without
   that hypothesis the statement is false (F21, refuted at the end). *)
From Coq Require Import List ZArith Bool Lia ZifyBool Arith.
From WV Require Import Gen.GenPreds Model.Server Proof.ServerBase Proof.ServerInv Proof.ServerLimit.
Import ListNotations.
Local Open Scope Z_scope.

(* ------------------------------------------------------------------------- *)
(* descriptors: every fd is in at most one place (a backlog or the map) *)

Definition bl_fds (l : listener) : list Z := map s_fd (l_backlog l).
Definition backlog_fds (s : state) : list Z := flat_map bl_fds (st_listeners s).
Definition chan_fds (s : state) : list Z := map c_fd (st_chans s).
Definition cnt (f : Z) (l : list Z) : nat := count_occ Z.eq_dec l f.

Definition wf (s : state) : Prop :=
  forall f, (cnt f (backlog_fds s) + cnt f (chan_fds s) <= 1)%nat /\
            (st_nextfd s <= f -> (cnt f (backlog_fds s) + cnt f (chan_fds s) = 0)%nat).

Lemma cnt_app : forall f a b, cnt f (a ++ b) = (cnt f a + cnt f b)%nat.
Proof. intros. unfold cnt. apply count_occ_app. Qed.

Lemma cnt_in : forall f l, In f l <-> (cnt f l > 0)%nat.
Proof. intros. unfold cnt. apply count_occ_In. Qed.

Lemma add_backlog_cnt : forall f i k ls ls',
  add_backlog i k ls = Some ls' ->
  cnt f (flat_map bl_fds ls') = (cnt f (flat_map bl_fds ls) + cnt f [s_fd k])%nat.
Proof.
  induction i as [|i IH]; intros k ls ls' H; destruct ls as [|l r]; cbn in H; try discriminate.
  - inversion H; subst. cbn [flat_map]. rewrite !cnt_app. unfold bl_fds at 1. cbn [l_backlog].
    rewrite map_app, cnt_app. cbn [map]. fold (bl_fds l). lia.
  - destruct (add_backlog i k r) eqn:E; [|discriminate]. inversion H; subst. cbn [flat_map].
    rewrite !cnt_app. rewrite (IH k r l0 E). lia.
Qed.

Lemma flat_map_map : forall (A B C : Type) (g : A -> B) (h : B -> list C) l,
  flat_map h (map g l) = flat_map (fun x => h (g x)) l.
Proof. induction l as [|x l IH]; cbn; [reflexivity|]. rewrite IH. reflexivity. Qed.

Lemma upd_sock_fds : forall fd g s, (forall k, s_fd (g k) = s_fd k) ->
  backlog_fds (upd_sock fd g s) = backlog_fds s /\ chan_fds (upd_sock fd g s) = chan_fds s.
Proof.
  intros fd g s Hg. unfold backlog_fds, chan_fds, upd_sock. cbn. split.
  - rewrite flat_map_map. apply flat_map_ext. intros l. unfold bl_fds. cbn. rewrite map_map.
    apply map_ext. intros k. destruct (s_fd k =? fd); [apply Hg|reflexivity].
  - rewrite map_map. apply map_ext. intros c. destruct (c_fd c =? fd); [|reflexivity]. unfold c_fd. cbn. apply Hg.
Qed.

Lemma upd_chan_fds : forall fd g s, (forall c, c_fd (g c) = c_fd c) ->
  backlog_fds (upd_chan fd g s) = backlog_fds s /\ chan_fds (upd_chan fd g s) = chan_fds s.
Proof.
  intros fd g s Hg. unfold backlog_fds, chan_fds, upd_chan. cbn. split; [reflexivity|].
  rewrite map_map. apply map_ext. intros c. destruct (c_fd c =? fd); [apply Hg|reflexivity].
Qed.

Lemma accepted_cnt : forall f p now mlen ls idx,
  (cnt f (flat_map bl_fds (map (la_listener p now mlen) ls)) + cnt f (map c_fd (accepted p now mlen idx ls))
   = cnt f (flat_map bl_fds ls))%nat.
Proof.
  induction ls as [|l r IH]; intros idx; cbn [map flat_map accepted]; [reflexivity|].
  rewrite map_app, !cnt_app. specialize (IH (S idx)).
  assert (H : (cnt f (bl_fds (la_listener p now mlen l)) +
               cnt f (map c_fd (if acc_ok p mlen l then match l_backlog l with k :: _ => [new_chan now idx k] | [] => [] end else []))
               = cnt f (bl_fds l))%nat).
  { unfold bl_fds, la_listener. cbn [l_backlog]. destruct (acc_ok p mlen l); [|cbn; lia].
    destruct (l_backlog l) as [|k bl]; [cbn; lia|]. cbn [tl map]. unfold c_fd at 1. cbn [new_chan c_sock].
    unfold cnt. cbn [count_occ]. destruct (Z.eq_dec (s_fd k) f); lia. }
  lia.
Qed.

Lemma survivors_cnt : forall f p now cs,
  (cnt f (map c_fd (flat_map (chan_turn p now) cs)) <= cnt f (map c_fd cs))%nat.
Proof.
  induction cs as [|c cs IH]; cbn [flat_map map]; [lia|].
  rewrite map_app, cnt_app. pose proof (chan_turn_len p now c) as L.
  destruct (chan_turn p now c) as [|c' [|c'' rest]] eqn:E; cbn [length] in L; try lia.
  - unfold cnt in *. cbn [map count_occ]. destruct (Z.eq_dec (c_fd c) f); lia.
  - assert (I : In c' (chan_turn p now c)) by (rewrite E; left; reflexivity).
    apply chan_turn_id in I. destruct I as [A _]. unfold cnt in *. cbn [map count_occ]. rewrite A.
    destruct (Z.eq_dec (c_fd c) f); lia.
Qed.

Lemma mark_fds : forall p now idx ls cs, map c_fd (map (mark p now idx ls) cs) = map c_fd cs.
Proof. intros. rewrite map_map. apply map_ext. intros c. apply mark_fd. Qed.

Lemma poll_cnt : forall f p s,
  (cnt f (backlog_fds (poll p s)) + cnt f (chan_fds (poll p s)) <= cnt f (backlog_fds s) + cnt f (chan_fds s))%nat.
Proof.
  intros f p s. rewrite poll_eq. unfold backlog_fds, chan_fds, poll_chans. cbn [st_listeners st_chans].
  rewrite map_app, cnt_app.
  pose proof (accepted_cnt f p (st_clock s) (map_len s) (st_listeners s) 0).
  pose proof (survivors_cnt f p (st_clock s) (map (mark p (st_clock s) 0 (st_listeners s)) (st_chans s))) as S.
  rewrite mark_fds in S. lia.
Qed.

Lemma sock_fd_pres : forall (t : tok) (n : N),
  (forall k, s_fd (if s_gone k then k else set_rx k (s_rx k ++ [t])) = s_fd k) /\
  (forall k, s_fd (if s_reading k then k else set_room k (s_room k + Z.of_N n)) = s_fd k) /\
  (forall k, s_fd (set_reading k false) = s_fd k) /\ (forall k, s_fd (set_gone k) = s_fd k).
Proof.
  intros. repeat split; intros k; try reflexivity.
  - destruct (s_gone k); reflexivity.
  - destruct (s_reading k); reflexivity.
Qed.

Lemma step_wf : forall p s e, wf s -> wf (step p s e).
Proof.
  intros p s e H.
  assert (EQ : forall s', backlog_fds s' = backlog_fds s /\ chan_fds s' = chan_fds s -> st_nextfd s' = st_nextfd s -> wf s').
  { intros s' [A B] C f. rewrite A, B, C. apply H. }
  destruct (sock_fd_pres TPartial 0%N) as (_ & _ & P3 & P4).
  destruct e; cbn [step].
  - destruct (add_backlog l _ (st_listeners s)) eqn:E; [|exact H].
    intros f. unfold backlog_fds, chan_fds. cbn [st_listeners st_chans st_nextfd].
    rewrite (add_backlog_cnt f _ _ _ _ E). cbn [s_fd]. destruct (H f) as [H1 H2]. destruct (H (st_nextfd s)) as [_ H3].
    unfold backlog_fds, chan_fds in *. unfold cnt in *. cbn [count_occ].
    destruct (Z.eq_dec (st_nextfd s) f) as [EQf|NE].
    + assert (Z0 : st_nextfd s <= f) by lia. specialize (H2 Z0). split; [lia|]. intros; lia.
    + split; [lia|]. intros. assert (Z0 : st_nextfd s <= f) by lia. specialize (H2 Z0). lia.
  - apply EQ; [|reflexivity]. apply upd_sock_fds. apply (sock_fd_pres t 0%N).
  - apply EQ; [|reflexivity]. apply upd_chan_fds. intros c. apply service_fd.
  - apply EQ; [|reflexivity]. apply upd_sock_fds. apply (sock_fd_pres TPartial n).
  - apply EQ; [|reflexivity]. apply upd_sock_fds. exact P3.
  - apply EQ; [|reflexivity]. apply upd_sock_fds. exact P4.
  - apply EQ; [split; reflexivity|reflexivity].
  - intros f. pose proof (poll_cnt f p s) as C. destruct (H f) as [H1 H2].
    replace (st_nextfd (poll p s)) with (st_nextfd s) by (rewrite poll_eq; reflexivity).
    split; [lia|]. intros L. specialize (H2 L). lia.
Qed.

Theorem wf_reachable : forall p nl t0 fd0 s, reachable p nl t0 fd0 s -> wf s.
Proof.
  intros p nl t0 fd0. apply reachable_ind.
  - intros f. unfold backlog_fds, chan_fds, init. cbn [st_listeners st_chans map].
    assert (E : forall n, flat_map bl_fds (repeat (mkListener true false 0 []) n) = []).
    { induction n; cbn; auto. }
    rewrite E. cbn. split; [lia|reflexivity].
  - intros s e _ H. apply step_wf. exact H.
Qed.

Lemma wf_chan_not_backlog : forall s f, wf s -> In f (chan_fds s) -> ~ In f (backlog_fds s).
Proof.
  intros s f H I B. apply cnt_in in I. apply cnt_in in B. destruct (H f) as [H1 _]. lia.
Qed.

Lemma wf_chan_lt_nextfd : forall s f, wf s -> In f (chan_fds s) -> f < st_nextfd s.
Proof.
  intros s f H I. apply cnt_in in I. destruct (H f) as [_ H2].
  destruct (Z.lt_ge_cases f (st_nextfd s)); [assumption|]. specialize (H2 H0). lia.
Qed.

(* ------------------------------------------------------------------------- *)
(* an idle, expired connection *)

(* no request queued or executing, nothing received that the server has not
   read, nothing the server could send now (no output, or the peer has stalled
   with a full send buffer), last activity older than channel_timeout *)
Definition quiet_chan (p : params) (o : nat) (clk : Z) (c : chan) : Prop :=
  c_owner c = o /\ c_requests c = [] /\ s_rx (c_sock c) = [] /\
  (c_pend c <= 0 \/ (s_reading (c_sock c) = false /\ s_room (c_sock c) <= 0)) /\
  c_last c + p_timeout p < clk.

(* events that are not activity of connection f: everything except the client
   of f sending data or reading *)
Definition quiet_ev (f : Z) (e : event) : Prop :=
  match e with ESend fd _ => fd <> f | EReads fd _ => fd <> f | _ => True end.

Definition evolves (c0 c' : chan) : Prop :=
  c_fd c' = c_fd c0 /\ c_owner c' = c_owner c0 /\ c_requests c' = c_requests c0 /\
  s_rx (c_sock c') = s_rx (c_sock c0) /\ c_pend c' = c_pend c0 /\ s_room (c_sock c') = s_room (c_sock c0) /\
  c_last c' = c_last c0 /\ (s_reading (c_sock c0) = false -> s_reading (c_sock c') = false) /\
  (c_wc c0 = true -> c_wc c' = true) /\ (s_gone (c_sock c0) = true -> s_gone (c_sock c') = true).

Lemma evolves_refl : forall c, evolves c c.
Proof. intros c. unfold evolves. repeat split; auto. Qed.

Lemma quiet_evolves : forall p o clk clk' c0 c', quiet_chan p o clk c0 -> evolves c0 c' -> clk <= clk' -> quiet_chan p o clk' c'.
Proof.
  intros p o clk clk' c0 c' (A & B & C & D & E) (E1 & E2 & E3 & E4 & E5 & E6 & E7 & E8 & _) L.
  unfold quiet_chan. rewrite E2, E3, E4, E5, E6, E7.
  split; [assumption|]. split; [assumption|]. split; [assumption|]. split; [|lia].
  destruct D as [D|[D1 D2]]; [left; assumption|right; split; auto].
Qed.

Lemma chan_turn_quiet : forall p o now c, quiet_chan p o now c -> chan_turn p now c = [] \/ chan_turn p now c = [c].
Proof.
  intros p o now c (_ & R & X & D & _). unfold chan_turn. rewrite chan_sel_spec.
  unfold sel_readable. rewrite X. cbn [is_nil negb orb].
  match goal with |- context [negb ?a && s_gone (c_sock c)] => destruct (negb a && s_gone (c_sock c)) eqn:RR end.
  - left. unfold handle_read. rewrite X. reflexivity.
  - match goal with |- context [(?a && sel_writable (c_sock c))] => destruct (a && sel_writable (c_sock c)) eqn:WW end;
      [|right; reflexivity].
    rewrite handle_write_spec. unfold hw_flushes, len_requests. rewrite R. cbn [length Z.of_nat Z.eqb orb].
    assert (T : (if c_cwf c && (c_pend c =? 0) then None else if c_wc c then None else Some c) = None \/
                (if c_cwf c && (c_pend c =? 0) then None else if c_wc c then None else Some c) = Some c).
    { destruct (c_cwf c && (c_pend c =? 0)); [left; reflexivity|]. destruct (c_wc c); [left|right]; reflexivity. }
    unfold flush_some. destruct (Z.leb_spec (c_pend c) 0) as [LE|GT].
    + destruct T as [-> | ->]; [left|right]; reflexivity.
    + destruct D as [D|[D1 D2]]; [lia|].
      apply andb_prop in WW. destruct WW as [_ WW]. unfold sel_writable in WW. rewrite D1 in WW.
      destruct (Z.ltb_spec 0 (s_room (c_sock c))); [lia|]. rewrite !orb_false_r in WW. rewrite WW. left. reflexivity.
Qed.

Lemma chan_turn_reaped : forall p o now c,
  quiet_chan p o now c -> c_wc c = true -> sel_writable (c_sock c) = true -> chan_turn p now c = [].
Proof.
  intros p o now c (_ & R & X & D & _) W S. unfold chan_turn. rewrite chan_sel_spec. rewrite W, S.
  cbn [orb negb andb]. rewrite orb_true_r. cbn [andb].
  rewrite handle_write_spec. unfold hw_flushes, len_requests. rewrite R. cbn [length Z.of_nat Z.eqb orb].
  unfold flush_some. destruct (Z.leb_spec (c_pend c) 0) as [LE|GT].
  - rewrite W. destruct (c_cwf c && (c_pend c =? 0)); reflexivity.
  - destruct D as [D|[D1 D2]]; [lia|]. unfold sel_writable in S. rewrite D1 in S.
    destruct (Z.ltb_spec 0 (s_room (c_sock c))); [lia|]. rewrite !orb_false_r in S. rewrite S. reflexivity.
Qed.

(* the frame of connection f *)
Definition FQ (p : params) (f : Z) (o : nat) (st : state) : Prop :=
  (forall c, In c (st_chans st) -> c_fd c = f -> quiet_chan p o (st_clock st) c) /\
  ~ In f (backlog_fds st) /\ f < st_nextfd st.

Lemma in_accepted_fd : forall p now mlen ls idx c,
  In c (accepted p now mlen idx ls) -> In (c_fd c) (flat_map bl_fds ls).
Proof.
  intros p now mlen ls idx c H. apply in_accepted in H. destruct H as (l & k & o & A & B & ->).
  apply in_flat_map. exists l. split; [exact A|]. unfold bl_fds, c_fd. cbn. apply in_map. exact B.
Qed.

Lemma la_backlog_incl : forall p now mlen ls f,
  In f (flat_map bl_fds (map (la_listener p now mlen) ls)) -> In f (flat_map bl_fds ls).
Proof.
  intros p now mlen ls f H. rewrite flat_map_map in H. apply in_flat_map in H. destruct H as (l & A & B).
  apply in_flat_map. exists l. split; [exact A|]. unfold bl_fds, la_listener in *. cbn in B.
  destruct (acc_ok p mlen l); [|exact B]. destruct (l_backlog l); [exact B|]. cbn in *. right. exact B.
Qed.

(* what a quiet event can do to the channels of f *)
Lemma quiet_step : forall p f o st e,
  FQ p f o st -> quiet_ev f e ->
  forall c', In c' (st_chans (step p st e)) -> c_fd c' = f ->
  exists c0, In c0 (st_chans st) /\ c_fd c0 = f /\ evolves c0 c' /\
             (e = EPoll -> c' = mark p (st_clock st) 0 (st_listeners st) c0).
Proof.
  intros p f o st e (Q & NB & LT) QE c' I F.
  assert (US : forall fd g, (forall k, s_fd (g k) = s_fd k) ->
               (fd = f -> forall c0, evolves c0 (set_sock c0 (g (c_sock c0)))) ->
               In c' (st_chans (upd_sock fd g st)) ->
               exists c0, In c0 (st_chans st) /\ c_fd c0 = f /\ evolves c0 c').
  { intros fd g Hg Hev I0. cbn in I0. apply in_map_iff in I0. destruct I0 as (c0 & E0 & I0).
    exists c0. split; [exact I0|]. destruct (Z.eqb_spec (c_fd c0) fd) as [EQ|NE].
    - subst c'. unfold c_fd in F. cbn in F. rewrite Hg in F. split; [exact F|]. apply Hev. unfold c_fd in EQ. congruence.
    - subst c'. split; [exact F|apply evolves_refl]. }
  destruct e; cbn [step] in I; cbn [quiet_ev] in QE.
  - destruct (add_backlog l _ _); cbn in I; exists c'; (split; [exact I|]); (split; [exact F|]); (split; [apply evolves_refl|discriminate]).
  - destruct (US fd _ (proj1 (sock_fd_pres t 0%N)) (fun E => match QE E with end) I) as (c0 & A & B & C).
    exists c0. split; [exact A|]. split; [exact B|]. split; [exact C|discriminate].
  - cbn in I. apply in_map_iff in I. destruct I as (c0 & E0 & I0). exists c0. split; [exact I0|].
    destruct (Z.eqb_spec (c_fd c0) fd) as [EQ|NE].
    + assert (F0 : c_fd c0 = f) by (subst c'; rewrite (proj1 (service_fd p (st_clock st) c0 writes)) in F; exact F).
      destruct (Q c0 I0 F0) as (_ & R & _). unfold service in E0. rewrite R in E0. subst c'.
      split; [exact F0|]. split; [apply evolves_refl|discriminate].
    + subst c'. split; [exact F|]. split; [apply evolves_refl|discriminate].
  - destruct (US fd _ (proj1 (proj2 (sock_fd_pres TPartial n))) (fun E => match QE E with end) I) as (c0 & A & B & C).
    exists c0. split; [exact A|]. split; [exact B|]. split; [exact C|discriminate].
  - destruct (US fd (fun k => set_reading k false) (fun k => eq_refl)) as (c0 & A & B & C); [|exact I|].
    + intros _ c0. unfold evolves, c_fd. cbn. repeat split; auto.
    + exists c0. split; [exact A|]. split; [exact B|]. split; [exact C|discriminate].
  - destruct (US fd set_gone (fun k => eq_refl)) as (c0 & A & B & C); [|exact I|].
    + intros _ c0. unfold evolves, c_fd. cbn. repeat split; auto.
    + exists c0. split; [exact A|]. split; [exact B|]. split; [exact C|discriminate].
  - cbn in I. exists c'. split; [exact I|]. split; [exact F|]. split; [apply evolves_refl|discriminate].
  - rewrite poll_eq in I. cbn [st_chans] in I. unfold poll_chans in I. apply in_app_or in I. destruct I as [I|I].
    + apply in_flat_map in I. destruct I as (c1 & I1 & I2). apply in_map_iff in I1. destruct I1 as (c0 & E1 & I0).
      pose proof (chan_turn_id _ _ _ _ I2) as [A _]. subst c1. rewrite mark_fd in A.
      assert (F0 : c_fd c0 = f) by congruence.
      pose proof (Q c0 I0 F0) as Q0.
      destruct (mark_fields p (st_clock st) 0 (st_listeners st) c0) as (M1 & M2 & M3 & M4 & M5 & M6 & M7).
      assert (EV : evolves c0 (mark p (st_clock st) 0 (st_listeners st) c0)).
      { unfold evolves. rewrite mark_fd, M1, M2, M3, M5, M6. repeat split; auto.
        unfold mark. destruct (_ && _); cbn; auto. }
      pose proof (quiet_evolves p o _ _ _ _ Q0 EV (Z.le_refl _)) as Q1.
      destruct (chan_turn_quiet p o _ _ Q1) as [T|T]; rewrite T in I2; [contradiction|].
      destruct I2 as [<-|[]]. exists c0. split; [exact I0|]. split; [exact F0|]. split; [exact EV|intros _; reflexivity].
    + apply in_accepted_fd in I. rewrite F in I. contradiction.
Qed.

Lemma FQ_step : forall p f o st e, FQ p f o st -> quiet_ev f e -> FQ p f o (step p st e).
Proof.
  intros p f o st e H QE. pose proof H as (Q & NB & LT). split; [|split].
  - intros c' I F. destruct (quiet_step p f o st e H QE c' I F) as (c0 & I0 & F0 & EV & _).
    eapply quiet_evolves; [apply Q; eauto|exact EV|apply step_clock_mono].
  - destruct (sock_fd_pres TPartial 0%N) as (_ & _ & P3 & P4).
    destruct e; cbn [step].
    + destruct (add_backlog l _ (st_listeners st)) eqn:E; [|exact NB]. intros B. apply cnt_in in B.
      unfold backlog_fds in B. cbn [st_listeners] in B. rewrite (add_backlog_cnt f _ _ _ _ E) in B. cbn [s_fd] in B.
      unfold cnt in B at 2. cbn [count_occ] in B. destruct (Z.eq_dec (st_nextfd st) f); [lia|].
      apply NB. apply cnt_in. unfold backlog_fds. lia.
    + rewrite (proj1 (upd_sock_fds fd _ st (proj1 (sock_fd_pres t 0%N)))). exact NB.
    + exact NB.
    + rewrite (proj1 (upd_sock_fds fd _ st (proj1 (proj2 (sock_fd_pres TPartial n))))). exact NB.
    + rewrite (proj1 (upd_sock_fds fd _ st P3)). exact NB.
    + rewrite (proj1 (upd_sock_fds fd _ st P4)). exact NB.
    + exact NB.
    + rewrite poll_eq. unfold backlog_fds. cbn [st_listeners]. intros B. apply la_backlog_incl in B. exact (NB B).
  - destruct e; cbn [step]; try exact LT.
    + destruct (add_backlog l _ _); cbn; lia.
    + rewrite poll_eq. exact LT.
Qed.

(* ------------------------------------------------------------------------- *)
(* tracking the owner's next maintenance *)

Lemma due_owner_nth : forall now ls idx i,
  due_owner now idx ls (idx + i) = match nth_error ls i with Some l => l_ncc l <=? now | None => false end.
Proof.
  induction ls as [|l r IH]; intros idx i; cbn [due_owner]; [destruct i; reflexivity|].
  destruct i as [|i].
  - rewrite Nat.add_0_r, Nat.eqb_refl. reflexivity.
  - destruct (Nat.eqb_spec (idx + S i) idx); [lia|]. replace (idx + S i)%nat with (S idx + i)%nat by lia.
    rewrite IH. reflexivity.
Qed.

Lemma add_backlog_nth : forall i k ls ls' j l,
  add_backlog i k ls = Some ls' -> nth_error ls j = Some l ->
  exists l', nth_error ls' j = Some l' /\ l_ncc l' = l_ncc l.
Proof.
  induction i as [|i IH]; intros k ls ls' j l H N; destruct ls as [|l0 r]; cbn in H; try discriminate.
  - inversion H; subst. destruct j; cbn in *; [inversion N; subst; eauto|eauto].
  - destruct (add_backlog i k r) eqn:E; [|discriminate]. inversion H; subst. destruct j; cbn in *; [eauto|].
    eapply IH; eauto.
Qed.

Lemma step_ncc_nth : forall p st e o l,
  nth_error (st_listeners st) o = Some l ->
  exists l', nth_error (st_listeners (step p st e)) o = Some l' /\
             (l_ncc l' = l_ncc l \/ (e = EPoll /\ l_ncc l <= st_clock st)).
Proof.
  intros p st e o l N.
  assert (U : forall fd g, exists l', nth_error (st_listeners (upd_sock fd g st)) o = Some l' /\
                (l_ncc l' = l_ncc l \/ (e = EPoll /\ l_ncc l <= st_clock st))).
  { intros fd g. cbn. rewrite nth_error_map, N. cbn. eexists. split; [reflexivity|]. left. reflexivity. }
  destruct e; cbn [step]; try apply U; try (exists l; split; [exact N|left; reflexivity]).
  - destruct (add_backlog l0 _ (st_listeners st)) eqn:E; [|exists l; auto].
    destruct (add_backlog_nth _ _ _ _ _ _ E N) as (l' & A & B). exists l'. cbn. auto.
  - rewrite poll_eq. cbn [st_listeners]. rewrite nth_error_map, N. cbn. eexists. split; [reflexivity|]. cbn.
    destruct (Z.leb_spec (l_ncc l) (st_clock st)); [right; auto|left; reflexivity].
Qed.

(* either already marked, or the owner's maintenance is due by ncc0 at the latest *)
Definition tracked (f : Z) (o : nat) (ncc0 : Z) (st : state) : Prop :=
  forall c, In c (st_chans st) -> c_fd c = f ->
    c_wc c = true \/ exists l, nth_error (st_listeners st) o = Some l /\ l_ncc l <= ncc0.

Lemma mark_sets : forall p now ls c l,
  nth_error ls (c_owner c) = Some l -> l_ncc l <= now -> c_requests c = [] -> c_last c + p_timeout p < now ->
  c_wc (mark p now 0 ls c) = true.
Proof.
  intros p now ls c l N D R E. unfold mark.
  pose proof (due_owner_nth now ls 0 (c_owner c)) as DN. cbn [Nat.add] in DN. rewrite DN, N.
  destruct (Z.leb_spec (l_ncc l) now); [|lia]. unfold expired, len_requests. rewrite R. cbn [length Z.of_nat Z.eqb andb].
  destruct (Z.ltb_spec (c_last c) (now - p_timeout p)); [reflexivity|lia].
Qed.

Lemma tracked_step : forall p f o ncc0 st e,
  FQ p f o st -> tracked f o ncc0 st -> quiet_ev f e -> tracked f o ncc0 (step p st e).
Proof.
  intros p f o ncc0 st e H T QE c' I F.
  destruct (quiet_step p f o st e H QE c' I F) as (c0 & I0 & F0 & EV & MK).
  destruct (T c0 I0 F0) as [W|(l & N & D)].
  - left. apply EV. exact W.
  - destruct (step_ncc_nth p st e o l N) as (l' & N' & [S|[-> DUE]]).
    + right. exists l'. split; [exact N'|lia].
    + left. rewrite (MK eq_refl). destruct H as (Q & _). destruct (Q c0 I0 F0) as (O & R & _ & _ & E).
      eapply mark_sets; eauto. rewrite O. exact N.
Qed.

Lemma quiet_run : forall p f o ncc0 es st,
  FQ p f o st -> tracked f o ncc0 st -> Forall (quiet_ev f) es ->
  FQ p f o (run p st es) /\ tracked f o ncc0 (run p st es).
Proof.
  induction es as [|e es IH]; intros st H T Q; cbn; [auto|].
  inversion Q; subst. apply IH; [apply FQ_step|apply tracked_step|]; assumption.
Qed.

(* the poll turn at which the owner's maintenance is due (or has been) closes f *)
Lemma due_poll_closes : forall p f o ncc0 st,
  FQ p f o st -> tracked f o ncc0 st -> ncc0 <= st_clock st ->
  (forall c, In c (st_chans st) -> c_fd c = f -> sel_writable (c_sock c) = true) ->
  ~ In f (chan_fds (poll p st)).
Proof.
  intros p f o ncc0 st H T D WR I. unfold chan_fds in I. apply in_map_iff in I. destruct I as (c' & F & I).
  pose proof H as (Q & NB & _).
  rewrite poll_eq in I. cbn [st_chans] in I. unfold poll_chans in I. apply in_app_or in I. destruct I as [I|I].
  - apply in_flat_map in I. destruct I as (c1 & I1 & I2). apply in_map_iff in I1. destruct I1 as (c0 & E1 & I0).
    pose proof (chan_turn_id _ _ _ _ I2) as [A _]. subst c1. rewrite mark_fd in A.
    assert (F0 : c_fd c0 = f) by congruence.
    pose proof (Q c0 I0 F0) as Q0. pose proof Q0 as (O & R & _ & _ & E).
    destruct (mark_fields p (st_clock st) 0 (st_listeners st) c0) as (M1 & M2 & M3 & M4 & M5 & M6 & M7).
    assert (EV : evolves c0 (mark p (st_clock st) 0 (st_listeners st) c0)).
    { unfold evolves. rewrite mark_fd, M1, M2, M3, M5, M6. repeat split; auto.
      unfold mark. destruct (_ && _); cbn; auto. }
    pose proof (quiet_evolves p o _ _ _ _ Q0 EV (Z.le_refl _)) as Q1.
    assert (W1 : c_wc (mark p (st_clock st) 0 (st_listeners st) c0) = true).
    { destruct (T c0 I0 F0) as [W|(l & N & DL)]; [apply EV; exact W|].
      eapply mark_sets; eauto; [rewrite O; exact N|lia]. }
    rewrite (chan_turn_reaped p o _ _ Q1 W1) in I2; [contradiction|]. rewrite M1. apply WR; assumption.
  - apply in_accepted_fd in I. rewrite F in I. contradiction.
Qed.

(* ------------------------------------------------------------------------- *)
(* the reaping theorems *)

Definition idle_expired (p : params) (f : Z) (o : nat) (s : state) : Prop :=
  In f (chan_fds s) /\ forall c, In c (st_chans s) -> c_fd c = f -> quiet_chan p o (st_clock s) c.

Definition writable_when_polled (f : Z) (st : state) : Prop :=
  forall c, In c (st_chans st) -> c_fd c = f -> sel_writable (c_sock c) = true.

Lemma idle_FQ : forall p f o s, wf s -> idle_expired p f o s -> FQ p f o s.
Proof.
  intros p f o s W [I Q]. split; [exact Q|]. split; [apply wf_chan_not_backlog|apply wf_chan_lt_nextfd]; assumption.
Qed.

(* first form: the first poll turn at a time >= the owner's next_channel_cleanup *)
Theorem reap_at_due_poll : forall p nl t0 fd0 s f o l es,
  reachable p nl t0 fd0 s ->
  idle_expired p f o s -> nth_error (st_listeners s) o = Some l ->
  Forall (quiet_ev f) es ->
  l_ncc l <= st_clock (run p s es) ->
  writable_when_polled f (run p s es) ->
  ~ In f (chan_fds (step p (run p s es) EPoll)).
Proof.
  intros p nl t0 fd0 s f o l es HR IE N QE D WR.
  pose proof (idle_FQ p f o s (wf_reachable _ _ _ _ _ HR) IE) as H.
  assert (T : tracked f o (l_ncc l) s).
  { intros c _ _. right. exists l. split; [exact N|lia]. }
  destruct (quiet_run p f o (l_ncc l) es s H T QE) as [H' T'].
  cbn [step]. eapply due_poll_closes; eauto.
Qed.

(* once closed, a descriptor never comes back *)
Definition gone_for_good (f : Z) (st : state) : Prop :=
  ~ In f (chan_fds st) /\ ~ In f (backlog_fds st) /\ f < st_nextfd st.

Lemma gone_step : forall p f st e, gone_for_good f st -> gone_for_good f (step p st e).
Proof.
  intros p f st e (NC & NB & LT).
  assert (EQ : forall s', backlog_fds s' = backlog_fds st /\ chan_fds s' = chan_fds st -> st_nextfd s' = st_nextfd st -> gone_for_good f s').
  { intros s' [A B] C. unfold gone_for_good. rewrite A, B, C. auto. }
  destruct (sock_fd_pres TPartial 0%N) as (_ & _ & P3 & P4).
  destruct e; cbn [step].
  - destruct (add_backlog l _ (st_listeners st)) eqn:E; [|split; auto]. split; [exact NC|]. split; [|cbn; lia].
    intros B. apply cnt_in in B. unfold backlog_fds in B. cbn [st_listeners] in B.
    rewrite (add_backlog_cnt f _ _ _ _ E) in B. cbn [s_fd] in B. unfold cnt in B at 2. cbn [count_occ] in B.
    destruct (Z.eq_dec (st_nextfd st) f); [lia|]. apply NB. apply cnt_in. unfold backlog_fds. lia.
  - apply EQ; [|reflexivity]. apply upd_sock_fds. apply (sock_fd_pres t 0%N).
  - apply EQ; [|reflexivity]. apply upd_chan_fds. intros c. apply service_fd.
  - apply EQ; [|reflexivity]. apply upd_sock_fds. apply (sock_fd_pres TPartial n).
  - apply EQ; [|reflexivity]. apply upd_sock_fds. exact P3.
  - apply EQ; [|reflexivity]. apply upd_sock_fds. exact P4.
  - apply EQ; [split; reflexivity|reflexivity].
  - split; [|split].
    + intros I. unfold chan_fds in I. apply in_map_iff in I. destruct I as (c' & F & I).
      rewrite poll_eq in I. cbn [st_chans] in I. unfold poll_chans in I. apply in_app_or in I. destruct I as [I|I].
      * apply in_poll_chans_old in I. destruct I as (c0 & I0 & A & _). apply NC. unfold chan_fds. rewrite <- F, A.
        apply in_map. exact I0.
      * apply in_accepted_fd in I. rewrite F in I. exact (NB I).
    + rewrite poll_eq. unfold backlog_fds. cbn [st_listeners]. intros B. apply la_backlog_incl in B. exact (NB B).
    + rewrite poll_eq. exact LT.
Qed.

Lemma gone_run : forall p f es st, gone_for_good f st -> gone_for_good f (run p st es).
Proof. induction es as [|e es IH]; intros st H; cbn; [exact H|]. apply IH. apply gone_step. exact H. Qed.

(* the loop period: the clock never runs more than P past the last poll turn
   (lp) without another poll turn *)
Fixpoint period_ok (p : params) (P : Z) (st : state) (lp : Z) (es : list event) : Prop :=
  match es with
  | [] => True
  | e :: r =>
    match e with
    | EPoll => period_ok p P (step p st e) (st_clock st) r
    | _ => st_clock (step p st e) <= lp + P /\ period_ok p P (step p st e) lp r
    end
  end.

(* the explicit hypothesis: whenever a poll turn happens, the socket of f (if
   f is still open) is writable *)
Fixpoint writable_at_polls (p : params) (f : Z) (st : state) (es : list event) : Prop :=
  match es with
  | [] => True
  | e :: r => (e = EPoll -> writable_when_polled f st) /\ writable_at_polls p f (step p st e) r
  end.

Lemma event_eq_poll : forall e : event, e = EPoll \/ e <> EPoll.
Proof. intros e. destruct e; try (right; discriminate). left. reflexivity. Qed.

Lemma deadline_gen : forall p f o ncc0 P D lp0 es st lp,
  0 <= P -> ncc0 <= D -> lp0 <= D ->
  (gone_for_good f st \/ (FQ p f o st /\ tracked f o ncc0 st /\ (lp < D \/ lp = lp0))) ->
  st_clock st <= lp + P ->
  Forall (quiet_ev f) es -> period_ok p P st lp es -> writable_at_polls p f st es ->
  D + P < st_clock (run p st es) ->
  gone_for_good f (run p st es).
Proof.
  intros p f o ncc0 P D lp0 es. induction es as [|e es IH]; intros st lp HP HN HL INV CL QE PO WP FIN.
  - cbn in *. destruct INV as [G|(_ & _ & [L|L])]; [exact G|lia|lia].
  - inversion QE as [|? ? QE1 QE2]; subst. cbn [run fold_left] in *. fold (run p (step p st e) es) in *.
    destruct WP as [WP1 WP2].
    assert (NP : e <> EPoll -> st_clock (step p st e) <= lp + P /\ period_ok p P (step p st e) lp es).
    { intros NE. destruct e; try exact PO. congruence. }
    destruct (event_eq_poll e) as [->|NE].
    + cbn [period_ok] in PO. apply (IH (step p st EPoll) (st_clock st)); auto.
      * destruct INV as [G|(H & T & LP)]; [left; apply gone_step; exact G|].
        destruct (Z.lt_ge_cases (st_clock st) D) as [LT|GE].
        -- right. split; [apply FQ_step; assumption|]. split; [apply tracked_step; assumption|]. left. exact LT.
        -- left. pose proof (FQ_step p f o st EPoll H QE1) as (_ & NB & LTF). split; [|split; assumption].
           apply (due_poll_closes p f o ncc0 st H T); [lia|]. apply WP1. reflexivity.
      * cbn [step]. rewrite poll_eq. cbn. lia.
    + destruct (NP NE) as [C1 PO']. apply (IH (step p st e) lp); auto.
      destruct INV as [G|(H & T & LP)]; [left; apply gone_step; exact G|].
      right. split; [apply FQ_step; assumption|]. split; [apply tracked_step; assumption|exact LP].
Qed.

(* every channel's owner is one of the listeners *)
Definition owner_ok (s : state) : Prop :=
  Forall (fun c => (c_owner c < length (st_listeners s))%nat) (st_chans s).

Lemma accepted_owner : forall p now mlen ls idx c,
  In c (accepted p now mlen idx ls) -> (idx <= c_owner c < idx + length ls)%nat.
Proof.
  induction ls as [|l r IH]; intros idx c H; cbn [accepted] in H; [contradiction|].
  apply in_app_or in H. cbn [length]. destruct H as [H|H].
  - destruct (acc_ok p mlen l); [|contradiction]. destruct (l_backlog l); [contradiction|].
    destruct H as [<-|[]]. cbn. lia.
  - apply IH in H. lia.
Qed.

Lemma step_owner_ok : forall p s e, owner_ok s -> owner_ok (step p s e).
Proof.
  intros p s e H. unfold owner_ok in *. rewrite step_listeners_len.
  assert (M : forall g, (forall c, c_owner (g c) = c_owner c) ->
              Forall (fun c => (c_owner c < length (st_listeners s))%nat) (map g (st_chans s))).
  { intros g Hg. apply Forall_forall. intros c I. apply in_map_iff in I. destruct I as (c0 & <- & I).
    rewrite Hg. eapply Forall_forall in H; eauto. }
  destruct e; cbn [step]; try exact H.
  - destruct (add_backlog l _ _); exact H.
  - cbn. apply M. intros c. destruct (c_fd c =? fd); reflexivity.
  - cbn. apply M. intros c. destruct (c_fd c =? fd); [apply service_fd|reflexivity].
  - cbn. apply M. intros c. destruct (c_fd c =? fd); reflexivity.
  - cbn. apply M. intros c. destruct (c_fd c =? fd); reflexivity.
  - cbn. apply M. intros c. destruct (c_fd c =? fd); reflexivity.
  - rewrite poll_eq. cbn [st_chans]. unfold poll_chans. apply Forall_forall. intros c I.
    apply in_app_or in I. destruct I as [I|I].
    + apply in_poll_chans_old in I. destruct I as (c0 & I0 & _ & O). rewrite O. eapply Forall_forall in H; eauto.
    + apply accepted_owner in I. lia.
Qed.

Theorem owner_ok_reachable : forall p nl t0 fd0 s, reachable p nl t0 fd0 s -> owner_ok s.
Proof.
  intros p nl t0 fd0. apply reachable_ind.
  - unfold owner_ok. cbn. constructor.
  - intros s e _ H. apply step_owner_ok. exact H.
Qed.

(* second form, with the loop period: closed by  t + cleanup_interval + P *)
Theorem reap_deadline : forall p nl t0 fd0 s f o es P,
  reachable p nl t0 fd0 s -> 0 <= t0 -> 0 <= p_interval p -> 0 <= P ->
  idle_expired p f o s ->
  Forall (quiet_ev f) es ->
  period_ok p P s (st_clock s) es ->
  writable_at_polls p f s es ->
  st_clock s + p_interval p + P < st_clock (run p s es) ->
  ~ In f (chan_fds (run p s es)).
Proof.
  intros p nl t0 fd0 s f o es P HR T0 I0 P0 IE QE PO WP FIN.
  pose proof (wf_reachable _ _ _ _ _ HR) as W.
  pose proof (idle_FQ p f o s W IE) as H.
  destruct IE as [IN Q].
  (* the owner is a listener *)
  unfold chan_fds in IN. apply in_map_iff in IN. destruct IN as (c & F & IC).
  pose proof (owner_ok_reachable _ _ _ _ _ HR) as OK. unfold owner_ok in OK.
  eapply Forall_forall in OK; [|exact IC]. destruct (Q c IC F) as (O & _). rewrite O in OK.
  destruct (nth_error (st_listeners s) o) as [l|] eqn:N; [|apply nth_error_None in N; lia].
  pose proof (maintenance_period _ _ _ _ _ HR) as NC. unfold ncc_ok in NC.
  eapply Forall_forall in NC; [|eapply nth_error_In; exact N]. cbn in NC.
  pose proof (clock_reachable _ _ _ _ _ HR) as CK.
  assert (G : gone_for_good f (run p s es)).
  { apply (deadline_gen p f o (l_ncc l) P (st_clock s + p_interval p) (st_clock s) es s (st_clock s)); auto; try lia.
    right. split; [exact H|]. split; [|right; reflexivity].
    intros c1 _ _. right. exists l. split; [exact N|lia]. }
  exact (proj1 G).
Qed.

(* when the send buffer of f has room, the socket is writable whenever polled:
   the writability hypothesis is then discharged *)
Lemma room_writable_at_polls : forall p f o es st,
  FQ p f o st -> (forall c, In c (st_chans st) -> c_fd c = f -> 0 < s_room (c_sock c)) ->
  Forall (quiet_ev f) es -> writable_at_polls p f st es.
Proof.
  induction es as [|e es IH]; intros st H R QE; cbn; [exact I|].
  inversion QE; subst. split.
  - intros _ c IC F. unfold sel_writable. specialize (R c IC F). destruct (Z.ltb_spec 0 (s_room (c_sock c))); [|lia].
    rewrite !orb_true_r. reflexivity.
  - apply IH; [apply FQ_step; assumption| |assumption].
    intros c' IC F. destruct (quiet_step p f o st e H H2 c' IC F) as (c0 & I0 & F0 & EV & _).
    destruct EV as (_ & _ & _ & _ & _ & E6 & _). rewrite E6. apply R; assumption.
Qed.

Theorem reap_deadline_room : forall p nl t0 fd0 s f o es P,
  reachable p nl t0 fd0 s -> 0 <= t0 -> 0 <= p_interval p -> 0 <= P ->
  idle_expired p f o s ->
  (forall c, In c (st_chans s) -> c_fd c = f -> 0 < s_room (c_sock c)) ->
  Forall (quiet_ev f) es ->
  period_ok p P s (st_clock s) es ->
  st_clock s + p_interval p + P < st_clock (run p s es) ->
  ~ In f (chan_fds (run p s es)).
Proof.
  intros p nl t0 fd0 s f o es P HR T0 I0 P0 IE RM QE PO FIN.
  eapply reap_deadline; eauto.
  eapply room_writable_at_polls; eauto. apply idle_FQ; [eapply wf_reachable; eauto|exact IE].
Qed.

(* ------------------------------------------------------------------------- *)
(* F21: without the writability hypothesis the statement is false.  A marked
   connection whose peer has stalled with a full send buffer is never closed:
   will_close is honoured only in handle_write, and handle_write is only
   called when select reports the socket writable. *)

Definition silent_ev (f : Z) (e : event) : Prop := quiet_ev f e /\ e <> EDisconnect f.

Definition stalled (p : params) (o : nat) (f : Z) (st : state) : Prop :=
  exists c, In c (st_chans st) /\ c_fd c = f /\ quiet_chan p o (st_clock st) c /\
            s_gone (c_sock c) = false /\ s_reading (c_sock c) = false /\ s_room (c_sock c) <= 0.

Lemma chan_turn_stuck : forall p o now c,
  quiet_chan p o now c -> s_gone (c_sock c) = false -> s_reading (c_sock c) = false -> s_room (c_sock c) <= 0 ->
  chan_turn p now c = [c].
Proof.
  intros p o now c (_ & _ & X & _ & _) G R M. unfold chan_turn. rewrite chan_sel_spec.
  unfold sel_readable, sel_writable. rewrite X, G, R. cbn [is_nil negb orb].
  destruct (Z.ltb_spec 0 (s_room (c_sock c))); [lia|]. rewrite !andb_false_r. reflexivity.
Qed.

Lemma stalled_step : forall p o f st e, stalled p o f st -> silent_ev f e -> stalled p o f (step p st e).
Proof.
  intros p o f st e (c & IC & F & Q & G & R & M) [QE ND].
  assert (KEEP : forall st', In c (st_chans st') -> st_clock st <= st_clock st' -> stalled p o f st').
  { intros st' I L. exists c. split; [exact I|]. split; [exact F|]. split; [|auto].
    eapply quiet_evolves; [exact Q|apply evolves_refl|exact L]. }
  assert (MAPS : forall g clk, st_clock st <= clk -> g c = c ->
                 forall ls nf, stalled p o f (mkState clk ls (map g (st_chans st)) nf)).
  { intros g clk L E ls nf. apply KEEP; [cbn; rewrite <- E; apply in_map; exact IC|cbn; exact L]. }
  assert (NEQ : forall fd, fd <> f -> (c_fd c =? fd) = false).
  { intros fd NE. destruct (Z.eqb_spec (c_fd c) fd); [congruence|reflexivity]. }
  destruct e; cbn [step]; cbn [quiet_ev] in QE.
  - destruct (add_backlog l _ _); apply KEEP; cbn; auto; lia.
  - apply MAPS; [lia|]. rewrite NEQ by assumption. reflexivity.
  - apply MAPS; [lia|]. destruct (c_fd c =? fd); [|reflexivity]. destruct Q as (_ & RQ & _). unfold service. rewrite RQ. reflexivity.
  - apply MAPS; [lia|]. rewrite NEQ by assumption. reflexivity.
  - destruct (Z.eqb_spec (c_fd c) fd) as [EQ|NE].
    + exists (set_sock c (set_reading (c_sock c) false)). split.
      * cbn. apply in_map_iff. exists c. split; [|exact IC]. destruct (Z.eqb_spec (c_fd c) fd); [reflexivity|congruence].
      * split; [unfold c_fd in *; cbn; exact F|]. split; [|cbn; auto].
        eapply quiet_evolves; [exact Q| |apply Z.le_refl].
        unfold evolves, c_fd. cbn. repeat split; auto.
    + apply MAPS; [lia|]. destruct (Z.eqb_spec (c_fd c) fd); [congruence|reflexivity].
  - apply MAPS; [lia|]. rewrite NEQ; [reflexivity|]. intros ->. apply ND. reflexivity.
  - apply KEEP; cbn; auto; lia.
  - rewrite poll_eq.
    destruct (mark_fields p (st_clock st) 0 (st_listeners st) c) as (M1 & M2 & M3 & M4 & M5 & M6 & M7).
    set (c1 := mark p (st_clock st) 0 (st_listeners st) c) in *.
    assert (EV : evolves c c1).
    { unfold evolves. unfold c_fd. rewrite M1, M2, M3, M5, M6. repeat split; auto.
      unfold c1, mark. destruct (_ && _); cbn; auto. }
    pose proof (quiet_evolves p o _ _ _ _ Q EV (Z.le_refl _)) as Q1.
    exists c1. split; [|split; [unfold c_fd in *; rewrite M1; exact F|split; [exact Q1|rewrite M1; auto]]].
    cbn [st_chans]. unfold poll_chans. apply in_or_app. left. apply in_flat_map. exists c1. split.
    + apply in_map. exact IC.
    + rewrite (chan_turn_stuck p o _ c1 Q1); [left; reflexivity|rewrite M1; auto..].
Qed.

(* never closed, however many poll turns happen and however far the clock advances *)
Theorem stalled_never_closed : forall p o f es st,
  stalled p o f st -> Forall (silent_ev f) es -> In f (chan_fds (run p st es)).
Proof.
  induction es as [|e es IH]; intros st H Q; cbn.
  - destruct H as (c & IC & F & _). unfold chan_fds. rewrite <- F. apply in_map. exact IC.
  - inversion Q; subst. apply IH; [apply stalled_step|]; assumption.
Qed.

(* the witness: the response (122 + 3000 bytes) is larger than the room of the
   send buffer (100), the client has stalled, the timeout (5) passes *)
Definition p_f21 : params := mkParams 100 5 2 1 0 100 16777216.
Definition s_f21 : state :=
  run p_f21 (init 1 1000 1000)
    [EConnect 0; EPoll; ESend 1000 (TComplete false); EPoll; EStalls 1000;
     EAppFinish 1000 [122%N; 3000%N]; EPoll; EAdvance 8].
Definition es_f21 : list event := [EPoll; EAdvance 3; EPoll; EAdvance 3; EPoll].

Definition s_f21_nf : state := Eval vm_compute in s_f21.
Lemma s_f21_eq : s_f21 = s_f21_nf.
Proof. vm_compute. reflexivity. Qed.

Lemma f21_quiet : forall c, In c (st_chans s_f21) -> c_fd c = 1000 ->
  quiet_chan p_f21 0 (st_clock s_f21) c /\ s_gone (c_sock c) = false /\ s_reading (c_sock c) = false /\
  s_room (c_sock c) <= 0 /\ c_pend c = 3022 /\ c_wc c = false.
Proof.
  rewrite s_f21_eq. unfold s_f21_nf. intros c IC _. cbn [st_chans In] in IC. destruct IC as [<-|[]].
  unfold quiet_chan. cbn.
  repeat split; try reflexivity; try lia.
Qed.

Lemma f21_idle : idle_expired p_f21 1000 0 s_f21.
Proof.
  split; [vm_compute; left; reflexivity|]. intros c IC F. exact (proj1 (f21_quiet c IC F)).
Qed.

Lemma f21_stalled : stalled p_f21 0 1000 s_f21.
Proof.
  rewrite s_f21_eq. unfold s_f21_nf, stalled. cbn [st_chans st_clock].
  eexists. split; [left; reflexivity|]. unfold quiet_chan. cbn.
  repeat split; try reflexivity; try lia.
Qed.

(* all hypotheses of reap_deadline except writable_at_polls hold, the conclusion fails *)
Theorem reap_refuted : exists p nl t0 fd0 s f o es P,
  reachable p nl t0 fd0 s /\ 0 <= t0 /\ 0 <= p_interval p /\ 0 <= P /\
  idle_expired p f o s /\ Forall (quiet_ev f) es /\ period_ok p P s (st_clock s) es /\
  st_clock s + p_interval p + P < st_clock (run p s es) /\
  In f (chan_fds (run p s es)).
Proof.
  exists p_f21, 1%nat, 1000, 1000, s_f21, 1000, 0%nat, es_f21, 3.
  split; [eexists; reflexivity|]. split; [lia|]. split; [cbn; lia|]. split; [lia|].
  split; [exact f21_idle|]. split; [repeat constructor|].
  split; [vm_compute; intuition discriminate|].
  split; [vm_compute; reflexivity|]. vm_compute. left. reflexivity.
Qed.

(* and it stays open for ever, as long as its client neither reads nor disconnects *)
Theorem f21_never_closed : forall es, Forall (silent_ev 1000) es -> In 1000 (chan_fds (run p_f21 s_f21 es)).
Proof. intros es H. eapply stalled_never_closed; [exact f21_stalled|exact H]. Qed.

(* ------------------------------------------------------------------------- *)
(* the hypotheses of the positive theorems are satisfiable: an idle keep-alive
   connection that has been served, its client still reading, is reaped *)
Definition p_ok : params := mkParams 100 5 2 1 0 65536 16777216.
Definition s_ok : state :=
  run p_ok (init 2 1000 1000)
    [EConnect 1; EPoll; ESend 1000 (TComplete false); EPoll; EAppFinish 1000 [122%N; 40%N]; EPoll; EAdvance 6].
Definition es_ok : list event := [EConnect 0; EPoll; EAdvance 3; EStalls 1000; EPoll; EAdvance 3; EPoll].

Definition s_ok_nf : state := Eval vm_compute in s_ok.
Lemma s_ok_eq : s_ok = s_ok_nf.
Proof. vm_compute. reflexivity. Qed.

Example reap_hypotheses_satisfiable :
  reachable p_ok 2 1000 1000 s_ok /\ idle_expired p_ok 1000 1 s_ok /\
  (forall c, In c (st_chans s_ok) -> c_fd c = 1000 -> 0 < s_room (c_sock c)) /\
  Forall (quiet_ev 1000) es_ok /\ period_ok p_ok 3 s_ok (st_clock s_ok) es_ok /\
  st_clock s_ok + p_interval p_ok + 3 < st_clock (run p_ok s_ok es_ok) /\
  In 1000 (chan_fds s_ok) /\ ~ In 1000 (chan_fds (run p_ok s_ok es_ok)).
Proof.
  assert (Q : forall c, In c (st_chans s_ok) -> c_fd c = 1000 ->
              quiet_chan p_ok 1 (st_clock s_ok) c /\ 0 < s_room (c_sock c)).
  { rewrite s_ok_eq. unfold s_ok_nf. intros c IC _. cbn [st_chans In] in IC. destruct IC as [<-|[]].
    unfold quiet_chan. cbn. repeat split; try reflexivity; try lia. }
  split; [eexists; reflexivity|].
  split; [split; [vm_compute; left; reflexivity|intros c IC F; apply Q; assumption]|].
  split; [intros c IC F; apply Q; assumption|].
  split; [repeat constructor|].
  split; [vm_compute; intuition discriminate|].
  split; [vm_compute; reflexivity|].
  split; [vm_compute; left; reflexivity|]. vm_compute. intuition discriminate.
Qed.

(* the boundary of the reaping test is strict: idle for exactly channel_timeout is not yet expired *)
Example reap_boundary :
  map c_wc (st_chans (run p_ok (init 1 1000 1000) [EConnect 0; EPoll; EAdvance 5; EPoll])) = [false] /\
  st_chans (run p_ok (init 1 1000 1000) [EConnect 0; EPoll; EAdvance 6; EPoll]) = [].
Proof. vm_compute. split; reflexivity. Qed.

(* the full statement of the property's reaping clause (no writability hypothesis) *)
Definition reap_deadline_full : Prop :=
  forall p nl t0 fd0 s f o es P,
  reachable p nl t0 fd0 s -> 0 <= t0 -> 0 <= p_interval p -> 0 <= P ->
  idle_expired p f o s ->
  Forall (quiet_ev f) es ->
  period_ok p P s (st_clock s) es ->
  st_clock s + p_interval p + P < st_clock (run p s es) ->
  ~ In f (chan_fds (run p s es)).

Theorem reap_deadline_full_refuted : ~ reap_deadline_full.
Proof.
  intros H. destruct reap_refuted as (p & nl & t0 & fd0 & s & f & o & es & P & A1 & A2 & A3 & A4 & A5 & A6 & A7 & A8 & A9).
  exact (H p nl t0 fd0 s f o es P A1 A2 A3 A4 A5 A6 A7 A8 A9).
Qed.
