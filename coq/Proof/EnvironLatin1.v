(* Every string of the environ is a latin-1 native string: all code points
   are below 256 whenever the bytes offered to the parser and the configured
   strings are.  Preservation of [ok] through every primitive on the path
   wire -> parser -> environ. *)
From Coq Require Import List NArith ZArith Bool Lia.
From RecordUpdate Require Import RecordUpdate.
From WV Require Import Lib.PyBytes Lib.Regex Gen.GenRegex Model.Receiver Model.UrlSplit Model.Parser
  Model.Environ Spec.Pep3333 Proof.EnvironDict Proof.EnvironParse Proof.EnvironRun Proof.EnvironFields
  Proof.EnvironTarget.
Import ListNotations.
Local Open Scope N_scope.

Definition ok (s : bytes) : Prop := Forall (fun b => b < 256) s.

Lemma ok_bytes_ok s : ok s <-> bytes_ok s.
Proof. reflexivity. Qed.

Lemma ok_app a b : ok a -> ok b -> ok (a ++ b).
Proof. intros. apply Forall_app. auto. Qed.
Lemma ok_app_l a b : ok (a ++ b) -> ok a.
Proof. intro H. apply Forall_app in H. tauto. Qed.
Lemma ok_app_r a b : ok (a ++ b) -> ok b.
Proof. intro H. apply Forall_app in H. tauto. Qed.
Lemma ok_firstn n s : ok s -> ok (firstn n s).
Proof. intro H. rewrite <- (firstn_skipn n s) in H. eapply ok_app_l; eauto. Qed.
Lemma ok_skipn n s : ok s -> ok (skipn n s).
Proof. intro H. rewrite <- (firstn_skipn n s) in H. eapply ok_app_r; eauto. Qed.
Lemma ok_rev s : ok s -> ok (rev s).
Proof. intro H. apply Forall_rev. exact H. Qed.
Lemma ok_filter f s : ok s -> ok (filter f s).
Proof.
  induction 1 as [|x s Hx _ IH]; cbn [filter]; [constructor|].
  destruct (f x); auto. constructor; auto.
Qed.
Lemma ok_lstrip f s : ok s -> ok (lstrip_by f s).
Proof. induction 1 as [|x s Hx Hs IH]; cbn [lstrip_by]; [constructor|]. destruct (f x); auto. constructor; auto. Qed.
Lemma ok_rstrip f s : ok s -> ok (rstrip_by f s).
Proof. intro H. unfold rstrip_by. apply ok_rev, ok_lstrip, ok_rev, H. Qed.
Lemma ok_strip f s : ok s -> ok (strip_by f s).
Proof. intro H. unfold strip_by. apply ok_rstrip, ok_lstrip, H. Qed.
Lemma ok_until f s : ok s -> ok (until f s).
Proof. induction 1 as [|x s Hx Hs IH]; cbn [until]; [constructor|]. destruct (f x); constructor; auto. Qed.
Lemma ok_from f s : ok s -> ok (from f s).
Proof. induction 1 as [|x s Hx Hs IH]; cbn [from]; [constructor|]. destruct (f x); auto. constructor; auto. Qed.
Lemma ok_tail_of s : ok s -> ok (tail_of s).
Proof. destruct 1; cbn; auto. constructor. Qed.
Lemma ok_concat l : Forall ok l -> ok (concat l).
Proof. induction 1; cbn [concat]; [constructor|]. apply ok_app; auto. Qed.

Lemma ok_split_fuel sep : forall fuel s, ok s -> Forall ok (split_fuel fuel s sep).
Proof.
  induction fuel as [|f IH]; intros s H; cbn [split_fuel].
  - constructor; auto.
  - destruct (find s sep) as [i|].
    + constructor; [apply ok_firstn; exact H|]. apply IH. apply ok_skipn. exact H.
    + constructor; auto.
Qed.
Lemma ok_split s sep : ok s -> Forall ok (split s sep).
Proof. apply ok_split_fuel. Qed.

Lemma ok_to_dec n : ok (to_dec n).
Proof.
  unfold to_dec. generalize (S (N.to_nat (N.size n))). intro fuel.
  assert (G : forall fuel n acc, ok acc -> ok (to_dec_fuel fuel n acc)).
  { induction fuel0 as [|f IH]; intros m acc H; cbn [to_dec_fuel]; auto.
    assert (D : 48 + m mod 10 < 256).
    { pose proof (N.mod_lt m 10). lia. }
    destruct (m <? 10); [constructor; auto|]. apply IH. constructor; auto. }
  apply G. constructor.
Qed.

Lemma hexdig_lt x h : hexdig x = Some h -> h < 16.
Proof.
  unfold hexdig, digit.
  destruct ((48 <=? x) && (x <=? 57)) eqn:D.
  { intro H. injection H as <-. apply andb_true_iff in D as [A B]. apply N.leb_le in A. apply N.leb_le in B. lia. }
  destruct ((65 <=? x) && (x <=? 70)) eqn:U.
  { intro H. injection H as <-. apply andb_true_iff in U as [A B]. apply N.leb_le in A. apply N.leb_le in B. lia. }
  destruct ((97 <=? x) && (x <=? 102)) eqn:L; [|discriminate].
  intro H. injection H as <-. apply andb_true_iff in L as [A B]. apply N.leb_le in A. apply N.leb_le in B. lia.
Qed.

Lemma ok_pct_decode : forall n s, (length s <= n)%nat -> ok s -> ok (pct_decode s).
Proof.
  induction n as [|n IH]; intros s Hl H.
  - destruct s; [constructor|cbn in Hl; lia].
  - destruct s as [|x rest]; [constructor|]. cbn [pct_decode]. inversion H; subst.
    cbn [length] in Hl.
    assert (R : ok (x :: pct_decode rest)) by (constructor; auto; apply IH; auto; lia).
    destruct (x =? 37); [|exact R].
    destruct rest as [|a [|b rest']]; try exact R.
    destruct (hexdig a) as [ha|] eqn:Ha; [|exact R].
    destruct (hexdig b) as [hb|] eqn:Hb; [|exact R].
    apply hexdig_lt in Ha. apply hexdig_lt in Hb.
    constructor; [lia|]. apply IH.
    + cbn [length] in Hl. lia.
    + inversion H3; subst. inversion H5; subst. assumption.
Qed.

Lemma ok_unquote s : ok s -> ok (unquote_to_bytes s).
Proof. intro H. rewrite unquote_pct. eapply ok_pct_decode; eauto. Qed.

Lemma ok_qpart u : ok u -> ok (qpart u).
Proof.
  intro H. unfold qpart. pose proof (ok_from path_end u H) as F.
  destruct (from path_end u) as [|x q]; [constructor|].
  destruct (x =? 63); [|constructor]. apply ok_until. inversion F; auto.
Qed.

(* ------------------------------------------------------------------ *)
(* the target *)

Lemma ok_us_scheme u : ok u -> ok (snd (us_scheme u)).
Proof.
  intro H. unfold us_scheme. destruct (find u [58]) as [[|i']|]; cbn [snd]; auto.
  destruct u as [|c0 u']; cbn [snd]; auto.
  destruct (is_alpha c0 && _); cbn [snd]; auto. apply ok_skipn. exact H.
Qed.

Lemma ok_us_netloc u nl u4 bad : ok u -> us_netloc u = (nl, u4, bad) -> ok u4.
Proof.
  intro H. unfold us_netloc. destruct (startswith u [47; 47]).
  - rewrite cut_at_spec. cbv zeta. intro E. injection E as _ <- _. apply ok_from. exact (ok_skipn 2 u H).
  - intro E. injection E as _ <- _. exact H.
Qed.

Lemma ok_split_uri t sc nl pa qu fr :
  ok t -> split_uri t = SOk sc nl pa qu fr -> ok pa /\ ok qu.
Proof.
  intro H. destruct (two_slashes t) eqn:T2.
  - destruct (existsb (fun x => 128 <=? x) t) eqn:A.
    { unfold split_uri. rewrite firstn2_two_slashes, T2, A. discriminate. }
    rewrite split_uri_slashes by assumption. intro E. injection E as _ _ <- <- _.
    split; [apply ok_unquote, ok_until, H | apply ok_qpart, H].
  - unfold split_uri. rewrite firstn2_two_slashes, T2. rewrite urlsplit_stages.
    destruct (existsb _ t); [discriminate|]. cbv zeta.
    set (u2 := filter _ (lstrip_by is_c0_or_space t)).
    assert (H2 : ok u2) by (apply ok_filter, ok_lstrip, H).
    pose proof (ok_us_scheme u2 H2) as H3.
    destruct (us_scheme u2) as [scheme u3]. cbn [snd] in H3.
    destruct (us_netloc u3) as [[nl0 u4] bad] eqn:En.
    pose proof (ok_us_netloc _ _ _ _ H3 En) as H4.
    destruct (bad =? 1); [discriminate|]. destruct (bad =? 2); [discriminate|].
    rewrite us_tail_spec. intro E. injection E as _ _ <- <- _.
    split; [apply ok_unquote, ok_until, H4 | apply ok_qpart, H4].
Qed.

(* ------------------------------------------------------------------ *)
(* the request line *)

Lemma ok_crack_first_line fl cmd uri ver :
  ok fl -> crack_first_line fl = Some (cmd, uri, ver) -> ok cmd /\ ok uri /\ ok ver.
Proof.
  intros H. unfold crack_first_line.
  assert (N3 : ok (@nil N) /\ ok (@nil N) /\ ok (@nil N)) by (repeat split; constructor).
  destruct (negb (matches gate_request_line fl)).
  { intro E. injection E as <- <- <-. exact N3. }
  pose proof (ok_split fl [32] H) as S.
  destruct (split fl [32]) as [|m [|u [|v [|w tl]]]].
  - intro E. injection E as <- <- <-. exact N3.
  - intro E. injection E as <- <- <-. exact N3.
  - destruct (beqb m (upper_ascii m)); [|discriminate]. intro E. injection E as <- <- <-.
    inversion S as [|? ? S1 S2]; subst. inversion S2; subst. repeat split; auto. constructor.
  - destruct (beqb m (upper_ascii m)); [|discriminate]. intro E. injection E as <- <- <-.
    inversion S as [|? ? S1 S2]; subst. inversion S2 as [|? ? S3 S4]; subst. inversion S4; subst.
    repeat split; auto. exact (ok_skipn 5 v H2).
  - intro E. injection E as <- <- <-. exact N3.
Qed.

(* ------------------------------------------------------------------ *)
(* header lines and the dictionary *)

Lemma ok_header_lines_go : forall lines r ls,
  Forall ok lines -> Forall ok r -> header_lines_go lines r = inr ls -> Forall ok ls.
Proof.
  induction lines as [|line rest IH]; intros r ls HL HR; cbn [header_lines_go].
  - intro E. injection E as <-. apply Forall_rev. exact HR.
  - inversion HL as [|? ? H1 H2]; subst.
    destruct line as [|c line']; [apply IH; auto|].
    destruct (has_cr_or_lf (c :: line')); [discriminate|].
    destruct ((c =? 32) || (c =? 9)).
    + destruct r as [|last r']; [discriminate|]. inversion HR; subst.
      apply IH; auto. constructor; auto. apply ok_app; auto.
    + apply IH; auto.
Qed.

Lemma ok_get_header_lines header ls :
  ok header -> get_header_lines header = inr ls -> Forall ok ls.
Proof.
  intros H E. unfold get_header_lines in E.
  eapply ok_header_lines_go; [apply ok_split; exact H | constructor | exact E].
Qed.

Definition hvals_ok (h : hdict) : Prop := Forall (fun kv => ok (snd kv)) h.

Lemma hvals_ok_hset h k v : hvals_ok h -> ok v -> hvals_ok (hset h k v).
Proof.
  induction 1 as [|[k0 v0] h H0 Hh IH]; intro Hv; cbn [hset].
  - constructor; [exact Hv|constructor].
  - destruct (beqb k k0); constructor; auto. apply IH. exact Hv.
Qed.

Lemma hvals_ok_hpop h k : hvals_ok h -> hvals_ok (hpop h k).
Proof.
  induction 1 as [|[k0 v0] h H0 Hh IH]; cbn [hpop]; [constructor|].
  destruct (beqb k k0); auto. constructor; auto.
Qed.

Lemma hvals_ok_hget h k v : hvals_ok h -> hget h k = Some v -> ok v.
Proof.
  induction 1 as [|[k0 v0] h H0 Hh IH]; cbn [hget]; [discriminate|].
  destruct (beqb k k0); auto. intro E. injection E as <-. exact H0.
Qed.

Lemma ok_partition line n sep r : ok line -> partition line [58] = (n, sep, r) -> ok r.
Proof.
  intro H. unfold partition. destruct (find line [58]) as [i|]; intro E; injection E as _ _ <-.
  - apply ok_skipn. exact H.
  - constructor.
Qed.

Lemma hvals_ok_add_header_line h line h' :
  hvals_ok h -> ok line -> add_header_line h line = inr h' -> hvals_ok h'.
Proof.
  intros Hh Hl. unfold add_header_line.
  destruct (negb (matches gate_header_field line)); [discriminate|].
  destruct (partition line [58]) as [[n sep] r] eqn:P.
  pose proof (ok_partition _ _ _ _ Hl P) as Hr.
  destruct (memb 95 n).
  - intro E. injection E as <-. exact Hh.
  - destruct (hget h (header_key n)) as [old|] eqn:G.
    + destruct (is_singleton (header_key n)); [discriminate|].
      intro E. injection E as <-. apply hvals_ok_hset; auto.
      apply ok_app; [eapply hvals_ok_hget; eauto|].
      change ([44; 32] ++ strip_by is_sp_htab r) with (44 :: 32 :: strip_by is_sp_htab r).
      constructor; [lia|]. constructor; [lia|]. apply ok_strip. exact Hr.
    + intro E. injection E as <-. apply hvals_ok_hset; auto. apply ok_strip. exact Hr.
Qed.

Lemma hvals_ok_add_header_lines lines : forall h h',
  hvals_ok h -> Forall ok lines -> add_header_lines h lines = inr h' -> hvals_ok h'.
Proof.
  induction lines as [|l lines IH]; intros h h' Hh HL; cbn [add_header_lines].
  - intro E. injection E as <-. exact Hh.
  - inversion HL; subst. destruct (add_header_line h l) as [e|h1] eqn:E1; [discriminate|].
    apply IH; auto. eapply hvals_ok_add_header_line; eauto.
Qed.

(* ------------------------------------------------------------------ *)
(* an accepted request *)

Record ok_request (p : parser) : Prop := {
  okr_command : ok (command p);
  okr_version : ok (version p);
  okr_uri : ok (request_uri p);
  okr_path : ok (path p);
  okr_query : ok (query p);
  okr_scheme : ok (url_scheme p);
  okr_headers : hvals_ok (headers p)
}.

Lemma strip_leading_crlf_step f s :
  strip_leading_crlf (S f) s =
  match s with
  | x :: y :: s' => if (x =? 13) && (y =? 10) then strip_leading_crlf f s' else s
  | _ => s
  end.
Proof.
  destruct s as [|x [|y s']]; [reflexivity| |].
  - destruct x as [|p]; [reflexivity|].
    do 4 (try (destruct p as [p|p|]; try reflexivity)); reflexivity.
  - destruct ((x =? 13) && (y =? 10)) eqn:C.
    + apply andb_true_iff in C as [C1 C2]. apply N.eqb_eq in C1. apply N.eqb_eq in C2. subst. reflexivity.
    + destruct x as [|p]; [reflexivity|].
      do 4 (try (destruct p as [p|p|]; try reflexivity)); try reflexivity.
      destruct y as [|q]; [reflexivity|].
      do 4 (try (destruct q as [q|q|]; try reflexivity)); try reflexivity. discriminate C.
Qed.

Lemma ok_strip_leading_crlf : forall fuel s, ok s -> ok (strip_leading_crlf fuel s).
Proof.
  induction fuel as [|f IH]; intros s H; [exact H|].
  rewrite strip_leading_crlf_step. destruct s as [|x [|y s']]; try exact H.
  destruct ((x =? 13) && (y =? 10)); [|exact H].
  apply IH. inversion H as [|? ? _ H2]; subst. inversion H2; auto.
Qed.

Lemma ok_head_of ds hp : Forall ok ds -> head_of ds hp -> ok hp.
Proof.
  intros H (pre & i & (post & ->) & _ & ->).
  apply ok_lstrip, ok_strip_leading_crlf, ok_firstn, ok_concat. apply Forall_app in H. tauto.
Qed.

Lemma accepted_head_ok a p0 p1 hp fl lines h1 :
  ok (adj_url_scheme a) -> ok hp -> headers p0 = [] ->
  accepted_head a p0 p1 hp fl lines h1 -> ok fl /\ ok_request p1.
Proof.
  intros Ha Hhp H0 AH. destruct AH as [(index & _ & -> & GL) _ AL CR _ (sc & nl & fr & SP) SC _ AF].
  assert (Hfl : ok (rstrip_by is_reqline_ws (firstn index hp))) by (apply ok_rstrip, ok_firstn, Hhp).
  split; [exact Hfl|].
  destruct (ok_crack_first_line _ _ _ _ Hfl CR) as (C1 & C2 & C3).
  destruct (ok_split_uri _ _ _ _ _ _ C2 SP) as (P1 & P2).
  assert (HL : Forall ok lines) by (eapply ok_get_header_lines; [|exact GL]; apply ok_skipn, Hhp).
  rewrite H0 in AL.
  assert (H1 : hvals_ok h1) by (eapply hvals_ok_add_header_lines; [constructor|exact HL|exact AL]).
  constructor; auto.
  - rewrite SC. exact Ha.
  - destruct AF as [(_ & _ & _ & -> & _)|(_ & -> & _)].
    + apply hvals_ok_hpop, hvals_ok_hpop, H1.
    + destruct (beqb (version p1) s_1_1); [apply hvals_ok_hpop|]; exact H1.
Qed.

Theorem accepted_run_ok a ds p :
  ok (adj_url_scheme a) -> Forall ok ds ->
  feed_all a ds = Some p -> completed p = true -> error p = None -> empty p = false ->
  ok_request p /\ upper_str (command p) = command p.
Proof.
  intros Ha Hds H Hc He Hm.
  destruct (run_accepted _ _ _ H Hc He Hm) as (p0 & p1 & hp & AR).
  destruct (parse_header_ok _ _ _ _ (ar_parse _ _ _ _ _ _ AR)) as (fl & lines & h1 & AH).
  pose proof (ok_head_of _ _ Hds (ar_head _ _ _ _ _ _ AR)) as Hhp.
  destruct (ar_fresh _ _ _ _ _ _ AR) as (F0 & _).
  destruct (accepted_head_ok _ _ _ _ _ _ _ Ha Hhp F0 AH) as (Hfl & [O1 O2 O3 O4 O5 O6 O7]).
  pose proof (ar_reqline _ _ _ _ _ _ AR) as R. unfold reqline in R.
  injection R as R1 R2 R3 R4 R5 R6.
  split.
  - constructor; try congruence.
    pose proof (ar_body _ _ _ _ _ _ AR) as B.
    destruct (body p) as [[f|c]|].
    + destruct B as (_ & -> & _). exact O7.
    + destruct B as (_ & ->). apply hvals_ok_hset; [exact O7|apply ok_to_dec].
    + destruct B as (_ & ->). exact O7.
  - rewrite R1. apply upper_str_identity.
    destruct (crack_first_line_method _ _ _ _ Hfl (ah_crack _ _ _ _ _ _ _ AH) (ah_crack_ne _ _ _ _ _ _ _ AH))
      as (_ & _ & FA).
    exact FA.
Qed.

(* ------------------------------------------------------------------ *)
(* the environ *)

Definition ok_value (v : evalue) : Prop := match v with VStr s => ok s | _ => True end.
Definition ok_environ (e : edict) : Prop := Forall (fun kv => ok_value (snd kv)) e.

Record ok_config (c : config) : Prop := {
  okc_prefix : ok (url_prefix c);
  okc_name : ok (server_name c);
  okc_port : match effective_port c with PortStr s => ok s | PortInt _ => True end;
  okc_ident : ok (ident c);
  okc_peer : match peer_addr c with PeerTCP h _ => ok h | PeerUnix => True end
}.

Lemma ok_environ_path prefix path0 : ok prefix -> ok path0 -> ok (environ_path prefix path0).
Proof.
  intros Hp H0. unfold environ_path.
  assert (H1 : ok (if startswith path0 [47] then 47 :: lstrip_by (N.eqb 47) path0 else path0)).
  { destruct (startswith path0 [47]); auto. constructor; [lia|]. apply ok_lstrip. exact H0. }
  destruct prefix as [|a pre]; auto.
  destruct (beqb _ (a :: pre)); [constructor|].
  destruct (startswith _ ((a :: pre) ++ [47])); auto. apply ok_skipn. exact H1.
Qed.

Lemma ok_environ_fold h : forall e, ok_environ e -> hvals_ok h -> ok_environ (fold_left add_header h e).
Proof.
  induction h as [|[k v] h IH]; intros e He Hh; cbn [fold_left]; auto.
  inversion Hh as [|? ? Hv Hh']; subst. apply IH; auto. rewrite add_header_unfold.
  destruct (negb (emem e (env_key k))); auto.
  apply Forall_app. split; [exact He|]. constructor; [exact Hv|constructor].
Qed.

Lemma ok_environ_eset e k v : ok_environ e -> ok_value v -> ok_environ (eset e k v).
Proof.
  induction 1 as [|[k0 v0] e H0 He IH]; intro Hv; cbn [eset].
  - constructor; [exact Hv|constructor].
  - destruct (beqb k k0); constructor; auto. apply IH. exact Hv.
Qed.

Theorem environ_latin1 a c ds p :
  ok (adj_url_scheme a) -> ok_config c -> Forall ok ds ->
  feed_all a ds = Some p -> completed p = true -> error p = None -> empty p = false ->
  ok_environ (get_environment c p).
Proof.
  intros Ha Hcfg Hds H Hc He Hm.
  destruct (accepted_run_ok _ _ _ Ha Hds H Hc He Hm) as ([O1 O2 O3 O4 O5 O6 O7] & UP).
  destruct Hcfg as [K1 K2 K3 K4 K5].
  unfold get_environment. apply ok_environ_eset; [|exact I].
  apply ok_environ_fold; [|exact O7].
  unfold base_environ, ok_environ.
  assert (A0 : ok (addr0 (peer_addr c))).
  { unfold addr0. destruct (peer_addr c); auto. repeat constructor. }
  assert (A1 : ok (str_addr1 (peer_addr c))).
  { unfold str_addr1. destruct (peer_addr c); [apply ok_to_dec|repeat constructor]. }
  assert (A2 : ok (str_port (effective_port c))).
  { unfold str_port. destruct (effective_port c); [apply ok_to_dec|exact K3]. }
  assert (A3 : ok (k_HTTPslash ++ task_version p)).
  { apply ok_app; [repeat constructor|]. unfold task_version.
    destruct (beqb (version p) s_1_0 || beqb (version p) s_1_1); [exact O2|repeat constructor]. }
  rewrite UP.
  repeat (constructor; [cbn [snd ok_value]; auto using ok_environ_path|]). constructor.
Qed.
