(* Proof/ChanWakeL1b.v -- the converse of layer 1: a held lock is held by a thread that is
   at a program point inside the corresponding critical section (so it can move).  With it a
   state in which NO thread can move is one where every worker is parked: the protocol has
   no deadlock on outbuf_lock / requests_lock. *)
From Coq Require Import List ZArith Bool Arith Lia.
From WV Require Import Model.ChanWake Proof.ChanWakeInv Proof.ChanWakeBase Proof.ChanWakeL1 Proof.ChanWakeL2.
Import ListNotations.
Open Scope Z_scope.

Definition owner_ok (hio : iopc -> bool) (hw : wpc -> bool) (s : state) (l : option tid) : Prop :=
  match l with
  | None => True
  | Some TIO => hio (io s) = true
  | Some (TW j) => exists p, nth_error (ws s) j = Some p /\ hw p = true
  end.

Definition Inv1b (s : state) : Prop :=
  owner_ok io_holds_o w_holds_o s (olock s) /\ owner_ok io_holds_r w_holds_r s (rlock s).

Lemma inv1b_init : forall nw, Inv1b (init nw).
Proof. intros. split; simpl; auto. Qed.

Lemma holds_notified : forall p, w_holds_o p = true -> parked_o p = false.
Proof. destruct p; simpl; intros; auto; discriminate. Qed.
Lemma holds_r_notified : forall p, w_holds_r p = true -> parked_o p = false.
Proof. destruct p; simpl; intros; auto; discriminate. Qed.

(* a worker list that differs only at program points holding no lock *)
Lemma owner_notify : forall hio hw s s' l,
  (forall p, hw p = true -> parked_o p = false) ->
  io s' = io s -> ws s' = notify_o (ws s) -> owner_ok hio hw s l -> owner_ok hio hw s' l.
Proof.
  intros hio hw s s' l Hp Eio Ews H. destruct l as [[|j]|]; simpl in *; auto.
  - rewrite Eio. auto.
  - destruct H as (p & Hj & Hh). exists p. split; auto. rewrite Ews.
    destruct (notify_o_fwd _ _ _ Hj) as [H1|[Pp _]]; auto. rewrite (Hp _ Hh) in Pp. discriminate.
Qed.

Lemma owner_notify_w : forall hio hw s s' j,
  (forall p, hw p = true -> parked_o p = false) ->
  ws s' = notify_o (ws s) -> owner_ok hio hw s (Some (TW j)) -> owner_ok hio hw s' (Some (TW j)).
Proof.
  intros hio hw s s' j Hp Ews H. simpl in *. destruct H as (p & Hj & Hh). exists p. split; auto. rewrite Ews.
  destruct (notify_o_fwd _ _ _ Hj) as [H1|[Pp _]]; auto. rewrite (Hp _ Hh) in Pp. discriminate.
Qed.

Lemma owner_add_task : forall hio hw s l,
  hw WIdle = false -> owner_ok hio hw s l ->
  (forall w, In w (qwait s) -> nth_error (ws s) w = Some WIdle) ->
  match l with
  | Some (TW j) => exists p, nth_error (ws (add_task s)) j = Some p /\ hw p = true
  | _ => True
  end.
Proof.
  intros hio hw s l Hi H Hq. destruct l as [[|j]|]; auto. simpl in H. destruct H as (p & Hj & Hh).
  exists p. split; auto. unfold add_task. simpl. destruct (qwait s) eqn:E; simpl; auto.
  rewrite nth_error_upd_other; auto. intro; subst.
  assert (nth_error (ws s) j = Some WIdle) by (apply Hq; left; auto). congruence.
Qed.

Ltac owner_io_case Hpre HI2 :=
  match goal with
  | |- owner_ok _ _ _ None => exact I
  | |- owner_ok _ _ _ (Some TIO) => simpl; try reflexivity
  | |- owner_ok ?hio ?hw ?s' ?l =>
      let j := fresh "j" in
      destruct l as [[|j]|] eqn:El; simpl in Hpre |- *;
      try match goal with E : io _ = _ |- _ => rewrite ?E; rewrite E in Hpre; simpl in Hpre |- * end;
      [ first [reflexivity | discriminate Hpre | exact Hpre]
      | first [ exact Hpre
              | eapply (owner_notify_w hio hw _ s' j); simpl; try reflexivity;
                [ first [exact holds_notified | exact holds_r_notified] | exact Hpre ]
              | apply (owner_add_task hio hw _ (Some (TW j)) eq_refl Hpre (i2_qw _ HI2)) ]
      | exact I ]
  end.

Lemma inv1b_step_io : forall c s ch s' l,
  Inv2 s -> Inv1b s -> step_io c s ch = Some (s', l) -> Inv1b s'.
Proof.
  intros c s ch s' l HI2 [Ho Hr] H. unfold step_io in H. step_cases H; free_hyps.
  all: unfold after_read, turn_start, hc_return, goio in *.
  all: repeat match goal with |- context [if ?b then _ else _] => destruct b eqn:? end.
  all: try match goal with E : olock _ = None |- _ => rewrite E in Ho end.
  all: try match goal with E : rlock _ = None |- _ => rewrite E in Hr end.
  all: split; simpl;
       try match goal with |- context [add_task ?x] =>
         replace (olock (add_task x)) with (olock x) by (unfold add_task; simpl; destruct (qwait x); reflexivity);
         replace (rlock (add_task x)) with (rlock x) by (unfold add_task; simpl; destruct (qwait x); reflexivity) end.
  all: try match goal with E : io _ = _ |- _ => rewrite ?E end.
  all: try (owner_io_case Ho HI2); try (owner_io_case Hr HI2).
  all: try reflexivity; try exact I.
  destruct (olock s) as [[|j]|] eqn:El; simpl in Ho |- *; auto.
  apply (owner_notify_w io_holds_o w_holds_o s (set_io (set_ws s (notify_o (ws s))) (IoHCx k)) j holds_notified eq_refl Ho).
Qed.

Lemma owner_add_task_full : forall hio hw s l,
  hw WIdle = false -> Inv2 s -> owner_ok hio hw s l -> owner_ok hio hw (add_task s) l.
Proof.
  intros hio hw s l Hi HI H. destruct l as [[|j]|]; simpl in *; auto.
  - replace (io (add_task s)) with (io s) by (unfold add_task; simpl; destruct (qwait s); reflexivity). auto.
  - apply (owner_add_task hio hw s (Some (TW j)) Hi H (i2_qw _ HI)).
Qed.

(* the lock is not touched by the step of worker i, whose old program point is pc *)
Lemma owner_other : forall hio hw s s' i pc p' l,
  nth_error (ws s) i = Some pc -> io s' = io s -> ws s' = upd i p' (ws s) ->
  (hw pc = true -> hw p' = true) ->
  owner_ok hio hw s l -> owner_ok hio hw s' l.
Proof.
  intros hio hw s s' i pc p' l Hg Eio Ews Hk H. destruct l as [[|j]|]; simpl in *; auto.
  - rewrite Eio; auto.
  - destruct H as (p & Hj & Hh). rewrite Ews. destruct (Nat.eq_dec j i).
    + subst. rewrite Hg in Hj. inversion Hj; subst. exists p'. split; [eapply nth_error_upd_same; eauto | auto].
    + exists p. split; auto. rewrite nth_error_upd_other; auto.
Qed.

Lemma inv1b_step_w : forall c s i ch s' l,
  Inv1 s -> Inv2 s -> Inv1b s -> step_w c s i ch = Some (s', l) -> Inv1b s'.
Proof.
  intros c s i ch s' l HI1 HI2 [Ho Hr] H. unfold step_w in H.
  destruct (getw s i) as [pc|] eqn:Hg; [|discriminate]. unfold getw in Hg.
  destruct (i1_w _ HI1 _ _ Hg) as (Hlo & Hlr & Hsc).
  step_cases H; free_hyps; clear Hsc.
  all: unfold setw, hw_exit in *.
  all: repeat match goal with |- context [if ?b then _ else _] => destruct b eqn:? end.
  all: repeat match goal with |- context [match ?b with SWr _ => _ | SEnd => _ end] => destruct b eqn:? end.
  all: simpl in Hlo, Hlr.
  all: split; simpl.
  (* the lock is acquired or released by this step *)
  all: try exact I.
  all: try (eexists; split; [eapply nth_error_upd_same; exact Hg | reflexivity]; fail).
  (* untouched lock *)
  all: try (match goal with Hg' : nth_error (ws ?s0) ?i0 = Some _ |- owner_ok _ _ ?s1 _ =>
              eapply (owner_other _ _ s0 s1 i0 _ _ _ Hg') end; simpl; try reflexivity; try eassumption; try (simpl; intros; congruence); fail).
  all: try exact Ho; try exact Hr.
  all: replace (olock (add_task s)) with (olock s) by (unfold add_task; simpl; destruct (qwait s); reflexivity);
       replace (rlock (add_task s)) with (rlock s) by (unfold add_task; simpl; destruct (qwait s); reflexivity).
  - eapply (owner_other _ _ (add_task s) _ i WK5b WK7 _ (add_task_nth_keep s i WK5b HI2 Hg eq_refl));
      try reflexivity; [simpl; intros; discriminate|]. apply owner_add_task_full; auto.
  - eapply (owner_other _ _ (add_task s) _ i WK5b WK7 _ (add_task_nth_keep s i WK5b HI2 Hg eq_refl));
      try reflexivity. apply owner_add_task_full; auto.
Qed.

Lemma inv1b_step : forall c s ch s' l,
  Inv1 s -> Inv2 s -> Inv1b s -> step c s ch = Some (s', l) -> Inv1b s'.
Proof.
  intros c s ch s' l HI1 HI2 HI H. unfold step in H. destruct ch;
    try (eapply inv1b_step_io; eauto; fail); try (eapply inv1b_step_w; eauto; fail).
  - destruct (gone s); [discriminate|]. inversion H; subst. exact HI.
  - destruct (gone s); [discriminate|]. inversion H; subst. exact HI.
Qed.
