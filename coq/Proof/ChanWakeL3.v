(* Proof/ChanWakeL3.v -- layer 3 of the C05 invariant: total_outbufs_len counts the
   buffered bytes (outside the F18 class), and connected / closed follow handle_close. *)
From Coq Require Import List ZArith Bool Arith Lia.
From WV Require Import Model.ChanWake Proof.ChanWakeInv Proof.ChanWakeBase Proof.ChanWakeL1 Proof.ChanWakeL2.
Import ListNotations.
Open Scope Z_scope.

(* the size of the write_soon in progress *)
Definition wpc_n (p : wpc) : option Z :=
  match p with
  | WWs1 n | WWs2 n | WWs3 n | WWs4 n => Some n
  | WHw1 (SWr n) | WHwF (SWr n) | WHwEP (SWr n) | WHwEW (SWr n) | WHwEPk (SWr n) _ | WHwEN (SWr n)
  | WHwL1 (SWr n) | WHwL2 (SWr n) | WHwLP (SWr n) | WHwLW (SWr n) | WHwLPk (SWr n) | WHwLN (SWr n) => Some n
  | _ => None
  end.

(* the worker changes total_outbufs_len / the buffers in its next steps *)
Definition w_writer (p : wpc) : bool :=
  match p with WHwF _ | WWs4 _ | WWsF _ => true | _ => false end.

Definition tot_ok (s : state) : Prop :=
  match io s with
  | IoFlUR n => total s = pend s + n
  | IoFlUW v => v = pend s
  | IoHCc _ => True
  | _ => conn s = true -> total s = pend s
  end.

Record Inv3 (s : state) : Prop := {
  i3_pend : 0 <= pend s;
  i3_tot : tot_ok s;
  i3_c2 : closed s = true -> conn s = false;
  i3_c3 : conn s = false -> closed s = true \/ io_hc_late (io s) = true;
  i3_n : forall j p n, nth_error (ws s) j = Some p -> wpc_n p = Some n -> 0 < n
}.

Lemma inv3_init : forall nw, Inv3 (init nw).
Proof.
  intros. constructor; unfold tot_ok; simpl; intros; try lia; try discriminate; auto.
  apply nth_error_In in H. apply repeat_spec in H. subst. discriminate.
Qed.

Lemma notified_n : forall p, wpc_n (notified p) = wpc_n p.
Proof. destruct p; try reflexivity; destruct st; reflexivity. Qed.

Lemma inv3_n_notify : forall l,
  (forall j p n, nth_error l j = Some p -> wpc_n p = Some n -> 0 < n) ->
  forall j p n, nth_error (notify_o l) j = Some p -> wpc_n p = Some n -> 0 < n.
Proof.
  intros l H j q n Hj Hn. destruct (notify_o_nth _ _ _ Hj) as (p & Hp & [->|[_ ->]]).
  - eapply H; eauto.
  - rewrite notified_n in Hn. eapply H; eauto.
Qed.

Lemma inv3_n_add_task : forall s,
  (forall j p n, nth_error (ws s) j = Some p -> wpc_n p = Some n -> 0 < n) ->
  forall j p n, nth_error (ws (add_task s)) j = Some p -> wpc_n p = Some n -> 0 < n.
Proof.
  intros s H j p n Hj Hn. apply ws_add_task_inv in Hj. destruct Hj as [->|Hj]; [discriminate|eauto].
Qed.

Ltac z_hyps :=
  repeat match goal with
         | H : (_ <=? _) = true |- _ => apply Z.leb_le in H
         | H : (_ <=? _) = false |- _ => apply Z.leb_gt in H
         | H : (_ <? _) = true |- _ => apply Z.ltb_lt in H
         | H : (_ <? _) = false |- _ => apply Z.ltb_ge in H
         | H : (_ =? _) = true |- _ => apply Z.eqb_eq in H
         | H : (_ =? _) = false |- _ => apply Z.eqb_neq in H
         | H : _ && _ = true |- _ => apply andb_true_iff in H; destruct H
         end.

Lemma inv3_step_io : forall c s ch s' l,
  Inv3 s -> step_io c s ch = Some (s', l) -> taint s' = false -> Inv3 s'.
Proof.
  intros c s ch s' l [Hpe Ht3 Hc2 Hc3 Hn] H Ht. unfold tot_ok in Ht3. unfold step_io in H. step_cases H.
  all: unfold after_read, turn_start, hc_return, goio in *.
  all: repeat match goal with |- context [if ?b then _ else _] => destruct b eqn:? end.
  all: z_hyps.
  all: simpl in Hc3.
  all: constructor; unfold tot_ok; simpl; try match goal with E : io _ = _ |- _ => rewrite ?E; simpl end;
       try (intros; discriminate); auto; try lia;
       try (intros; lia);
       try (apply inv3_n_notify; auto); try (apply inv3_n_add_task; auto).
  all: match goal with |- ?g => idtac g end.
Admitted.
