(* Proof/ChanWakeL3.v -- layer 3 of the C05 invariant: total_outbufs_len counts the
   buffered bytes (every writer holds outbuf_lock since 8bcf05e), and connected / closed
   follow handle_close. *)
From Coq Require Import List ZArith Bool Arith Lia.
From WV Require Import Model.ChanWake Proof.ChanWakeInv Proof.ChanWakeBase Proof.ChanWakeL1 Proof.ChanWakeL2.
Import ListNotations.
Open Scope Z_scope.

(* the size of the write_soon in progress *)
Definition wpc_n (p : wpc) : option Z :=
  match p with
  | WWs1 n | WWs2 n | WWs3 n | WWs4 n => Some n
  | WHw1 (SWr n) | WHwC (SWr n) | WHwF (SWr n) | WHwEP (SWr n) | WHwEW (SWr n) | WHwEPk (SWr n) _ | WHwEN (SWr n)
  | WHwL1 (SWr n) | WHwL2 (SWr n) | WHwLP (SWr n) | WHwLW (SWr n) | WHwLPk (SWr n) | WHwLN (SWr n) => Some n
  | _ => None
  end.

(* the worker changes total_outbufs_len / the buffers in its next steps *)
Definition w_writer (p : wpc) : bool :=
  match p with WHwF _ | WWs4 _ | WWsF _ => true | _ => false end.

Definition tot_ok (s : state) : Prop :=
  match io s with
  | IoHCc _ => True
  | _ => conn s = true -> total s = pend s
  end.

Record Inv3 (s : state) : Prop := {
  i3_pend : 0 <= pend s;
  i3_tot : tot_ok s;
  i3_c2 : closed s = true -> conn s = false;
  i3_c3 : conn s = false -> closed s = true \/ io_hc_late (io s) = true;
  i3_late : io_hc_late (io s) = true -> conn s = false;
  i3_scx : forall j p, nth_error (ws s) j = Some p -> w_scx p = true -> conn s = false;
  i3_n : forall j p n, nth_error (ws s) j = Some p -> wpc_n p = Some n -> 0 < n
}.

Lemma inv3_init : forall nw, Inv3 (init nw).
Proof.
  intros. constructor; unfold tot_ok; simpl; intros; try lia; try discriminate; auto.
  - apply nth_error_In in H. apply repeat_spec in H. subst. discriminate.
  - apply nth_error_In in H. apply repeat_spec in H. subst. discriminate.
Qed.

Lemma scx_notify : forall l (P : Prop),
  (forall j p, nth_error l j = Some p -> w_scx p = true -> P) ->
  forall j p, nth_error (notify_o l) j = Some p -> w_scx p = true -> P.
Proof.
  intros l P H j q Hj Hq. destruct (notify_o_nth _ _ _ Hj) as (p & Hp & [->|[Pp ->]]).
  - eapply H; eauto.
  - destruct p; simpl in Pp; try discriminate; simpl in Hq; discriminate.
Qed.

Lemma scx_add_task : forall s (P : Prop),
  (forall j p, nth_error (ws s) j = Some p -> w_scx p = true -> P) ->
  forall j p, nth_error (ws (add_task s)) j = Some p -> w_scx p = true -> P.
Proof.
  intros s P H j p Hj Hp. apply ws_add_task_inv in Hj. destruct Hj as [->|Hj]; [discriminate|eauto].
Qed.

Lemma notified_n : forall p, wpc_n (notified p) = wpc_n p.
Proof. destruct p; try reflexivity; destruct st; reflexivity. Qed.

Lemma inv3_n_notify : forall l,
  (forall j p n, nth_error l j = Some p -> wpc_n p = Some n -> 0 < n) ->
  forall j p n, nth_error (notify_o l) j = Some p -> wpc_n p = Some n -> 0 < n.
Proof.
  intros l H j q n Hj Hn. destruct (notify_o_nth _ _ _ Hj) as (p & Hp & [->|[_ ->]]).
  - eapply H; eauto.
  - rewrite notified_n in Hn. eapply H; eauto.
Qed.

Lemma inv3_n_add_task : forall s,
  (forall j p n, nth_error (ws s) j = Some p -> wpc_n p = Some n -> 0 < n) ->
  forall j p n, nth_error (ws (add_task s)) j = Some p -> wpc_n p = Some n -> 0 < n.
Proof.
  intros s H j p n Hj Hn. apply ws_add_task_inv in Hj. destruct Hj as [->|Hj]; [discriminate|eauto].
Qed.

Lemma add_task_fields3 : forall s,
  pend (add_task s) = pend s /\ total (add_task s) = total s /\ conn (add_task s) = conn s /\
  closed (add_task s) = closed s /\ io (add_task s) = io s.
Proof. intros. unfold add_task. simpl. destruct (qwait s); simpl; auto. Qed.

Ltac z_hyps :=
  repeat match goal with
         | H : (_ <=? _) = true |- _ => apply Z.leb_le in H
         | H : (_ <=? _) = false |- _ => apply Z.leb_gt in H
         | H : (_ <? _) = true |- _ => apply Z.ltb_lt in H
         | H : (_ <? _) = false |- _ => apply Z.ltb_ge in H
         | H : (_ =? _) = true |- _ => apply Z.eqb_eq in H
         | H : (_ =? _) = false |- _ => apply Z.eqb_neq in H
         | H : _ && _ = true |- _ => apply andb_true_iff in H; destruct H
         end.

Lemma inv3_step_io : forall c s ch s' l,
  Inv3 s -> step_io c s ch = Some (s', l) -> Inv3 s'.
Proof.
  intros c s ch s' l [Hpe Ht3 Hc2 Hc3 Hlate Hscx Hn] H. unfold tot_ok in Ht3. unfold step_io in H. step_cases H.
  all: unfold after_read, turn_start, hc_return, goio in *.
  all: repeat match goal with |- context [if ?b then _ else _] => destruct b eqn:? end.
  all: z_hyps.
  all: simpl in Hc3, Hlate; unfold cont_len in *.
  all: try (destruct (add_task_fields3 s) as (F1 & F2 & F3 & F4 & _)).
  all: constructor; unfold tot_ok; simpl; rewrite ?F1, ?F2, ?F3, ?F4; try match goal with E : io _ = _ |- _ => rewrite ?E; simpl end;
       try (intros; discriminate); auto; try lia;
       try (intros; lia); try (intros; congruence);
       try (intros Hx; specialize (Ht3 Hx); lia);
       try (intros Hx; destruct (Hc3 Hx); [congruence|discriminate]);
       try (apply inv3_n_notify; auto); try (apply inv3_n_add_task; auto);
       try (apply scx_notify; auto); try (apply scx_add_task; auto).
Qed.

Lemma inv3_step_w : forall c s i ch s' l,
  Inv1 s -> Inv2 s -> Inv3 s -> step_w c s i ch = Some (s', l) -> Inv3 s'.
Proof.
  intros c s i ch s' l HI1 HI2 [Hpe Ht3 Hc2 Hc3 Hlate Hscx Hn] H. unfold step_w in H.
  destruct (getw s i) as [pc|] eqn:Hg; [|discriminate]. unfold getw in Hg.
  assert (Hni : forall n, wpc_n pc = Some n -> 0 < n) by (intros n0 Hx; eapply Hn; eauto).
  assert (Hsi : w_scx pc = true -> conn s = false) by (intros Hx; eapply Hscx; eauto).
  unfold tot_ok in Ht3.
  step_cases H.
  all: unfold setw, hw_exit in *.
  all: repeat match goal with |- context [if ?b then _ else _] => destruct b eqn:? end.
  all: repeat match goal with |- context [match ?b with SWr _ => _ | SEnd => _ end] => destruct b eqn:? end.
  all: z_hyps.
  all: try match goal with |- context [add_task ?x] => destruct (add_task_fields3 x) as (F1 & F2 & F3 & F4 & F5) end.
  all: constructor; unfold tot_ok; simpl; rewrite ?F1, ?F2, ?F3, ?F4, ?F5; auto; try lia.
  all: try (intros j p n' Hj Hpn; apply nth_error_upd_inv in Hj; destruct Hj as [[-> ->]|[Hne Hj]];
            [ simpl in Hpn; try discriminate; inversion Hpn; subst; try lia; try (apply Hni; reflexivity)
            | try (apply ws_add_task_inv in Hj; destruct Hj as [->|Hj]; [discriminate|]); eapply Hn; eauto ]).
  all: try (intros j p Hj Hp; first [ apply nth_error_upd_inv in Hj; destruct Hj as [[-> ->]|[Hne Hj]]
                                     | idtac ];
            [ simpl in Hp; try discriminate Hp; simpl in Hsi;
              first [ assumption | apply Hsi; reflexivity | apply Hc2; assumption | congruence ]
            | try (apply ws_add_task_inv in Hj; destruct Hj as [->|Hj]; [discriminate|]);
              first [ eapply Hscx; eauto; fail | pose proof (Hscx _ _ Hj Hp); congruence ] ]; fail).
  all: try (intros j p Hj Hp; eapply Hscx; eauto; fail).
  all: try match goal with E : conn _ = _ |- _ => rewrite ?E end.
  all: try match goal with E : closed _ = _ |- _ => rewrite ?E end.
  all: auto.
  all: try (intros; congruence).
  all: try (intros Hx; destruct (Hc3 Hx); [congruence|auto]; fail).
  all: try (destruct (io s) eqn:Eio; simpl in *; try discriminate; intros; try lia;
            try (specialize (Ht3 ltac:(assumption)); lia); try congruence; fail).
  - specialize (Hni n eq_refl). lia.
  - unfold cont_len. lia.
Qed.

Lemma inv3_step : forall c s ch s' l,
  Inv1 s -> Inv2 s -> Inv3 s -> step c s ch = Some (s', l) -> Inv3 s'.
Proof.
  intros c s ch s' l HI1 HI2 HI H. unfold step in H. destruct ch;
    try (eapply inv3_step_io; eauto; fail); try (eapply inv3_step_w; eauto; fail).
  - destruct (gone s); [discriminate|]. inversion H; subst. destruct HI. constructor; simpl; auto.
  - destruct (gone s); [discriminate|]. inversion H; subst. destruct HI. constructor; simpl; auto.
Qed.
