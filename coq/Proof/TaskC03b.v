(* C03, widened frame theorems: closed instances for the concrete case mapping
   (py_cap / py_lower), in the form stated in Props/C03.v, and examples showing
   that the hypotheses are satisfiable. *)
From Coq Require Import String.
From Coq Require Import List NArith ZArith Bool Lia Arith Permutation.
From WV Require Import Lib.PyBytes Gen.GenTables Model.Task Spec.ClientParse
  Proof.TaskHead Proof.TaskStart Proof.TaskRun Proof.TaskChunk Proof.TaskClient Proof.TaskOracle
  Proof.TaskC08 Proof.TaskC09 Proof.TaskFrame Proof.TaskBody Proof.TaskSimple Proof.TaskFrameClient
  Proof.TaskFrameEnd Proof.TaskC03 Proof.TaskFrame2Sem Proof.TaskFrame2Run Proof.TaskFrame2Head
  Proof.TaskFrame2End Proof.TaskFrame2Err Proof.TaskFrame2File Proof.TaskFrame2FileEnd.
Import ListNotations.
Local Open Scope N_scope.

Theorem c03_frame_write c r status hs ws kind chunks hc :
  cfg_clean c ->
  r_error r = None -> no_handover kind ws -> len1 kind = false -> Forall (not_cl py_lower) hs ->
  plain_fields py_cap (strs_of hs) ->
  r_head r = false -> no_body_st status = false ->
  let res := run_task c r (wapp status hs ws kind chunks hc) None in
  o_raw res = None ->
  exists fields,
    parse_one false (wire (o_writes res))
    = Some (mkResponse (sl_of r status) fields
                       (if beqb (r_version r) (lit "1.1") then FChunked else FEof)
                       (concat ws ++ produced kind chunks), [])
    /\ (forall h, In h (strs_of hs) -> In (client_field (norm_field py_cap h)) fields)
    /\ In (client_field f_close) fields
    /\ o_close res = true /\ o_next res = false.
Proof. intro Hc. exact (frame_nolen_w py_cap py_lower py_cap_clean py_cap_te c Hc r status hs ws kind chunks hc). Qed.

Theorem c03_frame_write_head c r status hs ws kind chunks hc :
  cfg_clean c ->
  r_error r = None -> no_handover kind ws -> len1 kind = false -> Forall (not_cl py_lower) hs ->
  plain_fields py_cap (strs_of hs) ->
  r_head r = true -> concat ws ++ produced kind chunks = [] ->
  let res := run_task c r (wapp status hs ws kind chunks hc) None in
  o_raw res = None ->
  exists fields,
    parse_one true (wire (o_writes res)) = Some (mkResponse (sl_of r status) fields FNoBody [], [])
    /\ (forall h, In h (strs_of hs) -> In (client_field (norm_field py_cap h)) fields)
    /\ In (client_field f_close) fields
    /\ o_close res = true /\ o_next res = false.
Proof. intro Hc. exact (frame_head_nolen_w py_cap py_lower py_cap_clean py_cap_te c Hc r status hs ws kind chunks hc). Qed.

Theorem c03_frame_nobody c r status hs ws kind chunks hc :
  cfg_clean c ->
  r_error r = None -> len1 kind = false -> Forall (not_cl py_lower) hs ->
  plain_fields py_cap (strs_of hs) ->
  no_body_st status = true ->
  let res := run_task c r (wapp status hs ws kind chunks hc) None in
  o_raw res = None ->
  exists fields,
    parse_one (r_head r) (wire (o_writes res)) = Some (mkResponse (sl_of r status) fields FNoBody [], [])
    /\ (forall h, In h (strs_of hs) -> In (client_field (norm_field py_cap h)) fields)
    /\ In (client_field f_close) fields
    /\ filter (field_is te_name) fields = [] /\ filter (field_is cl_name) fields = []
    /\ o_close res = true /\ o_next res = false
    /\ o_handover res = false /\ o_closes res = (if hc then 1 else 0)%nat.
Proof. intro Hc. exact (frame_nobody_any py_cap py_lower py_cap_clean py_cap_te c Hc r status hs ws kind chunks hc). Qed.

(* the seekable file wrapper after a 1xx/204/304 status (fix d117733): not handed over,
   iterated -- write() drops every block --, closed by the task *)
Theorem c03_frame_file_nobody c r status hs chunks :
  cfg_clean c ->
  r_error r = None -> Forall (not_cl py_lower) hs -> plain_fields py_cap (strs_of hs) ->
  no_body_st status = true ->
  let res := run_task c r (fapp status hs chunks true) None in
  o_raw res = None ->
  exists fields,
    parse_one (r_head r) (wire (o_writes res)) = Some (mkResponse (sl_of r status) fields FNoBody [], [])
    /\ (forall h, In h (strs_of hs) -> In (client_field (norm_field py_cap h)) fields)
    /\ In (client_field f_close) fields
    /\ filter (field_is te_name) fields = [] /\ filter (field_is cl_name) fields = []
    /\ o_close res = true /\ o_next res = false
    /\ o_handover res = false /\ o_closes res = 1%nat.
Proof.
  intros Hc He. exact (c03_frame_nobody c r status hs [] (KFile true) chunks true Hc He eq_refl).
Qed.

(* 304 with a seekable file of 6 bytes, HTTP/1.1 keep-alive request: head only, closed *)
Example file_nobody_example :
  let res := run_task sample_cfg sample_req (fapp (lit "304 Not Modified") [] [lit "abcd"; lit "ef"] true) None in
  o_raw res = None /\ o_handover res = false /\ o_closes res = 1%nat
  /\ wire (o_writes res)
     = lit "HTTP/1.1 304 Not Modified" ++ CRLF ++ lit "Connection: close" ++ CRLF
       ++ lit "Date: Thu, 01 Jan 2026 00:00:00 GMT" ++ CRLF ++ lit "Server: waitress" ++ CRLF ++ CRLF.
Proof. vm_compute. repeat split; reflexivity. Qed.

Section Declared.
Variables (c : cfg) (r : req) (status : str) (pre post : list (pyobj * pyobj)) (clname v : str) (cl : Z).
Variables (ws : list bytes) (kind : ikind) (chunks : list bytes) (hc : bool).

(* the hypotheses shared by the three theorems about a declared Content-Length *)
Definition declared_ok : Prop :=
  cfg_clean c /\ r_error r = None /\ no_handover kind ws
  /\ Forall (not_cl py_lower) post
  /\ beqb (py_lower clname) (lit "content-length") = true /\ py_int v = Some cl
  /\ all_digits v = true /\ Z.of_N (dec_value v) = cl
  /\ plain_fields py_cap (strs_of pre) /\ plain_fields py_cap (strs_of post)
  /\ norm_name py_cap clname = lit "Content-Length"
  /\ no_body_st status = false.

Let hs := pre ++ (PStr clname, PStr v) :: post.
Let all := concat ws ++ produced kind chunks.
Let res := run_task c r (wapp status hs ws kind chunks hc) None.

Theorem c03_frame_length_cut :
  declared_ok ->
  r_head r = false -> (cl <= Z.of_nat (length all))%Z ->
  o_raw res = None ->
  exists fields,
    parse_one false (wire (o_writes res))
    = Some (mkResponse (sl_of r status) fields (FLength (dec_value v)) (firstn (N.to_nat (dec_value v)) all), [])
    /\ (forall h, In h (strs_of hs) -> In (client_field (norm_field py_cap h)) fields)
    /\ o_next res = keep_of r /\ o_close res = negb (keep_of r)
    /\ (keep_of r = false -> In (client_field f_close) fields)
    /\ (keep_of r = true -> ~ In (client_field f_close) fields).
Proof.
  intros (Hc & He & Hnh & Hpost & Hn & Hv & Hdig & Hdv & Ppre & Ppost & Hnorm & Hst).
  exact (frame_len_cut_w py_cap py_lower py_cap_clean py_cap_connection py_cap_te py_cap_cl c Hc r
           status pre post clname v cl ws kind chunks hc He Hnh Hpost Hn Hv Hdig Hdv Ppre Ppost Hnorm Hst).
Qed.

Theorem c03_frame_length_short :
  declared_ok ->
  r_head r = false -> (Z.of_nat (length all) < cl)%Z -> ws ++ eff kind chunks <> [] ->
  o_raw res = None ->
  exists fields,
    parse_one false (wire (o_writes res)) = None
    /\ (forall pad, lenN (all ++ pad) = dec_value v ->
          parse_one false (wire (o_writes res) ++ pad)
          = Some (mkResponse (sl_of r status) fields (FLength (dec_value v)) (all ++ pad), []))
    /\ (forall h, In h (strs_of hs) -> In (client_field (norm_field py_cap h)) fields)
    /\ o_close res = true /\ o_next res = false.
Proof.
  intros (Hc & He & Hnh & Hpost & Hn & Hv & Hdig & Hdv & Ppre & Ppost & Hnorm & Hst).
  exact (frame_len_short_w py_cap py_lower py_cap_clean py_cap_connection py_cap_te py_cap_cl c Hc r
           status pre post clname v cl ws kind chunks hc He Hnh Hpost Hn Hv Hdig Hdv Ppre Ppost Hnorm Hst).
Qed.

Theorem c03_frame_length_head :
  declared_ok ->
  r_head r = true -> all = [] ->
  o_raw res = None ->
  exists fields,
    parse_one true (wire (o_writes res)) = Some (mkResponse (sl_of r status) fields FNoBody [], [])
    /\ (forall h, In h (strs_of hs) -> In (client_field (norm_field py_cap h)) fields)
    /\ o_next res = keep_of r /\ o_close res = negb (keep_of r)
    /\ (keep_of r = false -> In (client_field f_close) fields)
    /\ (keep_of r = true -> ~ In (client_field f_close) fields).
Proof.
  intros (Hc & He & Hnh & Hpost & Hn & Hv & Hdig & Hdv & Ppre & Ppost & Hnorm & Hst).
  exact (frame_head_len_w py_cap py_lower py_cap_clean py_cap_connection py_cap_te py_cap_cl c Hc r
           status pre post clname v cl ws kind chunks hc He Hnh Hpost Hn Hv Hdig Hdv Ppre Ppost Hnorm Hst).
Qed.

End Declared.

(* ---- the hypotheses are satisfiable, on non-trivial instances ------------------- *)

Definition ct_hdr : pyobj * pyobj := (PStr (lit "content-type"), PStr (lit "text/plain")).

(* write() twice, then a generator with an empty and a non-empty chunk, HTTP/1.1 *)
Example write_example :
  let res := run_task sample_cfg sample_req (wapp (lit "200 OK") [ct_hdr] [lit "pre"; []] KGen [[]; lit "xyz"] true) None in
  o_raw res = None /\ no_handover KGen [lit "pre"; []] /\ plain_fields py_cap (strs_of [ct_hdr])
  /\ exists resp, parse_stream [false] (wire (o_writes res)) = ([resp], [])
                  /\ rs_framing resp = FChunked /\ rs_body resp = lit "prexyz".
Proof.
  cbn zeta. split; [vm_compute; reflexivity|]. split; [right; right; discriminate|].
  split; [unfold plain_fields, plain_name; repeat constructor|].
  vm_compute. eexists. repeat split; reflexivity.
Qed.

(* a non-seekable file wrapper read in blocks, HTTP/1.0: close-delimited *)
Example file_blocks_example :
  let r10 := mkReq (lit "1.0") None false false None in
  let res := run_task sample_cfg r10 (wapp (lit "200 OK") [] [] (KFile false) [lit "abcd"; lit "ef"; []] true) None in
  o_raw res = None /\ o_handover res = false
  /\ exists resp, parse_stream [false] (wire (o_writes res)) = ([resp], [])
                  /\ rs_framing resp = FEof /\ rs_body resp = lit "abcdef".
Proof. vm_compute. repeat split; try reflexivity. eexists. repeat split; reflexivity. Qed.

Definition cl_hdr (v : str) : pyobj * pyobj := (PStr (lit "Content-Length"), PStr v).

(* declared 4, produced 2 + 5: cut at 4, connection kept *)
Example cut_example :
  let res := run_task sample_cfg sample_req
               (wapp (lit "200 OK") ([ct_hdr] ++ cl_hdr (lit "4") :: []) [lit "ab"] KGen [lit "cdefg"] true) None in
  o_raw res = None /\ o_next res = true
  /\ exists resp, parse_stream [false] (wire (o_writes res)) = ([resp], [])
                  /\ rs_framing resp = FLength 4 /\ rs_body resp = lit "abcd".
Proof. vm_compute. repeat split; try reflexivity. eexists. repeat split; reflexivity. Qed.

(* declared 9, produced 5: the client is left waiting, the connection is closed *)
Example short_example :
  let res := run_task sample_cfg sample_req
               (wapp (lit "200 OK") ([] ++ cl_hdr (lit "9") :: []) [] KGen [lit "hello"] true) None in
  o_raw res = None /\ o_close res = true /\ o_next res = false
  /\ parse_one false (wire (o_writes res)) = None.
Proof. vm_compute. repeat split; reflexivity. Qed.

Example declared_ok_example :
  declared_ok sample_cfg sample_req (lit "200 OK") [ct_hdr] [] (lit "Content-Length") (lit "4") 4%Z [lit "ab"] KGen.
Proof.
  unfold declared_ok. split; [apply sample_cfg_clean|]. split; [reflexivity|]. split; [left; reflexivity|].
  split; [constructor|]. repeat split; try reflexivity; unfold plain_fields, plain_name; repeat constructor.
Qed.

(* 204 with a body the application should not have produced: dropped, closed *)
Example nobody_example :
  let res := run_task sample_cfg sample_req (wapp (lit "204 No Content") [] [] KGen [lit "oops"] true) None in
  o_raw res = None /\ o_close res = true
  /\ exists resp, parse_stream [false] (wire (o_writes res)) = ([resp], [])
                  /\ rs_framing resp = FNoBody /\ rs_body resp = [].
Proof. vm_compute. repeat split; try reflexivity. eexists. repeat split; reflexivity. Qed.

(* a failure after the head: an exception raised by the second iteration step *)
Definition late_failure_app : app :=
  mkApp [AStart (PStr (lit "200 OK")) [] None] KGen
        [mkStep [] (SYield (lit "part")); mkStep [] (SRaise AppException)] true None.

Example late_failure_example :
  let res := run_task sample_cfg sample_req late_failure_app None in
  o_raw res = Some AppException /\ o_wrote_header1 res = true
  /\ o_close res = true /\ o_closes res = 1%nat
  /\ parse_one false (wire (o_writes res)) = None.
Proof. vm_compute. repeat split; reflexivity. Qed.

(* ---- wsgi.file_wrapper handed over to the channel -------------------------------- *)

Theorem c03_frame_file c r status hs chunks hc :
  cfg_clean c ->
  r_error r = None -> Forall (not_cl py_lower) hs -> plain_fields py_cap (strs_of hs) ->
  r_head r = false -> no_body_st status = false ->
  file_content (plain_steps chunks) <> [] ->
  let content := file_content (plain_steps chunks) in
  let res := run_task c r (fapp status hs chunks hc) None in
  o_raw res = None ->
  exists fields,
    parse_one false (wire (o_writes res))
    = Some (mkResponse (sl_of r status) fields (FLength (lenN content)) content, [])
    /\ (forall h, In h (strs_of hs) -> In (client_field (norm_field py_cap h)) fields)
    /\ o_next res = keep_of r /\ o_close res = negb (keep_of r)
    /\ (keep_of r = false -> In (client_field f_close) fields)
    /\ (keep_of r = true -> ~ In (client_field f_close) fields)
    /\ o_handover res = true /\ o_closes res = 0%nat.
Proof.
  intro Hc. exact (frame_file_nolen py_cap py_lower py_cap_clean py_cap_connection py_cap_te py_cap_cl c Hc r
                                    status hs chunks hc).
Qed.

Theorem c03_frame_file_declared c r status pre clname v post cl chunks hc :
  cfg_clean c ->
  r_error r = None ->
  Forall (not_cl py_lower) post ->
  beqb (py_lower clname) (lit "content-length") = true -> py_int v = Some cl ->
  all_digits v = true -> Z.of_N (dec_value v) = cl ->
  plain_fields py_cap (strs_of pre) -> plain_fields py_cap (strs_of post) ->
  norm_name py_cap clname = lit "Content-Length" ->
  r_head r = false -> no_body_st status = false ->
  let content := file_content (plain_steps chunks) in
  (0 < cl)%Z -> (cl <= Z.of_nat (length content))%Z ->
  let hs := pre ++ (PStr clname, PStr v) :: post in
  let res := run_task c r (fapp status hs chunks hc) None in
  o_raw res = None ->
  exists fields,
    parse_one false (wire (o_writes res))
    = Some (mkResponse (sl_of r status) fields (FLength (dec_value v)) (firstn (N.to_nat (dec_value v)) content), [])
    /\ (forall h, In h (strs_of hs) -> In (client_field (norm_field py_cap h)) fields)
    /\ o_next res = keep_of r /\ o_close res = negb (keep_of r)
    /\ (keep_of r = false -> In (client_field f_close) fields)
    /\ (keep_of r = true -> ~ In (client_field f_close) fields)
    /\ o_handover res = true /\ o_closes res = 0%nat.
Proof.
  intro Hc. exact (frame_file_declared py_cap py_lower py_cap_clean py_cap_connection py_cap_te py_cap_cl c Hc r
                                       status pre clname v post cl chunks hc).
Qed.

(* a seekable file of 6 bytes read in blocks of 4, no declared length: handed over, kept alive *)
Example file_handover_example :
  let res := run_task sample_cfg sample_req (fapp (lit "200 OK") [ct_hdr] [lit "abcd"; lit "ef"] true) None in
  o_raw res = None /\ o_handover res = true /\ o_next res = true
  /\ exists resp, parse_stream [false] (wire (o_writes res)) = ([resp], [])
                  /\ rs_framing resp = FLength 6 /\ rs_body resp = lit "abcdef".
Proof. vm_compute. repeat split; try reflexivity. eexists. repeat split; reflexivity. Qed.

(* the same file behind a declared length of 4: cut by prepare(size) *)
Example file_cut_example :
  let res := run_task sample_cfg sample_req
               (fapp (lit "200 OK") ([] ++ cl_hdr (lit "4") :: []) [lit "abcd"; lit "ef"] true) None in
  o_raw res = None /\ o_handover res = true
  /\ exists resp, parse_stream [false] (wire (o_writes res)) = ([resp], [])
                  /\ rs_framing resp = FLength 4 /\ rs_body resp = lit "abcd".
Proof. vm_compute. repeat split; try reflexivity. eexists. repeat split; reflexivity. Qed.
