(* Proof/ChanFaultIso2Cov.v -- the shape of the I/O thread's stack, per connection.

   ChanFaultOnce.v proves that every instruction of the I/O thread that can raise has SOME
   catch-all frame of wasyncore below it.  The trace-level isolation theorem
   (ChanFaultIso2.v) needs more: the frame that catches is a frame OF THE SAME
   CONNECTION, and everything between the raising instruction and that frame belongs to
   that connection too -- an exception raised on behalf of connection c never unwinds
   through an instruction or a frame of the other connection, nor through the listener's.
   (That is where the repair of F17 enters: with [init_guarded g = false] the channel
   constructor ran outside handle_accept's try and its OSError reached the LISTENER's
   catch-all.)

     ioable   the instructions that can stand on the I/O thread's stack (closed under
              execution); none of them reads the thread's locals
     prot     "l starts with instructions of c up to and including a frame of c that
              catches" (KAccTry only counts for instructions that raise OSError only)
     covc     every instruction of the stack either cannot raise (given the invariant of
              ChanFaultOnce.v) and pushes covered code, or is [prot]ected
     ioI      the invariant: ioable, covc, and while unwinding: [prot] *)
From Coq Require Import List Arith ZArith Bool Lia.
From WV Require Import Lib.Conc Model.ChanFault Proof.ChanFaultSpec Proof.ChanFaultBase Proof.ChanFaultStep
                       Proof.ChanFaultOnce Proof.ChanFaultIso.
Import ListNotations.

(* ---- instructions of service() / write_soon: never on the I/O thread -------------------------------- *)
Definition wonly (i : instr) : bool :=
  match i with
  | ISvcStart _ | ISvcChkWc _ | IApp _ | IErrTask _ | IWsChk1 _ | IFbh _ | IFbhChk _ | IFbhAfter _ | IFbhLoop _ | IWsChk2 _
  | IWsAppend _ _ | IWsFlush _ | IWsAfter _ | ISvcEnd _ | ISetCwf _ | ISvcPop _ | ISvcTail _
  | KSvcTry _ | KSvcTry2 _ | KWorkerTop _ | IWaitO _ | IWake _ _ | IPull _ => true
  | _ => false
  end.
Definition ioable (i : instr) : bool := negb (wonly i).

(* instructions that do not raise on the I/O thread (given SInv) and push covered code *)
Definition selfcov (i : instr) : bool :=
  exempt i || match i with IAccept | IAddChan _ | KAccTry _ => true | _ => false end.
(* instructions whose only exception is an OSError *)
Definition only_os (i : instr) : bool :=
  match i with ISetOpts _ | IInitGso _ | IInitSbl _ => true | _ => false end.
Definition catcher (os : bool) (k : instr) : bool :=
  match k with KWasyn _ | KReadwrite _ | KFlushExc _ => true | KAccTry _ => os | _ => false end.

Fixpoint prot (os : bool) (c : chan) (l : list instr) : bool :=
  match l with
  | [] => false
  | k :: r => about c k && (catcher os k || prot os c r)
  end.

Fixpoint covc (l : list instr) : bool :=
  match l with
  | [] => true
  | i :: r => (selfcov i || match chan_of i with Some c => prot (only_os i) c r | None => false end) && covc r
  end.

Record ioI (th : thread_st) : Prop := {
  i_able : forallb ioable (stk th) = true;
  i_cov : covc (stk th) = true;
  i_raise : forall x, raising th = Some x -> x <> XReraised /\ exists c, prot (is_oserror x) c (stk th) = true
}.

(* ---- list lemmas ------------------------------------------------------------------------------------ *)
Lemma catcher_frame : forall os k, catcher os k = true -> is_frame k = true.
Proof. destruct k; simpl; intros; auto; discriminate. Qed.

Lemma catcher_mono : forall k, catcher false k = true -> forall os, catcher os k = true.
Proof. destruct k; simpl; intros; auto; discriminate. Qed.

Lemma prot_mono : forall c l, prot false c l = true -> forall os, prot os c l = true.
Proof.
  induction l as [|k r IH]; simpl; intros H os; auto.
  apply andb_true_iff in H. destruct H as [Hk H]. rewrite Hk. simpl.
  apply orb_true_iff in H. destruct H as [H|H].
  - rewrite (catcher_mono _ H). reflexivity.
  - rewrite IH by auto. apply orb_true_r.
Qed.

Lemma prot_app_l : forall os c p r, prot os c p = true -> prot os c (p ++ r) = true.
Proof.
  induction p as [|k p IH]; simpl; intros r H; [discriminate|].
  apply andb_true_iff in H. destruct H as [Hk H]. rewrite Hk. simpl.
  apply orb_true_iff in H. destruct H as [H|H]; [rewrite H; reflexivity|].
  rewrite IH by auto. apply orb_true_r.
Qed.

Lemma prot_app_about : forall os c p r, forallb (about c) p = true -> prot os c r = true -> prot os c (p ++ r) = true.
Proof.
  induction p as [|k p IH]; simpl; intros r Hp Hr; auto.
  apply andb_true_iff in Hp. destruct Hp as [Hk Hp]. rewrite Hk, IH by auto. simpl. apply orb_true_r.
Qed.

Lemma prot_head : forall os c l, prot os c l = true -> exists k r, l = k :: r /\ about c k = true.
Proof.
  intros os c [|k r] H; simpl in H; [discriminate|]. apply andb_true_iff in H. exists k, r. tauto.
Qed.

Lemma covc_app_self : forall p r, covc p = true -> covc r = true -> covc (p ++ r) = true.
Proof.
  induction p as [|i p IH]; simpl; intros r Hp Hr; auto.
  apply andb_true_iff in Hp. destruct Hp as [Hi Hp]. rewrite IH by auto. rewrite andb_true_r.
  destruct (selfcov i); simpl in *; auto.
  destruct (chan_of i) as [c|]; [|discriminate]. apply prot_app_l. auto.
Qed.

Lemma covc_app_prot : forall c p r,
  forallb (about c) p = true -> prot false c r = true -> covc r = true -> covc (p ++ r) = true.
Proof.
  induction p as [|i p IH]; simpl; intros r Hp Hr Hc; auto.
  apply andb_true_iff in Hp. destruct Hp as [Hi Hp]. rewrite IH by auto. rewrite andb_true_r.
  rewrite (about_chan_of _ _ Hi).
  rewrite (prot_app_about (only_os i) c p r Hp (prot_mono _ _ Hr _)). apply orb_true_r.
Qed.

Lemma covc_suffix : forall p r, covc (p ++ r) = true -> covc r = true.
Proof. induction p; simpl; intros; auto. apply andb_true_iff in H. destruct H. eauto. Qed.

Lemma covc_selfcov : forall l, forallb selfcov l = true -> covc l = true.
Proof.
  induction l as [|i l IH]; simpl; intro H; auto. apply andb_true_iff in H. destruct H as [Hi Hl].
  rewrite Hi, IH by auto. reflexivity.
Qed.

Lemma exempt_selfcov : forall i, exempt i = true -> selfcov i = true.
Proof. intros i H. unfold selfcov. rewrite H. reflexivity. Qed.

Lemma map_disp_selfcov : forall k l, forallb selfcov (map (IDisp k) l) = true.
Proof. induction l; simpl; auto. Qed.
Lemma map_p2_selfcov : forall l, forallb selfcov (map p2_instr l) = true.
Proof. induction l as [|p l IH]; simpl; auto. destruct p as [[f [rd wr]] [pri hup]]. simpl. auto. Qed.
Lemma map_disp_ioable : forall k l, forallb ioable (map (IDisp k) l) = true.
Proof. induction l; simpl; auto. Qed.
Lemma map_p2_ioable : forall l, forallb ioable (map p2_instr l) = true.
Proof. induction l as [|p l IH]; simpl; auto. destruct p as [[f [rd wr]] [pri hup]]. simpl. auto. Qed.

(* unwinding a protected stack: everything dropped and the frame reached belong to c *)
Lemma prot_drop : forall os c l, prot os c l = true ->
  exists pre k rest, l = pre ++ k :: rest /\ drop_to_frame l = k :: rest /\
    forallb (about c) pre = true /\ about c k = true /\ (catcher os k = true \/ prot os c rest = true).
Proof.
  induction l as [|i r IH]; simpl; intro H; [discriminate|].
  apply andb_true_iff in H. destruct H as [Hi H].
  destruct (is_frame i) eqn:F.
  - exists [], i, r. simpl. repeat split; auto. apply orb_true_iff in H. auto.
  - assert (Hc : catcher os i = false).
    { destruct (catcher os i) eqn:E; auto. apply catcher_frame in E. congruence. }
    rewrite Hc in H. simpl in H.
    destruct (IH H) as (pre & k & rest & E1 & E2 & E3 & E4 & E5).
    exists (i :: pre), k, rest. simpl. rewrite Hi, E3. repeat split; auto. congruence.
Qed.

(* ---- what one instruction does ---------------------------------------------------------------------- *)
Lemma exec_cov : forall g t i a s, init_guarded g = true -> ioable i = true ->
  match exec g t i a s with
  | Blocked => True
  | Norm s' push ls =>
      forallb ioable push = true /\ (selfcov i = true -> covc push = true) /\ (only_os i = true -> push = [])
  | Raise s' x ls =>
      x <> XReraised /\ (only_os i = true -> is_oserror x = true) /\
      (selfcov i = true ->
         (exists c, i = IDelMapDo c /\ in_map (getc s c) = false) \/
         (exists r w e, i = ISelect r w e /\ negb (use_poll2 g) && negb (forallb (fd_open s) e) = true))
  end.
Proof.
  intros g t i a s Hg Hi.
  destruct i; try discriminate Hi;
  try match goal with f : fdt |- _ => destruct f as [| |[|]] end;
  try match goal with k : evk |- _ => destruct k end;
  try match goal with c : chan |- _ => destruct c end;
  cbn [exec event chan_event hclose_fd herror hclose hclose_body server_close flush_some send_continue send_continue_dc app];
  rewrite ?Hg; repeat split_innermost; auto;
  repeat split; auto; try (intro; discriminate); try discriminate;
  rewrite ?forallb_app, ?map_p2_ioable, ?map_disp_ioable; auto.
  all: try (intros _; apply covc_selfcov; rewrite ?forallb_app, ?map_p2_selfcov, ?map_disp_selfcov; reflexivity).
  all: try (intros _; left; eexists; split; [reflexivity|assumption]).
  all: try (intros _; right; do 3 eexists; split; [reflexivity|assumption]).
  all: intros _; match goal with c : chan |- _ => destruct c end; reflexivity.
Qed.

Lemma frame_cov : forall t k x s, ioable k = true -> x <> XReraised ->
  match frame t k x s with
  | FCatch s' push ls => forallb ioable push = true /\ covc push = true
  | FPass s' => catcher (is_oserror x) k = false
  end.
Proof.
  intros t k x s Hk Hx.
  destruct k; try discriminate Hk;
  try match goal with f : fdt |- _ => destruct f as [| |[|]] end;
  cbn [frame herror hclose_fd hclose server_close]; repeat split_innermost; auto;
  try (destruct x; simpl in *; congruence).
Qed.

(* an instruction that [selfcov] declares harmless does not raise at the head of the I/O thread's stack *)
Lemma selfcov_no_raise : forall g s i rest a s' x ls,
  init_guarded g = true -> SInv g s -> raising (getth s IO) = None -> stk (getth s IO) = i :: rest ->
  ioable i = true -> selfcov i = true -> exec g IO i a s = Raise s' x ls -> False.
Proof.
  intros g s i rest a s' x ls Hg (_ & _ & _ & [K1 _ _]) R S Hi Hs E.
  specialize (K1 R). rewrite S in K1.
  pose proof (exec_cov g IO i a s Hg Hi) as EC. rewrite E in EC.
  destruct EC as (_ & _ & EC). destruct (EC Hs) as [(c & -> & Hm)|(r & w & e & -> & Hc)].
  - inversion K1; subst; try discriminate; congruence.
  - apply andb_true_iff in Hc. destruct Hc as [H1 H2]. apply negb_true_iff in H1, H2.
    inversion K1; subst; try discriminate.
    match goal with H : use_poll2 g = false -> _ |- _ => rewrite H in H2 by auto end. discriminate.
Qed.

(* ---- the invariant ---------------------------------------------------------------------------------- *)
Lemma forallb_in : forall (A : Type) (p : A -> bool) l x, forallb p l = true -> In x l -> p x = true.
Proof. intros A p l x H Hin. rewrite forallb_forall in H. auto. Qed.

Lemma ioI_io_step : forall g s a s' l,
  init_guarded g = true -> SInv g s -> ioI (getth s IO) -> step g s (IO, a) = Some (s', l) -> ioI (getth s' IO).
Proof.
  intros g s a s' l Hg HS [I1 I2 I3] H. unfold step in H.
  destruct (raising (getth s IO)) as [x|] eqn:R.
  - destruct (I3 x eq_refl) as (Hx & c & Hp).
    destruct (prot_drop _ _ _ Hp) as (pre & k & rest & E1 & E2 & E3 & E4 & E5).
    rewrite E2 in H. rewrite E1 in I1, I2.
    assert (Hk : ioable k = true) by (eapply forallb_in; [exact I1|apply in_or_app; right; left; reflexivity]).
    assert (Hra : forallb ioable rest = true).
    { rewrite forallb_app in I1. apply andb_true_iff in I1. destruct I1 as [_ I1]. simpl in I1. apply andb_true_iff in I1. tauto. }
    assert (Hrc : covc rest = true) by (apply covc_suffix in I2; simpl in I2; apply andb_true_iff in I2; tauto).
    pose proof (frame_cov IO k x s Hk Hx) as FC.
    destruct (frame IO k x s) as [s1 push ls|s1]; injection H as <- <-; rewrite getth_setth_same.
    + destruct FC as [F1 F2]. constructor; simpl.
      * rewrite forallb_app, F1, Hra. reflexivity.
      * apply covc_app_self; auto.
      * intros y Ey. discriminate.
    + constructor; simpl; auto. intros y Ey. injection Ey as <-. split; auto.
      exists c. destruct E5 as [E5|E5]; [congruence|auto].
  - destruct (stk (getth s IO)) as [|i rest] eqn:S; [discriminate|].
    simpl in I1, I2. apply andb_true_iff in I1. destruct I1 as [Hi Hra].
    apply andb_true_iff in I2. destruct I2 as [Hic Hrc].
    pose proof (exec_cov g IO i a s Hg Hi) as EC.
    pose proof (selfcov_no_raise g s i rest a) as NR.
    pose proof (exec_own_stack g IO i a s) as EO.
    destruct (exec g IO i a s) as [|s1 push ls|s1 x ls] eqn:E; [discriminate| |]; injection H as <- <-; rewrite getth_setth_same.
    + destruct EC as (P1 & P2 & P3). constructor; simpl.
      * rewrite forallb_app, P1, Hra. reflexivity.
      * destruct (selfcov i) eqn:Es.
        -- apply covc_app_self; auto.
        -- simpl in Hic. destruct (chan_of i) as [c|] eqn:Ec; [|discriminate].
           destruct (only_os i) eqn:Eo.
           ++ rewrite P3 by auto. exact Hrc.
           ++ destruct (other_chan c) as [d Hd].
              pose proof (exec_local g IO i a s c d Ec Hd) as EL. rewrite E in EL.
              destruct EL as (_ & _ & EL & _). eapply covc_app_prot; eauto.
      * intros y Ey. destruct EO as [_ ER]. rewrite ER, R in Ey. discriminate.
    + destruct EC as (P1 & P2 & P3). constructor; simpl; auto.
      intros y Ey. injection Ey as <-. split; auto.
      destruct (selfcov i) eqn:Es.
      * exfalso. eapply NR; eauto.
      * simpl in Hic. destruct (chan_of i) as [c|] eqn:Ec; [|discriminate]. exists c.
        destruct (only_os i) eqn:Eo.
        -- rewrite P2 by auto. exact Hic.
        -- apply prot_mono. exact Hic.
Qed.

Lemma ioI_init : ioI (getth init IO).
Proof. constructor; simpl; auto. intros x E. discriminate. Qed.

Definition IInv (g : cfg) (s : state) (tr : list label) : Prop := OInv g s tr /\ ioI (getth s IO).

Theorem ioI_always : forall g sched,
  wc_close g = false -> init_guarded g = true ->
  SInv g (ChanFault.run g sched) /\ ioI (getth (ChanFault.run g sched) IO).
Proof.
  intros g sched Hw Hg.
  assert (X : IInv g (ChanFault.run g sched) (ChanFault.trace g sched)).
  { apply (inv_rule_tr g (IInv g)).
    - split; [|exact ioI_init]. intros _. split; [apply SInv_init|split; [|split]].
      + intros l t [].
      + intros x [].
      + intros [|]; reflexivity.
    - intros s tr [t a] s' l [HO HI] H. split; [eapply OInv_step; eauto|].
      destruct (HO (or_intror Hw)) as (HS & _).
      destruct t as [|c].
      + eapply ioI_io_step; eauto.
      + rewrite (step_other_thread g s (W c) a s' l IO H) by discriminate. exact HI. }
  destruct X as [HO HI]. destruct (HO (or_intror Hw)) as (HS & _). auto.
Qed.
