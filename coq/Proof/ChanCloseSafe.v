(* Proof/ChanCloseSafe.v -- preservation of the flag part of the invariant of Model/ChanClose.v:
   once a close decision of a covered kind has been taken, the channel is not connected any
   more, or no service() can start any more (Closed), or cancel() is between its first two
   assignments; a service() entered after such a decision never sees connected = True. *)
From Coq Require Import List Arith Bool Lia.
From WV Require Import Model.ChanClose Proof.ChanCloseBase Proof.ChanCloseTok.
Import ListNotations.

Lemma pres_m2 : forall s c s' l, Inv s -> step s c = Some (s', l) -> io s' = IoM2 -> reqs s' = [].
Proof.
  intros s c s' l I H. pose proof (i_m2 s I) as M.
  destruct c as [e|w e|]; simpl in H.
  - destruct (i_mret s I) as [MR|MR]; io_cases H; close2.
  - wk_cases H; close2.
  - sd_cases H; close2.
Qed.

Lemma pres_appx : forall s c s' l, Inv s -> step s c = Some (s', l) -> io s' = IoRCappX -> reqs s' = [].
Proof.
  intros s c s' l I H. pose proof (i_appx s I) as M.
  pose proof (i_lock_io s I) as LI.
  destruct c as [e|w e|]; simpl in H.
  - destruct (i_mret s I) as [MR|MR]; io_cases H; close2.
  - pose proof (i_lock_wk s I w) as LW. wk_cases H; close2.
  - sd_cases H; close2.
Qed.

Lemma pres_mret : forall s c s' l, Inv s -> step s c = Some (s', l) -> mret s' = IoTop \/ mret s' = IoSel.
Proof.
  intros s c s' l I H. pose proof (i_mret s I) as M.
  destruct c as [e|w e|]; simpl in H.
  - io_cases H; close2.
  - wk_cases H; close2.
  - sd_cases H; close2.
Qed.

Lemma pres_cwf : forall s c s' l, Inv s -> step s c = Some (s', l) ->
  (cwf s' = true \/ io s' = IoHW1b \/ io s' = IoHW2 \/ io s' = IoHW3) -> gdec s' = true.
Proof.
  intros s c s' l I H. pose proof (i_cwf s I) as C.
  destruct c as [e|w e|]; simpl in H.
  - destruct (i_mret s I) as [MR|MR]; io_cases H; prep; destruct (gdec s); heavy.
  - wk_cases H; prep; destruct (gdec s); heavy.
  - sd_cases H; prep; destruct (gdec s); heavy.
Qed.

Lemma wc_mono : forall s c s' l, step s c = Some (s', l) -> wc s = true -> wc s' = true.
Proof.
  intros s c s' l H C. destruct c as [e|w e|]; simpl in H.
  - io_cases H; close2.
  - wk_cases H; close2.
  - sd_cases H; close2.
Qed.

Lemma conn_mono : forall s c s' l, step s c = Some (s', l) -> conn s = false -> conn s' = false.
Proof.
  intros s c s' l H C. destruct c as [e|w e|]; simpl in H.
  - io_cases H; close2.
  - wk_cases H; close2.
  - sd_cases H; close2.
Qed.

Lemma pres_late : forall s c s' l, Inv s -> step s c = Some (s', l) ->
  forall w', late_early (wk s' w') = true -> conn s' = false \/ wc s' = true.
Proof.
  intros s c s' l I H w'. pose proof (i_late s I w') as L.
  destruct c as [e|w e|]; simpl in H.
  - io_cases H; close2.
  - pose proof (i_late s I w) as Lw. pose proof (i_safe s I) as SF.
    wk_cases H; simpl; wsplit w' w; prep; try solve [heavy].
    (* WPopped -> WSvc0: service() is entered *)
    destruct (gdec s) eqn:G; simpl in *; [|discriminate].
    destruct (SF eq_refl) as [X|[X|X]]; auto.
    destruct X as (_ & _ & _ & ST & _). specialize (ST w). rewrite Heqw0 in ST. discriminate.
  - sd_cases H; close2.
Qed.

Lemma pres_late_b : forall s c s' l, Inv s -> step s c = Some (s', l) ->
  forall w', late_b (wk s' w') = true -> wc s' = true.
Proof.
  intros s c s' l I H w'. pose proof (i_late_b s I w') as L.
  destruct c as [e|w e|]; simpl in H.
  - io_cases H; close2.
  - pose proof (i_late s I w) as Lw.
    wk_cases H; simpl; wsplit w' w; close2.
  - sd_cases H; close2.
Qed.

(* ---- Closed is stable (unless the channel is disconnected) ------------------------------- *)
Ltac lockc := match goal with
  | LW : rlock ?s = Some (ByW ?w) <-> true = true, LW0 : rlock ?s = Some (ByW ?w0) <-> true = true |- _ =>
      let A := fresh in let B := fresh in
      pose proof (proj2 LW eq_refl) as A; pose proof (proj2 LW0 eq_refl) as B; congruence
  end.
Ltac contra := exfalso; first [ congruence | lia | lockc ].
Ltac t_flags := solve [ intuition (try congruence; try discriminate) ].
Ltac t_nots := repeat split; solve [discriminate | assumption | congruence].
Ltac t_starter ST := first [ exact ST
  | let w1 := fresh "w1" in intro w1;
    match goal with |- context [if ?a =? ?b then _ else _] =>
      destruct (Nat.eqb_spec a b); [reflexivity | apply ST] end ].
Ltac t_c2 := first [ left; solve [assumption | reflexivity]
  | right; match goal with C2 : at_close2 (wk ?s ?w0) = true |- _ =>
      exists w0; simpl;
      first [ exact C2
            | match goal with N : w0 <> ?w |- _ => rewrite (proj2 (Nat.eqb_neq w0 w) N); exact C2 end ] end ].
Ltac t_closed ST := first [ solve [contra] | solve [left; reflexivity]
  | right; split; [t_flags | split; [t_nots | split; [ solve [assumption | reflexivity] | split; [t_starter ST | t_c2]]]]
  | solve [exfalso; intuition (try congruence; try discriminate; try lockc)] ].

Lemma closed_pres : forall s c s' l, Inv s -> Closed s -> step s c = Some (s', l) ->
  conn s' = false \/ Closed s'.
Proof.
  intros s c s' l I C H. unfold Closed, flags_ok in *.
  destruct C as (F & (N1 & N2 & N3 & N4 & N5) & Q & ST & C2).
  destruct c as [e|w e|]; simpl in H.
  - destruct (i_mret s I) as [MR|MR]; destruct C2 as [R|[w0 C2]]; io_cases H; prep;
    first [ t_closed ST | leftover ].
  - pose proof (i_lock_wk s I w) as LW. pose proof (ST w) as STw.
    destruct C2 as [R|[w0 C2]].
    + wk_cases H; prep; first [ t_closed ST | leftover ].
    + pose proof (i_lock_wk s I w0) as LW0. 
      assert (HW0 : wk_holds (wk s w0) = true) by (destruct (wk s w0); simpl in *; congruence).
      rewrite HW0 in LW0.
      wsplit w0 w; wk_cases H; prep; first [ t_closed ST | leftover ].
  - destruct C2 as [R|[w0 C2]]; sd_cases H; prep; first [ t_closed ST | leftover ].
Qed.

(* Closed is stable outright *)
Ltac t_closed2 ST := first [ solve [contra]
  | split; [t_flags | split; [t_nots | split; [ solve [assumption | reflexivity] | split; [t_starter ST | t_c2]]]]
  | solve [exfalso; intuition (try congruence; try discriminate; try lockc)] ].

Lemma closed_stable : forall s c s' l, Inv s -> Closed s -> step s c = Some (s', l) ->
  Closed s'.
Proof.
  intros s c s' l I C H. unfold Closed, flags_ok in *.
  destruct C as (F & (N1 & N2 & N3 & N4 & N5) & Q & ST & C2).
  destruct c as [e|w e|]; simpl in H.
  - destruct (i_mret s I) as [MR|MR]; destruct C2 as [R|[w0 C2]]; io_cases H; prep;
    first [ t_closed2 ST | leftover ].
  - pose proof (i_lock_wk s I w) as LW. pose proof (ST w) as STw.
    destruct C2 as [R|[w0 C2]].
    + wk_cases H; prep; first [ t_closed2 ST | leftover ].
    + pose proof (i_lock_wk s I w0) as LW0. 
      assert (HW0 : wk_holds (wk s w0) = true) by (destruct (wk s w0); simpl in *; congruence).
      rewrite HW0 in LW0.
      wsplit w0 w; wk_cases H; prep; first [ t_closed2 ST | leftover ].
  - destruct C2 as [R|[w0 C2]]; sd_cases H; prep; first [ t_closed2 ST | leftover ].
Qed.


Lemma empty_facts : forall s, Inv s -> reqs s = [] -> queue s = 0 /\ forall w, starter (wk s w) = false.
Proof.
  intros s I R. split.
  - pose proof (i_q1 s I) as Q1. pose proof (i_reqs_q s I) as RQ.
    destruct (queue s) as [|[|n]]; auto; [exfalso; apply RQ; auto | lia].
  - intro w. pose proof (i_reqs_wk s I w) as RW.
    destruct (wk s w); simpl in *; auto; exfalso; apply RW; auto.
Qed.

(* the worker's close decision (WClose1: close_when_flushed := True under requests_lock) closes *)
Lemma worker_close_closes : forall s w k, Inv s -> wk s w = WClose1 k ->
  Closed (set_wk (decide (set_cwf s true) DWorkerClose) w (WClose2 k)).
Proof.
  intros s w k I Heqw0. unfold Closed, flags_ok, decide; simpl.
  assert (A : active (wk s w) = true) by (rewrite Heqw0; reflexivity).
  assert (HL : rlock s = Some (ByW w)) by (apply (i_lock_wk s I w); rewrite Heqw0; reflexivity).
  pose proof (i_lock_io s I) as LI.
  assert (NH : io_holds (io s) = false).
  { destruct (io_holds (io s)) eqn:E; auto. destruct LI as [_ LI]. specialize (LI eq_refl). congruence. }
  split; [left; reflexivity|].
  split; [repeat split; intro E; rewrite E in NH; discriminate|].
  split.
  { pose proof (i_q1 s I) as Q1. pose proof (i_q_excl s I) as QX.
    destruct (queue s) as [|[|n]]; auto; [|lia].
    destruct (QX eq_refl) as [QA _]. specialize (QA w). congruence. }
  split.
  { intro w1. destruct (Nat.eqb_spec w1 w); [reflexivity|].
    destruct (starter (wk s w1)) eqn:S1; auto. exfalso. apply n.
    apply (i_act_uniq s I); auto. destruct (wk s w1); simpl in *; auto; discriminate. }
  right. exists w. rewrite Nat.eqb_refl. reflexivity.
Qed.

Lemma pres_safe : forall s c s' l, Inv s -> step s c = Some (s', l) ->
  gdec s' = true -> conn s' = false \/ Closed s' \/ wc s' = true.
Proof.
  intros s c s' l I H G'. destruct (gdec s) eqn:G.
  - destruct (i_safe s I G) as [X|[X|X]].
    + left. eapply conn_mono; eauto.
    + destruct (closed_pres s c s' l I X H); auto.
    + right; right. eapply wc_mono; eauto.
  - pose proof (i_cwf s I) as CW. rewrite G in CW.
    destruct c as [e|w e|]; simpl in H.
    + pose proof (i_m2 s I) as M2. pose proof (i_q1 s I) as Q1.
      pose proof (i_reqs_q s I) as RQ. pose proof (i_reqs_wk s I) as RW.
      destruct (i_mret s I) as [MR|MR]; io_cases H; prep; try congruence; try solve [heavy].
      all: destruct (empty_facts s I (M2 eq_refl)) as [Q0 ST]; right; left;
        unfold Closed, flags_ok; simpl; rw; repeat split; auto; try discriminate;
        right; left; split; [reflexivity | discriminate].
    + wk_cases H; prep; try congruence; try solve [heavy].
      (* WClose1: the worker's close decision *)
      right; left. apply (worker_close_closes s w sid I Heqw0).
    + sd_cases H; prep; try congruence; solve [heavy].
Qed.
