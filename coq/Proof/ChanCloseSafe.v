(* Proof/ChanCloseSafe.v -- preservation of the flag part of the invariant of Model/ChanClose.v:
   once a close decision of a covered kind has been taken, the channel is not connected any
   more, or no service() can start any more (Closed), or cancel() is between its first two
   assignments; a service() entered after such a decision never sees connected = True. *)
From Coq Require Import List Arith Bool Lia.
From WV Require Import Model.ChanClose Proof.ChanCloseBase Proof.ChanCloseTok.
Import ListNotations.

Lemma pres_m2 : forall s c s' l, Inv s -> step s c = Some (s', l) -> io s' = IoM2 -> reqs s' = [].
Proof.
  intros s c s' l I H. pose proof (i_m2 s I) as M.
  destruct c as [e|w e|]; simpl in H.
  - destruct (i_mret s I) as [MR|MR]; io_cases H; close2.
  - wk_cases H; close2.
  - sd_cases H; close2.
Qed.

Lemma pres_mret : forall s c s' l, Inv s -> step s c = Some (s', l) -> mret s' = IoTop \/ mret s' = IoSel.
Proof.
  intros s c s' l I H. pose proof (i_mret s I) as M.
  destruct c as [e|w e|]; simpl in H.
  - io_cases H; prep; auto.
  - wk_cases H; prep; auto.
  - sd_cases H; prep; auto.
Qed.

Lemma pres_cwf : forall s c s' l, Inv s -> step s c = Some (s', l) ->
  (cwf s' = true \/ io s' = IoHW1b \/ io s' = IoHW2 \/ io s' = IoHW3) -> gdec s' = true.
Proof.
  intros s c s' l I H. pose proof (i_cwf s I) as C.
  destruct c as [e|w e|]; simpl in H.
  - destruct (i_mret s I) as [MR|MR]; io_cases H; prep; destruct (gdec s); heavy.
  - wk_cases H; prep; destruct (gdec s); heavy.
  - sd_cases H; prep; destruct (gdec s); heavy.
Qed.

Lemma pres_late : forall s c s' l, Inv s -> step s c = Some (s', l) ->
  forall w', late_early (wk s' w') = true -> conn s' = false.
Proof.
  intros s c s' l I H w'. pose proof (i_late s I w') as L.
  destruct c as [e|w e|]; simpl in H.
  - io_cases H; close2.
  - pose proof (i_late s I w) as Lw. pose proof (i_safe s I) as SF. pose proof (i_act_excl s I w) as AX.
    wk_cases H; simpl; wsplit w' w; prep; try solve [heavy].
    (* WPopped -> WSvc0: service() is entered *)
    destruct (gdec s) eqn:G; simpl in *; [|discriminate].
    destruct (SF eq_refl) as [X|[X|X]]; auto.
    + destruct X as (_ & _ & _ & ST & _). specialize (ST w). rewrite Heqw0 in ST. discriminate.
    + destruct AX as [_ AX]; auto. congruence.
  - sd_cases H; close2.
Qed.
