(* Proof/ChanPipeLogStepIo.v -- L2 is preserved by the steps of the I/O thread. *)
From Coq Require Import List Arith Bool ZArith Lia.
From WV Require Import Model.ChanPipe Proof.ChanPipeBase Proof.ChanPipeOwn Proof.ChanPipeLog Proof.ChanPipeLogTac.
Import ListNotations.

Section Step.
Variable P : params.

Theorem L2_step_io : forall st e st' l, L0 st -> L1 st -> L2 st -> step P st (CIo e) = Some (st', l) -> L2 st'.
Proof.
  intros st e st' l HL0 HL1 HL2 Hs.
  step_io Hs; cbn [sh io wk ipc] in *.
    all: try (frame_io HL2).
    all: destruct HL2 as [LA LB LC LD LKa LKb LKc LE1 LE2 LE3 LCb LSv]; cbn [sh io wk ipc] in *.
    all: clear HL0 HL1.
    all: split; cbn [sh io wk ipc io_app is_rccwf is_wwc]; intros.
    all: fin.
Qed.
End Step.
