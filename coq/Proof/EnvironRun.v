(* Every run of received() from parser_init: an invariant, and what a run that
   ends completed, error-free and non-empty looks like (run_accepted). *)
From Coq Require Import List NArith ZArith Bool Lia.
From RecordUpdate Require Import RecordUpdate.
From WV Require Import Lib.PyBytes Lib.Regex Gen.GenRegex Model.Receiver Model.UrlSplit Model.Parser
  Proof.EnvironParse.
Import ListNotations.
Local Open Scope N_scope.

(* offering data to the parser, call after call; None when a call does not
   return normally in the model (escape / fuel / unmodelled) *)
Definition step (a : adj) (o : option parser) (d : bytes) : option parser :=
  match o with
  | Some p => match received a p d with ROk p' _ => Some p' | _ => None end
  | None => None
  end.
Definition feed_all (a : adj) (ds : list bytes) : option parser :=
  fold_left (step a) ds (Some parser_init).

Lemma feed_all_snoc a ds d : feed_all a (ds ++ [d]) = step a (feed_all a ds) d.
Proof. unfold feed_all. rewrite fold_left_app. reflexivity. Qed.

(* ------------------------------------------------------------------ *)
(* received() in two stages *)

Definition received_head (a : adj) (p : parser) (data : bytes) : rcv_res :=
  let datalen := lenN data in
  let max_header := max_request_header_size a in
  let s := header_plus p ++ data in
  let index := find_double_newline s in
  let '(hbr, consumed) :=
    match index with
    | Some i => (N.of_nat i, (Z.of_N datalen - (Z.of_nat (length s) - Z.of_nat i))%Z)
    | None => (header_bytes_received p + datalen, Z.of_N datalen)
    end in
  let p := p <| header_bytes_received := hbr |> in
  if max_header <=? hbr then
    match parse_header a p fake_head_431 with
    | (p1, PSOk) => ROk (p1 <| error := Some EHeaderTooLarge |> <| completed := true |>) consumed
    | (_, PSError _) => REscapes
    | (_, PSEscapes) => REscapes
    | (_, PSUnmodelled) => RUnmodelled
    end
  else
  match index with
  | Some i =>
    let hp := lstrip_by is_reqline_ws (strip_leading_crlf (length s) (firstn i s)) in
    match hp with
    | [] => ROk (p <| empty := true |> <| completed := true |> <| headers_finished := true |>) consumed
    | _ =>
      match parse_header a p hp with
      | (_, PSEscapes) => REscapes
      | (_, PSUnmodelled) => RUnmodelled
      | (p1, PSError e) =>
        ROk (p1 <| error := Some e |> <| completed := true |> <| headers_finished := true |>) consumed
      | (p1, PSOk) =>
        let p2 := match body p1 with
                  | None => p1 <| completed := true |>
                  | Some _ => p1
                  end in
        let p3 := if (0 <? content_length p2) && (max_request_body_size a <=? content_length p2)
                  then p2 <| error := Some EBodyTooLarge |> <| completed := true |> else p2 in
        ROk (p3 <| headers_finished := true |>) consumed
      end
    end
  | None => ROk (p <| header_plus := s |>) (Z.of_N datalen)
  end.

Definition received_body (a : adj) (p : parser) (br : body_rcv) (data : bytes) : rcv_res :=
  let step : option (body_rcv * Z * option perr * bool) :=
    match br with
    | BFixed f => let '(f', n) := fixed_received f data in
                  Some (BFixed f', n, None, f_completed f')
    | BChunked c => match chunked_received c data with
                    | Some (c', n) => Some (BChunked c', n, c_error c', c_completed c')
                    | None => None
                    end
    end in
  match step with
  | None => ROutOfFuel
  | Some (br', consumed, brerr, brdone) =>
    let bbr := (body_bytes_received p + consumed)%Z in
    let p1 := p <| body := Some br' |> <| body_bytes_received := bbr |> in
    let max_body := max_request_body_size a in
    if (Z.of_N max_body <=? bbr)%Z
    then ROk (p1 <| error := Some EBodyTooLarge |> <| completed := true |>) consumed
    else match brerr with
    | Some e => ROk (p1 <| error := Some e |> <| completed := true |>) consumed
    | None =>
      if brdone then
        let p2 := p1 <| completed := true |> in
        ROk (if chunked p2
             then p2 <| headers := hset (headers p2) s_CONTENT_LENGTH (to_dec (body_len br')) |>
             else p2) consumed
      else ROk p1 consumed
    end
  end.

Lemma received_stages a p data :
  received a p data =
  if completed p then ROk p 0%Z
  else match body p with
       | None => received_head a p data
       | Some br => received_body a p br data
       end.
Proof. reflexivity. Qed.

(* ------------------------------------------------------------------ *)
(* the fixed receiver *)

Lemma fixed_received_inv f data f' n :
  fixed_received f data = (f', n) ->
  (f_completed f = true -> f_remain f = 0) ->
  f_remain f' + lenN (f_buf f') = f_remain f + lenN (f_buf f) /\
  (f_completed f' = true -> f_remain f' = 0).
Proof.
  unfold fixed_received. intros H Hc.
  destruct (f_remain f <? 1) eqn:E1.
  - injection H as <- _. cbn. apply N.ltb_lt in E1. split; auto. intros _. lia.
  - destruct (f_remain f <=? lenN data) eqn:E2.
    + injection H as <- _. cbn. apply N.leb_le in E2. apply N.ltb_ge in E1. split; auto.
      unfold lenN in *. rewrite app_length, firstn_length. lia.
    + injection H as <- _. cbn. apply N.leb_gt in E2. split.
      * unfold lenN in *. rewrite app_length. lia.
      * intro Hcf. apply Hc in Hcf. apply N.ltb_ge in E1. lia.
Qed.

(* ------------------------------------------------------------------ *)
(* the invariant *)

Definition fresh (p : parser) : Prop :=
  headers p = [] /\ body p = None /\ chunked p = false /\ content_length p = 0 /\
  status3 p = (false, None, false).

Definition is_prefix (pre ds : list bytes) : Prop := exists post, ds = pre ++ post.

(* the head block handed to parse_header: everything offered up to the call
   that brought the first CRLF CRLF, cut there, leading CRLF pairs and then
   leading SP / HTAB / VT / FF / CR removed *)
Definition head_of (ds : list bytes) (hp : bytes) : Prop :=
  exists pre i, is_prefix pre ds /\ find_double_newline (concat pre) = Some i /\
                hp = lstrip_by is_reqline_ws (strip_leading_crlf (length (concat pre)) (firstn i (concat pre))).

Definition body_rel (p1 p : parser) : Prop :=
  match body p with
  | None => body p1 = None /\ headers p = headers p1 /\ completed p = true
  | Some (BFixed f) =>
    chunked p1 = false /\ headers p = headers p1 /\
    f_remain f + lenN (f_buf f) = content_length p1 /\ 0 < content_length p1 /\
    (f_completed f = true -> f_remain f = 0) /\ (completed p = true -> f_completed f = true)
  | Some (BChunked c) =>
    chunked p1 = true /\
    (completed p = false -> headers p = headers p1) /\
    (completed p = true -> headers p = hset (headers p1) s_CONTENT_LENGTH (to_dec (lenN (c_buf c))))
  end.

Inductive Inv (a : adj) (ds : list bytes) (p : parser) : Prop :=
| InvHead :
    fresh p -> header_plus p = concat ds -> Inv a ds p
| InvReq (p0 p1 : parser) (hp : bytes) :
    fresh p0 -> head_of ds hp -> parse_header a p0 hp = (p1, PSOk) ->
    reqline p = reqline p1 -> chunked p = chunked p1 -> content_length p = content_length p1 ->
    empty p = false -> (error p <> None -> completed p = true) ->
    (error p = None -> body_rel p1 p) ->
    Inv a ds p
| InvFail :
    completed p = true -> (error p <> None \/ empty p = true) -> Inv a ds p.

Lemma is_prefix_snoc pre ds d : is_prefix pre ds -> is_prefix pre (ds ++ [d]).
Proof. intros [post ->]. exists (post ++ [d]). rewrite app_assoc. reflexivity. Qed.

Lemma head_of_snoc ds d hp : head_of ds hp -> head_of (ds ++ [d]) hp.
Proof. intros (pre & i & P & F & E). exists pre, i. split; auto using is_prefix_snoc. Qed.

Lemma Inv_init a : Inv a [] parser_init.
Proof. apply InvHead; [repeat split|reflexivity]. Qed.

Lemma Inv_completed_stable a ds d p : completed p = true -> Inv a ds p -> Inv a (ds ++ [d]) p.
Proof.
  intros Hc [F _| p0 p1 hp F Hh Hp R C L E Er B | Hcc Hf].
  - destruct F as (_ & _ & _ & _ & S). unfold status3 in S. congruence.
  - eapply InvReq; eauto using head_of_snoc.
  - apply InvFail; auto.
Qed.

Lemma Inv_step_head a ds d p r n :
  fresh p -> header_plus p = concat ds -> received_head a p d = ROk r n -> Inv a (ds ++ [d]) r.
Proof.
  intros F HP. unfold received_head.
  assert (Hs : header_plus p ++ d = concat (ds ++ [d])).
  { rewrite concat_app. cbn. rewrite app_nil_r. congruence. }
  rewrite Hs. set (s := concat (ds ++ [d])).
  destruct F as (Fh & Fb & Fc & Fl & Fs).
  unfold status3 in Fs. injection Fs as Fcomp Ferr Femp.
  destruct (find_double_newline s) as [i|] eqn:Hi.
  - cbv zeta beta iota.
    set (q := p <| header_bytes_received := N.of_nat i |>).
    assert (Fq : fresh q) by (unfold q; repeat split; cbn; auto; unfold status3; cbn; congruence).
    destruct (max_request_header_size a <=? N.of_nat i).
    + destruct (parse_header a q fake_head_431) as [p1 [| e | |]]; try discriminate.
      intro H. injection H as <- _. apply InvFail; cbn; auto. left. discriminate.
    + destruct (lstrip_by is_reqline_ws (strip_leading_crlf (length s) (firstn i s))) as [|x hp'] eqn:Hhp.
      * intro H. injection H as <- _. apply InvFail; cbn; auto.
      * destruct (parse_header a q (x :: hp')) as [p1 [| e | |]] eqn:Hph; try discriminate.
        -- (* accepted head *)
           intro H. injection H as <- _.
           pose proof (parse_header_ok _ _ _ _ Hph) as (fl & lines & h1 & AH).
           destruct AH as [_ _ _ _ _ _ _ AS AF].
           assert (S1 : status3 p1 = (false, None, false)).
           { rewrite AS. unfold q, status3. cbn. congruence. }
           unfold status3 in S1. injection S1 as S1c S1e S1m.
           assert (Qc : chunked q = false) by (unfold q; cbn; auto).
           assert (Qb : body q = None) by (unfold q; cbn; auto).
           assert (Ql : content_length q = 0) by (unfold q; cbn; auto).
           set (p2 := match body p1 with None => p1 <| completed := true |> | Some _ => p1 end).
           assert (P2 : reqline p2 = reqline p1 /\ chunked p2 = chunked p1 /\
                        content_length p2 = content_length p1 /\ empty p2 = false /\
                        error p2 = None /\ headers p2 = headers p1 /\ body p2 = body p1 /\
                        (body p1 = None -> completed p2 = true) /\
                        (body p1 <> None -> completed p2 = false)).
           { unfold p2. destruct (body p1) eqn:Eb; cbn; repeat split; auto; try congruence. }
           destruct P2 as (R2 & C2 & L2 & M2 & E2 & H2 & B2 & K2 & K2').
           set (p3 := if (0 <? content_length p2) && (max_request_body_size a <=? content_length p2)
                      then p2 <| error := Some EBodyTooLarge |> <| completed := true |> else p2).
           assert (HD : head_of (ds ++ [d]) (x :: hp')).
           { exists (ds ++ [d]), i. split; [exists []; rewrite app_nil_r; reflexivity|]. split; auto. }
           destruct ((0 <? content_length p2) && (max_request_body_size a <=? content_length p2)) eqn:Ebig;
             unfold p3; clear p3.
           ++ apply InvFail; cbn; auto. left. discriminate.
           ++ eapply InvReq with (p0 := q) (p1 := p1) (hp := x :: hp');
                [exact Fq | exact HD | exact Hph | | | | | | ].
              ** cbn. exact R2.
              ** cbn. exact C2.
              ** cbn. exact L2.
              ** cbn. exact M2.
              ** cbn. intro X. congruence.
              ** intros _. unfold body_rel. cbn [body set headers completed].
                 rewrite B2.
                 destruct AF as [(Ac & Av & Ab & Ah & Al)|(Ac & Ah & Acl)].
                 --- rewrite Ab. split; auto. split.
                     +++ intros _. exact H2.
                     +++ intro X. rewrite K2' in X; [discriminate|]. rewrite Ab. discriminate.
                 --- specialize (Acl Qc). cbv zeta in Acl. destruct Acl as (Am & Al & Ab).
                     rewrite Ab, Qb.
                     destruct (0 <? dec_value (hget_default (headers p1) s_CONTENT_LENGTH s_0)) eqn:Epos.
                     +++ split; [congruence|]. split; [exact H2|].
                         cbn [f_remain f_buf fixed_init f_completed]. unfold lenN. cbn [length N.of_nat].
                         pose proof Epos as Epos'.
                         apply N.ltb_lt in Epos. rewrite Al. split; [lia|]. split; [exact Epos|].
                         split; [discriminate|]. intro X. rewrite K2' in X; [discriminate|].
                         rewrite Ab. discriminate.
                     +++ split; [congruence|]. split; [exact H2|]. apply K2. rewrite Ab. exact Qb.
        -- intro H. injection H as <- _. apply InvFail; cbn; auto. left. discriminate.
  - cbv zeta beta iota.
    destruct (max_request_header_size a <=? header_bytes_received p + lenN d).
    + destruct (parse_header a _ fake_head_431) as [p1 [| e | |]]; try discriminate.
      intro H. injection H as <- _. apply InvFail; cbn; auto. left. discriminate.
    + intro H. injection H as <- _. apply InvHead.
      * repeat split; cbn; auto. unfold status3. cbn. congruence.
      * cbn. reflexivity.
Qed.

Lemma Inv_step_body a ds d p br r n :
  Inv a ds p -> completed p = false -> body p = Some br ->
  received_body a p br d = ROk r n -> Inv a (ds ++ [d]) r.
Proof.
  intros I Hnc Hb.
  destruct I as [F _| p0 p1 hp F Hh Hp R C L E Er B | Hcc Hf].
  - destruct F as (_ & Fb & _). congruence.
  - assert (Ee : error p = None).
    { destruct (error p) eqn:X; auto. assert (completed p = true) by (apply Er; discriminate). congruence. }
    specialize (B Ee). unfold body_rel in B. rewrite Hb in B.
    unfold received_body.
    destruct br as [f|c].
    + destruct (fixed_received f d) as [f' n'] eqn:Hf.
      destruct B as (Bc & Bh & Bsum & Bpos & Bdone & _).
      pose proof (fixed_received_inv _ _ _ _ Hf Bdone) as (Fsum & Fdone).
      cbv zeta beta iota.
      destruct (Z.of_N (max_request_body_size a) <=? body_bytes_received p + n')%Z.
      * intro H. injection H as <- _. apply InvFail; cbn; auto. left. discriminate.
      * destruct (f_completed f') eqn:Efc.
        -- cbn [chunked set]. rewrite C, Bc.
           intro H. injection H as <- _.
           eapply InvReq with (p0 := p0) (p1 := p1) (hp := hp);
             [exact F | apply head_of_snoc; exact Hh | exact Hp | exact R | exact C | exact L | exact E | | ].
           ++ cbn. intro X. reflexivity.
           ++ intros _. unfold body_rel. cbn [body set headers completed].
              repeat split; auto. lia.
        -- intro H. injection H as <- _.
           eapply InvReq with (p0 := p0) (p1 := p1) (hp := hp);
             [exact F | apply head_of_snoc; exact Hh | exact Hp | exact R | exact C | exact L | exact E | | ].
           ++ cbn. intro X. congruence.
           ++ intros _. unfold body_rel. cbn [body set headers completed].
              repeat split; auto; try lia; intro X; congruence.
    + destruct (chunked_received c d) as [[c' n']|] eqn:Hc; [|discriminate].
      destruct B as (Bc & Bh & _). specialize (Bh Hnc).
      cbv zeta beta iota.
      destruct (Z.of_N (max_request_body_size a) <=? body_bytes_received p + n')%Z.
      * intro H. injection H as <- _. apply InvFail; cbn; auto. left. discriminate.
      * destruct (c_error c') as [e|].
        -- intro H. injection H as <- _. apply InvFail; cbn; auto. left. discriminate.
        -- destruct (c_completed c') eqn:Ecc.
           ++ cbn [chunked set]. rewrite C, Bc.
              intro H. injection H as <- _.
              eapply InvReq with (p0 := p0) (p1 := p1) (hp := hp);
             [exact F | apply head_of_snoc; exact Hh | exact Hp | exact R | exact C | exact L | exact E | | ].
              ** cbn. intro X. reflexivity.
              ** intros _. unfold body_rel. cbn [body set headers completed body_len].
                 split; [exact Bc|]. split; [discriminate|]. intros _. rewrite Bh. reflexivity.
           ++ intro H. injection H as <- _.
              eapply InvReq with (p0 := p0) (p1 := p1) (hp := hp);
             [exact F | apply head_of_snoc; exact Hh | exact Hp | exact R | exact C | exact L | exact E | | ].
              ** cbn. intro X. congruence.
              ** intros _. unfold body_rel. cbn [body set headers completed].
                 split; [exact Bc|]. split; [intros _; exact Bh|]. intro X. congruence.
  - congruence.
Qed.

Theorem Inv_feed_all a ds : forall p, feed_all a ds = Some p -> Inv a ds p.
Proof.
  induction ds as [|d ds IH] using rev_ind; intros p H.
  - unfold feed_all in H. cbn in H. injection H as <-. apply Inv_init.
  - rewrite feed_all_snoc in H. unfold step in H.
    destruct (feed_all a ds) as [q|] eqn:Eq; [|discriminate].
    specialize (IH q eq_refl).
    destruct (received a q d) as [r n| | |] eqn:Er; try discriminate.
    injection H as <-.
    rewrite received_stages in Er.
    destruct (completed q) eqn:Ec.
    + injection Er as <- _. apply Inv_completed_stable; assumption.
    + destruct (body q) as [br|] eqn:Eb.
      * eapply Inv_step_body; eauto.
      * destruct IH as [F HP| p0 p1 hp F Hh Hp R C L E Err B | Hcc Hf].
        -- eapply Inv_step_head; eauto.
        -- assert (Ee : error q = None).
           { destruct (error q) eqn:X; auto. assert (completed q = true) by (apply Err; discriminate). congruence. }
           specialize (B Ee). unfold body_rel in B. rewrite Eb in B. destruct B as (_ & _ & X). congruence.
        -- congruence.
Qed.

(* ------------------------------------------------------------------ *)
(* what a request handed to a task looks like *)

Record accepted_run (a : adj) (ds : list bytes) (p : parser) (p0 p1 : parser) (hp : bytes) : Prop := {
  ar_fresh : fresh p0;
  ar_head : head_of ds hp;
  ar_parse : parse_header a p0 hp = (p1, PSOk);
  ar_reqline : reqline p = reqline p1;
  ar_chunked : chunked p = chunked p1;
  ar_cl : content_length p = content_length p1;
  ar_body :
    match body p with
    | None => body p1 = None /\ headers p = headers p1
    | Some (BFixed f) =>
      chunked p1 = false /\ headers p = headers p1 /\ lenN (f_buf f) = content_length p1 /\
      0 < content_length p1
    | Some (BChunked c) =>
      chunked p1 = true /\ headers p = hset (headers p1) s_CONTENT_LENGTH (to_dec (lenN (c_buf c)))
    end
}.

Theorem run_accepted a ds p :
  feed_all a ds = Some p -> completed p = true -> error p = None -> empty p = false ->
  exists p0 p1 hp, accepted_run a ds p p0 p1 hp.
Proof.
  intros H Hc He Hm. apply Inv_feed_all in H.
  destruct H as [F _| p0 p1 hp F Hh Hp R C L E Err B | Hcc [Hf|Hf]].
  - destruct F as (_ & _ & _ & _ & S). unfold status3 in S. congruence.
  - exists p0, p1, hp. specialize (B He). unfold body_rel in B.
    constructor; auto.
    destruct (body p) as [[f|c]|].
    + destruct B as (B1 & B2 & B3 & B4 & B5 & B6).
      specialize (B6 Hc). specialize (B5 B6). repeat split; auto. lia.
    + destruct B as (B1 & _ & B3). auto.
    + destruct B as (B1 & B2 & _). auto.
  - congruence.
  - congruence.
Qed.
