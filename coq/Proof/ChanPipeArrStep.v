(* Proof/ChanPipeArrStep.v -- layer L5 is preserved by every step. *)
From Coq Require Import List Arith Bool ZArith Lia.
From WV Require Import Model.ChanPipe Proof.ChanPipeBase Proof.ChanPipeArr.
Import ListNotations.

Section Step.
Variable P : params.

Ltac frame5 HL5 :=
  apply (L5_frame P _ _) with (6 := HL5); cbn; try reflexivity.

Lemma skipn_skipn : forall (A : Type) (l : list A) a b, skipn a (skipn b l) = skipn (b + a) l.
Proof.
  intros A l a b. revert l. induction b as [|b IH]; intro l; simpl; auto.
  destruct l; simpl; auto. destruct a; reflexivity.
Qed.

Lemma recv_pend : forall (avail : list item) k (extra : list item),
  cranks (whole_items (map Whole (firstn k avail) ++ map Piece extra)) ++ cranks (skipn k avail) = cranks avail.
Proof.
  intros. rewrite whole_items_app, whole_items_map_whole, whole_items_map_piece, app_nil_r.
  rewrite <- cranks_app. rewrite firstn_skipn. reflexivity.
Qed.

Theorem L5_step : forall st c st' l, L5 P st -> step P st c = Some (st', l) -> L5 P st'.
Proof.
  intros st c st' l HL5 Hs.
  destruct c as [e | me e].
  - step_io Hs; cbn [sh io wk ipc] in *.
    all: try solve [frame5 HL5].
    all: try solve [destruct icomp; frame5 HL5].
    all: unfold L5, pend in *; cbn [sh io wk ipc i_items i_cur i_comp io_hold arrivals nxt set_nxt set_pst set_olock set_arrivals set_requests set_ipc] in *.
    all: try solve [cbn in *; exact HL5].
    (* recv: the left-over items of the previous read are dropped, the new ones come from the stream *)
    all: try solve [ rewrite <- skipn_skipn; rewrite recv_pend; cbn [app] in *; eapply sorted_drop_mid; exact HL5 ].
    all: try solve [ rewrite <- skipn_skipn;
                     replace (map Whole (firstn k (skipn (nxt s) (stream P))) ++ [])
                       with (map Whole (firstn k (skipn (nxt s) (stream P))) ++ map Piece []) by reflexivity;
                     rewrite recv_pend; cbn [app] in *; eapply sorted_drop_mid; exact HL5 ].
    (* an exception leaves received(): the item in the parser's hands is dropped *)
    all: try solve [ cbn [app]; eapply sorted_drop_mid; exact HL5 ].
    (* requests.append *)
    all: try solve [ rewrite map_app; cbn [map app]; rewrite <- app_assoc; cbn [app] in *; exact HL5 ].
  - step_wk Hs; cbn [sh io wk ipc] in *.
    all: try solve [frame5 HL5].
Qed.
End Step.
