(* C08 at the level of HTTPChannel.service: what reaches the wire. *)
From Coq Require Import String.
From Coq Require Import List NArith ZArith Bool Lia Arith Permutation.
From WV Require Import Lib.PyBytes Gen.GenTables Model.Task Proof.TaskSort Proof.TaskLines Proof.TaskHead
  Proof.TaskStart Proof.TaskRun Proof.TaskOracle.
Import ListNotations.
Local Open Scope N_scope.

Section Service.
Variable cap : str -> str.
Variable lower : str -> str.
Hypothesis Hcap : forall s, clean s -> clean (cap s).
Variable c : cfg.
Hypothesis Hc : cfg_clean c.
Variable r : req.
Variable disc : option nat.
Hypothesis Hr : match r_error r with Some e => err_clean e | None => True end.

Lemma Good_init v e ch_n : Good cap lower c r (new_task v e, mkChan [] ch_n).
Proof.
  split; [split|]; cbn [fst snd new_task t_wrote_header t_chunked ch_writes]; try discriminate.
  intros _. split; auto. split; [reflexivity|constructor].
Qed.

Definition first_state (a : app) : st :=
  let job : app + ((str * str) * str) := match r_error r with Some e => inr e | None => inl a end in
  let t0 := new_task (r_version r) (match r_error r with Some _ => true | None => false end) in
  let s0 : st := (t0, mkChan [] 0) in
  x_st (if connected disc 0 then task_service cap lower c r disc s0 job
        else mkExec (set_cof true t0, snd s0) (Ok tt) 0 false false).

Lemma Inv_first a : Inv cap lower c r (first_state a).
Proof.
  pose proof (app_ok_all a) as Ha. unfold first_state. destruct (connected disc 0).
  - apply Inv_task_service; auto. destruct (r_error r); auto. apply Good_init.
  - cbn [x_st]. destruct (Good_init (r_version r) (match r_error r with Some _ => true | None => false end) 0) as [I _].
    exact I.
Qed.

Lemma service_first a :
  let res := channel_service cap lower c r a disc in
  o_writes1 res = rev (ch_writes (snd (first_state a)))
  /\ o_wrote_header1 res = t_wrote_header (fst (first_state a))
  /\ o_nws1 res = ch_nws (snd (first_state a)).
Proof.
  cbn zeta. unfold channel_service, first_state. destruct (connected disc 0); unfold ladder;
  repeat match goal with
         | |- context [match ?x with _ => _ end] => destruct x eqn:?
         | |- context [if ?x then _ else _] => destruct x eqn:?
         end; cbn; auto.
Qed.

(* nothing precedes the head, and the head is the serialisation of a clean task *)
Theorem wire_head a :
  let res := channel_service cap lower c r a disc in
  (o_wrote_header1 res = false -> o_writes1 res = [])
  /\ (o_wrote_header1 res = true ->
      exists h rest, o_writes1 res = WBytes h :: rest /\ HeadOK cap lower c r h).
Proof.
  cbn zeta. destruct (service_first a) as (E1 & E2 & _). cbn zeta in *. rewrite E1, E2.
  destruct (Inv_first a) as [I1 I2]. split; intro W.
  - destruct (I1 W) as [_ Hn]. rewrite Hn. reflexivity.
  - destruct (I2 W) as (h & rest & Hw & Hok). exists h, (rev rest). rewrite Hw, rev_app_distr. auto.
Qed.

(* the 500 the ladder sends: a function of the configuration, the request's
   version, Connection header and method (HEAD: no body, fix 52947ac), and where a
   scripted disconnect falls *)
Definition response_500 (n : nat) : list witem :=
  let body := if c_expose_tracebacks c then c_tb c else internal_error_text in
  let er := mkReq (r_version r) (r_connection r) (r_head r) false (Some (err_InternalServerError, body)) in
  let x1 := task_service cap lower c er disc (new_task (r_version r) true, mkChan [] n)
                         (inr (err_InternalServerError, body)) in
  rev (ch_writes (snd (x_st x1))).

Theorem served_500_bytes a :
  let res := channel_service cap lower c r a disc in
  o_served_500 res = true ->
  o_writes1 res = [] /\ o_writes res = response_500 (o_nws1 res).
Proof.
  cbn zeta. intro Hs.
  destruct (service_first a) as (E1 & E2 & E3). cbn zeta in *.
  destruct (Inv_first a) as [I1 _].
  rewrite E1, E3. revert Hs I1. unfold channel_service, response_500, first_state.
  destruct (connected disc 0); [|cbn; discriminate].
  set (x := task_service cap lower c r disc _ _). unfold ladder.
  destruct (x_out x) as [u|e]; [cbn; discriminate|].
  destruct (exn_eqb e ClientDisconnected); [cbn; discriminate|].
  destruct (t_wrote_header (fst (x_st x))) eqn:W; cbn [negb]; [cbn; discriminate|].
  intros _ I1. destruct (I1 eq_refl) as [_ Hn].
  destruct (x_st x) as [t ch]. cbn [fst snd] in *. destruct ch as [ws n]. cbn [ch_writes ch_nws] in *. subst ws.
  split; [reflexivity|].
  destruct (x_out (task_service _ _ _ _ _ _ _)) as [u|e1]; [reflexivity|].
  destruct (exn_eqb e1 ClientDisconnected); reflexivity.
Qed.

Lemma run_actions_app l1 : forall s l2,
  run_actions cap lower c r disc s (l1 ++ l2) =
  match run_actions cap lower c r disc s l1 with
  | (s1, Ok _) => run_actions cap lower c r disc s1 l2
  | (s1, Exn e) => (s1, Exn e)
  end.
Proof.
  induction l1 as [|a l1 IH]; intros s l2; cbn [List.app run_actions]; auto.
  destruct (run_action cap lower c r disc s a) as [s1 [u|e]]; auto.
Qed.

(* a refused start_response before any output: the ladder answers with its own 500 *)
Theorem refused_gets_500 a pre status headers exc post s1 :
  r_error r = None -> connected disc 0 = true ->
  a_call a = pre ++ AStart status headers exc :: post ->
  run_actions cap lower c r disc (new_task (r_version r) false, mkChan [] 0) pre = (s1, Ok tt) ->
  t_wrote_header (fst s1) = false ->
  offending lower status headers = true ->
  o_served_500 (channel_service cap lower c r a disc) = true.
Proof.
  intros He Hconn Hcall Hpre Hw Hoff.
  destruct (start_response_refuses lower (fst s1) status headers exc Hoff) as (e & Hsr & Hcls).
  specialize (Hcls Hw).
  pose proof (start_response_frame lower (fst s1) status headers exc) as F. cbn zeta in F.
  destruct F as (F1 & _).
  assert (Hrun : exists s2, run_actions cap lower c r disc (new_task (r_version r) false, mkChan [] 0) (a_call a) = (s2, Exn e)
                            /\ t_wrote_header (fst s2) = false).
  { rewrite Hcall, run_actions_app, Hpre. cbn [run_actions run_action].
    destruct (start_response lower (fst s1) status headers exc) as [t o]. cbn [fst snd] in *. subst o.
    eexists. split; [reflexivity|]. cbn [fst]. congruence. }
  destruct Hrun as (s2 & Hrun & Hw2).
  unfold channel_service. rewrite He, Hconn. unfold ladder.
  unfold task_service, task_run, wsgi_execute. rewrite Hrun. cbn [x_out x_st].
  assert (Hos : is_OSError e = false) by (destruct Hcls; subst; reflexivity).
  assert (Hcd : exn_eqb e ClientDisconnected = false) by (destruct Hcls; subst; reflexivity).
  rewrite Hos. cbn [x_out x_st]. rewrite Hcd, Hw2. cbn [negb].
  repeat match goal with
         | |- context [match ?x with _ => _ end] => destruct x eqn:?
         end; reflexivity.
Qed.

End Service.

(* ---- closed instances (py_cap / py_lower) and the refutation witness ---- *)

Definition sample_cfg : cfg :=
  mkCfg (lit "waitress") false true (lit "Thu, 01 Jan 2026 00:00:00 GMT") (lit "TB").
Definition sample_req : req := mkReq (lit "1.1") None false false None.

(* header pairs passed as LISTS and mutated after start_response validated them:
   start_response stores fresh tuples (commit 2730de7), the mutation has no effect *)
Definition alias_app : app :=
  mkApp [AStart (PStr (lit "200 OK")) [(PStr (lit "X-A"), PStr (lit "ok"))] None;
         AMutate 0 true (lit "x" ++ CRLF ++ lit "Set-Cookie: evil=1")]
        (KSized 1) [mkStep [] (SYield (lit "body"))] false None.

Lemma mutation_no_effect cap lower c r disc s i isv v :
  run_action cap lower c r disc s (AMutate i isv v) = (s, Ok tt).
Proof. reflexivity. Qed.

Lemma pair_alias_harmless :
  exists h rest,
    o_writes (run_task sample_cfg sample_req alias_app None) = WBytes h :: rest
    /\ In (lit "X-A: ok") (split h CRLF) /\ ~ In (lit "Set-Cookie: evil=1") (split h CRLF).
Proof.
  vm_compute. eexists. eexists. split; [reflexivity|]. split; [simpl; tauto|].
  simpl. intro H. repeat (destruct H as [H|H]; [discriminate H|]). exact H.
Qed.

Lemma sample_cfg_clean : cfg_clean sample_cfg.
Proof. split; reflexivity. Qed.
