#!/usr/bin/env python3
"""Prints the markdown table 'which checks catch which seeded changes' from seeded/*/meta.json."""
import json, os, glob
V = os.path.dirname(os.path.dirname(os.path.abspath(__file__)))
print("| seed | property | files | needs to manifest | check -> result |")
print("|---|---|---|---|---|")
for d in sorted(x for x in glob.glob(os.path.join(V, "seeded", "*")) if os.path.isdir(x)):
    m = json.load(open(os.path.join(d, "meta.json")))
    runs = "; ".join("%s: %s%s" % (p, r.get("result"), "" if r.get("failing_input_found", True) or r.get("result") != "caught" else " (no-failing-input-found)")
                     for p, r in sorted(m.get("checks_run", {}).items()))
    print("| %s | %s | %s | %s | %s |" % (os.path.basename(d), m["property"], ", ".join(os.path.basename(f) for f in m["files"]),
                                         m.get("needs", "").replace("|", "/")[:220],
                                         (runs or "not run yet") + (" - SUPERSEDED: no longer manifests on the current tree" if m.get("superseded") else "")))
