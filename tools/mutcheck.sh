#!/bin/bash
# tools/mutcheck.sh <patch.diff> <Cnn> [more Cnn ...]
# Runs the checks against a scratch worktree of /repo with the patch applied, from a
# scratch copy of /verif (so that the shared coq/Gen and build trees are not disturbed).
# Prints each check's output and exit code; removes both scratch trees afterwards.
# MUTCHECK_SRC=<dir>: copy the machinery from a snapshot of /verif instead of the live tree.
patch="$(readlink -f "$1")"; shift
d=/tmp/mc-$$
mkdir -p $d
git -C /repo worktree add -q $d/repo HEAD || exit 2
if ! git -C $d/repo apply "$patch"; then echo "PATCH DOES NOT APPLY"; git -C /repo worktree remove --force $d/repo; rm -rf $d; exit 2; fi
rsync -a --exclude _work --exclude .git --exclude replays ${MUTCHECK_SRC:-/verif}/ $d/verif/
mkdir -p $d/verif/replays
rc_all=0
for c in "$@"; do
  echo "=== $c against $(basename $patch) ==="
  (cd $d/verif && WAITRESS_REPO=$d/repo VERIF_TIER=${TIER:-quick} timeout 1800 ./check $c --tier ${TIER:-quick}) 2>&1 | tail -${LINES_OUT:-12}
  rc=${PIPESTATUS[0]}
  echo "=== $c exit=$rc ==="
  for f in $d/verif/replays/$c-*.json; do [ -f "$f" ] && { echo "--- replay $(basename $f)"; head -c 1500 "$f"; echo; break; }; done
done
git -C /repo worktree remove --force $d/repo
rm -rf $d
