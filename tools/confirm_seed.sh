#!/bin/bash
# tools/confirm_seed.sh <dir with patch.diff demo.py README.md> <seed name e.g. C16-m1> <property id>
# Confirms in a scratch worktree: demo passes without the patch; with it the whole test-suite
# still passes and the demo fails.  On success stores the seed under /verif/seeded/<name>/.
src="$(readlink -f "$1")"; name="$2"; prop="$3"
d=/tmp/cs-$$
git -C /repo worktree add -q $d HEAD || exit 2
cleanup() { git -C /repo worktree remove --force $d; }
cd $d
PYTHONPATH=$d/src timeout 300 /venv/bin/python "$src/demo.py" > $d/.demo_without.txt 2>&1; r0=$?
if ! git apply "$src/patch.diff"; then echo "PATCH DOES NOT APPLY"; cleanup; exit 2; fi
files=$(git diff --name-only | tr '\n' ' ')
PYTHONPATH=$d/src timeout 900 /venv/bin/python -m pytest -q -p no:cacheprovider > $d/.suite.txt 2>&1; rs=$?
suite=$(grep -E "passed|failed" $d/.suite.txt | tail -1)
PYTHONPATH=$d/src timeout 300 /venv/bin/python "$src/demo.py" > $d/.demo_with.txt 2>&1; r1=$?
echo "demo without patch: exit $r0 ; suite with patch: exit $rs ($suite) ; demo with patch: exit $r1 ; files: $files"
if [ $r0 -eq 0 ] && [ $rs -eq 0 ] && [ $r1 -ne 0 ]; then
  out=/verif/seeded/$name
  mkdir -p $out
  cp "$src/patch.diff" $out/patch.diff
  cp "$src/demo.py" $out/demo.py
  [ -f "$src/README.md" ] && cp "$src/README.md" $out/README.md
  python3 - "$out" "$prop" "$files" "$suite" "$r0" "$r1" <<'PY'
import json, sys, os
out, prop, files, suite, r0, r1 = sys.argv[1:7]
meta = {"property": prop, "files": files.split(), "needs": "see README.md",
        "confirmed": {"demo_without_patch_exit": int(r0), "suite_with_patch": suite.strip(), "demo_with_patch_exit": int(r1),
                      "how": "tools/confirm_seed.sh in a scratch git worktree of /repo"},
        "checks_run": {}}
p = os.path.join(out, "meta.json")
if os.path.exists(p):
    old = json.load(open(p)); meta["checks_run"] = old.get("checks_run", {}); meta["needs"] = old.get("needs", meta["needs"])
json.dump(meta, open(p, "w"), indent=1)
PY
  echo "CONFIRMED -> $out"
else
  echo "NOT CONFIRMED"; tail -5 $d/.demo_without.txt; tail -5 $d/.suite.txt; tail -5 $d/.demo_with.txt
fi
cleanup
