#!/bin/bash
# tools/run_all.sh [tier] [jobs]  -- runs every check registered in MANIFEST.json, prints a summary
cd "$(dirname "$0")/.."
tier=${1:-quick}; jobs=${2:-4}
mkdir -p _work/runall
ids=$(python3 -c "import json; print(' '.join(c['property_id'] for c in json.load(open('MANIFEST.json'))['checks']))")
run_one() { id=$1; tier=$2; s=$(date +%s); ./check $id --tier $tier > _work/runall/$id.log 2>&1; rc=$?; e=$(date +%s);
  echo "$id rc=$rc $((e-s))s $(grep -c '^VIOLATION' _work/runall/$id.log) violations, $(grep -c '^KNOWN-FINDING' _work/runall/$id.log) known; $(tail -1 _work/runall/$id.log)"; }
export -f run_one
echo $ids | tr ' ' '\n' | xargs -P $jobs -I{} bash -c "run_one {} $tier"
python3-vt - <<'PY'
import json, jsonschema, glob
sch = json.load(open('/root/.vp/EVIDENCE.schema.json'))
m = json.load(open('MANIFEST.json'))
jsonschema.validate(m, json.load(open('/root/.vp/MANIFEST.schema.json')))
for c in m['checks']:
    try:
        jsonschema.validate(json.load(open(c['evidence_file'])), sch)
    except Exception as e:
        print("EVIDENCE INVALID", c['property_id'], str(e)[:200])
print("manifest + evidence validated")
PY
