#!/usr/bin/env python3
"""tools/benign_subset.py [-j N] : run the wave-2 behaviour-preserving changes (benign/w2-<area>-bN) against the checks
whose models cover the touched area; results go to benign/<name>/meta.json (same format as benign_matrix.py)."""
import json, os, re, subprocess, sys
from concurrent.futures import ThreadPoolExecutor
V = os.path.dirname(os.path.dirname(os.path.abspath(__file__)))
AREAS = {
    "channelout": ["C03", "C04", "C05", "C09", "C11", "C12", "C13", "C19"],
    "channelsvc": ["C01", "C02", "C04", "C05", "C06", "C09", "C11", "C12", "C13", "C18", "C19"],
    "task": ["C03", "C06", "C08", "C09"],
    "buffers": ["C03", "C04", "C07", "C12", "C17"],
    "parser": ["C01", "C02", "C06", "C07", "C10", "C15", "C19"],
    "pool": ["C04", "C05", "C11", "C13", "C14", "C18"],
}
jobs = int(sys.argv[2]) if len(sys.argv) > 2 and sys.argv[1] == "-j" else 5
names = sorted(n for n in os.listdir(os.path.join(V, "benign")) if n.startswith("w2-"))


def run(pair):
    name, p = pair
    d = os.path.join(V, "benign", name)
    r = subprocess.run([os.path.join(V, "tools", "mutcheck.sh"), os.path.join(d, "patch.diff"), p],
                       stdout=subprocess.PIPE, stderr=subprocess.STDOUT, text=True, env=dict(os.environ, LINES_OUT="40"))
    txt = r.stdout
    m = re.search(r"=== %s exit=(\d+) ===" % p, txt)
    rc = int(m.group(1)) if m else -1
    viol = [l for l in txt.splitlines() if l.startswith("VIOLATION")]
    nf = bool(viol) and all("no-failing-input-found" in l for l in viol)
    what = re.search(r'"what": "(.*?)",?\n', txt)
    return name, p, {"exit": rc, "violations": len(viol), "no_failing_input_found": nf,
                     "result": "silent" if rc == 0 and not viol else ("alarm" if rc == 1 else "error"),
                     "first_what": (what.group(1)[:300] if what else "")}


pairs = [(n, p) for n in names for p in AREAS[n.split("-")[1]]]
res = {}
with ThreadPoolExecutor(max_workers=jobs) as ex:
    for name, p, o in ex.map(run, pairs):
        res.setdefault(name, {})[p] = o
        print("%-20s %-4s %-6s %s %s" % (name, p, o["result"], "(no-failing-input-found)" if o["no_failing_input_found"] else "",
                                         o["first_what"][:140]), flush=True)
for name, r in res.items():
    mp = os.path.join(V, "benign", name, "meta.json")
    meta = json.load(open(mp))
    meta["checks_run"] = r
    json.dump(meta, open(mp, "w"), indent=1)
