#!/usr/bin/env python3
"""tools/benign_matrix.py [-j N] [name ...] : run every registered check against every behaviour-preserving
change kept under /verif/benign/<name>/patch.diff (tools/mutcheck.sh: scratch copies of /repo and /verif) and
record, per change, which checks stayed silent and which raised an alarm (and whether the alarm came with a
failing input or as no-failing-input-found).  Results go to /verif/benign/<name>/meta.json."""
import json, os, re, subprocess, sys
from concurrent.futures import ThreadPoolExecutor
V = os.path.dirname(os.path.dirname(os.path.abspath(__file__)))
args = sys.argv[1:]
jobs = 5
if args and args[0] == "-j":
    jobs = int(args[1]); args = args[2:]
names = args or sorted(os.listdir(os.path.join(V, "benign")))
checks = [c["property_id"] for c in json.load(open(os.path.join(V, "MANIFEST.json")))["checks"]]


def run(pair):
    name, p = pair
    d = os.path.join(V, "benign", name)
    r = subprocess.run([os.path.join(V, "tools", "mutcheck.sh"), os.path.join(d, "patch.diff"), p],
                       stdout=subprocess.PIPE, stderr=subprocess.STDOUT, text=True, env=dict(os.environ, LINES_OUT="40"))
    txt = r.stdout
    m = re.search(r"=== %s exit=(\d+) ===" % p, txt)
    rc = int(m.group(1)) if m else -1
    viol = [l for l in txt.splitlines() if l.startswith("VIOLATION")]
    nf = bool(viol) and all("no-failing-input-found" in l for l in viol)
    what = re.search(r'"what": "(.*?)",?\n', txt)
    return name, p, {"exit": rc, "violations": len(viol), "no_failing_input_found": nf,
                     "result": "silent" if rc == 0 and not viol else ("alarm" if rc == 1 else "error"),
                     "first_what": (what.group(1)[:300] if what else "")}


pairs = [(n, p) for n in names for p in checks]
res = {}
with ThreadPoolExecutor(max_workers=jobs) as ex:
    for name, p, o in ex.map(run, pairs):
        res.setdefault(name, {})[p] = o
        if o["result"] != "silent":
            print("%-14s %-4s %-6s %s %s" % (name, p, o["result"], "(no-failing-input-found)" if o["no_failing_input_found"] else "",
                                             o["first_what"][:160]), flush=True)
for name, out in res.items():
    mp = os.path.join(V, "benign", name, "meta.json")
    meta = json.load(open(mp)) if os.path.exists(mp) else {}
    meta.setdefault("checks_run", {}).update(out)
    json.dump(meta, open(mp, "w"), indent=1)
    print("%-14s silent=%d alarm=%d error=%d" % (name, sum(o["result"] == "silent" for o in out.values()),
                                                  sum(o["result"] == "alarm" for o in out.values()),
                                                  sum(o["result"] == "error" for o in out.values())))
