#!/usr/bin/env python3
"""tools/seed_matrix.py [seed ...] : run each seeded change under /verif/seeded against the check of its own
property (and any extra checks listed in meta.json 'also'), record the outcome in meta.json, print a table.
Uses tools/mutcheck.sh (scratch copies of /repo and /verif)."""
import json, os, re, subprocess, sys
from concurrent.futures import ThreadPoolExecutor
V = os.path.dirname(os.path.dirname(os.path.abspath(__file__)))
seeds = sys.argv[1:] or sorted(x for x in os.listdir(os.path.join(V, "seeded")) if os.path.isdir(os.path.join(V, "seeded", x)))

def run(seed):
    d = os.path.join(V, "seeded", seed)
    meta = json.load(open(os.path.join(d, "meta.json")))
    props = [meta["property"]] + meta.get("also", [])
    out = {}
    for p in props:
        if not os.path.exists(os.path.join(V, "checks", p + ".py")):
            out[p] = {"result": "check not built"}
            continue
        r = subprocess.run([os.path.join(V, "tools", "mutcheck.sh"), os.path.join(d, "patch.diff"), p],
                           stdout=subprocess.PIPE, stderr=subprocess.STDOUT, text=True, env=dict(os.environ, LINES_OUT="40"))
        txt = r.stdout
        m = re.search(r"=== %s exit=(\d+) ===" % p, txt)
        rc = int(m.group(1)) if m else -1
        viol = [l for l in txt.splitlines() if l.startswith("VIOLATION")]
        what = re.search(r'"what": "(.*?)",?\n', txt)
        nf = any("no-failing-input-found" in l for l in viol) and not any("no-failing-input-found" not in l for l in viol)
        out[p] = {"cmd": "tools/mutcheck.sh seeded/%s/patch.diff %s" % (seed, p), "exit": rc,
                  "violations": len(viol), "failing_input_found": bool(viol) and not nf,
                  "result": ("caught" if rc == 1 and viol else "MISSED" if rc == 0 else "error"),
                  "first_what": (what.group(1)[:300] if what else "")}
    meta.setdefault("checks_run", {}).update(out)
    json.dump(meta, open(os.path.join(d, "meta.json"), "w"), indent=1)
    return seed, out

with ThreadPoolExecutor(max_workers=4) as ex:
    for seed, out in ex.map(run, seeds):
        for p, o in out.items():
            print("%-8s %-4s %-8s %s" % (seed, p, o["result"], o.get("first_what", "")[:150]))
