#!/usr/bin/env python3
"""Grep gate over the WHOLE development (every .v file): must print nothing."""
import os, sys
sys.path.insert(0, os.path.dirname(os.path.dirname(os.path.abspath(__file__))))
from lib import vcommon
bad = vcommon.grep_gate()
for b in bad:
    print(b)
sys.exit(1 if bad else 0)
