(* Line protocol for the extracted C13 model (Model/ChanFault.v).

   run LOOKAHEAD SEND_BYTES HW SNDBUF POLL2 MODE NPRE TOK ...
       MODE y: a token is one scheduling block of the harness: the first micro-step must be the
               scheduling point named by the token; the following micro-steps are executed as
               long as they are not scheduling points (Model.is_yield)
       MODE a: a token is "thread + answers": micro-steps are executed until the thread needs an
               answer that the token does not carry or reaches the top of the next poll turn
               (single-threaded worlds: one token per poll turn / per service() call)
       NPRE  : number of channels (0..2) accepted and constructed before the first token
       TOK   : THREAD;KIND;ANS,ANS,...     THREAD = io | wA | wB ; KIND = name of the scheduling
               point or '-' ; ANS see [answer_of]
       answer: one field per token separated by '|':  LABELS;DIGEST   or   X:<why>
   explore LOOKAHEAD SEND_BYTES HW SNDBUF POLL2 MAXSTATES FAULTS
       breadth-first exploration of the model under a small menu of environment answers
       (FAULTS = 0: no errno answers at all); reports, per predicate of Proof/ChanFaultSpec.v,
       the number of bad states inside / outside the known-finding classes and a witness *)
open Model
open Wvio

let ni = int_of_nat
let nn = nat_of_int
let sb b = if b then "1" else "0"

let chan_s = function A -> "A" | B -> "B"
let chan_of = function "A" -> A | "B" -> B | s -> failwith ("bad channel " ^ s)
let tid_s = function IO -> "io" | W c -> "w" ^ chan_s c
let tid_of = function "io" -> IO | "wA" -> W A | "wB" -> W B | s -> failwith ("bad thread " ^ s)
let fd_s = function FL -> "L" | FT -> "T" | FC c -> chan_s c
let fd_of = function 'L' -> FL | 'T' -> FT | 'A' -> FC A | 'B' -> FC B | _ -> failwith "bad fd"
let fds_of s = if s = "-" then [] else List.init (String.length s) (fun i -> fd_of s.[i])
let fds_s l = if l = [] then "-" else String.concat "" (List.map fd_s l)

let errno_s = function
  | ECONNRESET -> "econnreset" | EPIPE -> "epipe" | ENOTCONN -> "enotconn" | EBADF -> "ebadf"
  | EINVAL -> "einval" | EOTHER -> "eother" | EWOULDBLOCK -> "ewouldblock" | ECONNABORTED -> "econnaborted"
let errno_of = function
  | "econnreset" -> ECONNRESET | "epipe" -> EPIPE | "enotconn" -> ENOTCONN | "ebadf" -> EBADF
  | "einval" -> EINVAL | "eother" -> EOTHER | "ewouldblock" -> EWOULDBLOCK | "econnaborted" -> ECONNABORTED
  | s -> failwith ("bad errno " ^ s)
let exn_s = function
  | XOSError e -> "oserror." ^ errno_s e | XAttributeError -> "attributeerror" | XValueError -> "valueerror"
  | XKeyError -> "keyerror" | XClientDisconnected -> "clientdisconnected" | XApp -> "app" | XReraised -> "reraised"

(* answers:  n | rd:<eci><eci>.. | re | rx:<errno> | sk:<n> | sx:<errno> | c0 | cx:<errno> | ac:<chan> | ax:<errno>
             sel:<r>/<w>/<e>/<h> | ex:<errno> | en | ez | aw:<n> | ad:<0|1> | ar | bl:<n> | k0 | k1 | m:<0|1><0|1> *)
let answer_of (a : string) : answer =
  let hd, arg = match String.index_opt a ':' with
    | Some i -> String.sub a 0 i, String.sub a (i + 1) (String.length a - i - 1)
    | None -> a, "" in
  match hd with
  | "n" -> ANone
  | "rd" ->
    let k = String.length arg / 3 in
    ARecv (RData (List.init k (fun i ->
      { it_expect = arg.[3*i] = '1'; it_completed = arg.[3*i+1] = '1'; it_empty = arg.[3*i+2] = '1' })))
  | "re" -> ARecv REof
  | "rx" -> ARecv (RErr (errno_of arg))
  | "sk" -> ASend (SOk (nn (int_of_string arg)))
  | "sx" -> ASend (SErr (errno_of arg))
  | "c0" -> ACall None
  | "cx" -> ACall (Some (errno_of arg))
  | "ac" -> AAcc (AccConn (chan_of arg))
  | "ax" -> AAcc (AccErr (errno_of arg))
  | "sel" ->
    (match String.split_on_char '/' arg with
     | [r; w; e] -> ASel (fds_of r, fds_of w, fds_of e)
     | _ -> failwith "bad sel")
  | "p2" ->
    (* p2:<fd><flags>.<fd><flags>...   flags: subset of i o p h *)
    if arg = "" then APoll2 [] else
    APoll2 (List.map (fun t ->
      let has c = String.contains_from t 1 c in
      ((fd_of t.[0], (has 'i', has 'o')), (has 'p', has 'h'))) (String.split_on_char '.' arg))
  | "ex" -> AExpt (XRaise (errno_of arg))
  | "en" -> AExpt XNonzero
  | "ez" -> AExpt XZero
  | "aw" -> AApp (AppWrite (nn (int_of_string arg)))
  | "ad" -> AApp (AppDone (arg = "1"))
  | "ar" -> AApp AppRaise
  | "bl" -> ABufLen (nn (int_of_string arg))
  | "k0" -> AKeep false
  | "k1" -> AKeep true
  | "m" -> AMaint (arg.[0] = '1', arg.[1] = '1')
  | _ -> failwith ("bad answer " ^ a)

let answer_s = function
  | ANone -> "n"
  | ARecv (RData its) -> "rd:" ^ String.concat "" (List.map (fun i -> sb i.it_expect ^ sb i.it_completed ^ sb i.it_empty) its)
  | ARecv REof -> "re"
  | ARecv (RErr e) -> "rx:" ^ errno_s e
  | ASend (SOk n) -> "sk:" ^ string_of_int (ni n)
  | ASend (SErr e) -> "sx:" ^ errno_s e
  | ACall None -> "c0"
  | ACall (Some e) -> "cx:" ^ errno_s e
  | AAcc (AccConn c) -> "ac:" ^ chan_s c
  | AAcc (AccErr e) -> "ax:" ^ errno_s e
  | ASel (r, w, e) -> Printf.sprintf "sel:%s/%s/%s" (fds_s r) (fds_s w) (fds_s e)
  | APoll2 l -> "p2:" ^ String.concat "." (List.map (fun ((f, (i, o)), (p, h)) ->
      fd_s f ^ (if i then "i" else "") ^ (if o then "o" else "") ^ (if p then "p" else "") ^ (if h then "h" else "")) l)
  | AExpt (XRaise e) -> "ex:" ^ errno_s e
  | AExpt XNonzero -> "en"
  | AExpt XZero -> "ez"
  | AApp (AppWrite n) -> "aw:" ^ string_of_int (ni n)
  | AApp (AppDone b) -> "ad:" ^ sb b
  | AApp AppRaise -> "ar"
  | ABufLen n -> "bl:" ^ string_of_int (ni n)
  | AKeep b -> if b then "k1" else "k0"
  | AMaint (a, b) -> "m:" ^ sb a ^ sb b

let label_s = function
  | LClose (t, c) -> Some (Printf.sprintf "close:%s:%s" (tid_s t) (chan_s c))
  | LMapDel (t, f) -> Some (Printf.sprintf "mapdel:%s:%s" (tid_s t) (fd_s f))
  | LActDel (t, c) -> Some (Printf.sprintf "actdel:%s:%s" (tid_s t) (chan_s c))
  | LHClose (t, c) -> Some (Printf.sprintf "hclose:%s:%s" (tid_s t) (chan_s c))
  | LBufsClosed (t, c) -> Some (Printf.sprintf "bufs:%s:%s" (tid_s t) (chan_s c))
  | LLoopDied x -> Some ("died:" ^ exn_s x)
  | LLoopExit -> Some "exit"
  | LListenerClosed -> Some "lclosed"
  | LTriggerClosed -> Some "tclosed"
  | LWorkerDied c -> Some ("wdied:" ^ chan_s c)
  | LWCont c -> Some ("wcont:" ^ chan_s c)
  | LSetupFault c -> Some ("sfault:" ^ chan_s c)
  | LAccepted c -> Some ("acc:" ^ chan_s c)
  | LChanAdded c -> Some ("add:" ^ chan_s c)
  | LWire (c, n) -> Some (Printf.sprintf "wire:%s:%d" (chan_s c) (ni n))
  | LEnv (_, _) -> None
  | LApp (_, _) -> None
  | LCaught (t, x) -> Some (Printf.sprintf "caught:%s:%s" (tid_s t) (exn_s x))
let labels_s ls =
  let l = List.filter_map label_s ls in
  if l = [] then "-" else String.concat "," l

let kind_of_instr = function
  | ISelect _ -> "select" | ISelWait _ -> "selwait" | IAcqO _ -> "acqO" | ITryAcqO _ -> "tryO" | IRelO _ | KRelO _ -> "relO"
  | IAcqR _ -> "acqR" | IRelR _ | KRelR _ -> "relR" | IWaitO _ -> "wait" | IWake _ -> "wake"
  | INotifyO _ -> "notify" | IRecvCall _ -> "recv" | IFlushSend _ -> "send" | IExptCall _ -> "soerr"
  | ISockCloseCall _ -> "sclose" | IAccept -> "accept" | ISetOpts _ -> "setopt" | IInitGso _ -> "gso"
  | IInitSbl _ -> "sbl" | IPull _ -> "pull" | IAddTask _ -> "addtask"
  | IPoll -> "poll" | IDisp _ -> "disp" | IDisp2 _ -> "disp2" | IHClose _ -> "hclose"
  | ICloseBufs _ -> "closebufs" | IApp _ -> "app" | IErrTask _ -> "errtask"
  | _ -> "other"

let iz = function Z0 -> 0 | Zpos p -> int_of_pos p | Zneg p -> - (int_of_pos p)
let sock_s = function SOpen -> "o" | SClosed -> "c" | SNone -> "n"
let cv_s = function CvNone -> "-" | CvWaiting -> "w" | CvNotified -> "n"
let chan_digest (x : chan_st) =
  Printf.sprintf "%s%s%s%s%s%s%s%s%s%s,%d,%d,%d,%s%s%s,%s,%s,%s,%d,%d"
    (sb x.created) (sb x.accepted) (sb x.in_map) (sb x.in_act) (sb x.fileno) (sock_s x.sock)
    (sb x.conn) (sb x.wc) (sb x.cwf) (sb x.bufc) (iz x.pend) (ni x.buf) (ni x.nreq)
    (sb x.pexp) (sb x.sentc) (sb x.queued)
    (match x.olock with None -> "-" | Some (t, n) -> tid_s t ^ "/" ^ string_of_int (ni n))
    (match x.rlock with None -> "-" | Some t -> tid_s t)
    (cv_s x.cv) (ni x.nclose) (ni x.wire)
let head_s (s : state) t =
  match next_instr s t with
  | None -> "idle"
  | Some (i, fr) -> (if fr then "!" else "") ^ kind_of_instr i
let digest (s : state) =
  Printf.sprintf "A=%s B=%s L=%s%s%s%s D=%s io=%s wA=%s wB=%s"
    (chan_digest s.chA) (chan_digest s.chB)
    (sb s.lst_in_map) (sb s.trg_in_map) (sb s.lst_open) (sb s.trg_open) (sb s.io_dead)
    (head_s s IO) (head_s s (W A)) (head_s s (W B))

(* ---- running tokens ------------------------------------------------------------- *)
exception Stop of string

(* POLL2 is up to three characters: use_poll2, wc_close (default 1), init_guarded (default 0), e.g. "010" *)
let mk_cfg la sbytes hw sndbuf p2 =
  { lookahead = nn (int_of_string la); send_bytes = nn (int_of_string sbytes); hw = nn (int_of_string hw);
    sndbuf = nn (int_of_string sndbuf); use_poll2 = (p2.[0] = '1');
    wc_close = (String.length p2 < 2 || p2.[1] = '1');
    init_guarded = (String.length p2 >= 3 && p2.[2] = '1') }

(* does the next micro-step of t need an answer / is it a scheduling point *)
let next_wants s t = match next_instr s t with Some (i, false) -> wants s t i | _ -> false
let next_is_yield s t =
  match next_instr s t with
  | Some (i, _) -> is_yield s t i
  | None -> (match t with W _ -> true | IO -> false)      (* an idle worker taking a task *)
let has_next s t =
  match next_instr s t with
  | Some _ -> true
  | None ->
    (* raising with no frame left (the exception escapes) is a micro-step too *)
    (match (getth s t).raising with Some _ -> true | None -> false)

let micro g s t (answers : answer list ref) =
  let a =
    if next_wants s t then
      (match !answers with
       | x :: r -> answers := r; x
       | [] -> raise (Stop "answer-missing"))
    else
      (match next_instr s t, !answers with
       | Some (IPoll, false), (AMaint (_, _) as x) :: r -> answers := r; x
       | Some ((IContAppend _ | IWsAppend (_, _)), false), (AKeep _ as x) :: r -> answers := r; x
       | _ -> ANone) in
  step g s (t, a)

let macro g mode s t kind answers =
  let acc = ref [] in
  let st = ref s in
  (* first micro-step *)
  (match next_instr !st t with
   | Some (i, _) ->
     let k = kind_of_instr i in
     if kind <> "-" && kind <> k then raise (Stop (Printf.sprintf "kind:%s:model-is-at:%s" kind k))
   | None ->
     if kind <> "-" && kind <> "take" && has_next !st t = false then raise (Stop ("kind:" ^ kind ^ ":model-is-idle")));
  (match micro g !st t answers with
   | None -> raise (Stop "blocked")
   | Some (s', ls) -> st := s'; acc := ls);
  let continue_ = ref true in
  while !continue_ do
    let s0 = !st in
    let idle = (next_instr s0 t = None) && not (has_next s0 t) in
    if idle then continue_ := false
    else if mode = "y" && next_is_yield s0 t then continue_ := false
    else if mode = "a" && next_wants s0 t && !answers = [] then continue_ := false
    else if mode = "a" && (match next_instr s0 t with Some (IPoll, false) -> true | _ -> false) then continue_ := false
    else if next_wants s0 t && !answers = [] then raise (Stop "answer-missing")
    else
      match micro g s0 t answers with
      | None -> continue_ := false
      | Some (s', ls) -> st := s'; acc := !acc @ ls
  done;
  if !answers <> [] then raise (Stop ("answers-unused:" ^ String.concat "," (List.map answer_s !answers)));
  (!st, !acc)

(* accept and construct channel c from a state whose I/O thread is at the top of a poll turn *)
let preset g s c =
  let sel = if g.use_poll2 then APoll2 [((FL, (true, false)), (false, false))] else ASel ([FL], [], []) in
  let s = ref s in
  let fuel = ref 40 in
  let created () = (getc !s c).created in
  let at_top () = match next_instr !s IO with Some (IPoll, false) -> true | _ -> false in
  while !fuel > 0 && not (created () && at_top ()) do
    decr fuel;
    let a = match next_instr !s IO with
      | Some (ISelWait _, false) -> sel
      | Some (IAccept, false) -> AAcc (AccConn c)
      | Some ((ISetOpts _ | IInitGso _ | IInitSbl _), false) -> ACall None
      | _ -> ANone in
    (match step g !s (IO, a) with Some (s', _) -> s := s' | None -> failwith "preset")
  done;
  if !fuel = 0 then failwith "preset";
  !s

let parse_tok tok =
  match String.split_on_char ';' tok with
  | [t; k; a] -> (tid_of t, k, if a = "-" || a = "" then [] else List.map answer_of (String.split_on_char ',' a))
  | [t; k] -> (tid_of t, k, [])
  | _ -> failwith ("bad token " ^ tok)

let run la sbytes hw sndbuf p2 mode npre toks =
  let g = mk_cfg la sbytes hw sndbuf p2 in
  let s = ref init in
  let n = int_of_string npre in
  if n >= 1 then s := preset g !s A;
  if n >= 2 then s := preset g !s B;
  let dead = ref false in
  let out = List.map (fun tok ->
    if !dead then "X:skipped" else
    try
      let (t, k, a) = parse_tok tok in
      let answers = ref a in
      let (s', ls) = macro g mode !s t k answers in
      s := s';
      labels_s ls ^ ";" ^ digest s'
    with Stop why -> dead := true; "X:" ^ why ^ ";" ^ digest !s) toks in
  String.concat "|" (("init;" ^ digest !s) :: []) |> ignore;
  String.concat "|" out

(* ---- the model's own explorer ------------------------------------------------------ *)
let it_get = { it_expect = false; it_completed = true; it_empty = false }
let it_exp = { it_expect = true; it_completed = false; it_empty = false }
let it_expc = { it_expect = true; it_completed = true; it_empty = false }
let it_part = { it_expect = false; it_completed = false; it_empty = false }

let menu g faults (s : state) t : answer list =
  match next_instr s t with
  | Some (i, false) when wants s t i ->
    (match i with
     | ISelWait (r, w, e) ->
       let chans = List.filter (function FC _ -> true | _ -> false) in
       if g.use_poll2 then
         [APoll2 []]
         @ List.map (fun f -> APoll2 [((f, (true, false)), (false, false))]) r
         @ List.map (fun f -> APoll2 [((f, (false, true)), (false, false))]) w
         @ (if faults then List.map (fun f -> APoll2 [((f, (true, false)), (true, true))]) (chans r)
                           @ List.map (fun f -> APoll2 [((f, (false, false)), (false, true))]) (chans e) else [])
       else
         [ASel ([], [], [])]
         @ List.map (fun f -> ASel ([f], [], [])) r
         @ List.map (fun f -> ASel ([], [f], [])) w
         @ (if faults then List.map (fun f -> ASel ([], [], [f])) (chans e) else [])
         @ (if List.length r + List.length w > 1 then [ASel (r, w, [])] else [])
     | IAccept ->
       (if not s.chA.accepted then [AAcc (AccConn A)] else if not s.chB.accepted then [AAcc (AccConn B)] else [])
       @ (if faults then [AAcc (AccErr EINVAL); AAcc (AccErr EWOULDBLOCK)] else [AAcc (AccErr EWOULDBLOCK)])
     | ISetOpts _ | IInitGso _ | IInitSbl _ -> ACall None :: (if faults then [ACall (Some EINVAL)] else [])
     | IRecvCall c ->
       let x = getc s c in
       (if ni x.wire = 0 && ni x.nreq = 0 then
          [ARecv (RData [it_get]); ARecv (RData [it_get; it_exp]); ARecv (RData [it_exp]); ARecv (RData [it_get; it_get])]
        else [ARecv (RData [it_part])])
       @ [ARecv REof]
       @ (if faults then [ARecv (RErr ECONNRESET); ARecv (RErr EINVAL)] else [])
     | IExptCall _ -> [AExpt XZero] @ (if faults then [AExpt XNonzero; AExpt (XRaise EBADF)] else [])
     | IFlushSend (c, _, mm, _) ->
       let m = ni mm in
       [ASend (SOk (nn m)); ASend (SErr EWOULDBLOCK)]
       @ (if m > 1 then [ASend (SOk (nn 1))] else [])
       @ (if faults then [ASend (SErr EPIPE); ASend (SErr EINVAL)] else [])
     | ICloseBufs c -> let x = getc s c in if ni x.buf = 0 then [ABufLen (nn 0)] else [ABufLen (nn 0); ABufLen x.buf]
     | IApp c ->
       let x = getc s c in
       (if iz x.pend + ni x.wire < 6 then [AApp (AppWrite (nn 2))] else [])
       @ [AApp (AppDone false); AApp (AppDone true)] @ (if faults then [AApp AppRaise] else [])
     | IErrTask _ -> [AKeep true; AKeep false]
     | _ -> [ANone])
  | Some ((IContAppend c | IWsAppend (c, _)), false) -> if (getc s c).bufc then [AKeep true; AKeep false] else [ANone]
  | Some (IPoll, false) -> [ANone]
  | _ -> [ANone]

type flags = { died : bool; wdied : bool; notio : bool; wcont : bool; sfault : bool }

let explore la sbytes hw sndbuf p2 maxstates faults =
  let g = mk_cfg la sbytes hw sndbuf p2 in
  let faults = faults <> "0" in
  let maxstates = int_of_string maxstates in
  let seen : (string, unit) Hashtbl.t = Hashtbl.create 200000 in
  let q = Queue.create () in
  let f0 = { died = false; wdied = false; notio = false; wcont = false; sfault = false } in
  let key (s : state) (f : flags) = Marshal.to_string (s, f) [Marshal.No_sharing] in
  Hashtbl.add seen (key init f0) (); Queue.add (init, f0, []) q;
  let trans = ref 0 and trunc = ref false in
  let names = [| "loop"; "workers"; "listener"; "once" |] in
  let bad_in = Array.make 4 0 and bad_out = Array.make 4 0 in
  let wit_in = Array.make 4 "" and wit_out = Array.make 4 "" in
  let path_s p = String.concat "," (List.rev p) in
  while not (Queue.is_empty q) do
    let (s, f, path) = Queue.pop q in
    let oks = [| not f.died; not f.wdied; listener_okb s;
                 (not f.notio) && ni s.chA.nclose <= 1 && ni s.chB.nclose <= 1 && releasedb s A && releasedb s B |] in
    let in_class = [| f.wcont; false; f.sfault; f.wcont |] in
    Array.iteri (fun i ok ->
      if not ok then
        if in_class.(i) then begin bad_in.(i) <- bad_in.(i) + 1; if wit_in.(i) = "" then wit_in.(i) <- path_s path end
        else begin bad_out.(i) <- bad_out.(i) + 1; if wit_out.(i) = "" then wit_out.(i) <- path_s path end) oks;
    List.iter (fun t ->
      List.iter (fun a ->
        match step g s (t, a) with
        | None -> ()
        | Some (s', ls) ->
          incr trans;
          let f' = List.fold_left (fun f l ->
            match l with
            | LLoopDied x -> { f with died = f.died || true }
            | LWorkerDied _ -> { f with wdied = true }
            | LWCont _ -> { f with wcont = true }
            | LSetupFault _ -> { f with sfault = true }
            | LClose (W _, _) | LMapDel (W _, _) | LActDel (W _, _) | LBufsClosed (W _, _) -> { f with notio = true }
            | _ -> f) f ls in
          let k = key s' f' in
          if not (Hashtbl.mem seen k) then
            if Hashtbl.length seen >= maxstates then trunc := true
            else begin
              Hashtbl.add seen k ();
              Queue.add (s', f', (tid_s t ^ ";-;" ^ answer_s a) :: path) q
            end)
        (menu g faults s t))
      [IO; W A; W B]
  done;
  let b = Buffer.create 256 in
  Buffer.add_string b (Printf.sprintf "states=%d transitions=%d truncated=%d" (Hashtbl.length seen) !trans (if !trunc then 1 else 0));
  Array.iteri (fun i n ->
    Buffer.add_string b (Printf.sprintf " %s_bad_in_class=%d %s_bad_outside=%d" n bad_in.(i) n bad_out.(i));
    if wit_in.(i) <> "" then Buffer.add_string b (Printf.sprintf " %s_witness_in_class=%s" n wit_in.(i));
    if wit_out.(i) <> "" then Buffer.add_string b (Printf.sprintf " %s_witness_outside=%s" n wit_out.(i))) names;
  Buffer.contents b

let () = main_loop (fun w -> match w with
  | "run" :: la :: sbytes :: hw :: sndbuf :: p2 :: mode :: npre :: toks -> run la sbytes hw sndbuf p2 mode npre toks
  | ["explore"; la; sbytes; hw; sndbuf; p2; maxstates; faults] -> explore la sbytes hw sndbuf p2 maxstates faults
  | _ -> "ERR bad command")
