open Model
open Wvio

(* line protocol (bytes as hex, "-" = empty)
   e2e <max_header> <max_body> <url_scheme> <prefix> <server_name> <port> <ident> <peer>
       <tp> <count> <tph> <clear> <chunk>...
       port = i<dec> | s<hex>      peer = u | t<hosthex>:<dec>
       tp = N | S:<hex>   tph = N | S:<hex>,<hex>...
       -> "ok <k> <v> ... | pre <k> <v> ..."   served environ (str entries) and the task's environ_of
          | "mal <hdr>" | "exn <E>" | "err=<tag>" | "empty" | "incomplete" | escapes | outoffuel | unmodelled
   parts <chunk>...      -> "parts <request line> <line>..." | "none"      (head_parts of the concatenation)
   line <line>           -> "<name> <proxy_line> <underscore> <host_line> <ignorable>"
   kv <key> <line>...    -> "N" | "S:<hex>"    value_of_lines (key_lines key lines)
   kept <line>...        -> "kept <line>..."
   maps <name> <key>     -> 0 | 1 *)

let z_int (z : z) : int = match z with Z0 -> 0 | Zpos p -> int_of_pos p | Zneg p -> - (int_of_pos p)
let z_of_int (i : int) : z =
  if i = 0 then Z0 else if i > 0 then Zpos (pos_of_int i) else Zneg (pos_of_int (- i))
let rec drop k l = if k <= 0 then l else match l with [] -> [] | _ :: t -> drop (k - 1) t

let err_tag (e : perr) : string = match e with
  | EChunkNotTerminated -> "400:ChunkNotTerminated"
  | EInvalidChunkExt -> "400:InvalidChunkExt"
  | EInvalidChunkSize -> "400:InvalidChunkSize"
  | EHeaderTooLarge -> "431:HeaderTooLarge"
  | EBodyTooLarge -> "413:BodyTooLarge"
  | EHeaderInvalid -> "400:HeaderInvalid"
  | EBareCRLFFirstLine -> "400:BareCRLFFirstLine"
  | EBareCRLFHeader -> "400:BareCRLFHeader"
  | EMalformedHeaderLine -> "400:MalformedHeaderLine"
  | EInvalidHeader -> "400:InvalidHeader"
  | EDuplicateHeader -> "400:DuplicateHeader"
  | EStartLineInvalid -> "400:StartLineInvalid"
  | EMalformedMethod -> "400:MalformedMethod"
  | EContentLengthInvalid -> "400:ContentLengthInvalid"
  | EBadURI -> "400:BadURI"
  | ETENotSupported -> "501:TENotSupported"
  | ETEMultipleChunked -> "501:TEMultipleChunked"

(* the caller's loop: re-offer the unconsumed rest until completed or all taken *)
type fed = Fed of parser0 | Stop of string

let feed a chunks : fed =
  let rec offer p data =
    match received a p data with
    | ROk (p', n) ->
      let ni = z_int n in
      if p'.completed || ni >= List.length data || ni <= 0 then Fed p'
      else offer p' (drop ni data)
    | REscapes -> Stop "escapes"
    | ROutOfFuel -> Stop "outoffuel"
    | RUnmodelled -> Stop "unmodelled" in
  let rec go p cs = match cs with
    | [] -> Fed p
    | c :: rest ->
      (match offer p (bytes_of_hex c) with
       | Fed p' -> if p'.completed then Fed p' else go p' rest
       | Stop s -> Stop s) in
  go parser_init chunks

let parse_port (w : string) : eport =
  if w.[0] = 'i' then PortInt (n_of_dec (String.sub w 1 (String.length w - 1)))
  else PortStr (bytes_of_hex (String.sub w 1 (String.length w - 1)))

let parse_peer (w : string) : peer =
  if w = "u" then PeerUnix
  else begin
    let body = String.sub w 1 (String.length w - 1) in
    match String.split_on_char ':' body with
    | [h; p] -> PeerTCP (bytes_of_hex h, n_of_dec p)
    | _ -> failwith "bad peer"
  end

let opt_str (w : string) : n list option =
  if w = "N" then None else Some (bytes_of_hex (String.sub w 2 (String.length w - 2)))

let opt_set (w : string) : n list list option =
  if w = "N" then None
  else begin
    let body = String.sub w 2 (String.length w - 2) in
    if body = "" then Some [] else Some (List.map bytes_of_hex (String.split_on_char ',' body))
  end

(* a str with code points above 255 cannot travel as hex bytes: u<cp,cp,...> *)
let str_val (s : n list) : string =
  if List.for_all (fun x -> int_of_n x < 256) s then hex_of_bytes s else "u" ^ string_of_cps s

let show_env (e : (n list * n list) list) : string =
  String.concat " " (List.concat (List.map (fun (k, v) -> [str_val k; str_val v]) e))

let exn_name = function IndexError -> "IndexError" | KeyError -> "KeyError" | ValueError -> "ValueError"

let do_e2e mh mb scheme prefix sname port ident peer tp cnt tph clr chunks =
  let a = { max_request_header_size = n_of_dec mh; max_request_body_size = n_of_dec mb;
            adj_url_scheme = bytes_of_hex scheme } in
  match feed a chunks with
  | Stop s -> s
  | Fed p ->
    if not p.completed then "incomplete"
    else if p.empty then "empty"
    else (match p.error with
      | Some e -> "err=" ^ err_tag e
      | None ->
        let ctx = { url_prefix = bytes_of_hex prefix; server_name = bytes_of_hex sname;
                    effective_port = parse_port port; ident = bytes_of_hex ident; peer_addr = parse_peer peer } in
        let cfg = { trusted_proxy = opt_str tp; trusted_proxy_count = z_of_int (int_of_string cnt);
                    trusted_proxy_headers = opt_set tph; clear_untrusted = (clr = "1") } in
        let pre = environ_of ctx p in
        (match serve_request cfg ctx p with
         | Ok o -> "ok " ^ show_env o ^ " | pre " ^ show_env pre
         | Malformed h -> "mal " ^ hex_of_bytes h
         | Exn e -> "exn " ^ exn_name e))

let b x = if x then "1" else "0"

let () = main_loop (fun w -> match w with
  | "e2e" :: mh :: mb :: scheme :: prefix :: sname :: port :: ident :: peer :: tp :: cnt :: tph :: clr :: chunks ->
    do_e2e mh mb scheme prefix sname port ident peer tp cnt tph clr chunks
  | "parts" :: chunks ->
    (match head_parts (List.concat (List.map bytes_of_hex chunks)) with
     | Some (fl, lines) -> String.concat " " ("parts" :: hex_of_bytes fl :: List.map hex_of_bytes lines)
     | None -> "none")
  | ["line"; l] ->
    let l = bytes_of_hex l in
    String.concat " " [hex_of_bytes (line_name l); b (proxy_line l); b (underscore_name_line l); b (host_line l); b (ignorable l)]
  | "kv" :: key :: lines ->
    (match value_of_lines (key_lines (bytes_of_hex key) (List.map bytes_of_hex lines)) with
     | None -> "N" | Some v -> "S:" ^ hex_of_bytes v)
  | "kept" :: lines -> String.concat " " ("kept" :: List.map hex_of_bytes (kept_lines (List.map bytes_of_hex lines)))
  | ["maps"; n; k] -> b (maps_to (bytes_of_hex n) (bytes_of_hex k))
  | _ -> "ERR bad command")
