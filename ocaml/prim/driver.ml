open Model
open Wvio
let oi = function None -> "-1" | Some i -> string_of_int (int_of_nat i)
let lst l = String.concat " " (List.map hex_of_bytes l)
let () = main_loop (fun w -> match w with
  | ["find"; s; p] -> oi (find (bytes_of_hex s) (bytes_of_hex p))
  | ["rfind"; s; p] -> oi (rfind (bytes_of_hex s) (bytes_of_hex p))
  | ["split"; s; p] -> lst (split (bytes_of_hex s) (bytes_of_hex p))
  | ["split1"; s; p] -> lst (split1 (bytes_of_hex s) (bytes_of_hex p))
  | ["rsplit1"; s; p] -> lst (rsplit1 (bytes_of_hex s) (bytes_of_hex p))
  | ["partition"; s; p] -> let ((a, b), c) = partition (bytes_of_hex s) (bytes_of_hex p) in lst [a; b; c]
  | ["bstrip"; s] -> hex_of_bytes (strip_by is_bytes_ws (bytes_of_hex s))
  | ["blstrip"; s] -> hex_of_bytes (lstrip_by is_bytes_ws (bytes_of_hex s))
  | ["brstrip"; s] -> hex_of_bytes (rstrip_by is_bytes_ws (bytes_of_hex s))
  | ["sstrip"; s] -> string_of_cps (strip_by is_str_ws (cps_of_string s))
  | ["shstrip"; s] -> hex_of_bytes (strip_by is_sp_htab (bytes_of_hex s))
  | ["upper"; s] -> hex_of_bytes (upper_ascii (bytes_of_hex s))
  | ["lower"; s] -> hex_of_bytes (lower_ascii (bytes_of_hex s))
  | ["lower1"; s] -> hex_of_bytes (lower_latin1 (bytes_of_hex s))
  | ["splitws"; s] -> String.concat " " (List.map string_of_cps (split_ws is_str_ws (cps_of_string s)))
  | ["dec"; s] -> dec_of_n (dec_value (bytes_of_hex s))
  | ["hex"; s] -> dec_of_n (hex_value (bytes_of_hex s))
  | ["todec"; n] -> hex_of_bytes (to_dec (n_of_dec n))
  | ["tohex"; n] -> hex_of_bytes (to_hex_upper (n_of_dec n))
  | ["starts"; s; p] -> if startswith (bytes_of_hex s) (bytes_of_hex p) then "1" else "0"
  | ["ends"; s; p] -> if endswith (bytes_of_hex s) (bytes_of_hex p) then "1" else "0"
  | _ -> "ERR bad command")
