(* Line protocol driver of the extracted connection-bookkeeping model (C18).
   The process keeps one current (params, state); every command answers one line.
     init <listeners> <limit> <timeout> <interval> <send_bytes> <lookahead> <sndbuf> <high_watermark> <t0> <fd0>
     connect <l> | send <fd> p|k|c | app <fd> <n,n,..|-> | reads <fd> <n> | stalls <fd>
     disc <fd> | adv <d> | poll                      -> dump of the state after the event
     pred <name> <args..>                             -> value of a generated predicate *)
open Model
open Wvio

let z_of_int (i : int) : z =
  if i = 0 then Z0 else if i > 0 then Zpos (pos_of_int i) else Zneg (pos_of_int (- i))
let int_of_z (x : z) : int = match x with Z0 -> 0 | Zpos p -> int_of_pos p | Zneg p -> - (int_of_pos p)
let zs s = z_of_int (int_of_string s)
let sz x = string_of_int (int_of_z x)
let bs s = (s = "1")
let sb b = if b then "1" else "0"

let tok_of = function
  | "p" -> TPartial | "k" -> TComplete false | "c" -> TComplete true
  | t -> failwith ("bad token " ^ t)
let str_of_tok = function TPartial -> "p" | TComplete false -> "k" | TComplete true -> "c"
let str_of_rx l = if l = [] then "-" else String.concat "" (List.map str_of_tok l)

let str_of_sock k =
  Printf.sprintf "%s/%s/%s%s/%s" (sz k.s_fd) (str_of_rx k.s_rx) (sb k.s_gone) (sb k.s_reading) (sz k.s_room)

let str_of_key = function
  | KTrigger i -> "t" ^ string_of_int (int_of_nat i)
  | KListener i -> "l" ^ string_of_int (int_of_nat i)
  | KChan fd -> sz fd

let dump (s : state) : string =
  let b = Buffer.create 256 in
  Buffer.add_string b (Printf.sprintf "clk=%s nf=%s len=%s map=%s" (sz s.st_clock) (sz s.st_nextfd) (sz (map_len s))
    (String.concat "," (List.map str_of_key (map_fds s))));
  List.iteri (fun i l ->
    Buffer.add_string b (Printf.sprintf " L%d:%s%s:%s:[%s]" i (sb l.l_accepting) (sb l.l_overflow) (sz l.l_ncc)
      (String.concat "," (List.map str_of_sock l.l_backlog)))) s.st_listeners;
  List.iter (fun c ->
    Buffer.add_string b (Printf.sprintf " C%s|o%d|r%s|i%s|la%s|wc%s|cwf%s|pd%s" (str_of_sock c.c_sock)
      (int_of_nat c.c_owner)
      (if c.c_requests = [] then "-" else String.concat "" (List.map (fun x -> if x then "c" else "k") c.c_requests))
      (sb c.c_inreq) (sz c.c_last) (sb c.c_wc) (sb c.c_cwf) (sz c.c_pend))) s.st_chans;
  Buffer.contents b

let cur_p = ref { p_limit = Z0; p_timeout = Z0; p_interval = Z0; p_send_bytes = Z0; p_lookahead = Z0; p_sndbuf = Z0; p_high_watermark = Z0 }
let cur_s = ref (init O Z0 Z0)

let ev e = cur_s := step !cur_p !cur_s e; dump !cur_s

let nlist s = if s = "-" then [] else List.map (fun t -> n_of_int (int_of_string t)) (String.split_on_char ',' s)

let flush_name = function FlushSome -> "some" | FlushIfLockable -> "lockable" | FlushNone -> "none"

let () = main_loop (fun w -> match w with
  | ["init"; nl; lim; tmo; itv; sbytes; la; sndbuf; hw; t0; fd0] ->
    cur_p := { p_limit = zs lim; p_timeout = zs tmo; p_interval = zs itv; p_send_bytes = zs sbytes;
               p_lookahead = zs la; p_sndbuf = zs sndbuf; p_high_watermark = zs hw };
    cur_s := init (nat_of_int (int_of_string nl)) (zs t0) (zs fd0);
    dump !cur_s
  | ["connect"; l] -> ev (EConnect (nat_of_int (int_of_string l)))
  | ["send"; fd; t] -> ev (ESend (zs fd, tok_of t))
  | ["app"; fd; ws] -> ev (EAppFinish (zs fd, nlist ws))
  | ["reads"; fd; n] -> ev (EReads (zs fd, n_of_int (int_of_string n)))
  | ["stalls"; fd] -> ev (EStalls (zs fd))
  | ["disc"; fd] -> ev (EDisconnect (zs fd))
  | ["adv"; d] -> ev (EAdvance (n_of_int (int_of_string d)))
  | ["poll"] -> ev EPoll
  | ["pred"; "chan_readable"; wc; cwf; n; la; tot] -> sb (gen_chan_readable (bs wc) (bs cwf) (zs n) (zs la) (zs tot))
  | ["pred"; "chan_writable"; tot; wc; cwf] -> sb (gen_chan_writable (zs tot) (bs wc) (bs cwf))
  | ["pred"; "hw_flush"; n; tot; sbytes; hw] -> flush_name (gen_hw_flush (zs n) (zs tot) (zs sbytes) (zs hw))
  | ["pred"; "hw_after"; cwf; wc; tot] ->
    let ((a, b), c) = gen_hw_after (bs cwf) (bs wc) (zs tot) in sb a ^ sb b ^ sb c
  | ["pred"; "maint"; n; la; now; tmo] -> sb (gen_maint_test (zs n) (zs la) (gen_maint_cutoff (zs now) (zs tmo)))
  | ["pred"; "srv_readable"; now; ncc; itv; acc; ovf; ml; lim] ->
    let (((a, b), c), d) = gen_srv_readable (zs now) (zs ncc) (zs itv) (bs acc) (bs ovf) (zs ml) (zs lim) in
    sz a ^ " " ^ sb b ^ sb c ^ sb d
  | ["pred"; "poll"; r; wr; acc] ->
    sb (gen_poll_r (bs r) (bs wr) (bs acc)) ^ sb (gen_poll_w (bs r) (bs wr) (bs acc)) ^ sb (gen_poll_e (bs r) (bs wr) (bs acc))
  | ["pred"; "polldispatch"; a; b; c] ->
    let ((x, y), z) = gen_poll_dispatch (bs a) (bs b) (bs c) in sb x ^ sb y ^ sb z
  | ["pred"; "poll2reg"; r; wr; acc] ->
    let (f, reg) = gen_poll2_reg (bs r) (bs wr) (bs acc) in
    sb f.pf_in ^ sb f.pf_pri ^ sb f.pf_out ^ sb f.pf_err ^ sb f.pf_hup ^ sb f.pf_nval ^ " " ^ sb reg
  | ["pred"; "readwrite"; i; p; o; e; h; n] ->
    let (((a, b), c), d) = gen_readwrite (bs i) (bs p) (bs o) (bs e) (bs h) (bs n) in sb a ^ sb b ^ sb c ^ sb d
  | _ -> "ERR bad command")
