(* Line protocol for the extracted C11 model (Model/ChanClose.v).

   run L TOK ...        execute the tokens from [init L]; answer: one field per token separated
                        by '|': "X" if the choice is not enabled, else "<labels>;<state>"
   monitor full|partial LABEL ...
                        the extracted monitor on a label trace: "1" (ok) / "0" (violated)
   explore L NW MAXREQ MAXSTATES
                        breadth-first exploration (workers 0..NW-1, at most MAXREQ requests
                        ever queued); every reached state is checked against the candidate
                        invariants (boolean transcriptions of Proof/ChanCloseInv.v) and both
                        monitors are carried along; answer
                        "states=.. transitions=.. truncated=0|1 inv=ok|<name>@<tokens> full=ok|<tokens> partial=ok|<tokens>"

   tokens   io  io:maint  io:to0 io:to1  io:len<n>  io:sel<rd><wr>  io:data:<items>  io:eof  io:rerr
            io:fok io:ferr io:fdisc        items: r (request) e (error request) c (100-continue head)
                                                  d (100-continue head whose flush hits a disconnect),
                                                  f (100-continue head whose flush fails: will_close), - empty
            w<k>  w<k>:rc  w<k>:fe  w<k>:lock0  w<k>:lock1
            sd
   labels   dec:<kind> start:<sid> req:<sid>:<r> app:<sid>:<r> end:<sid> crash:<sid> queued:<r> refused
            add:<io|w<k>|sd> cancelled *)
open Model
open Wvio

let ni = int_of_nat
let nn = nat_of_int
let b01 b = if b then "1" else "0"

let kind_s = function
  | DWorkerClose -> "worker_close" | DFlushed -> "flushed" | DMaint -> "maint"
  | DFlushErrIO -> "flush_err_io" | DFlushErrW -> "flush_err_w" | DHandleClose -> "handle_close"
  | DEof -> "eof" | DCancelWC -> "cancel_wc" | DCancelConn -> "cancel_conn"
let kind_of = function
  | "worker_close" -> DWorkerClose | "flushed" -> DFlushed | "maint" -> DMaint
  | "flush_err_io" -> DFlushErrIO | "flush_err_w" -> DFlushErrW | "handle_close" -> DHandleClose
  | "eof" -> DEof | "cancel_wc" -> DCancelWC | "cancel_conn" -> DCancelConn
  | s -> failwith ("bad kind " ^ s)
let who_s = function ByIO -> "io" | ByW w -> "w" ^ string_of_int (ni w) | BySD -> "sd"

let label_s = function
  | LDecide k -> "dec:" ^ kind_s k
  | LServiceStart k -> Printf.sprintf "start:%d" (ni k)
  | LServiceReq (k, r) -> Printf.sprintf "req:%d:%d" (ni k) (ni r)
  | LAppCall (k, r) -> Printf.sprintf "app:%d:%d" (ni k) (ni r)
  | LServiceEnd k -> Printf.sprintf "end:%d" (ni k)
  | LCrash k -> Printf.sprintf "crash:%d" (ni k)
  | LQueued r -> Printf.sprintf "queued:%d" (ni r)
  | LRefused -> "refused"
  | LAddTask t -> "add:" ^ who_s t
  | LCancelled -> "cancelled"
let labels_s ls = if ls = [] then "-" else String.concat "," (List.map label_s ls)

let label_of (t : string) : label =
  match String.split_on_char ':' t with
  | ["dec"; k] -> LDecide (kind_of k)
  | ["start"; k] -> LServiceStart (nn (int_of_string k))
  | ["req"; k; r] -> LServiceReq (nn (int_of_string k), nn (int_of_string r))
  | ["app"; k; r] -> LAppCall (nn (int_of_string k), nn (int_of_string r))
  | ["end"; k] -> LServiceEnd (nn (int_of_string k))
  | ["crash"; k] -> LCrash (nn (int_of_string k))
  | ["queued"; r] -> LQueued (nn (int_of_string r))
  | ["refused"] -> LRefused
  | ["add"; _] -> LAddTask ByIO
  | ["cancelled"] -> LCancelled
  | _ -> failwith ("bad label " ^ t)

let iopc_s = function
  | IoTop -> "Top" | IoR2 -> "R2" | IoR3 -> "R3" | IoR4 -> "R4" | IoW1 -> "W1" | IoW2 -> "W2" | IoW3 -> "W3"
  | IoSel -> "Sel" | IoM1 -> "M1" | IoM2 -> "M2" | IoHR -> "HR" | IoHRc1 -> "HRc1" | IoHRc2 -> "HRc2" | IoEof -> "Eof"
  | IoRC0 -> "RC0" | IoRC1 -> "RC1" | IoRC2 -> "RC2" | IoRCloop -> "RCloop" | IoRClen -> "RClen"
  | IoRCapp -> "RCapp" | IoRCappX -> "RCappX"
  | IoRCadd -> "RCadd" | IoRCrel -> "RCrel" | IoHW0 -> "HW0" | IoHW1 -> "HW1"
  | IoHW1b -> "HW1b" | IoHW2 -> "HW2" | IoHW3 -> "HW3" | IoHW4 -> "HW4" | IoHW5 -> "HW5" | IoDead -> "Dead"

let wpc_s = function
  | WIdle -> "Idle" | WPopped -> "Popped"
  | WSvc0 (k, l) -> Printf.sprintf "Svc0.%d.%s" (ni k) (b01 l)
  | WSvc1 (k, l, r) -> Printf.sprintf "Svc1.%d.%s.%d%s" (ni k) (b01 l) (ni r.rid) (if r.rerr then "e" else "")
  | WSvc1b (k, l, r) -> Printf.sprintf "Svc1b.%d.%s.%d%s" (ni k) (b01 l) (ni r.rid) (if r.rerr then "e" else "")
  | WTask (k, mc) -> Printf.sprintf "Task.%d.%s" (ni k) (b01 mc)
  | WClose1 k -> Printf.sprintf "Close1.%d" (ni k) | WClose2 k -> Printf.sprintf "Close2.%d" (ni k)
  | WClose3 k -> Printf.sprintf "Close3.%d" (ni k)
  | WKeep1 k -> Printf.sprintf "Keep1.%d" (ni k) | WKeep2 k -> Printf.sprintf "Keep2.%d" (ni k)
  | WKeep3 k -> Printf.sprintf "Keep3.%d" (ni k) | WKeepAdd k -> Printf.sprintf "KeepAdd.%d" (ni k)
  | WKeepE k -> Printf.sprintf "KeepE.%d" (ni k) | WKeep5 k -> Printf.sprintf "Keep5.%d" (ni k)
let sd_s = function SdIdle -> "Idle" | SdC1 -> "C1" | SdC2 -> "C2" | SdC3 -> "C3"
let item_s = function IReq false -> "r" | IReq true -> "e" | ICont FOk -> "c" | ICont FDisc -> "d" | ICont FErr -> "f"
let items_s l = if l = [] then "-" else String.concat "" (List.map item_s l)

let nworkers = ref 4

let state_s (s : state) =
  let reqs = if s.reqs = [] then "-" else
      String.concat "." (List.map (fun r -> string_of_int (ni r.rid) ^ (if r.rerr then "e" else "")) s.reqs) in
  let wks = String.concat "," (List.init !nworkers (fun i -> wpc_s (s.wk (nn i)))) in
  Printf.sprintf "wc=%s;cwf=%s;conn=%s;reqs=%s;rlock=%s;queue=%d;inmap=%s;io=%s;rv=%s;wv=%s;rd=%s;wr=%s;items=%s;mret=%s;wk=%s;sd=%s;nreq=%d;nsvc=%d;gdec=%s"
    (b01 s.wc) (b01 s.cwf) (b01 s.conn) reqs
    (match s.rlock with None -> "-" | Some t -> who_s t) (ni s.queue) (b01 s.inmap) (iopc_s s.io)
    (b01 s.rv) (b01 s.wv) (b01 s.rd) (b01 s.wr) (items_s s.items) (iopc_s s.mret) wks (sd_s s.sd)
    (ni s.nreq) (ni s.nsvc) (b01 s.gdec)

let items_of (t : string) : item list =
  if t = "-" then [] else
    List.init (String.length t) (fun i -> match t.[i] with
      | 'r' -> IReq false | 'e' -> IReq true | 'c' -> ICont FOk | 'd' -> ICont FDisc | 'f' -> ICont FErr
      | _ -> failwith "bad item")

let bit c = (c = '1')

let choice_of (tok : string) : choice =
  match String.split_on_char ':' tok with
  | ["io"] -> CIo ENone
  | ["io"; "maint"] -> CIo EMaint
  | ["io"; "to0"] -> CIo (ETimeout false)
  | ["io"; "to1"] -> CIo (ETimeout true)
  | ["io"; "eof"] -> CIo (ERecv REof)
  | ["io"; "rerr"] -> CIo (ERecv RErr)
  | ["io"; "fok"] -> CIo (EFlush FOk)
  | ["io"; "ferr"] -> CIo (EFlush FErr)
  | ["io"; "fdisc"] -> CIo (EFlush FDisc)
  | ["io"; "data"; it] -> CIo (ERecv (RData (items_of it)))
  | ["io"; x] when String.length x > 3 && String.sub x 0 3 = "len" ->
      CIo (ELen (nn (int_of_string (String.sub x 3 (String.length x - 3)))))
  | ["io"; x] when String.length x = 5 && String.sub x 0 3 = "sel" -> CIo (ESelect (bit x.[3], bit x.[4]))
  | ["sd"] -> CSd
  | [w] when w.[0] = 'w' -> CWk (nn (int_of_string (String.sub w 1 (String.length w - 1))), WNone)
  | [w; e] when w.[0] = 'w' ->
      let k = nn (int_of_string (String.sub w 1 (String.length w - 1))) in
      (match e with
       | "rc" -> CWk (k, WRdConn)
       | "fe" -> CWk (k, WFlushErr)
       | "lock0" -> CWk (k, WLock false)
       | "lock1" -> CWk (k, WLock true)
       | _ -> failwith ("bad token " ^ tok))
  | _ -> failwith ("bad token " ^ tok)

let run l toks =
  let s = ref (init (nn (int_of_string l))) in
  let out = List.map (fun tok ->
    match step !s (choice_of tok) with
    | None -> "X"
    | Some (s', ls) -> s := s'; labels_s ls ^ ";" ^ state_s s') toks in
  String.concat "|" out

let good_of = function "full" -> all_kinds | "partial" -> covered | s -> failwith ("bad monitor " ^ s)
let do_monitor which labs = b01 (monitor (good_of which) (List.map label_of labs))

(* ---- candidate invariants (boolean transcription of Proof/ChanCloseInv.v) ----------- *)
let io_holds = function IoRC1 | IoRC2 | IoRCloop | IoRCapp | IoRCappX | IoRClen | IoRCadd | IoRCrel -> true | _ -> false
let wk_holds = function
  | WClose1 _ | WClose2 _ | WClose3 _ | WKeep1 _ | WKeep2 _ | WKeep3 _ | WKeepAdd _ | WKeepE _ | WKeep5 _ -> true
  | _ -> false
(* the worker owns the "token": it is inside service() before the point where it hands over *)
let active = function
  | WPopped | WSvc0 _ | WSvc1 _ | WSvc1b _ | WTask _ | WClose1 _ | WClose2 _ | WKeep1 _ | WKeep2 _ | WKeep3 _ | WKeepAdd _ -> true
  | _ -> false
(* ... and requests still contains the request it serves *)
let prepop = function
  | WPopped | WSvc0 _ | WSvc1 _ | WSvc1b _ | WTask _ | WClose1 _ | WClose2 _ | WKeep1 _ | WKeepAdd _ -> true
  | _ -> false
let early = function WPopped | WSvc0 _ | WSvc1 _ -> true | _ -> false

let invariants (s : state) : (string * bool) list =
  let ws = List.init !nworkers (fun i -> (i, s.wk (nn i))) in
  let exists p = List.exists (fun (_, pc) -> p pc) ws in
  let count p = List.length (List.filter (fun (_, pc) -> p pc) ws) in
  let io_token = (s.io = IoRCadd) || (s.io = IoRClen && List.length s.reqs = 1) in
  let sd_mid = s.sd <> SdIdle in
  let tokens = ni s.queue + count active + (if io_token then 1 else 0) + (if sd_mid then 1 else 0) in
  let flags_ok = s.cwf || (s.wc && s.io <> IoRC2) || s.io = IoHW3 in
  let closed = flags_ok && not (s.io = IoRCloop || s.io = IoRCapp || s.io = IoRCappX || s.io = IoRClen || s.io = IoRCadd) && ni s.queue = 0
               && not (exists (fun pc -> match pc with WKeepAdd _ | WPopped -> true | _ -> false))
               && (s.reqs = [] || exists (fun pc -> match pc with WClose2 _ -> true | _ -> false)) in
  [ "lock_io", (s.rlock = Some ByIO) = io_holds s.io;
    "lock_wk", List.for_all (fun (i, pc) -> (s.rlock = Some (ByW (nn i))) = wk_holds pc) ws;
    "lock_sd", s.rlock <> Some BySD;
    "tokens", tokens <= 1;
    "reqs_nonempty", (not (ni s.queue > 0 || s.io = IoRCadd || exists prepop || sd_mid)) || s.reqs <> [];
    "m2_empty", (s.io <> IoM2) || s.reqs = [];
    "cwf_gdec", (not (s.cwf || s.io = IoHW1b || s.io = IoHW2 || s.io = IoHW3)) || s.gdec;
    "safe", (not s.gdec) || (not s.conn) || closed || s.wc;
    "late", List.for_all (fun (_, pc) -> match pc with
        | WSvc0 (_, true) | WSvc1 (_, true, _) -> (not s.conn) || s.wc
        | WSvc1b (_, true, _) -> s.wc | _ -> true) ws;
    "entry_iff", (not (s.conn && s.reqs <> [] && s.sd = SdIdle && ni s.queue = 0 && not (exists active) && not io_token))
                 || false;
  ]

(* ---- explorer --------------------------------------------------------------------- *)
let mon_s (m : mon) = Printf.sprintf "%s/%s/%s" (b01 m.m_dec) (String.concat "." (List.map (fun k -> string_of_int (ni k)) m.m_late)) (b01 m.m_ok)
(* m_started is determined by nsvc of the state: not part of the key *)

let all_items maxnew =
  (* item lists of length <= 2 with at most maxnew requests *)
  let alpha = ["r"; "e"; "c"; "d"; "f"] in
  let isreq x = (x = "r" || x = "e") in
  let l1 = List.filter (fun x -> (not (isreq x)) || maxnew >= 1) alpha in
  let l2 = List.concat_map (fun a -> List.filter_map (fun b ->
      let n = (if isreq a then 1 else 0) + (if isreq b then 1 else 0) in
      if n <= maxnew then Some (a ^ b) else None) alpha) alpha in
  "-" :: l1 @ l2

let choices nw maxreq (s : state) : string list =
  let io = match s.io with
    | IoTop -> ["io"; "io:maint"]
    | IoSel -> ["io:maint"; "io:sel00"; "io:sel01"; "io:sel10"; "io:sel11"]
    | IoM2 -> ["io:to0"; "io:to1"]
    | IoR4 | IoW1 | IoHW1b -> ["io:len0"; "io:len1"]
    | IoHR -> "io:eof" :: "io:rerr" :: List.map (fun i -> "io:data:" ^ i) (all_items (maxreq - ni s.nreq))
    | IoHW0 -> ["io:fok"; "io:ferr"; "io:fdisc"]
    | IoDead -> []
    | _ -> ["io"] in
  let wk = List.concat (List.init nw (fun i ->
      let w = "w" ^ string_of_int i in
      match s.wk (nn i) with
      | WTask _ -> [w ^ ":rc"; w ^ ":fe"; w ^ ":lock0"; w ^ ":lock1"]
      | WKeepE _ -> [w; w ^ ":fe"]
      | _ -> [w])) in
  io @ wk @ ["sd"]

let explore l nw maxreq maxstates =
  nworkers := nw;
  let seen : (string, unit) Hashtbl.t = Hashtbl.create 200000 in
  let q = Queue.create () in
  let key (s, mf, mp) = state_s s ^ "#" ^ mon_s mf ^ "#" ^ mon_s mp in
  let s0 = init (nn l) in
  Hashtbl.add seen (key (s0, mon0, mon0)) (); Queue.add ((s0, mon0, mon0), []) q;
  let trans = ref 0 and trunc = ref false in
  let inv_w = ref "" and full_w = ref "" and part_w = ref "" in
  let path_s p = String.concat "," (List.rev p) in
  while not (Queue.is_empty q) do
    let ((s, mf, mp), path) = Queue.pop q in
    if !inv_w = "" then
      List.iter (fun (name, ok) -> if (not ok) && !inv_w = "" then inv_w := name ^ "@" ^ path_s path) (invariants s);
    if (not mf.m_ok) && !full_w = "" then full_w := path_s path;
    if (not mp.m_ok) && !part_w = "" then part_w := path_s path;
    List.iter (fun tok ->
      match step s (choice_of tok) with
      | None -> ()
      | Some (s', ls) ->
        incr trans;
        let mf' = List.fold_left (mon_step all_kinds) mf ls in
        let mp' = List.fold_left (mon_step covered) mp ls in
        let st = (s', mf', mp') in
        let k = key st in
        if not (Hashtbl.mem seen k) then
          if Hashtbl.length seen >= maxstates then trunc := true
          else begin Hashtbl.add seen k (); Queue.add (st, tok :: path) q end)
      (choices nw maxreq s)
  done;
  let okw w = if w = "" then "ok" else w in
  Printf.sprintf "states=%d transitions=%d truncated=%d inv=%s full=%s partial=%s" (Hashtbl.length seen) !trans
    (if !trunc then 1 else 0) (okw !inv_w) (okw !full_w) (okw !part_w)

let () = main_loop (fun w -> match w with
  | "run" :: l :: toks -> run l toks
  | "monitor" :: which :: labs -> do_monitor which labs
  | ["explore"; l; nw; mr; ms] -> explore (int_of_string l) (int_of_string nw) (int_of_string mr) (int_of_string ms)
  | _ -> "ERR bad command")
