open Model
open Wvio

(* token stream *)
let toks : string list ref = ref []
let next () = match !toks with
  | [] -> failwith "out of tokens"
  | t :: r -> toks := r; t
let p_int () = int_of_string (next ())
let p_bool () = next () = "1"
let p_str () = cps_of_string (next ())
let p_bytes () = bytes_of_hex (next ())
let p_exn_of = function
  | "AE" -> AssertionError | "VE" -> ValueError | "RE" -> RuntimeError | "UE" -> UnicodeEncodeError
  | "CD" -> ClientDisconnected | "XE" -> AppException | "XO" -> AppOSError | "XB" -> AppBaseException
  | s -> failwith ("bad exn " ^ s)
let s_exn = function
  | AssertionError -> "AE" | ValueError -> "VE" | RuntimeError -> "RE" | UnicodeEncodeError -> "UE"
  | ClientDisconnected -> "CD" | AppException -> "XE" | AppOSError -> "XO" | AppBaseException -> "XB"
let p_exn () = p_exn_of (next ())
let p_oexn () = match next () with "none" -> None | s -> Some (p_exn_of s)
let p_obj () = match next () with "N" -> PNonStr | s -> PStr (cps_of_string s)
let rec p_list n f = if n <= 0 then [] else let x = f () in x :: p_list (n - 1) f
let p_action () = match next () with
  | "S" ->
    let st = p_obj () in
    let n = p_int () in
    let hs = p_list n (fun () -> let k = p_obj () in let v = p_obj () in (k, v)) in
    let e = p_oexn () in
    AStart (st, hs, e)
  | "T" ->
    (* try: start_response(...) except BaseException: pass *)
    let st = p_obj () in
    let n = p_int () in
    let hs = p_list n (fun () -> let k = p_obj () in let v = p_obj () in (k, v)) in
    let e = p_oexn () in
    ATryStart (st, hs, e)
  | "W" -> AWrite (p_bytes ())
  | "R" -> ARaise (p_exn ())
  | "M" -> let i = p_int () in let isv = p_bool () in let v = p_str () in AMutate (nat_of_int i, isv, v)
  | s -> failwith ("bad action " ^ s)
let p_actions () = let n = p_int () in p_list n p_action
let p_step () =
  let acts = p_actions () in
  let res = match next () with
    | "Y" -> SYield (p_bytes ())
    | "R" -> SRaise (p_exn ())
    | s -> failwith ("bad step " ^ s) in
  { s_acts = acts; s_res = res }
let p_kind () = match next () with
  | "sized" -> KSized (n_of_int (p_int ()))
  | "gen" -> KGen
  | "file" -> KFile (p_bool ())
  | s -> failwith ("bad kind " ^ s)
let p_app () =
  let call = p_actions () in
  let kind = p_kind () in
  let n = p_int () in
  let steps = p_list n p_step in
  let hc = p_bool () in
  let ce = p_oexn () in
  { a_call = call; a_kind = kind; a_steps = steps; a_has_close = hc; a_close_exn = ce }

let rec int_of_z = function
  | Z0 -> 0
  | Zpos p -> int_of_n (Npos p)
  | Zneg p -> - (int_of_n (Npos p))

let s_item = function
  | WBytes b -> hex_of_bytes b
  | WFile (r, c) -> "F" ^ string_of_int (int_of_z r) ^ ":" ^ hex_of_bytes c
let b01 b = if b then "1" else "0"
let s_oexn = function None -> "none" | Some e -> s_exn e

let s_framing = function
  | FNoBody -> "N" | FChunked -> "C" | FEof -> "E" | FLength n -> "L" ^ dec_of_n n
let s_resp r =
  Printf.sprintf "sl=%s fr=%s body=%s fields=%s" (hex_of_bytes r.rs_status_line) (s_framing r.rs_framing)
    (hex_of_bytes r.rs_body)
    (if r.rs_fields = [] then "none"
     else String.concat "," (List.map (fun (k, v) -> hex_of_bytes k ^ ":" ^ hex_of_bytes v) r.rs_fields))

let () = main_loop (fun w -> match w with
  | "run" :: rest ->
    toks := rest;
    let ident = p_str () in
    let expose = p_bool () in
    let logsock = p_bool () in
    let date = p_str () in
    let tb = p_str () in
    let version = p_str () in
    let conn = (match next () with "none" -> None | s -> Some (cps_of_string s)) in
    let head = p_bool () in
    let cclose = p_bool () in
    let err = (match next () with
      | "none" -> None
      | code -> let reason = p_str () in let body = p_str () in Some ((cps_of_string code, reason), body)) in
    let disc = (match next () with "none" -> None | k -> Some (nat_of_int (int_of_string k))) in
    let wc = p_bool () in
    let a = p_app () in
    if !toks <> [] then failwith "trailing tokens";
    let c = { c_ident = ident; c_expose_tracebacks = expose; c_log_socket_errors = logsock; c_date = date; c_tb = tb } in
    let r = { r_version = version; r_connection = conn; r_head = head; r_connection_close = cclose; r_error = err } in
    let o = run_task_wc c r a disc wc in
    Printf.sprintf "w=%s close=%s next=%s closes=%d hand=%s esc=%s wh=%s s500=%s nws1=%d"
      (if o.o_writes = [] then "none" else String.concat "," (List.map s_item o.o_writes))
      (b01 o.o_close) (b01 o.o_next) (int_of_nat o.o_closes) (b01 o.o_handover) (s_oexn o.o_escaped)
      (b01 o.o_wrote_header) (b01 o.o_served_500) (int_of_nat o.o_nws1)
  | ["parse"; heads; h] ->
    let hs = List.init (String.length heads) (fun i -> heads.[i] = '1') in
    let (rs, left) = parse_stream hs (bytes_of_hex h) in
    Printf.sprintf "n=%d left=%s%s" (List.length rs) (hex_of_bytes left)
      (String.concat "" (List.map (fun r -> " | " ^ s_resp r) rs))
  | ["date"; n] -> hex_of_bytes (build_http_date (n_of_dec n))
  | ["datetables"] -> String.concat "," (List.map hex_of_bytes weekdayname) ^ " " ^ String.concat "," (List.map hex_of_bytes monthname)
  | ["cap"; s] -> string_of_cps (py_cap (cps_of_string s))
  | ["lower"; s] -> string_of_cps (py_lower (cps_of_string s))
  | ["int"; s] -> (match py_int (cps_of_string s) with None -> "none" | Some z -> string_of_int (int_of_z z))
  | _ -> "ERR bad command")
