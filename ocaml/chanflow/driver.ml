(* Line protocol for the extracted C12 model (Model/ChanFlow.v).

   params:  HW SB LOOK RESIDUE FIX PROGS     FIX = three 0/1 digits (fx_notify_le fx_drain fx_recheck; 111 = the code as it is)
            PROGS = prog/prog/...  prog = n.n.n:c  ("-" = no sizes; c = 0|1), "_" = no programs

   run HW SB LOOK RESIDUE FIX PROGS TOK,TOK,...
        execute the choices from [init]; answer: one field per token separated by '|':
        "X" (not enabled) or "<kind>;<state>"
   follow GRAN HW SB LOOK RESIDUE FIX PROGS EV,EV,...
        GRAN = locks | attrs.  Follow a trace of real labelled operations
        EV = thr:kind:arg:res   thr = i (I/O) | w (producer) | t (tail) | e (environment)
        kind = name of a model kind (below); arg = k<n>|b|g|e for a send, s|r|g|a for env, "-" otherwise;
        res = bytes the outbufs still report after this event (used if the step closes them)
        At granularity "locks" attribute reads/writes are silent and are run eagerly after
        the labelled operation of the same thread; at "attrs" they must match one by one,
        except that a read the model fuses into a locked step is ignored.
        answer: one field per event: "ok;<state>" | "ign;<state>" | "MISMATCH;<model kind>;<state>" (then "-" for the rest)
   explore HW SB LOOK RESIDUE FIX PROGS MAXSTATES MAXARR
        breadth-first search of the model (send outcomes: 1, all, block, gone, err; residue 0 / all; at most
        MAXARR arrivals); answer "states=N truncated=0|1 bound_bad=.. release_bad=.. parked_disc=.. [wb=TOKS] [wr=TOKS] [wd=TOKS]"

   choice tokens: i ik<n> ig ie ir<n>   w wk<n> wg we   t0..t5 (tail phases)   es er eg ea *)
open Model
open Wvio

let ni = int_of_nat
let rec int_of_z = function Z0 -> 0 | Zpos p -> int_of_pos p | Zneg p -> - (int_of_pos p)
let z_of_int i = if i = 0 then Z0 else if i > 0 then Zpos (pos_of_int i) else Zneg (pos_of_int (- i))
let b01 b = if b then "1" else "0"
let zi z = string_of_int (int_of_z z)

let fctx_s = function FW -> "FW" | FS -> "FS" | FA -> "FA"
let hck_s = function KRead -> "R" | KFlush -> "F" | KEnd -> "E"

let io_s = function
  | IoRd1 -> "Rd1" | IoRd2 -> "Rd2" | IoRd3 -> "Rd3" | IoRd4 -> "Rd4"
  | IoWr1 r -> "Wr1." ^ b01 r | IoWr2 r -> "Wr2." ^ b01 r | IoWr3 r -> "Wr3." ^ b01 r
  | IoSel (r, w) -> "Sel." ^ b01 r ^ b01 w
  | IoRecv w -> "Recv." ^ b01 w
  | IoRcvAcq w -> "RcvAcq." ^ b01 w | IoRcvWc w -> "RcvWc." ^ b01 w | IoRcvCwf w -> "RcvCwf." ^ b01 w
  | IoRcvApp w -> "RcvApp." ^ b01 w | IoRcvRel w -> "RcvRel." ^ b01 w
  | IoHw1 -> "Hw1" | IoHw2 -> "Hw2" | IoHw2b -> "Hw2b" | IoTry -> "Try"
  | IoFlush -> "Flush" | IoSubL k -> "SubL." ^ zi k
  | IoRelX -> "RelX" | IoHwExn -> "HwExn" | IoNotify -> "Notify" | IoRelL -> "RelL"
  | IoHw3 -> "Hw3" | IoHw4 -> "Hw4" | IoHw5 -> "Hw5" | IoHw6 -> "Hw6" | IoHw7 -> "Hw7"
  | IoHcAcq k -> "HcAcq." ^ hck_s k | IoHcTot k -> "HcTot." ^ hck_s k | IoHcConn k -> "HcConn." ^ hck_s k
  | IoHcNotify k -> "HcNotify." ^ hck_s k | IoHcRel k -> "HcRel." ^ hck_s k | IoHcClose k -> "HcClose." ^ hck_s k
  | IoEof -> "Eof"

let wk_s = function
  | WIdle -> "Idle" | WSvcConn -> "SvcConn" | WSvcWc -> "SvcWc" | WWrConn -> "WrConn" | WWrAcq -> "WrAcq"
  | WFlush (c, s) -> "Flush." ^ fctx_s c ^ "." ^ b01 s | WSub (c, k) -> "Sub." ^ fctx_s c ^ "." ^ zi k
  | WFlushExn c -> "FlushExn." ^ fctx_s c
  | WFbPullE c -> "FbPullE." ^ fctx_s c | WFbWaitE c -> "FbWaitE." ^ fctx_s c
  | WFbParkedE (c, n) -> "FbParkedE." ^ fctx_s c ^ "." ^ b01 n
  | WFbPull c -> "FbPull." ^ fctx_s c | WFbWait c -> "FbWait." ^ fctx_s c
  | WFbParked (c, n) -> "FbParked." ^ fctx_s c ^ "." ^ b01 n
  | WAdd n -> "Add." ^ zi n | WPull -> "Pull" | WRel -> "Rel" | WRelRaise -> "RelRaise"
  | WKeepLen -> "KeepLen" | WFbTest -> "FbTest" | WFbAcq -> "FbAcq" | WFbRel -> "FbRel"
  | WCloseAcq -> "CloseAcq" | WCloseCwf -> "CloseCwf" | WCloseReq -> "CloseReq" | WCloseRel -> "CloseRel"

let kind_s = function
  | KAcq -> "acq" | KTry -> "try" | KRel -> "rel" | KWait -> "wait" | KWake -> "wake" | KNotify -> "notify"
  | KRAcq -> "racq" | KRRel -> "rrel" | KSend -> "send" | KRecv -> "recv" | KPull -> "pull" | KSelect -> "select"
  | KRtotal -> "Rtotal" | KWtotal -> "Wtotal" | KRconn -> "Rconn" | KWconn -> "Wconn" | KRwc -> "Rwc" | KWwc -> "Wwc"
  | KRcwf -> "Rcwf" | KWcwf -> "Wcwf" | KRreq -> "Rreq" | KWreq -> "Wreq" | KStart -> "start" | KEnvK -> "env"

let silent_kind = function
  | KRtotal | KWtotal | KRconn | KWconn | KRwc | KWwc | KRcwf | KWcwf | KRreq | KWreq -> true
  | _ -> false
let read_kind = function "Rtotal" | "Rconn" | "Rwc" | "Rcwf" | "Rreq" -> true | _ -> false

let tid_s = function None -> "-" | Some TIo -> "i" | Some TW -> "w" | Some TT -> "t" | Some TE -> "e"

let state_s (p : params) (s : state) =
  Printf.sprintf
    "t=%d;p=%d;c=%s;wc=%s;cwf=%s;n=%d;ol=%s;oc=%d;rl=%s;pl=%s;im=%s;sc=%s;cb=%s;rd=%s;gn=%s;pin=%d;io=%s;wk=%s;q=%s;tl=%s;trel=%s;ta=%d;tb=%d;app=%d;wire=%d;lw=%d;park=%s;blk=%s;spin=%s;qui=%s;bok=%s;rok=%s"
    (int_of_z s.total) (int_of_z s.pending) (b01 s.connected) (b01 s.will_close) (b01 s.cwf) (ni s.nreq)
    (tid_s s.olock) (ni s.ocount) (tid_s s.rlock) (b01 s.pulled) (b01 s.in_map) (b01 s.sock_closed)
    (b01 s.closed_bufs) (b01 s.reading) (b01 s.gone) (ni s.pending_in) (io_s s.io) (wk_s s.wk) (b01 s.queued)
    (match s.tlc with TNone -> "-" | TAcq -> "acq" | TPop -> "pop" | TConn -> "conn") (b01 s.trel) (ni s.tailsA) (ni s.tailsB) (int_of_z s.appended) (int_of_z s.wire) (int_of_z s.last_write)
    (b01 (w_parked s)) (b01 (io_blocked s)) (b01 (io_spinning p s)) (b01 (quiescent s))
    (b01 (bound_ok p s)) (b01 (release_ok p s))

let parse_progs (t : string) : (z list * bool) list =
  if t = "_" then [] else
  List.map (fun pr ->
    match String.split_on_char ':' pr with
    | [sizes; c] ->
      ((if sizes = "-" then [] else List.map (fun x -> z_of_int (int_of_string x)) (String.split_on_char '.' sizes)), c = "1")
    | _ -> failwith "bad prog") (String.split_on_char '/' t)

let parse_params hw sb look res fix progs : params =
  { hw = z_of_int (int_of_string hw); sb = z_of_int (int_of_string sb); look = nat_of_int (int_of_string look);
    progs = parse_progs progs; residue_ok = (res = "1");
    fx_notify_le = (fix.[0] = '1'); fx_drain = (fix.[1] = '1'); fx_recheck = (fix.[2] = '1') }

let sendres_of (a : string) : sendres =
  if a = "" || a = "b" || a = "-" then SRBlock
  else if a = "g" then SRGone
  else if a = "e" then SRErr
  else if a.[0] = 'k' then SR (z_of_int (int_of_string (String.sub a 1 (String.length a - 1))))
  else failwith ("bad send outcome " ^ a)

let choice_of (tok : string) : choice =
  let rest = String.sub tok 1 (String.length tok - 1) in
  match tok.[0] with
  | 'i' ->
    if rest <> "" && rest.[0] = 'r' then CIo (SRBlock, z_of_int (int_of_string (String.sub rest 1 (String.length rest - 1))))
    else CIo (sendres_of rest, Z0)
  | 'w' -> CW (sendres_of rest)
  | 't' -> CTail (nat_of_int (int_of_string rest))
  | 'e' -> CEnv (match rest with "s" -> EStall | "r" -> EResume | "g" -> EGone | "a" -> EArrive | _ -> failwith "bad env")
  | _ -> failwith ("bad token " ^ tok)

let first_kind (ls : label list) : kind option =
  match ls with Lb (_, k) :: _ -> Some k | _ -> None

let do_run p toks =
  let s = ref init in
  let out = List.map (fun tok ->
    match step p !s (choice_of tok) with
    | None -> "X"
    | Some (s', ls) ->
      s := s';
      (match first_kind ls with Some k -> kind_s k | None -> "?") ^ ";" ^ state_s p s') toks in
  String.concat "|" out

(* ---- follow a real trace ------------------------------------------------- *)

let peek p s (thr : char) : kind option =
  match thr with
  | 'i' -> (match step_io p s SRBlock Z0 with Some (_, ls) -> first_kind ls | None -> None)
  | 'w' -> (match step_w p s SRBlock with Some (_, ls) -> first_kind ls | None -> None)
  | _ -> None

let tok_of_choice = function
  | CIo (SR k, _) -> "ik" ^ zi k | CIo (SRGone, _) -> "ig" | CIo (SRErr, _) -> "ie"
  | CIo (SRBlock, r) -> if r = Z0 then "i" else "ir" ^ zi r
  | CW (SR k) -> "wk" ^ zi k | CW SRGone -> "wg" | CW SRErr -> "we" | CW SRBlock -> "w"
  | CTail n -> "t" ^ string_of_int (ni n)
  | CEnv EStall -> "es" | CEnv EResume -> "er" | CEnv EGone -> "eg" | CEnv EArrive -> "ea"


let taken : choice list ref = ref []
let stepr p s c = match step p s c with Some r -> taken := c :: !taken; Some r | None -> None

let take p s thr (arg : string) (res : z) =
  match thr with
  | 'i' -> stepr p s (CIo (sendres_of arg, res))
  | 'w' -> stepr p s (CW (sendres_of arg))
  | _ -> None

let rec advance_silent p s thr res fuel =
  if fuel = 0 then s else
  match peek p s thr with
  | Some k when silent_kind k ->
    (match take p s thr "b" res with Some (s', _) -> advance_silent p s' thr res (fuel - 1) | None -> s)
  | _ -> s

let do_follow gran p evs =
  let locks = (gran = "locks") in
  taken := [];
  let s = ref init in
  let dead = ref false in
  let out = List.map (fun ev ->
    if !dead then "-" else
    match String.split_on_char ':' ev with
    | [thr; kind; arg; res] ->
      let thr = thr.[0] in
      let res = z_of_int (int_of_string res) in
      let fail exp = dead := true; "MISMATCH;" ^ exp ^ ";" ^ state_s p !s in
      (match thr with
       | 'e' ->
         let a = (match arg with "s" -> EStall | "r" -> EResume | "g" -> EGone | _ -> EArrive) in
         (match stepr p !s (CEnv a) with Some (s', _) -> s := s'; "ok;" ^ state_s p s' | None -> fail "env-disabled")
       | 't' ->
         (* arg = phase of the service() tail: 0 racq, 1 pop, 2 connected/add_task, 3 rrel, 4 connected, 5 pull *)
         let n = int_of_string arg in
         let tail k st = (match stepr p st (CTail (nat_of_int k)) with Some (s2, _) -> Some s2 | None -> None) in
         (match tail n !s with
          | Some s1 ->
            let s1 = if locks && n = 0 then
                (match tail 1 s1 with Some s2 -> (match tail 2 s2 with Some s3 -> s3 | None -> s2) | None -> s1)
              else if locks && n = 3 then (match tail 4 s1 with Some s2 -> s2 | None -> s1)
              else s1 in
            s := s1; "ok;" ^ state_s p s1
          | None -> fail "tail-disabled")
       | _ ->
         let rec go fuel =
           if fuel = 0 then fail "fuel" else
           match peek p !s thr with
           | None -> if (not locks) && read_kind kind then "ign;" ^ state_s p !s else fail "blocked"
           | Some k ->
             if kind_s k = kind then
               (match take p !s thr arg res with
                | None -> fail ("refused-" ^ kind_s k)
                | Some (s', _) ->
                  let s' = if locks then advance_silent p s' thr res 64 else s' in
                  (* the tail of service() reads connected right after releasing requests_lock *)
                  let s' = if locks && thr = 'w' && kind = "rrel" then
                      (match stepr p s' (CTail (nat_of_int 4)) with Some (s2, _) -> s2 | None -> s') else s' in
                  s := s'; "ok;" ^ state_s p s')
             else if locks && silent_kind k then
               (match take p !s thr "b" res with
                | Some (s', _) -> s := s'; go (fuel - 1)
                | None -> fail "silent-refused")
             else if (not locks) && read_kind kind then "ign;" ^ state_s p !s
             else fail (kind_s k) in
         go 64)
    | _ -> failwith ("bad event " ^ ev)) evs in
  String.concat "|" out ^ "|T:" ^ String.concat "," (List.rev_map tok_of_choice !taken)

(* ---- breadth-first exploration --------------------------------------------- *)

let do_explore p maxstates maxarr =
  let seen = Hashtbl.create 100000 in
  let q = Queue.create () in
  let narr s = ni s.pending_in + ni s.cur + ni s.nreq in
  Hashtbl.add seen init ();
  Queue.add (init, []) q;
  let truncated = ref false in
  let bb = ref 0 and rb = ref 0 and pd = ref 0 in
  let wb = ref None and wr = ref None and wd = ref None in
  let n = ref 0 in
  while not (Queue.is_empty q) do
    let (s, path) = Queue.pop q in
    incr n;
    if not (bound_ok p s) then (incr bb; if !wb = None then wb := Some path);
    if not (release_ok p s) then (incr rb; if !wr = None then wr := Some path);
    if w_parked s && not s.connected && (match s.io with IoHcNotify _ -> false | _ -> true)
    then (incr pd; if !wd = None then wd := Some path);
    let pend = s.pending in
    let sends = [SRBlock; SRGone; SRErr; SR (z_of_int 1); SR pend] in
    let io_choices =
      (match s.io with
       | IoFlush -> List.map (fun r -> CIo (r, Z0)) sends
       | IoHcTot _ -> [CIo (SRBlock, Z0); CIo (SRBlock, pend)]
       | _ -> [CIo (SRBlock, Z0)]) in
    let w_choices = (match s.wk with WFlush _ -> List.map (fun r -> CW r) sends | _ -> [CW SRBlock]) in
    let env = [CEnv EStall; CEnv EResume; CEnv EGone] @ (if narr s < maxarr then [CEnv EArrive] else []) in
    List.iter (fun c ->
      match step p s c with
      | None -> ()
      | Some (s', _) ->
        if s' <> s && not (Hashtbl.mem seen s') then begin
          if Hashtbl.length seen >= maxstates then truncated := true
          else (Hashtbl.add seen s' (); Queue.add (s', c :: path) q)
        end) (io_choices @ w_choices @ List.map (fun k -> CTail (nat_of_int k)) [0; 1; 2; 3; 4; 5] @ env)
  done;
  let w = function None -> "" | Some path -> String.concat "," (List.rev_map tok_of_choice path) in
  Printf.sprintf "states=%d truncated=%s bound_bad=%d release_bad=%d parked_disc=%d wb=%s wr=%s wd=%s"
    !n (b01 !truncated) !bb !rb !pd (w !wb) (w !wr) (w !wd)

let () = main_loop (fun ws ->
  match ws with
  | ["run"; hw; sb; look; res; fix; progs; toks] ->
    do_run (parse_params hw sb look res fix progs) (String.split_on_char ',' toks)
  | ["follow"; gran; hw; sb; look; res; fix; progs; evs] ->
    do_follow gran (parse_params hw sb look res fix progs) (String.split_on_char ',' evs)
  | ["explore"; hw; sb; look; res; fix; progs; maxstates; maxarr] ->
    do_explore (parse_params hw sb look res fix progs) (int_of_string maxstates) (int_of_string maxarr)
  | _ -> "ERR bad query")
