(* Line protocol for the buffer model (Model/Buffers.v) and the FIFO
   specification (Spec/Fifo.v).  The driver keeps one OverflowableBuffer model
   state, one specification queue and one ReadOnlyFileBasedBuffer model state;
   every answer shows the output of the operation and the whole state reached.

     new <limit> <overflow>            fresh OverflowableBuffer(overflow), STRBUF_LIMIT = limit
     append <hex> | get <n> <0|1> | skip <n> <0|1> | len | getfile | close
     fault <ctor-tmp|ctor-bio|copywrite|createwrite|appendwrite> <one of the operations above>
                                       the operation with an operating-system fault (Model: step_f)
     ronew <hex> <pos>                 ReadOnlyFileBasedBuffer(file) with file content / position
     prepare <size|none> | roget <n> <0|1> | roskip <n> | rolen | roclose *)
open Model
open Wvio

let z_of_int (i : int) : z =
  if i = 0 then Z0 else if i > 0 then Zpos (pos_of_int i) else Zneg (pos_of_int (- i))
let int_of_z (x : z) : int = match x with Z0 -> 0 | Zpos p -> int_of_pos p | Zneg p -> - (int_of_pos p)

let raw (l : n list) : string =
  let b = Bytes.create (List.length l) in
  List.iteri (fun i x -> Bytes.set b i (Char.chr (int_of_n x land 255))) l;
  Bytes.to_string b

(* short strings in hex, long ones as #length:md5 *)
let show (l : n list) : string =
  let len = List.length l in
  if len <= 48 then hex_of_bytes l
  else Printf.sprintf "#%d:%s" len (Digest.to_hex (Digest.string (raw l)))

let b01 b = if b then "1" else "0"
let exn_s = function ValueErrorSkip -> "exn:skip" | ValueErrorClosed -> "exn:closed" | OSFault -> "exn:fault"
let file_s (f : file) =
  Printf.sprintf "pos=%d closed=%s content=%s" (int_of_nat f.f_pos) (b01 f.f_closed) (show f.f_content)
let out_s = function
  | RUnit -> "unit"
  | RBytes b -> "bytes:" ^ show b
  | RLen z -> "len:" ^ string_of_int (int_of_z z)
  | RFile f -> "file"
  | RExn e -> exn_s e
let qout_s = function
  | QUnit -> "unit"
  | QBytes b -> "bytes:" ^ show b
  | QNum z -> "len:" ^ string_of_int (int_of_z z)
  | QErr -> "err"

let limit = ref N0
let ovf = ref N0
let st = ref o_new
let q = ref q_empty
let ro = ref (ro_init { f_content = []; f_pos = O; f_closed = false })

let state_s () =
  let o = !st in
  let l = string_of_int (int_of_z (o_len o)) in
  match rep_of o with
  | Str s -> Printf.sprintf "tag=str ovfd=%s len=%s strbuf=%s" (b01 o.ob_overflowed) l (show s)
  | Bio (f, r) -> Printf.sprintf "tag=bio ovfd=%s len=%s strbuf=%s remain=%d %s" (b01 o.ob_overflowed) l (show o.ob_strbuf) (int_of_z r) (file_s f)
  | Tmp (f, r) -> Printf.sprintf "tag=tmp ovfd=%s len=%s strbuf=%s remain=%d %s" (b01 o.ob_overflowed) l (show o.ob_strbuf) (int_of_z r) (file_s f)

let ro_s () =
  let b = !ro in Printf.sprintf "remain=%d %s" (int_of_z b.fb_remain) (file_s b.fb_file)

let rec drop n l = if n <= 0 then l else match l with [] -> [] | _ :: t -> drop (n - 1) t

let model_abs () = match rep_of !st with
  | Str s -> s
  | Bio (f, _) | Tmp (f, _) -> drop (int_of_nat f.f_pos) f.f_content

let do_op_f (flt : fault) (p : op) (sp : qop option) : string =
  let (o', r) = step_f flt !limit !ovf !st p in
  st := o';
  let so = match r, flt with
    | RExn OSFault, _ -> q := model_abs (); "-"     (* the specification has no faults: resynchronise *)
    | _, _ ->
      (match sp with
       | None -> "-"
       | Some sp -> let (q', so) = q_step !q sp in q := q'; qout_s so) in
  Printf.sprintf "%s | %s | spec=%s queue=%s" (out_s r) (state_s ()) so (show !q)

let do_op = do_op_f FNone

let do_ro (p : ro_op) : string =
  let (b', r) = ro_step !ro p in
  ro := b';
  Printf.sprintf "%s | %s" (out_s r) (ro_s ())

let bool_of s = (s = "1")

let rec handle flt w = match w with
  | ["new"; l; o] -> limit := n_of_dec l; ovf := n_of_dec o; st := o_new; q := q_empty; "ok | " ^ state_s ()
  | "fault" :: kind :: rest ->
    let f = match kind with
      | "ctor-tmp" -> FCtor KTmp | "ctor-bio" -> FCtor KBio | "copywrite" -> FCopyWrite
      | "createwrite" -> FCreateWrite | "appendwrite" -> FAppendWrite
      | _ -> failwith "bad fault" in
    handle f rest
  | ["append"; h] -> let s = bytes_of_hex h in do_op_f flt (OAppend s) (Some (QAppend s))
  | ["get"; n; sk] ->
    let n = z_of_int (int_of_string n) in
    if bool_of sk then do_op_f flt (OGet (n, true)) (Some (QTake n)) else do_op_f flt (OGet (n, false)) (Some (QPeek n))
  | ["skip"; n; ap] -> let n = n_of_dec n in do_op_f flt (OSkip (n, bool_of ap)) (Some (QConsume n))
  | ["len"] -> do_op_f flt OLen (Some QLength)
  | ["getfile"] -> do_op_f flt OGetFile (Some QView)
  | ["close"] -> do_op_f flt OClose None
  | ["ronew"; h; p] ->
    ro := ro_init { f_content = bytes_of_hex h; f_pos = nat_of_int (int_of_string p); f_closed = false };
    "ok | " ^ ro_s ()
  | ["prepare"; sz] ->
    let size = if sz = "none" then None else Some (z_of_int (int_of_string sz)) in
    (match ro_prepare !ro size with
     | Ok (b', r) -> ro := b'; Printf.sprintf "len:%d | %s" (int_of_z r) (ro_s ())
     | Exn e -> Printf.sprintf "%s | %s" (exn_s e) (ro_s ()))
  | ["roget"; n; sk] -> do_ro (ROGet (z_of_int (int_of_string n), bool_of sk))
  | ["roskip"; n] -> do_ro (ROSkip (n_of_dec n))
  | ["rolen"] -> do_ro ROLen
  | ["roclose"] -> ro := fb_close !ro; "unit | " ^ ro_s ()
  | _ -> "ERR bad command"

let () = main_loop (handle FNone)
