open Model
open Wvio

let b2s b = if b then "1" else "0"

let dict_str (h : (n list * n list) list) : string =
  let items = List.map (fun (k, v) -> hex_of_bytes k ^ ":" ^ hex_of_bytes v) h in
  let items = List.sort compare items in
  if items = [] then "-" else String.concat "," items

let mk_cfg mh mb tolws tollim =
  { max_header = n_of_dec mh; max_body = n_of_dec mb; tol_reqline_ws = (tolws = "1"); tol_limit_first = (tollim = "1") }

(* deviation mask: one character per flag, in the order of the record *)
let mk_devs (m : string) : devs =
  let g i = String.length m > i && m.[i] = '1' in
  (* a one-field record is extracted as its field *)
  g 0

let outcome_str d (o : ref_outcome) : string = match o with
  | Deliver (m, close) ->
    String.concat " " ["D"; hex_of_bytes m.m_method; hex_of_bytes m.m_target; hex_of_bytes m.m_version;
                       dict_str (delivered_view m); hex_of_bytes m.m_body; b2s close]
  | Refuse code -> "R " ^ dec_of_n code
  | Incomplete -> "I"

let () = main_loop (fun w -> match w with
  | ["ref"; mh; mb; tolws; tollim; mask; s] ->
    let d = mk_devs mask in
    let r = ref_run_dev (mk_cfg mh mb tolws tollim) d (bytes_of_hex s) in
    if r = [] then "-" else String.concat " ; " (List.map (outcome_str d) r)
  | ["chunked"; mask; s] ->
    (match ref_chunked (mk_devs mask) (bytes_of_hex s) with
     | ChDone (b, r) -> "done " ^ hex_of_bytes b ^ " " ^ string_of_int (List.length r)
     | ChBad e -> "bad " ^ dec_of_n e
     | ChIncomplete -> "incomplete")
  | _ -> "ERR bad command")
