(* Line protocol driver for the extracted Model/ChanOut.v (K-chanout).

   One line per case:
     case <strbuf_limit> <overflow> <high_watermark> <send_bytes> <sendbuf_len> ; op ; op ; ...
     op = w <hex> <answers>                    write_soon(bytes)
        | f <contenthex> <pos> <size|none> <answers>   write_soon(ReadOnlyFileBasedBuffer(file).prepare(size))
        | x <answers>                          _flush_some()
        | c <answers>                          send_continue()
     answers = "-" | a,a,...   a = <k> (socket accepts min(k, len(chunk)) bytes) | R (socket.send raises)
   Answer: one field per op, joined by " | ":
     wire=<hex> stop=<stop> ret=<0|1> total=<n> cur=<n> bufs=<kind><len>,...     kind O / R *)
open Model
open Wvio

let z_of_int (i : int) : z =
  if i = 0 then Z0 else if i > 0 then Zpos (pos_of_int i) else Zneg (pos_of_int (- i))
let int_of_z (x : z) : int = match x with Z0 -> 0 | Zpos p -> int_of_pos p | Zneg p -> - (int_of_pos p)

let raw (l : n list) : string =
  let b = Bytes.create (List.length l) in
  List.iteri (fun i x -> Bytes.set b i (Char.chr (int_of_n x land 255))) l;
  Bytes.to_string b
let show (l : n list) : string =
  let len = List.length l in
  if len <= 64 then hex_of_bytes l
  else Printf.sprintf "#%d:%s" len (Digest.to_hex (Digest.string (raw l)))

let stop_s = function
  | Done -> "done" | SockRaised -> "sockraised" | BufRaised _ -> "bufraised" | IndexError -> "indexerror"
  | NotImplemented -> "notimplemented" | OutOfFuel -> "outoffuel"

let answers (s : string) : answer list =
  if s = "-" then [] else
  List.map (fun t -> if t = "R" then Raise else Sent (n_of_int (int_of_string t))) (String.split_on_char ',' s)

let state_s (ch : chan) : string =
  Printf.sprintf "total=%d cur=%d bufs=%s" (int_of_z ch.total_outbufs_len) (int_of_z ch.current_outbuf_count)
    (String.concat "," (List.map (fun b -> (match b with OB _ -> "O" | RO _ -> "R") ^ string_of_int (int_of_z (b_len b))) ch.outbufs))

let rec split_ops (ws : string list) (cur : string list) (acc : string list list) : string list list =
  match ws with
  | [] -> List.rev (if cur = [] then acc else List.rev cur :: acc)
  | ";" :: t -> split_ops t [] (if cur = [] then acc else List.rev cur :: acc)
  | w :: t -> split_ops t (w :: cur) acc

let handle (ws : string list) : string =
  match split_ops ws [] [] with
  | ["case"; l; o; hw; sb; sl] :: ops ->
    let c = { c_strbuf_limit = n_of_dec l; c_overflow = n_of_dec o; c_high_watermark = z_of_int (int_of_string hw);
              c_send_bytes = z_of_int (int_of_string sb); c_sendbuf_len = z_of_int (int_of_string sl) } in
    let ch = ref chan_new in
    let outs = List.map (fun op ->
      let p = match op with
        | ["w"; h; a] -> Some (CWrite (WBytes (bytes_of_hex h), answers a))
        | ["f"; h; pos; size; a] ->
          let f = { f_content = bytes_of_hex h; f_pos = nat_of_int (int_of_string pos); f_closed = false } in
          let sz = if size = "none" then None else Some (z_of_int (int_of_string size)) in
          (match ro_prepare (ro_init f) sz with
           | Ok (rb, _) -> Some (CWrite (WFile rb, answers a))
           | Exn _ -> None)
        | ["x"; a] -> Some (CFlush (answers a))
        | ["c"; a] -> Some (CContinue (answers a))
        | _ -> failwith "bad op" in
      match p with
      | None -> "prepare-raised"
      | Some p ->
        let (ch', o) = cstep c !ch p in
        ch := ch';
        Printf.sprintf "wire=%s stop=%s ret=%s %s" (show o.s_wire) (stop_s o.s_stop) (if o.s_ret then "1" else "0") (state_s ch')) ops in
    String.concat " | " outs
  | _ -> failwith "bad line"

let () = main_loop handle
