(* Shared glue between extracted models (module Model, types positive / n / z
   kept as the extracted inductives) and the line-oriented drivers.
   Copied next to each model.ml at build time. *)
open Model

let rec pos_of_int (i : int) : positive =
  if i = 1 then XH
  else if i land 1 = 0 then XO (pos_of_int (i lsr 1))
  else XI (pos_of_int (i lsr 1))

let n_of_int (i : int) : n = if i = 0 then N0 else Npos (pos_of_int i)

let rec int_of_pos (p : positive) : int =
  match p with XH -> 1 | XO q -> 2 * int_of_pos q | XI q -> 2 * int_of_pos q + 1

let int_of_n (x : n) : int = match x with N0 -> 0 | Npos p -> int_of_pos p

let rec nat_of_int (i : int) : nat = if i <= 0 then O else S (nat_of_int (i - 1))
let rec int_of_nat (x : nat) : int = match x with O -> 0 | S y -> 1 + int_of_nat y

(* big naturals as decimal strings, via lists of bits *)
let dec_of_pos (p : positive) : string =
  (* repeated doubling on a decimal digit array (little endian) *)
  let digits = ref [0] in
  let double_add b =
    let carry = ref b in
    digits := List.map (fun d -> let v = 2 * d + !carry in carry := v / 10; v mod 10) !digits;
    if !carry > 0 then digits := !digits @ [!carry] in
  let rec bits p acc = match p with XH -> 1 :: acc | XO q -> bits q (0 :: acc) | XI q -> bits q (1 :: acc) in
  List.iter double_add (bits p []);
  String.concat "" (List.rev_map string_of_int !digits)

let dec_of_n (x : n) : string = match x with N0 -> "0" | Npos p -> dec_of_pos p

let n_of_dec (s : string) : n =
  (* small numbers go through int, large ones digit by digit *)
  if String.length s <= 17 then n_of_int (int_of_string s)
  else begin
    let acc = ref N0 in
    String.iter (fun c ->
      let d = Char.code c - 48 in
      acc := N.add (N.mul !acc (n_of_int 10)) (n_of_int d)) s;
    !acc
  end

let hexval c =
  match c with
  | '0'..'9' -> Char.code c - 48
  | 'a'..'f' -> Char.code c - 87
  | 'A'..'F' -> Char.code c - 55
  | _ -> failwith "bad hex"

(* "-" denotes the empty string so that fields are never empty *)
let bytes_of_hex (h : string) : n list =
  if h = "-" then [] else begin
    let len = String.length h / 2 in
    let rec go i acc = if i < 0 then acc else go (i - 1) (n_of_int (16 * hexval h.[2*i] + hexval h.[2*i+1]) :: acc) in
    go (len - 1) []
  end

let hex_of_bytes (l : n list) : string =
  if l = [] then "-" else begin
    let b = Buffer.create 64 in
    List.iter (fun x -> Buffer.add_string b (Printf.sprintf "%02x" (int_of_n x land 0xffffff))) l;
    Buffer.contents b
  end

(* code points above 255 (str values) are written as comma separated decimals *)
let cps_of_string (h : string) : n list =
  if h = "-" then [] else List.map (fun t -> n_of_int (int_of_string t)) (String.split_on_char ',' h)
let string_of_cps (l : n list) : string =
  if l = [] then "-" else String.concat "," (List.map (fun x -> string_of_int (int_of_n x)) l)

let words (s : string) : string list =
  List.filter (fun t -> t <> "") (String.split_on_char ' ' s)

let main_loop (handle : string list -> string) : unit =
  (try
     while true do
       let line = input_line stdin in
       let out = try handle (words line) with e -> "ERR " ^ Printexc.to_string e in
       print_string out; print_char '\n'
     done
   with End_of_file -> ());
  flush stdout
