(* C16 extension: the functional specification of Spec/ProxySpec.v (refusal_reason, category_header,
   spec_out, select, wf_headers) extracted on its own -- no model code in this runner. *)
open Model
open Wvio

let opt_set (w : string) : n list list =
  if w = "N" then []
  else begin
    let body = String.sub w 2 (String.length w - 2) in
    if body = "" then []
    else List.map bytes_of_hex (String.split_on_char ',' body)
  end

let rec pairs (l : string list) : (n list * n list) list =
  match l with
  | k :: v :: rest -> (bytes_of_hex k, bytes_of_hex v) :: pairs rest
  | [] -> []
  | _ -> failwith "odd number of environ words"

let cat_name = function
  | CatXffQuoting -> "xff-quoting" | CatXfhQuoting -> "xfh-quoting"
  | CatProtoQuoting -> "proto-quoting" | CatProtoSeveral -> "proto-several"
  | CatPortQuoting -> "port-quoting" | CatPortSeveral -> "port-several"
  | CatPairNoEq -> "pair-no-eq" | CatPairPadded -> "pair-padded" | CatPairQuoting -> "pair-quoting"
  | CatScheme -> "scheme" | CatEmptyHost -> "empty-host" | CatEmptyClient -> "empty-client"

let b x = if x then "1" else "0"

(* fs <count> <tph> <clear> <nkeys> key1 .. keyn  envk envv ...
   -> "mal <category> <header hex> <wf>"  |  "ok <wf> v1 .. vn"  (vi = N | S:<hex>) *)
let () = main_loop (fun w -> match w with
  | "fs" :: cnt :: tph :: clr :: nk :: rest ->
    let k = nat_of_int (int_of_string cnt) in
    let tph = opt_set tph in
    let n = int_of_string nk in
    let rec take i l acc = if i = 0 then (List.rev acc, l) else (match l with x :: r -> take (i - 1) r (x :: acc) | [] -> failwith "keys") in
    let (keys, envw) = take n rest [] in
    let e = pairs envw in
    let wf = b (wf_headers tph e) in
    (match refusal_reason tph k e with
     | Some c -> "mal " ^ cat_name c ^ " " ^ hex_of_bytes (category_header (fwd_active tph e) c) ^ " " ^ wf
     | None ->
       String.concat " " ("ok" :: wf :: List.map (fun key ->
         match spec_out tph k (clr = "1") e (bytes_of_hex key) with
         | None -> "N" | Some v -> "S:" ^ hex_of_bytes v) keys))
  | "sel" :: cnt :: tph :: envw ->
    let s = select (opt_set tph) (nat_of_int (int_of_string cnt)) (pairs envw) in
    String.concat " " [hex_of_bytes s.sel_client; hex_of_bytes s.sel_host; hex_of_bytes s.sel_proto; hex_of_bytes s.sel_port]
  (* primitives the specification (and the model) are built from, for the exhaustive latin-1 tables *)
  | ["lower"; s] -> hex_of_bytes (lower_latin1 (bytes_of_hex s))
  | ["strip"; s] -> hex_of_bytes (strip (bytes_of_hex s))
  | ["fieldvalue"; s] -> (let v = bytes_of_hex s in if bad_quoting v then "bad" else "ok " ^ hex_of_bytes (field_value v))
  | _ -> "ERR bad command")
