open Model
open Wvio

let z_of_int (i : int) : z =
  if i = 0 then Z0 else if i > 0 then Zpos (pos_of_int i) else Zneg (pos_of_int (- i))

let opt_str (w : string) : n list option =
  if w = "N" then None
  else Some (bytes_of_hex (String.sub w 2 (String.length w - 2)))

let opt_set (w : string) : n list list option =
  if w = "N" then None
  else begin
    let body = String.sub w 2 (String.length w - 2) in
    if body = "" then Some []
    else Some (List.map bytes_of_hex (String.split_on_char ',' body))
  end

let rec pairs (l : string list) : (n list * n list) list =
  match l with
  | k :: v :: rest -> (bytes_of_hex k, bytes_of_hex v) :: pairs rest
  | [] -> []
  | _ -> failwith "odd number of environ words"

let exn_name = function IndexError -> "IndexError" | KeyError -> "KeyError" | ValueError -> "ValueError"

let show_env (e : (n list * n list) list) : string =
  String.concat " " ("ok" :: List.concat (List.map (fun (k, v) -> [hex_of_bytes k; hex_of_bytes v]) e))

let show_res r = match r with
  | Ok e -> show_env e
  | Malformed h -> "mal " ^ hex_of_bytes h
  | Exn e -> "exn " ^ exn_name e

let cfg tp cnt tph clr =
  { trusted_proxy = opt_str tp; trusted_proxy_count = z_of_int (int_of_string cnt);
    trusted_proxy_headers = opt_set tph; clear_untrusted = (clr = "1") }

let b x = if x then "1" else "0"

let () = main_loop (fun w -> match w with
  | "mw" :: tp :: cnt :: tph :: clr :: env -> show_res (middleware (cfg tp cnt tph clr) (pairs env))
  | "sv" :: tp :: cnt :: tph :: clr :: env -> show_res (serve (cfg tp cnt tph clr) (pairs env))
  | ["installed"; tp; clr] -> b (installed (cfg tp "1" "N" clr))
  | ["undq"; s] -> (match undquote (bytes_of_hex s) with Ok v -> "ok " ^ hex_of_bytes v | Malformed _ -> "mal" | Exn e -> "exn " ^ exn_name e)
  | ["sb"; s] -> (match strip_brackets (bytes_of_hex s) with Ok v -> "ok " ^ hex_of_bytes v | Malformed _ -> "mal" | Exn e -> "exn " ^ exn_name e)
  | ["unesc"; s] -> hex_of_bytes (unescape (bytes_of_hex s))
  | ["strip"; s] -> hex_of_bytes (strip (bytes_of_hex s))
  | ["mid"; s] -> hex_of_bytes (mid (bytes_of_hex s))
  | "lastk" :: k :: l -> String.concat " " ("l" :: List.map hex_of_bytes (py_lastk (List.map bytes_of_hex l) (z_of_int (int_of_string k))))
  | ["pick"; n; k] -> string_of_int (int_of_nat (pick_index (nat_of_int (int_of_string n)) (nat_of_int (int_of_string k))))
  | ["badquoting"; s] -> b (bad_quoting (bytes_of_hex s))
  | ["badclient"; s] -> b (bad_client (bytes_of_hex s))
  | ["emptyhost"; s] -> b (empty_host (bytes_of_hex s))
  | ["addr"; s] -> hex_of_bytes (unbracket (addr_text (bytes_of_hex s)))
  | ["port"; s] -> (match port_text (bytes_of_hex s) with None -> "N" | Some p -> "S:" ^ hex_of_bytes p)
  | "first" :: l -> hex_of_bytes (first_nonempty (List.map bytes_of_hex l))
  | ["catlist"; s] -> b (cat_list_quoting (bytes_of_hex s))
  | ["catsingle"; s] -> b (cat_single_quoting (bytes_of_hex s))
  | ["catseveral"; s] -> b (cat_several_values (bytes_of_hex s))
  | ["pairbad"; s] -> b (pair_bad (bytes_of_hex s))
  | ["catfwd"; s] -> b (cat_forwarded (bytes_of_hex s))
  | ["catscheme"; s] -> b (cat_scheme (bytes_of_hex s))
  | ["isproxykey"; s] -> b (is_proxy_key (bytes_of_hex s))
  | _ -> "ERR bad command")
