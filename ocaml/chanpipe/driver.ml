(* Line protocol for the extracted connection model of C04 (Model/ChanPipe.v).

   <mode> <look>,<sb>,<clen>,<nw>,<unlocked 0|1> <script> <tok> <tok> ...

   mode   val   every token is one VISIBLE step of the named thread; the invisible
                steps of that thread (outbuf.get, outbuf.skip, parser work) that
                precede it are executed first and those that follow it are executed
                eagerly (the real thread runs on to its next labelled operation)
          raw   every token is exactly one step of the model (visible or not)
          exp   like val, but the answer is the raw token sequence that was executed
   script requests separated by '/':  <expect 0|1><close 0|1><nobody 0|1>:<w1.w2...|->   ('-' = no request)
   tok    i:<env> (I/O thread) | w<k>:<env> (worker k);  env:  - | s<rs><ws> | r<k>.<frag> | e | n<len>.<k> | q (an access of self.request: answered
          'skip' unless the thread is at the one such access the model represents)
   answer one field per token separated by '|':  X (not enabled) or <label>;<state>
          label:  A:l T:l:ok Rl:l Wt Wk N:l R:a W:a S:len:n Rv Sel Tr  ('tau' for an invisible step in raw mode)
          state:  see state_s *)
open Model
open Wvio

let ni = int_of_nat
let rec int_of_z = function Z0 -> 0 | Zpos p -> int_of_pos p | Zneg p -> - (int_of_pos p)
let z_of_int i = if i = 0 then Z0 else if i > 0 then Zpos (pos_of_int i) else Zneg (pos_of_int (-i))
let ints l = if l = [] then "-" else String.concat "." (List.map (fun x -> string_of_int (ni x)) l)
let b01 b = if b then "1" else "0"

let lock_s = function Rq -> "rq" | Ob -> "ob" | Dl -> "dl"
let attr_s = function ARequests -> "requests" | ATotal -> "total_outbufs_len" | AConnected -> "connected"
  | AWillClose -> "will_close" | ACwf -> "close_when_flushed" | AOutbufs -> "outbufs" | ARequest -> "request"
let label_s = function
  | LAcq l -> "A:" ^ lock_s l
  | LTry (l, ok) -> "T:" ^ lock_s l ^ ":" ^ b01 ok
  | LRel l -> "Rl:" ^ lock_s l
  | LWait -> "Wt" | LWake -> "Wk"
  | LNotify l -> "N:" ^ lock_s l
  | LR a -> "R:" ^ attr_s a | LW a -> "W:" ^ attr_s a
  | LSend (len, n) -> Printf.sprintf "S:%d:%d" (ni len) (ni n)
  | LRecv -> "Rv" | LSelect -> "Sel" | LTrig -> "Tr"
let labels_s ls = if ls = [] then "tau" else String.concat "," (List.map label_s ls)

let tid_s = function None -> "-" | Some TIo -> "io" | Some (TW i) -> "w" ^ string_of_int (ni i)

let tok_s = function TResp (i, k) -> Printf.sprintf "r%d.%d" (ni i) (ni k) | TCont (i, k) -> Printf.sprintf "c%d.%d" (ni i) (ni k)


let fl_s (f : flst) = match f.fpc with FlLoad -> "FlLoad" | FlGet -> "FlGet" | FlSend -> "FlSend" | FlSkip -> "FlSkip"
  | FlTotR -> "FlTotR" | FlTotW -> "FlTotW" | FlLen -> "FlLen" | FlPop -> "FlPop"
let sc_s = function ScAcq -> "ScAcq" | ScApp -> "ScApp" | ScTotR -> "ScTotR" | ScTotW _ -> "ScTotW" | ScFl f -> "ScFl." ^ fl_s f
  | ScExcW -> "ScExcW" | ScRel -> "ScRel"
let at_s = function AtAcq -> "AtAcq" | AtNotify -> "AtNotify" | AtRel -> "AtRel"
let hc_s = function HcAcq -> "HcAcq" | HcBufs -> "HcBufs" | HcTot -> "HcTot" | HcConn -> "HcConn" | HcNotify -> "HcNotify"
  | HcRel -> "HcRel" | HcConn2 -> "HcConn2"
let iopc_s = function
  | IoRd1 -> "IoRd1" | IoRd2 -> "IoRd2" | IoRd3 -> "IoRd3" | IoRd4 -> "IoRd4" | IoWr1 -> "IoWr1" | IoWr2 -> "IoWr2"
  | IoWr3 -> "IoWr3" | IoSel -> "IoSel" | IoHrConn -> "IoHrConn" | IoRecv -> "IoRecv" | IoHrWConn -> "IoHrWConn"
  | IoRcAcq -> "IoRcAcq" | IoRcWc -> "IoRcWc" | IoRcCwf -> "IoRcCwf" | IoRcItem -> "IoRcItem" | IoRcChk -> "IoRcChk"
  | IoRcSc c -> "IoRcSc." ^ sc_s c | IoRcApp -> "IoRcApp" | IoRcApp2 -> "IoRcApp2" | IoRcLen -> "IoRcLen"
  | IoRcAt a -> "IoRcAt." ^ at_s a | IoRcRel -> "IoRcRel"
  | IoHwConn -> "IoHwConn" | IoHwReq -> "IoHwReq" | IoHwFlU f -> "IoHwFlU." ^ fl_s f | IoHwTot -> "IoHwTot" | IoHwTotH -> "IoHwTotH"
  | IoHwTry -> "IoHwTry" | IoHwFlL f -> "IoHwFlL." ^ fl_s f | IoHwNTot -> "IoHwNTot" | IoHwNotify -> "IoHwNotify"
  | IoHwRel -> "IoHwRel" | IoHwRelX -> "IoHwRelX" | IoHwExcW -> "IoHwExcW" | IoHwCwf -> "IoHwCwf" | IoHwTot2 -> "IoHwTot2"
  | IoHwWCwf -> "IoHwWCwf" | IoHwWWc -> "IoHwWWc" | IoHwWc -> "IoHwWc"
  | IoHc (h, eof) -> "IoHc." ^ hc_s h ^ (if eof then ".eof" else "") | IoDead -> "IoDead"
let wkpc_s = function
  | WAcqD -> "WAcqD" | WWait -> "WWait" | WParked -> "WParked" | WRelD -> "WRelD" | WSvReq -> "WSvReq" | WSvConn -> "WSvConn" | WSvWc -> "WSvWc"
  | WWsConn -> "WWsConn" | WWsAcq -> "WWsAcq" | WWsHw -> "WWsHw" | WWsConn2 -> "WWsConn2" | WWsRelX -> "WWsRelX"
  | WWsRot -> "WWsRot" | WWsApp -> "WWsApp" | WWsTotR -> "WWsTotR" | WWsTotW _ -> "WWsTotW" | WWsChk -> "WWsChk"
  | WWsFl f -> "WWsFl." ^ fl_s f | WWsExcW -> "WWsExcW" | WWsChk2 -> "WWsChk2" | WWsTrig -> "WWsTrig" | WWsRel -> "WWsRel"
  | WCbAcq -> "WCbAcq" | WCbCwf -> "WCbCwf" | WCbReq -> "WCbReq" | WCbClr -> "WCbClr" | WCbRel -> "WCbRel"
  | WKbLen -> "WKbLen" | WKbHw -> "WKbHw" | WKbAcq -> "WKbAcq" | WKbPop -> "WKbPop" | WKbConn -> "WKbConn" | WKbReq -> "WKbReq"
  | WKbAt a -> "WKbAt." ^ at_s a | WKbConn2 -> "WKbConn2" | WKbSc c -> "WKbSc." ^ sc_s c | WKbRel -> "WKbRel"
  | WTlConn -> "WTlConn" | WTlTrig -> "WTlTrig"

let state_s (p : params) (st : state) =
  let s = st.sh in
  Printf.sprintf "rq=%s;tot=%d;obs=%s;conn=%s;wc=%s;cwf=%s;q=%d;rl=%s;ol=%s;dl=%s;wire=%d;arr=%s;st=%s;ex=%s;sc=%s;wsc=%s;own=%d;pc=%s;ok=%s%s%s%s%s"
    (ints s.requests) (int_of_z s.total)
    (String.concat "." (List.map (fun b -> string_of_int (List.length b)) s.obs))
    (b01 s.connected) (b01 s.will_close) (b01 s.cwf) (ni s.queue)
    (tid_s s.rlock) (tid_s s.olock) (tid_s s.dlock)
    (List.length s.wire) (ints s.arrivals) (ints s.starts) (ints s.execs)
    (b01 s.sent_continue) (b01 s.wsc) (ni (owners p.p_nw st.wk))
    (String.concat "," (iopc_s st.io.ipc :: List.init (ni p.p_nw) (fun k -> wkpc_s (st.wk (nat_of_int k)).wpc)))
    (b01 (wire_ok p st)) (b01 (once_ok st)) (b01 (one_ok p st)) (b01 (entry_ok p st)) (b01 (quiescent_ok p st))

let parse_params (s : string) : int list = List.map int_of_string (String.split_on_char ',' s)

let parse_script (s : string) : rdesc list =
  if s = "-" then [] else
  List.map (fun r ->
    match String.split_on_char ':' r with
    | [fl; ws] ->
        let writes = if ws = "-" then [] else List.map (fun t -> nat_of_int (int_of_string t)) (String.split_on_char '.' ws) in
        { r_expect = (fl.[0] = '1'); r_nobody = (fl.[2] = '1'); r_writes = writes; r_close = (fl.[1] = '1') }
    | _ -> failwith "bad request descriptor") (String.split_on_char '/' s)

let parse_env (s : string) : env =
  if s = "-" || s = "q" then ENone
  else match s.[0] with
  | 's' -> ESel (s.[1] = '1', s.[2] = '1')
  | 'e' -> EEof
  | 'n' ->
      (match String.split_on_char '.' (String.sub s 1 (String.length s - 1)) with
       | [l; k] -> ESend (nat_of_int (int_of_string l), nat_of_int (int_of_string k))
       | _ -> failwith "bad send")
  | 'r' ->
      (match String.split_on_char '.' (String.sub s 1 (String.length s - 1)) with
       | [k; f] -> ERecv (nat_of_int (int_of_string k), f = "1")
       | _ -> failwith "bad recv")
  | _ -> failwith "bad env"

(* thread: None = io, Some k = worker k *)
let parse_tok (s : string) : int option * env =
  match String.index_opt s ':' with
  | None -> failwith "bad token"
  | Some p ->
      let th = String.sub s 0 p and en = String.sub s (p + 1) (String.length s - p - 1) in
      let t = if th = "i" then None else Some (int_of_string (String.sub th 1 (String.length th - 1))) in
      (t, parse_env en)

let mk_choice t e = match t with None -> CIo e | Some k -> CWk (nat_of_int k, e)

(* keep the worker table a flat closure so that look-ups stay O(1) *)
let normalise (p : params) (st : state) : state =
  let n = ni p.p_nw in
  let arr = Array.init (max n 1) (fun j -> st.wk (nat_of_int j)) in
  let dflt = st.wk (nat_of_int (n + 1)) in
  { st with wk = (fun j -> let k = ni j in if k < n then arr.(k) else dflt) }

let invisible (st : state) t =
  match t with None -> io_invisible st.io | Some k -> wk_invisible (st.wk (nat_of_int k))

let inv_count = ref 0
let rec run_invisible (p : params) (st : state) t (fuel : int) : state =
  if fuel > 0 && invisible st t then
    match step p st (mk_choice t ENone) with
    | Some (st', _) -> incr inv_count; run_invisible p (normalise p st') t (fuel - 1)
    | None -> st
  else st

(* accesses of self.request are all under requests_lock; the only one that is a step of
   the model is the load of the argument in self.requests.append(self.request) *)
let expects_request_load (st : state) t =
  match t with None -> (match st.io.ipc with IoRcApp2 -> true | _ -> false) | Some _ -> false

let handle (words : string list) : string =
  match words with
  | mode :: ps :: script :: toks ->
      let p = match parse_params ps with
        | [look; sb; clen; nw; unl] ->
            { p_look = nat_of_int look; p_sb = z_of_int sb; p_clen = nat_of_int clen; p_unlocked = (unl = 1);
              p_nw = nat_of_int nw; p_script = parse_script script }
        | _ -> failwith "bad params" in
      let st = ref init in
      let out = Buffer.create 4096 in
      let first = ref true in
      let dead = ref false in
      let tname t = match t with None -> "i" | Some k -> "w" ^ string_of_int k in
      let emit_inv t = for _ = 1 to !inv_count do Buffer.add_string out (tname t ^ ":- ") done; inv_count := 0 in
      let vmode = (mode = "val" || mode = "exp") in
      List.iter (fun tk ->
        if mode <> "exp" && not !first then Buffer.add_char out '|';
        first := false;
        if !dead then (if mode <> "exp" then Buffer.add_string out "X") else begin
          let (t, e) = parse_tok tk in
          inv_count := 0;
          if vmode then st := run_invisible p !st t 100000;
          if mode = "exp" then emit_inv t;
          let is_q = (String.length tk > 0 && tk.[String.length tk - 1] = 'q') in
          if is_q && not (expects_request_load !st t) then (if mode <> "exp" then Buffer.add_string out "skip") else
          match step p !st (mk_choice t e) with
          | None -> (if mode <> "exp" then Buffer.add_string out "X"); if vmode then dead := true
          | Some (st', ls) ->
              let st' = normalise p st' in
              inv_count := 0;
              let st' = if vmode then run_invisible p st' t 100000 else st' in
              st := st';
              if mode = "exp" then begin
                Buffer.add_string out ((if is_q then tname t ^ ":-" else tk) ^ " "); emit_inv t
              end else begin
                Buffer.add_string out (labels_s ls); Buffer.add_char out ';';
                Buffer.add_string out (state_s p st')
              end
        end) toks;
      if toks = [] then state_s p !st else Buffer.contents out
  | _ -> "ERR usage"

let () = main_loop handle
