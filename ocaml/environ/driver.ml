open Model
open Wvio

(* line protocol
   env <max_header> <max_body> <url_scheme> <prefix> <server_name> <port> <ident> <peer> <chunk>...
       port = i<dec> | s<hex>      peer = u | t<hosthex>:<dec>
       -> "env k=v ..." in dict order | "err=<tag>" | "empty" | "incomplete" | escapes | outoffuel | unmodelled
   spec <prefix> <server_name> <port_str> <software> <remote_addr> <remote_port_str> <scheme>
        <method> <target> <version> <chunked> <body> [<name> <value>]...
       -> "spec k=v ..." sorted by key
   upper <cps>  -> cps of str.upper() *)

let z_int (z : z) : int = match z with Z0 -> 0 | Zpos p -> int_of_pos p | Zneg p -> - (int_of_pos p)
let rec drop k l = if k <= 0 then l else match l with [] -> [] | _ :: t -> drop (k - 1) t

let err_tag (e : perr) : string = match e with
  | EChunkNotTerminated -> "400:ChunkNotTerminated"
  | EInvalidChunkExt -> "400:InvalidChunkExt"
  | EInvalidChunkSize -> "400:InvalidChunkSize"
  | EHeaderTooLarge -> "431:HeaderTooLarge"
  | EBodyTooLarge -> "413:BodyTooLarge"
  | EHeaderInvalid -> "400:HeaderInvalid"
  | EBareCRLFFirstLine -> "400:BareCRLFFirstLine"
  | EBareCRLFHeader -> "400:BareCRLFHeader"
  | EMalformedHeaderLine -> "400:MalformedHeaderLine"
  | EInvalidHeader -> "400:InvalidHeader"
  | EDuplicateHeader -> "400:DuplicateHeader"
  | EStartLineInvalid -> "400:StartLineInvalid"
  | EMalformedMethod -> "400:MalformedMethod"
  | EContentLengthInvalid -> "400:ContentLengthInvalid"
  | EBadURI -> "400:BadURI"
  | ETENotSupported -> "501:TENotSupported"
  | ETEMultipleChunked -> "501:TEMultipleChunked"

let str_val (s : n list) : string =
  if List.for_all (fun x -> int_of_n x < 256) s then "s" ^ hex_of_bytes s else "u" ^ string_of_cps s

let evalue_str (v : evalue) : string = match v with
  | VStr s -> str_val s
  | VTuple10 -> "t10"
  | VStderr -> "stderr"
  | VBool b -> if b then "b1" else "b0"
  | VInput d -> "i" ^ hex_of_bytes d
  | VFileWrapper -> "fw"
  | VDisconnected -> "cd"

let sval_str (v : sval) : string = match v with
  | SStr s -> str_val s
  | SVersion10 -> "t10"
  | SBool b -> if b then "b1" else "b0"
  | SInput d -> "i" ^ hex_of_bytes d
  | SObject -> "obj"

(* the caller's loop: re-offer the unconsumed rest until completed or all taken *)
type fed = Fed of parser0 | Stop of string

let feed a chunks : fed =
  let rec offer p data =
    match received a p data with
    | ROk (p', n) ->
      let ni = z_int n in
      if p'.completed || ni >= List.length data || ni <= 0 then Fed p'
      else offer p' (drop ni data)
    | REscapes -> Stop "escapes"
    | ROutOfFuel -> Stop "outoffuel"
    | RUnmodelled -> Stop "unmodelled" in
  let rec go p cs = match cs with
    | [] -> Fed p
    | c :: rest ->
      (match offer p (bytes_of_hex c) with
       | Fed p' -> if p'.completed then Fed p' else go p' rest
       | Stop s -> Stop s) in
  go parser_init chunks

let parse_port (w : string) : eport =
  if w.[0] = 'i' then PortInt (n_of_dec (String.sub w 1 (String.length w - 1)))
  else PortStr (bytes_of_hex (String.sub w 1 (String.length w - 1)))

let parse_peer (w : string) : peer =
  if w = "u" then PeerUnix
  else begin
    let body = String.sub w 1 (String.length w - 1) in
    match String.split_on_char ':' body with
    | [h; p] -> PeerTCP (bytes_of_hex h, n_of_dec p)
    | _ -> failwith "bad peer"
  end

let do_env mh mb scheme prefix sname port ident peer chunks =
  let a = { max_request_header_size = n_of_dec mh; max_request_body_size = n_of_dec mb;
            adj_url_scheme = bytes_of_hex scheme } in
  match feed a chunks with
  | Stop s -> s
  | Fed p ->
    if not p.completed then "incomplete"
    else if p.empty then "empty"
    else (match p.error with
      | Some e -> "err=" ^ err_tag e
      | None ->
        let c = { url_prefix = bytes_of_hex prefix; server_name = bytes_of_hex sname;
                  effective_port = parse_port port; ident = bytes_of_hex ident; peer_addr = parse_peer peer } in
        let e = get_environment c p in
        "env " ^ String.concat " " (List.map (fun (k, v) -> hex_of_bytes k ^ "=" ^ evalue_str v) e))

let rec pairs l = match l with
  | n :: v :: rest -> (bytes_of_hex n, bytes_of_hex v) :: pairs rest
  | [] -> []
  | _ -> failwith "odd field list"

let do_spec prefix sname port soft raddr rport scheme meth target version chunked body fields =
  let gw = { gw_prefix = bytes_of_hex prefix; gw_server_name = bytes_of_hex sname; gw_server_port = bytes_of_hex port;
             gw_software = bytes_of_hex soft; gw_remote_addr = bytes_of_hex raddr; gw_remote_port = bytes_of_hex rport;
             gw_scheme = bytes_of_hex scheme } in
  let rq = { rq_method = bytes_of_hex meth; rq_target = bytes_of_hex target; rq_version = bytes_of_hex version;
             rq_fields = pairs fields; rq_chunked = (chunked = "1"); rq_body = bytes_of_hex body } in
  let e = spec_environ gw rq in
  let items = List.map (fun (k, v) -> hex_of_bytes k ^ "=" ^ sval_str v) e in
  "spec " ^ String.concat " " (List.sort compare items)

let () = main_loop (fun w -> match w with
  | "env" :: mh :: mb :: scheme :: prefix :: sname :: port :: ident :: peer :: chunks ->
    do_env mh mb scheme prefix sname port ident peer chunks
  | "spec" :: prefix :: sname :: port :: soft :: raddr :: rport :: scheme :: meth :: target :: version :: chunked :: body :: fields ->
    do_spec prefix sname port soft raddr rport scheme meth target version chunked body fields
  | ["upper"; s] -> string_of_cps (upper_str (cps_of_string s))
  | _ -> "ERR bad command")
