(* Line protocol driver for the extracted model of waitress.adjustments.
   Strings travel as comma separated code points ("-" = empty string).
   value   := N | B0 | B1 | I<dec> | I-<dec> | S<cps> | L[<cps>;...] | K[<sock>;...]
   sock    := <0|1 is a socket><i|6|u|o family><s|o type>
   kw item := <cps of name>:<value>        env := e<has_ipv6><has_af_unix> *)
open Model
open Wvio

let split_on c s = if s = "" then [] else String.split_on_char c s
let b01 c = (c = '1')
let s01 b = if b then "1" else "0"

let z_of_dec (s : string) : z =
  if String.length s > 0 && s.[0] = '-' then
    (match n_of_dec (String.sub s 1 (String.length s - 1)) with N0 -> Z0 | Npos p -> Zneg p)
  else (match n_of_dec s with N0 -> Z0 | Npos p -> Zpos p)
let dec_of_z (x : z) : string =
  match x with Z0 -> "0" | Zpos p -> dec_of_n (Npos p) | Zneg p -> "-" ^ dec_of_n (Npos p)

let sock_of (t : string) : sock =
  ((b01 t.[0], (match t.[1] with 'i' -> SfInet | '6' -> SfInet6 | 'u' -> SfUnix | _ -> SfOther)),
   (match t.[2] with 's' -> StStream | _ -> StOther))
let string_of_sock (((a, f), t) : sock) : string =
  s01 a ^ (match f with SfInet -> "i" | SfInet6 -> "6" | SfUnix -> "u" | SfOther -> "o")
  ^ (match t with StStream -> "s" | StOther -> "o")

let tail s = String.sub s 1 (String.length s - 1)

let value_of (t : string) : value =
  match t.[0] with
  | 'N' -> VNone
  | 'B' -> VBool (b01 t.[1])
  | 'I' -> VInt (z_of_dec (tail t))
  | 'S' -> VStr (cps_of_string (tail t))
  | 'L' -> VList (List.map cps_of_string (split_on ';' (tail t)))
  | 'K' -> VSocks (List.map sock_of (split_on ';' (tail t)))
  | _ -> failwith ("bad value " ^ t)

let strs l = String.concat ";" (List.map string_of_cps l)

let string_of_value (v : value) : string =
  match v with
  | VNone -> "N"
  | VBool b -> "B" ^ s01 b
  | VInt x -> "I" ^ dec_of_z x
  | VStr s -> "S" ^ string_of_cps s
  | VList l -> "L" ^ strs l
  | VSocks l -> "K" ^ String.concat ";" (List.map string_of_sock l)
  | VApp (a, c) -> "P" ^ s01 c ^ string_of_cps a

let string_of_setting (s : setting) : string =
  match s with
  | SNone -> "N"
  | SBool b -> "B" ^ s01 b
  | SInt x -> "I" ^ dec_of_z x
  | SStr s -> "S" ^ string_of_cps s
  | SList l -> "L" ^ strs l
  | SSet l -> "T" ^ strs (List.sort compare l)
  | SSocks l -> "K" ^ String.concat ";" (List.map string_of_sock l)
  | SAddrs l -> "A" ^ String.concat ";" (List.map (fun ((v6, h), p) -> s01 v6 ^ string_of_cps h ^ "@" ^ dec_of_n p) l)

let exn_name = function
  | ValueError -> "ValueError" | TypeError -> "TypeError" | AttributeError -> "AttributeError"
  | KeyError -> "KeyError" | GetoptError -> "GetoptError" | AppResolutionError -> "AppResolutionError"
  | OutOfFuel -> "OutOfFuel" | Unmodelled -> "Unmodelled"

let out f = function Ok a -> f a | Exn e -> "EXN " ^ exn_name e

let kw_item (t : string) : str * value =
  let i = String.index t ':' in
  (cps_of_string (String.sub t 0 i), value_of (String.sub t (i + 1) (String.length t - i - 1)))

let env_of (t : string) : env = { has_ipv6 = b01 t.[1]; has_af_unix = b01 t.[2] }

let attrs_str (a : attrs) : string =
  String.concat " " ("OK" :: List.map (fun (k, s) -> string_of_cps k ^ ":" ^ string_of_setting s) a)
let kwargs_str (a : kwargs) : string =
  String.concat " " ("OK" :: List.map (fun (k, v) -> string_of_cps k ^ ":" ^ string_of_value v) a)

let cast_of = function
  | "CStr" -> CStr | "CInt" -> CInt | "CBool" -> CBool | "CList" -> CList | "CStrIfTruthy" -> CStrIfTruthy
  | "CSet" -> CSet | "CSlash" -> CSlash | "COctal" -> COctal | "CSockets" -> CSockets
  | s -> failwith ("bad cast " ^ s)
let cast_name = function
  | CStr -> "CStr" | CInt -> "CInt" | CBool -> "CBool" | CList -> "CList" | CStrIfTruthy -> "CStrIfTruthy"
  | CSet -> "CSet" | CSlash -> "CSlash" | COctal -> "COctal" | CSockets -> "CSockets"

let bits s i = b01 s.[i]

(* the specification side (Proof/AdjustCliSpec.v): scan + keyword form *)
let refusal_name = function
  | RUnknown -> "unknown" | RAmbiguous -> "ambiguous" | RMissingValue -> "missing-value"
  | RUnexpectedValue -> "unexpected-value" | RShortOption -> "short-option"
let spec_str (argv : str list) : string =
  match scan argv with
  | Refused w -> "REFUSED " ^ refusal_name w
  | Scanned (occs, pos) ->
    let app = (match choose_app occs pos with
               | AppMissing -> "Amissing" | AppExtra -> "Aextra" | AppIs a -> "Ais:" ^ string_of_cps a) in
    String.concat " " (["OK"; "H" ^ s01 (has_help occs); "C" ^ s01 (has_call occs); app;
                        "N" ^ string_of_int (List.length occs)]
                       @ List.map (fun (k, v) -> string_of_cps k ^ ":" ^ string_of_value v) (keyword_form occs))
let dval_str = function
  | DNone -> "N" | DBool b -> "B" ^ s01 b | DInt x -> "I" ^ dec_of_z x | DStr s -> "S" ^ string_of_cps s
  | DEmptyList -> "K" | DEmptySet -> "T" | DHostPort -> "HP"
let dvals l = String.concat " " (List.map (fun (n, d) -> string_of_cps n ^ ":" ^ dval_str d) l)
let resolve_str t = match resolve t with
  | Unknown -> "unknown" | Ambiguous -> "ambiguous" | Found (n, _) -> "found " ^ string_of_cps n

let () = main_loop (fun w -> match w with
  | ["cast"; c; v] -> out string_of_setting (cast_value (cast_of c) (value_of v))
  | "construct" :: e :: kw -> out attrs_str (construct (env_of e) (List.map kw_item kw))
  | "parse" :: argv -> out kwargs_str (parse_args (List.map cps_of_string argv))
  | "cli" :: e :: argv ->
      out (function None -> "HELP" | Some a -> attrs_str a) (cli_construct (env_of e) (List.map cps_of_string argv))
  | "getopt" :: argv ->
      out (fun (opts, args) ->
            String.concat " " ("OK" :: (List.map (fun (o, v) -> "O" ^ string_of_cps o ^ ":" ^ string_of_cps v) opts
                                        @ List.map (fun a -> "A" ^ string_of_cps a) args)))
        (getopt (List.map cps_of_string argv) cli_long_opts)
  | "excl" :: names -> let l = List.map cps_of_string names in s01 (excl (fun n -> memstr n l))
  | ["proxy"; b] ->
      let f g = s01 (g (bits b 0) (bits b 1) (bits b 2) (bits b 3) (bits b 4) (bits b 5) (bits b 6)) in
      f proxy_refused ^ f proxy_count_defaulted ^ f proxy_headers_defaulted
  | ["fam"; b] ->
      s01 (families_refused (bits b 0) (bits b 1) (bits b 2))
      ^ (match families_value (bits b 0) (bits b 1) (bits b 2) with FamUnspec -> "U" | FamInet -> "4" | FamInet6 -> "6")
  | ["socks"; e; v] -> (match value_of v with VSocks l -> s01 (check_sockets (env_of e) l) | _ -> "ERR")
  | ["mw"; b] -> s01 (middleware_installed (bits b 0) (bits b 1))
  | ["hostport"; b] -> s01 (hostport_override (bits b 0) (bits b 1))
  | "spec" :: argv -> spec_str (List.map cps_of_string argv)
  | ["resolve"; t] -> resolve_str (cps_of_string t)
  | ["classdefaults"] -> dvals class_defaults
  | ["docdefaults"; w] -> dvals (match w with "docs" -> docs_defaults | "help" -> help_defaults | _ -> runner_rst_defaults)
  | ["dochdrs"; w] -> strs (match w with "docs" -> docs_proxy_headers | "help" -> help_proxy_headers | _ -> runner_rst_proxy_headers)
  | ["exclnames"] -> strs excl_names
  | ["params"] -> String.concat " " (List.map (fun (n, c) -> string_of_cps n ^ ":" ^ cast_name c) params)
  | ["longopts"] -> strs cli_long_opts
  | ["docs"] -> strs docs_args
  | ["help"] -> String.concat " " (List.map (fun ((n, a), b) -> string_of_cps n ^ ":" ^ s01 a ^ s01 b) help_opts)
  | ["truthy"] -> strs truthy
  | ["known"] -> strs known_proxy_headers
  | ["mangle"; s] -> string_of_cps (cli_mangle (cps_of_string s))
  | ["unmangle"; s] -> string_of_cps (cli_unmangle (cps_of_string s))
  | ["splitlines"; s] -> "L" ^ strs (splitlines (cps_of_string s))
  | ["aslist"; s] -> "L" ^ strs (aslist_str (cps_of_string s))
  | ["int"; o; s] -> (match parse_int (o = "8") (cps_of_string s) with None -> "EXN ValueError" | Some x -> "I" ^ dec_of_z x)
  | _ -> "ERR bad command")
