open Model
open Wvio
let gate name = match name with
  | "gate_chunk_size" -> gate_chunk_size
  | "gate_chunk_ext" -> gate_chunk_ext
  | "gate_content_length" -> gate_content_length
  | "gate_header_field" -> gate_header_field
  | "gate_request_line" -> gate_request_line
  | "gate_quoted_string" -> gate_quoted_string
  | "spec_chunk_size" -> spec_chunk_size
  | "spec_chunk_ext" -> spec_chunk_ext
  | "spec_content_length" -> spec_content_length
  | "spec_header_field" -> spec_header_field
  | "spec_request_line" -> spec_request_line
  | _ -> failwith ("unknown gate " ^ name)
let () = main_loop (fun w -> match w with
  | ["m"; g; h] -> if matches (gate g) (bytes_of_hex h) then "1" else "0"
  | ["w"; a; b] -> (match witness (gate a) (gate b) with None -> "none" | Some s -> hex_of_bytes s)
  | _ -> "ERR bad command")
