open Model
open Wvio

let b2s b = if b then "1" else "0"
let z_str (z : z) : string = match z with
  | Z0 -> "0" | Zpos p -> dec_of_pos p | Zneg p -> "-" ^ dec_of_pos p

let err_tag (e : perr) : string = match e with
  | EChunkNotTerminated -> "400:ChunkNotTerminated"
  | EInvalidChunkExt -> "400:InvalidChunkExt"
  | EInvalidChunkSize -> "400:InvalidChunkSize"
  | EHeaderTooLarge -> "431:HeaderTooLarge"
  | EBodyTooLarge -> "413:BodyTooLarge"
  | EHeaderInvalid -> "400:HeaderInvalid"
  | EBareCRLFFirstLine -> "400:BareCRLFFirstLine"
  | EBareCRLFHeader -> "400:BareCRLFHeader"
  | EMalformedHeaderLine -> "400:MalformedHeaderLine"
  | EInvalidHeader -> "400:InvalidHeader"
  | EDuplicateHeader -> "400:DuplicateHeader"
  | EStartLineInvalid -> "400:StartLineInvalid"
  | EMalformedMethod -> "400:MalformedMethod"
  | EContentLengthInvalid -> "400:ContentLengthInvalid"
  | EBadURI -> "400:BadURI"
  | ETENotSupported -> "501:TENotSupported"
  | ETEMultipleChunked -> "501:TEMultipleChunked"

let oerr = function None -> "none" | Some e -> err_tag e

let hdrs (h : (n list * n list) list) : string =
  let items = List.map (fun (k, v) -> hex_of_bytes k ^ ":" ^ hex_of_bytes v) h in
  let items = List.sort compare items in
  if items = [] then "-" else String.concat "," items

let body_str (p : parser0) : string = match p.body with
  | None -> "none"
  | Some (BFixed f) -> "F:" ^ dec_of_n f.f_remain ^ ":" ^ hex_of_bytes f.f_buf
  | Some (BChunked c) ->
    "C:" ^ dec_of_n c.chunk_remainder ^ ":" ^ b2s c.validate_chunk_end ^ ":" ^ hex_of_bytes c.control_line
    ^ ":" ^ hex_of_bytes c.chunk_end ^ ":" ^ b2s c.all_chunks_received ^ ":" ^ hex_of_bytes c.trailer
    ^ ":" ^ b2s c.c_completed ^ ":" ^ oerr c.c_error ^ ":" ^ hex_of_bytes c.c_buf

let parser_str (p : parser0) : string =
  String.concat " " [
    "completed=" ^ b2s p.completed; "empty=" ^ b2s p.empty; "expect=" ^ b2s p.expect_continue;
    "hf=" ^ b2s p.headers_finished; "hp=" ^ hex_of_bytes p.header_plus; "chunked=" ^ b2s p.chunked;
    "cl=" ^ dec_of_n p.content_length; "hbr=" ^ dec_of_n p.header_bytes_received;
    "bbr=" ^ z_str p.body_bytes_received; "version=" ^ hex_of_bytes p.version; "err=" ^ oerr p.error;
    "cc=" ^ b2s p.connection_close; "headers=" ^ hdrs p.headers; "fl=" ^ hex_of_bytes p.first_line;
    "cmd=" ^ hex_of_bytes p.command; "uri=" ^ hex_of_bytes p.request_uri;
    "scheme=" ^ hex_of_bytes p.p_scheme; "netloc=" ^ hex_of_bytes p.p_netloc;
    "path=" ^ hex_of_bytes p.path; "query=" ^ hex_of_bytes p.query; "frag=" ^ hex_of_bytes p.fragment;
    "us=" ^ hex_of_bytes p.url_scheme; "body=" ^ body_str p ]

let mk_adj mh mb = { max_request_header_size = n_of_dec mh; max_request_body_size = n_of_dec mb;
                     adj_url_scheme = bytes_of_hex "68747470" }

(* parser: offer each chunk once; answer = ';'-joined per-call results *)
let do_parse mh mb chunks =
  let a = mk_adj mh mb in
  let rec go p cs acc = match cs with
    | [] -> List.rev acc
    | c :: rest ->
      (match received a p (bytes_of_hex c) with
       | ROk (p', n) -> go p' rest (("ok n=" ^ z_str n ^ " " ^ parser_str p') :: acc)
       | REscapes -> List.rev ("escapes" :: acc)
       | ROutOfFuel -> List.rev ("outoffuel" :: acc)
       | RUnmodelled -> List.rev ("unmodelled" :: acc)) in
  String.concat " ; " (go parser_init chunks [])

let rec drop k l = if k <= 0 then l else match l with [] -> [] | _ :: t -> drop (k - 1) t
let z_int (z : z) : int = match z with Z0 -> 0 | Zpos p -> int_of_pos p | Zneg p -> - (int_of_pos p)

(* the caller's loop: re-offer the unconsumed rest until completed or all taken *)
let do_parseloop mh mb chunks =
  let a = mk_adj mh mb in
  let acc = ref [] in
  let rec offer p data =
    match received a p data with
    | ROk (p', n) ->
      acc := ("ok n=" ^ z_str n ^ " " ^ parser_str p') :: !acc;
      let ni = z_int n in
      if p'.completed || ni >= List.length data || ni <= 0 then Some p'
      else offer p' (drop ni data)
    | REscapes -> acc := "escapes" :: !acc; None
    | ROutOfFuel -> acc := "outoffuel" :: !acc; None
    | RUnmodelled -> acc := "unmodelled" :: !acc; None in
  let rec go p cs = match cs with
    | [] -> ()
    | c :: rest ->
      (match offer p (bytes_of_hex c) with
       | Some p' -> if p'.completed then () else go p' rest
       | None -> ()) in
  go parser_init chunks;
  String.concat " ; " (List.rev !acc)

let chan_str (c : chan) : string =
  String.concat " " [
    "nreq=" ^ string_of_int (List.length c.requests);
    "tasks=" ^ string_of_int (int_of_nat c.add_task_calls);
    "sent_continue=" ^ b2s c.sent_continue;
    "out=" ^ hex_of_bytes c.outlog;
    "cur=" ^ (match c.request with None -> "none" | Some p -> "[" ^ parser_str p ^ "]");
    "reqs=" ^ String.concat "" (List.map (fun p -> "[" ^ parser_str p ^ "]") c.requests) ]

let do_chan mh mb reads =
  let a = mk_adj mh mb in
  let rec go c rs acc = match rs with
    | [] -> List.rev acc
    | r :: rest ->
      (match chan_received a c (bytes_of_hex r) with
       | COk c' -> go c' rest (("ok " ^ chan_str c') :: acc)
       | CEscapes -> List.rev ("escapes" :: acc)
       | COutOfFuel -> List.rev ("outoffuel" :: acc)
       | CUnmodelled -> List.rev ("unmodelled" :: acc)) in
  String.concat " ; " (go chan_init reads [])

let do_chunked chunks =
  let rec go c cs acc = match cs with
    | [] -> List.rev acc
    | x :: rest ->
      (match chunked_received c (bytes_of_hex x) with
       | Some (c', n) ->
         let p = { parser_init with body = Some (BChunked c') } in
         go c' rest (("n=" ^ z_str n ^ " " ^ body_str p) :: acc)
       | None -> List.rev ("outoffuel" :: acc)) in
  String.concat " ; " (go chunked_init chunks [])

let do_fixed cl chunks =
  let rec go f cs acc = match cs with
    | [] -> List.rev acc
    | x :: rest ->
      let (f', n) = fixed_received f (bytes_of_hex x) in
      let p = { parser_init with body = Some (BFixed f') } in
      go f' rest (("n=" ^ z_str n ^ " done=" ^ b2s f'.f_completed ^ " " ^ body_str p) :: acc) in
  String.concat " ; " (go (fixed_init (n_of_dec cl)) chunks [])

let () = main_loop (fun w -> match w with
  | "parse" :: mh :: mb :: chunks -> do_parse mh mb chunks
  | "parseloop" :: mh :: mb :: chunks -> do_parseloop mh mb chunks
  | "chan" :: mh :: mb :: reads -> do_chan mh mb reads
  | "chunked" :: chunks -> do_chunked chunks
  | "fixed" :: cl :: chunks -> do_fixed cl chunks
  | ["splituri"; u] ->
    (match split_uri (bytes_of_hex u) with
     | SOk (a, b, c, d, e) -> "ok " ^ String.concat " " (List.map hex_of_bytes [a; b; c; d; e])
     | SBadURI -> "baduri" | SEscapes -> "escapes" | SUnmodelled -> "unmodelled")
  | _ -> "ERR bad command")
