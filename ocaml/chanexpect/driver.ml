(* line protocol for the extracted Model/ChanExpect.v
   query:  run <choice> <choice> ...
   answer: <state after choice 1> ; <state after choice 2> ; ...   ("DISABLED" where step = None; the run stops there)
   choices:  E | P:<ev>:<more> | S | T | B<i> | W<i> | X<i>:<close> | C<i> | K<i> | D<i> | d | w
   ev:       n | a:<se>:<body> | e | h:<se>:<body>:<compl> | b:<compl>        (a = 431)
   se:       n | t | f ;  booleans 0/1 *)
open Model
open Wvio

let b2s b = if b then "1" else "0"
let s2b s = (s = "1")
let nat_s n = string_of_int (int_of_nat n)

let se_of = function "n" -> None | "t" -> Some true | "f" -> Some false | _ -> failwith "se"

let ev_of (toks : string list) : pev = match toks with
  | ["n"] -> EvNone
  | ["a"; se; b] -> EvHead431 (se_of se, s2b b)
  | ["e"] -> EvHeadEmpty
  | ["h"; se; b; c] -> EvHead (se_of se, s2b b, s2b c)
  | ["b"; c] -> EvBody (s2b c)
  | _ -> failwith "ev"

let idx s = nat_of_int (int_of_string (String.sub s 1 (String.length s - 1)))

let choice_of (w : string) : choice =
  match String.split_on_char ':' w with
  | ["E"] -> CIOEnter
  | "P" :: rest ->
    let n = List.length rest in
    let more = List.nth rest (n - 1) in
    let evt = List.filteri (fun i _ -> i < n - 1) rest in
    CIOParse (ev_of evt, s2b more)
  | ["S"] -> CIOSend
  | ["T"] -> CTake
  | ["d"] -> CDisconnect
  | ["w"] -> CWillClose
  | [x] when x.[0] = 'B' -> CWBegin (idx x)
  | [x] when x.[0] = 'W' -> CWWrite (idx x)
  | [x; c] when x.[0] = 'X' -> CWEnd (idx x, s2b c)
  | [x] when x.[0] = 'C' -> CWClose (idx x)
  | [x] when x.[0] = 'K' -> CWKeep (idx x)
  | [x] when x.[0] = 'D' -> CWSend (idx x)
  | _ -> failwith ("choice " ^ w)

let req_s (q : areq) =
  String.concat ":" [nat_s q.rid; b2s q.a_completed; b2s q.a_expect; b2s q.a_hf; b2s q.a_body; b2s q.a_empty]

let tok_s = function
  | TInterim (i, w) -> "I" ^ nat_s i ^ (if w then "w" else "i")
  | TFinal i -> "F" ^ nat_s i

let io_s = function IOIdle -> "idle" | IOLoop -> "loop" | IOSend m -> "send" ^ b2s m
let w_s = function WStart -> "start" | WTask i -> "task" ^ nat_s i | WClose -> "close" | WKeep -> "keep" | WSend -> "send"

let label_s = function
  | LRefused -> "refused" | LNew i -> "new" ^ nat_s i
  | LInterim (i, w) -> "interim" ^ nat_s i ^ (if w then "w" else "i")
  | LQueue i -> "queue" ^ nat_s i | LEmpty i -> "empty" ^ nat_s i | LAddTask -> "addtask"
  | LServe i -> "serve" ^ nat_s i | LFinal i -> "final" ^ nat_s i | LPop i -> "pop" ^ nat_s i
  | LCloseDecision -> "closedecision"

let lst f l = "[" ^ String.concat "," (List.map f l) ^ "]"

let state_s (s : state) (l : label list) =
  String.concat " " [
    "req=" ^ (match s.request with None -> "none" | Some q -> req_s q);
    "reqs=" ^ lst req_s s.requests;
    "sc=" ^ b2s s.sent_continue; "wc=" ^ b2s s.will_close; "cwf=" ^ b2s s.close_when_flushed;
    "con=" ^ b2s s.connected; "rl=" ^ b2s s.rlock; "io=" ^ io_s s.io;
    "act=" ^ lst w_s s.active; "q=" ^ nat_s s.queued; "out=" ^ lst tok_s s.outlog;
    "next=" ^ nat_s s.next_id; "lab=" ^ lst label_s l ]

let do_run (ws : string list) =
  let rec go s ws acc = match ws with
    | [] -> List.rev acc
    | w :: rest ->
      (match step s (choice_of w) with
       | None -> List.rev ("DISABLED" :: acc)
       | Some (s', l) -> go s' rest (state_s s' l :: acc)) in
  String.concat " ; " (go init ws [])

let () = main_loop (fun w -> match w with
  | "run" :: ws -> do_run ws
  | _ -> "ERR bad command")
