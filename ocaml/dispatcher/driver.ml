(* Line protocol for the extracted dispatcher model (Model/Dispatcher.v).

   run TOK ...      execute the tokens from [init]; answer: one field per token,
                    separated by '|': "X" if the choice is not enabled, else
                    "<labels>;<state>" (formats below)
   explore MAXTASKS MAXCOUNT MAXSTATES
                    breadth-first exploration of the model with at most MAXTASKS
                    submitted tasks and set_thread_count arguments 0..MAXCOUNT;
                    answer "states=N transitions=M bad=K quiescent=Q truncated=0|1 [witness=TOKENS]"

   tokens:  S:<w|->      add_task from outside; notify wakes worker w ('-': nobody to wake)
            R<n>         set_thread_count(n)
            W<w>         critical section of worker w
            F<w>:<v|->   add_task from the task body running on w
            E<w>:<0|1>   the body on w returns / raises
            D<0|1>       shutdown(cancel_pending) called
            T<0|1>       the shutdown thread moves (1: expiration passed)           *)
open Model
open Wvio

let ni = int_of_nat
let rec int_of_z = function Z0 -> 0 | Zpos p -> int_of_pos p | Zneg p -> - (int_of_pos p)
let ints l = if l = [] then "-" else String.concat "." (List.map (fun x -> string_of_int (ni x)) l)

let pc_s = function WAcq -> "A" | WWait -> "W" | WNotified -> "N" | WRun t -> "R" ^ string_of_int (ni t)
let sd_s = function SdIdle -> "idle" | SdAcq -> "acq" | SdWaiting -> "waiting" | SdCancel -> "cancel"
  | SdDone true -> "done1" | SdDone false -> "done0"
let ti_s i = (match i.ti_st with Queued -> "Q" | Running w -> "R" ^ string_of_int (ni w) | Done -> "D" | Cancelled -> "C")
  ^ "/" ^ string_of_int (ni i.ti_svc) ^ "/" ^ string_of_int (ni i.ti_cnc)

let state_s (s : state) =
  Printf.sprintf "q=%s;th=%s;stop=%d;act=%d;lock=%d;qw=%s;xw=%d;ws=%s;sd=%s;cp=%d;led=%s;req=%d;taken=%d;snap=%s;ok=%d;quiescent=%d"
    (ints s.queue) (ints s.threads) (ni s.stop_count) (int_of_z s.active_count)
    (match s.lock with None -> 0 | Some _ -> 1) (ints s.qwait) (if s.xwait then 1 else 0)
    (if s.workers = [] then "-" else String.concat "." (List.map (fun (w, pc) -> string_of_int (ni w) ^ pc_s pc) s.workers))
    (sd_s s.sd) (if s.sd_cancel then 1 else 0)
    (if s.ledger = [] then "-" else String.concat "." (List.map ti_s s.ledger))
    (ni s.requested) (ni s.taken) (ints s.sd_snap)
    (if all_ok s then 1 else 0) (if quiescent s then 1 else 0)

let ow = function None -> "-" | Some w -> string_of_int (ni w)
let b01 b = if b then "1" else "0"
let label_s = function
  | LSubmit (w, t) -> Printf.sprintf "sub:%s:%d" (ow w) (ni t)
  | LNotifyQ w -> Printf.sprintf "nq:%d" (ni w)
  | LNotifyAllQ ws -> "nqa:" ^ ints ws
  | LNotifyX -> "nx"
  | LStart w -> Printf.sprintf "start:%d" (ni w)
  | LStopReq n -> Printf.sprintf "stop:%d" (ni n)
  | LPark w -> Printf.sprintf "park:%d" (ni w)
  | LPop (w, t) -> Printf.sprintf "pop:%d:%d" (ni w) (ni t)
  | LService (w, t) -> Printf.sprintf "svc:%d:%d" (ni w) (ni t)
  | LFinish (w, t, r) -> Printf.sprintf "fin:%d:%d:%s" (ni w) (ni t) (b01 r)
  | LExit w -> Printf.sprintf "exit:%d" (ni w)
  | LSdCall cp -> "sdcall:" ^ b01 cp
  | LSdWait -> "sdwait"
  | LSdTimeout -> "sdto"
  | LSdExpired -> "sdexp"
  | LCancel t -> Printf.sprintf "cancel:%d" (ni t)
  | LSdReturn r -> "sdret:" ^ b01 r
let labels_s ls = if ls = [] then "-" else String.concat "," (List.map label_s ls)

(* index of worker w in the un-notified waiters; a worker that is not there gives an
   index beyond the list, which the model refuses *)
let index_of (w : int) (l : nat list) : int =
  let rec go i = function [] -> List.length l | x :: r -> if ni x = w then i else go (i + 1) r in go 0 l

let waiter (s : state) (tok : string) : nat =
  if tok = "-" then (if s.qwait = [] then O else nat_of_int (List.length s.qwait))
  else nat_of_int (index_of (int_of_string tok) s.qwait)

let choice_of (s : state) (tok : string) : choice =
  let rest = String.sub tok 1 (String.length tok - 1) in
  let parts = String.split_on_char ':' rest in
  match tok.[0], parts with
  | 'S', [""; w] -> CSubmit (waiter s w)
  | 'R', [n] -> CResize (nat_of_int (int_of_string n))
  | 'W', [w] -> CWork (nat_of_int (int_of_string w))
  | 'F', [w; v] -> CFollow (nat_of_int (int_of_string w), waiter s v)
  | 'E', [w; r] -> CFinish (nat_of_int (int_of_string w), r = "1")
  | 'D', [cp] -> CSdCall (cp = "1")
  | 'T', [e] -> CSd (e = "1")
  | _ -> failwith ("bad token " ^ tok)

let run toks =
  let s = ref init in
  let out = List.map (fun tok ->
    match step !s (choice_of !s tok) with
    | None -> "X"
    | Some (s', ls) -> s := s'; labels_s ls ^ ";" ^ state_s s') toks in
  String.concat "|" out

(* ---- the model's own explorer ------------------------------------------------ *)
let tok_of_choice (s : state) (c : choice) : string =
  let wk k = match List.nth_opt s.qwait (ni k) with Some w -> string_of_int (ni w) | None -> "-" in
  match c with
  | CSubmit k -> "S:" ^ wk k
  | CResize n -> "R" ^ string_of_int (ni n)
  | CWork w -> "W" ^ string_of_int (ni w)
  | CFollow (w, k) -> Printf.sprintf "F%d:%s" (ni w) (wk k)
  | CFinish (w, r) -> Printf.sprintf "E%d:%s" (ni w) (b01 r)
  | CSdCall cp -> "D" ^ b01 cp
  | CSd e -> "T" ^ b01 e

let choices (maxtasks : int) (maxcount : int) (s : state) : choice list =
  let ks = if s.qwait = [] then [O] else List.mapi (fun i _ -> nat_of_int i) s.qwait in
  let room = List.length s.ledger < maxtasks in
  let subs = if room then List.map (fun k -> CSubmit k) ks else [] in
  (* repeated up/down resizing creates threads faster than they exit (in the real class as
     well); the exploration keeps at most maxcount+1 live threads *)
  let running = List.length s.threads - ni s.stop_count in
  let res = List.filter_map (fun n ->
      if n > running && List.length s.threads + (n - running) > maxcount + 1 then None
      else Some (CResize (nat_of_int n))) (List.init (maxcount + 1) (fun n -> n)) in
  let ws = List.concat_map (fun (w, pc) ->
    match pc with
    | WAcq | WNotified -> [CWork w]
    | WRun _ -> CFinish (w, false) :: (if room then List.map (fun k -> CFollow (w, k)) ks else [])
    | WWait -> []) s.workers in
  let sdc = if List.length s.threads <= maxcount + 1 then [CSdCall true; CSdCall false] else [] in
  subs @ res @ ws @ sdc @ [CSd true; CSd false]

let explore maxtasks maxcount maxstates =
  let seen : (string, unit) Hashtbl.t = Hashtbl.create 100000 in
  let q = Queue.create () in
  let key s = state_s s in
  Hashtbl.add seen (key init) (); Queue.add (init, []) q;
  let trans = ref 0 and bad = ref 0 and quies = ref 0 and trunc = ref false and wit = ref "" in
  while not (Queue.is_empty q) do
    let (s, path) = Queue.pop q in
    if quiescent s then incr quies;
    if not (all_ok s) then begin
      incr bad; if !wit = "" then wit := String.concat " " (List.rev path) end;
    List.iter (fun c ->
      match step s c with
      | None -> ()
      | Some (s', _) ->
        incr trans;
        let k = key s' in
        if not (Hashtbl.mem seen k) then
          if Hashtbl.length seen >= maxstates then trunc := true
          else begin Hashtbl.add seen k (); Queue.add (s', tok_of_choice s c :: path) q end)
      (choices maxtasks maxcount s)
  done;
  Printf.sprintf "states=%d transitions=%d bad=%d quiescent=%d truncated=%d%s" (Hashtbl.length seen) !trans !bad !quies
    (if !trunc then 1 else 0) (if !wit = "" then "" else " witness=" ^ String.concat "," (String.split_on_char ' ' !wit))

let () = main_loop (fun w -> match w with
  | "run" :: toks -> run toks
  | ["explore"; a; b; c] -> explore (int_of_string a) (int_of_string b) (int_of_string c)
  | _ -> "ERR bad command")
