(* Line protocol for the extracted wake-up model (Model/ChanWake.v).

   explore LOOKAHEAD SB HW POLL2 NW MAXSENDS SIZES MAXSTATES ERRS KINDS
        breadth-first exploration from [init NW]; the client performs at most MAXSENDS
        sends (segments taken from KINDS: r=[IReq] rr=[IReq;IReq] h=[IHead] b=[IBody] hb rh ...),
        the application writes sizes from SIZES (dot separated); ERRS=1 adds failing
        send()/recv() answers.  Answer:
        "states=N transitions=M quiescent=Q bad=B kf=K invbad=I truncated=0|1 [witness=TOKENS] ..."
        bad = quiescent states where c05_ok is false, plus states quiescent up to workers
              inside the application where app_ok is false (kf is always 0 now),
        invbad = reachable states where inv_ok (Proof/ChanWakeInv.v) is false.
   trace LOOKAHEAD SB HW POLL2 NW MODE EV ...   (see below: alignment of a real trace)     *)
open Model
open Wvio

let ni = int_of_nat
let rec int_of_z = function Z0 -> 0 | Zpos p -> int_of_pos p | Zneg p -> - (int_of_pos p)
let z_of_int i = if i = 0 then Z0 else if i > 0 then Zpos (pos_of_int i) else Zneg (pos_of_int (-i))
let zi = int_of_z
let b01 b = if b then "1" else "0"
let si = string_of_int

let item_s = function IReq -> "r" | IHead -> "h" | IBody -> "b"
let items_s l = if l = [] then "-" else String.concat "" (List.map item_s l)
let site_s = function SWr n -> "w" ^ si (zi n) | SEnd -> "e"
let hc_s = function
  | HcRead (ww, eof) -> "rd" ^ b01 ww ^ b01 eof | HcWrite -> "wr" | HcFlushL -> "fL"
  | HcSc (its, ww) -> "sc" ^ items_s its ^ b01 ww

let io_s = function
  | IoR1 -> "R1" | IoR2 -> "R2" | IoR3 -> "R3" | IoR4 -> "R4"
  | IoW1 r -> "W1" ^ b01 r | IoW2 r -> "W2" ^ b01 r | IoW3 r -> "W3" ^ b01 r
  | IoSel (r, w) -> "Sel" ^ b01 r ^ b01 w | IoTrig (r, w) -> "Trig" ^ b01 r ^ b01 w | IoTrigL (r, w) -> "TrigL" ^ b01 r ^ b01 w
  | IoRecv ww -> "Recv" ^ b01 ww
  | IoRcvA (i, w) -> "RcvA" ^ items_s i ^ b01 w | IoRcv1 (i, w) -> "Rcv1" ^ items_s i ^ b01 w
  | IoRcv2 (i, w) -> "Rcv2" ^ items_s i ^ b01 w | IoRcvLoop (i, w) -> "RcvL" ^ items_s i ^ b01 w
  | IoRcvApp (i, w) -> "RcvApp" ^ items_s i ^ b01 w | IoRcvAdd (i, w) -> "RcvAdd" ^ items_s i ^ b01 w
  | IoScA (i, w) -> "ScA" ^ items_s i ^ b01 w | IoSc1 (i, w) -> "Sc1" ^ items_s i ^ b01 w
  | IoScF (i, w) -> "ScF" ^ items_s i ^ b01 w | IoScRel (i, w) -> "ScRel" ^ items_s i ^ b01 w
  | IoRcvRel w -> "RcvRel" ^ b01 w
  | IoHW1 -> "HW1" | IoHW2 -> "HW2" | IoHW2b -> "HW2b" | IoTry -> "Try"
  | IoFlL -> "FlL" | IoNfy -> "Nfy" | IoNfy2 -> "Nfy2" | IoRelL -> "RelL" | IoRelX -> "RelX" | IoSetWc -> "SetWc"
  | IoHW3 -> "HW3" | IoHW4 -> "HW4" | IoHW5 -> "HW5" | IoHW6 -> "HW6" | IoHW7 -> "HW7"
  | IoHC k -> "HC" ^ hc_s k | IoHCb k -> "HCb" ^ hc_s k | IoHCc k -> "HCc" ^ hc_s k
  | IoHCd k -> "HCd" ^ hc_s k | IoHCe k -> "HCe" ^ hc_s k | IoHCx k -> "HCx" ^ hc_s k

let w_s = function
  | WIdle -> "Idle" | WAcq -> "Acq" | WNotif -> "Notif" | WSvc -> "Svc" | WSvc2 -> "Svc2" | WApp -> "App"
  | WWs1 n -> "Ws1." ^ si (zi n) | WWs2 n -> "Ws2." ^ si (zi n)
  | WHw1 st -> "Hw1" ^ site_s st | WHwA -> "HwA" | WHwC st -> "HwC" ^ site_s st | WHwF st -> "HwF" ^ site_s st
  | WHwEP st -> "HwEP" ^ site_s st | WHwEW st -> "HwEW" ^ site_s st
  | WHwEPk (st, cap) -> "HwEPk" ^ site_s st ^ b01 cap | WHwEN st -> "HwEN" ^ site_s st
  | WHwL1 st -> "HwL1" ^ site_s st | WHwL2 st -> "HwL2" ^ site_s st | WHwLP st -> "HwLP" ^ site_s st
  | WHwLW st -> "HwLW" ^ site_s st | WHwLPk st -> "HwLPk" ^ site_s st | WHwLN st -> "HwLN" ^ site_s st
  | WHwRel -> "HwRel"
  | WWs3 n -> "Ws3." ^ si (zi n) | WWs4 n -> "Ws4." ^ si (zi n) | WWs5 -> "Ws5"
  | WWsF b -> "WsF" ^ b01 b | WWs6 -> "Ws6" | WWsP -> "WsP" | WWsRel -> "WsRel" | WCdRel -> "CdRel"
  | WCl1 -> "Cl1" | WCl2 -> "Cl2" | WCl3 -> "Cl3" | WCl4 -> "Cl4"
  | WK1 -> "K1" | WK3 -> "K3" | WK4 -> "K4" | WK5 -> "K5" | WK5b -> "K5b" | WK6 -> "K6"
  | WScA -> "ScA" | WSc1 -> "Sc1" | WScF -> "ScF"
  | WScRel -> "ScRel" | WScX -> "ScX" | WScX2 -> "ScX2"
  | WK7 -> "K7" | WEnd1 -> "End1" | WEnd2 -> "End2"

let tid_s = function None -> "-" | Some TIO -> "io" | Some (TW i) -> "w" ^ si (ni i)

(* the part of the state that the real channel exposes *)
let shared_s (s : state) =
  Printf.sprintf "wc=%s cwf=%s conn=%s total=%d nreq=%d ol=%s rl=%s closed=%s pulled=%s queue=%d"
    (b01 s.wc) (b01 s.cwf) (b01 s.conn) (zi s.total) (ni s.nreq) (tid_s s.olock) (tid_s s.rlock)
    (b01 s.closed) (b01 s.pulled) (ni s.queue)

let state_s (s : state) =
  Printf.sprintf "%s pend=%d p100=%s sc=%s qw=%s rx=%s gone=%s io=%s ws=%s"
    (shared_s s) (zi s.pend) (b01 s.pend100) (b01 s.sentc)
    (String.concat "." (List.map (fun x -> si (ni x)) s.qwait))
    (String.concat "," (List.map items_s s.rx)) (b01 s.gone) (io_s s.io)
    (String.concat "," (List.map w_s s.ws))

let sres_s = function SOk n -> "ok" ^ si (zi n) | SZero -> "z" | SDisc k -> "d" ^ b01 k | SErr -> "e"
let choice_s = function
  | CIo -> "I" | CIoClose k -> "IC" ^ b01 k | CIoRecv (ok, eof) -> "IR" ^ b01 ok ^ b01 eof
  | CIoSend r -> "IS" ^ sres_s r
  | CW i -> "W" ^ si (ni i) | CWSend (i, r) -> "W" ^ si (ni i) ^ "S" ^ sres_s r
  | CWApp (i, Some n, _) -> "W" ^ si (ni i) ^ "A" ^ si (zi n)
  | CWApp (i, None, cl) -> "W" ^ si (ni i) ^ "D" ^ b01 cl
  | CClient seg -> "C" ^ items_s seg | CClientClose -> "CX"

let items_of (t : string) : item list =
  if t = "-" then [] else List.init (String.length t) (fun i ->
    match t.[i] with 'r' -> IReq | 'h' -> IHead | 'b' -> IBody | _ -> failwith "item")

(* ---- exploration --------------------------------------------------------------- *)
let sends (s : state) (errs : bool) : sres list =
  let p = zi s.pend in
  let oks = List.sort_uniq compare (List.filter (fun n -> n >= 1 && n <= p) [1; p; p - 1; p / 2]) in
  List.map (fun n -> SOk (z_of_int n)) oks @ [SZero] @ (if errs then [SDisc false; SDisc true; SErr] else [])

let choices (s : state) (sizes : int list) (kinds : item list list) (budget : int) (errs : bool) : choice list =
  let ioc = match s.io with
    | IoRecv _ -> [CIoRecv (true, false)] @ (if s.gone && s.rx = [] then [CIoRecv (false, true)] else [])
                  @ (if errs then [CIoRecv (false, false); CIoRecv (false, true)] else [])
    | IoScF _ | IoFlL -> CIo :: List.map (fun r -> CIoSend r) (sends s errs)
    | IoHCb _ -> [CIoClose false; CIoClose true]
    | _ -> [CIo] in
  let wsc = List.concat (List.mapi (fun i p ->
    let i' = nat_of_int i in
    match p with
    | WApp -> List.map (fun n -> CWApp (i', Some (z_of_int n), false)) sizes
              @ [CWApp (i', None, false); CWApp (i', None, true)]
    | WHwF _ | WWsF _ | WScF -> CW i' :: List.map (fun r -> CWSend (i', r)) (sends s errs)
    | WSc1 -> [CW i'; CWSend (i', SErr)]
    | _ -> [CW i']) s.ws) in
  let env = if budget > 0 && not s.gone then List.map (fun k -> CClient k) kinds @ [CClientClose]
            else if not s.gone then [CClientClose] else [] in
  ioc @ wsc @ env

let explore c nw maxsends sizes kinds maxstates errs =
  let seen : (string, unit) Hashtbl.t = Hashtbl.create 200000 in
  let q = Queue.create () in
  let s0 = init (nat_of_int nw) in
  let key s b = state_s s ^ "#" ^ si b in
  Hashtbl.add seen (key s0 maxsends) (); Queue.add (s0, maxsends, []) q;
  let trans = ref 0 and bad = ref 0 and kf = ref 0 and quies = ref 0 and trunc = ref false
  and wit = ref "" and kwit = ref "" and invbad = ref 0 and iwit = ref "" and twit = ref "" in
  while not (Queue.is_empty q) do
    let (s, b, path) = Queue.pop q in
    if not (inv_ok c s) then begin
      incr invbad; if !iwit = "" then iwit := String.concat " " (List.rev path) ^ " => " ^ state_s s end;
    if quiescent_app s && not (app_ok c s) && zi c.hw >= 0 then begin
      incr bad; if !wit = "" then wit := "APP " ^ String.concat " " (List.rev path) ^ " => " ^ state_s s end;
    if quiescent s then begin
      incr quies;
      if not (c05_ok s) then begin
        (incr bad; if !wit = "" then wit := String.concat " " (List.rev path) ^ " => " ^ state_s s)
      end
    end;
    List.iter (fun ch ->
      match step c s ch with
      | None -> ()
      | Some (s', _) ->
        incr trans;
        let b' = (match ch with CClient _ -> b - 1 | _ -> b) in
        let k = key s' b' in
        if not (Hashtbl.mem seen k) then
          if Hashtbl.length seen >= maxstates then trunc := true
          else begin Hashtbl.add seen k (); Queue.add (s', b', choice_s ch :: path) q end)
      (choices s sizes kinds b errs)
  done;
  Printf.sprintf "states=%d transitions=%d quiescent=%d bad=%d kf=%d invbad=%d truncated=%s%s%s%s" (Hashtbl.length seen) !trans !quies
    !bad !kf !invbad (b01 !trunc) (if !wit = "" then "" else " witness=" ^ !wit) (if !kwit = "" then "" else " kfwitness=" ^ !kwit)
    (if !iwit = "" then "" else " invwitness=" ^ !iwit) ^ (if !twit = "" then "" else " taintwitness=" ^ !twit)

(* ---- alignment of a real trace -------------------------------------------------
   trace LOOKAHEAD SB HW POLL2 NW MODE EV ...
   MODE = attrs | locks.  EV = thread;label;arg;snap   (no blanks)
     thread: io | w<i> | c
     label : Begin | R<a> W<a> (a: wc cwf conn tot req) | Aq<l> Tr<l> Rl<l> (l: o r d) |
             Wt<c> Wk<c> Nf<c> (c: o q) | Sd | Rv | Sel | Pull | AddTask | Write | Done |
             MapDel | Keep | Client | ClientClose
     arg   : Sd: ok<n> z d e    Rv: 10 | 01 | 00 (ok,eof)   Write: n   Done: 0|1   Keep: 0|1
             ScAppend: 0|1 (a worker-side send_continue: did outbufs[-1].append raise?)
             Client: items
     snap  : "-" or wc,cwf,conn,total,nreq,ol,rl,closed,pulled,queue,pend   the real state after
             this event (and the thread-local code that follows it)
   A model step is fired when the last of its labels has been seen; in MODE locks the
   attribute labels are invisible and steps that show nothing are fired as soon as the
   thread reaches them.  Answer: "OK fired=N compared=M quiescent=b c05=b kf=b io=.. ws=.."
   or "MISMATCH ev=K ..." *)
let attr_s = function AWc -> "wc" | ACwf -> "cwf" | AConn -> "conn" | ATot -> "tot" | AReq -> "req" | ARq -> "rq"
let lk_s = function LkO -> "o" | LkR -> "r" | LkD -> "d" | LkT -> "t"
let cv_s = function CvO -> "o" | CvQ -> "q"
let label_s = function
  | LR a -> "R" ^ attr_s a | LW a -> "W" ^ attr_s a
  | LAcq l -> "Aq" ^ lk_s l | LTry l -> "Tr" ^ lk_s l | LRel l -> "Rl" ^ lk_s l
  | LWait c -> "Wt" ^ cv_s c | LWake c -> "Wk" ^ cv_s c | LNotify c -> "Nf" ^ cv_s c
  | LSend -> "Sd" | LRecv -> "Rv" | LSelect -> "Sel" | LTrigRead -> "TrigRead" | LPull -> "Pull" | LAddTask -> "AddTask"
  | LWrite -> "Write" | LDone -> "Done" | LMapDel -> "MapDel" | LClient -> "Client"
let is_attr = function LR _ | LW _ -> true | _ -> false

let sres_of (a : string) : sres =
  if a = "z" then SZero else if a = "e" then SErr else if a = "d" then SDisc false
  else if String.length a > 2 && String.sub a 0 2 = "ok" then SOk (z_of_int (int_of_string (String.sub a 2 (String.length a - 2))))
  else failwith ("sres " ^ a)

exception Mismatch of string

let trace c nw mode (evs : string list) : string =
  let dump = String.length mode > 5 && String.sub mode (String.length mode - 5) 5 = "+dump" in
  let mode = if dump then String.sub mode 0 (String.length mode - 5) else mode in
  let fired_choices = ref [] in
  let attrs = (mode = "attrs") in
  let evs = Array.of_list (List.map (fun t ->
    match String.split_on_char ';' t with
    | [th; lab; arg; snap] -> (th, lab, arg, snap)
    | _ -> failwith ("bad event " ^ t)) evs) in
  (* per-thread queues of environment answers *)
  let qs : (string, string Queue.t) Hashtbl.t = Hashtbl.create 16 in
  let qget th kind = let k = th ^ "/" ^ kind in
    (match Hashtbl.find_opt qs k with Some q -> q | None -> let q = Queue.create () in Hashtbl.add qs k q; q) in
  Array.iter (fun (th, lab, arg, _) ->
    match lab with
    | "Sd" | "Rv" | "Keep" | "ScAppend" -> Queue.add arg (qget th lab)
    | "Write" -> Queue.add ("w" ^ arg) (qget th "App")
    | "Done" -> Queue.add ("d" ^ arg) (qget th "App")
    | _ -> ()) evs;
  let st = ref (init (nat_of_int nw)) in
  let pending : (string, (string list * choice * (unit -> unit))) Hashtbl.t = Hashtbl.create 8 in
  let fired = ref 0 and compared = ref 0 and invbad = ref 0 and invchecked = ref 0 in
  let tid_of th = if th = "io" then None else Some (int_of_string (String.sub th 1 (String.length th - 1))) in
  let peek th kind = let q = qget th kind in if Queue.is_empty q then None else Some (Queue.peek q) in
  let pop th kind = ignore (Queue.pop (qget th kind)) in
  (* the choice for thread th in the current state and what to pop when it fires *)
  let next_choice th : (choice * (unit -> unit)) option =
    let s = !st in
    let nop = (fun () -> ()) in
    let send mk =
      if zi s.pend <= 0 then Some (mk None, nop)
      else if s.closed then Some (mk (Some SErr), nop)
      else (match peek th "Sd" with
            | Some a ->
              let r = sres_of a in
              let r = (match r, peek th "Keep" with SDisc _, Some k -> SDisc (k = "1") | _ -> r) in
              Some (mk (Some r), (fun () -> pop th "Sd"))
            | None -> None) in
    match tid_of th with
    | None ->
      (match s.io with
       | IoRecv _ -> (match peek th "Rv" with
                      | Some a -> Some (CIoRecv (a.[0] = '1', a.[1] = '1'), (fun () -> pop th "Rv"))
                      | None -> None)
       | IoScF _ | IoFlL -> send (function None -> CIo | Some r -> CIoSend r)
       | IoHCb _ -> (match peek th "Keep" with
                     | Some k -> Some (CIoClose (k = "1"), (fun () -> pop th "Keep"))
                     | None -> Some (CIoClose false, nop))
       | _ -> Some (CIo, nop))
    | Some i ->
      let i' = nat_of_int i in
      (match List.nth_opt s.ws i with
       | None -> None
       | Some WApp -> (match peek th "App" with
                       | Some a ->
                         let v = int_of_string (String.sub a 1 (String.length a - 1)) in
                         Some ((if a.[0] = 'w' then CWApp (i', Some (z_of_int v), false) else CWApp (i', None, v = 1)),
                               (fun () -> pop th "App"))
                       | None -> None)
       | Some (WHwF _ | WWsF _ | WScF) -> send (function None -> CW i' | Some r -> CWSend (i', r))
       | Some WSc1 -> (match peek th "ScAppend" with
                       | Some "1" -> Some (CWSend (i', SErr), (fun () -> pop th "ScAppend"))
                       | Some _ -> Some (CW i', (fun () -> pop th "ScAppend"))
                       | None -> Some (CW i', nop))
       | Some _ -> Some (CW i', nop)) in
  let visible ls = List.map label_s (if attrs then ls else List.filter (fun l -> not (is_attr l)) ls) in
  let fire th ch popf labs =
    (match step c !st ch with
     | Some (s', ls) ->
       if visible ls <> labs then raise (Mismatch (Printf.sprintf "th=%s labels changed before the step fired: %s -> %s"
                                                    th (String.concat "," labs) (String.concat "," (visible ls))));
       st := s'; popf (); incr fired; fired_choices := choice_s ch :: !fired_choices
     | None -> raise (Mismatch (Printf.sprintf "th=%s step %s no longer enabled when its last label arrived" th (choice_s ch)))) in
  let rec greedy th =
    match next_choice th with
    | None -> ()
    | Some (ch, popf) ->
      (match step c !st ch with
       | Some (_, ls) when visible ls = [] -> fire th ch popf []; greedy th
       | _ -> ()) in
  let snap_model () =
    let s = !st in
    String.concat "," [b01 s.wc; b01 s.cwf; b01 s.conn; si (zi s.total); si (ni s.nreq); tid_s s.olock; tid_s s.rlock;
                       b01 s.closed; b01 s.pulled; si (ni s.queue); (if s.closed then "x" else si (zi s.pend))] in
  try
    Array.iteri (fun k (th, lab, arg, snap) ->
      (try
        if th = "c" && lab = "Begin" then ()
        else if th = "c" then begin
          let ch = if lab = "ClientClose" then CClientClose else CClient (items_of arg) in
          (match step c !st ch with Some (s', _) -> st := s'; incr fired; fired_choices := choice_s ch :: !fired_choices
                                  | None -> raise (Mismatch "client step refused"))
        end
        else if lab = "Begin" then greedy th
        else if lab = "Keep" || lab = "ScAppend" then ()
        else if (lab = "Rrq" || lab = "Wrq") &&
                (match Hashtbl.find_opt pending th with Some (l :: _, _, _) -> l <> lab | _ -> true) then ()
        else begin
          (match Hashtbl.find_opt pending th with
           | Some (l :: rest, ch, popf) ->
             if l <> lab then raise (Mismatch (Printf.sprintf "th=%s expected=%s got=%s" th l lab));
             if rest = [] then begin Hashtbl.remove pending th; fire th ch popf (visible (match step c !st ch with Some (_, ls) -> ls | None -> [])); greedy th end
             else Hashtbl.replace pending th (rest, ch, popf)
           | _ ->
             greedy th;
             (match next_choice th with
              | None -> raise (Mismatch (Printf.sprintf "th=%s got=%s but the model needs an environment answer that the trace does not contain" th lab))
              | Some (ch, popf) ->
                (match step c !st ch with
                 | None -> raise (Mismatch (Printf.sprintf "th=%s got=%s but the model's step %s is not enabled" th lab (choice_s ch)))
                 | Some (_, ls) ->
                   (match visible ls with
                    | [] -> raise (Mismatch "internal: invisible step not fired")
                    | l :: rest ->
                      if l <> lab then raise (Mismatch (Printf.sprintf "th=%s expected=%s got=%s" th (String.concat "," (l :: rest)) lab));
                      if rest = [] then begin fire th ch popf [l]; greedy th end
                      else Hashtbl.replace pending th (rest, ch, popf)))))
        end
      with Mismatch m -> raise (Mismatch (Printf.sprintf "ev=%d %s;%s;%s %s || %s" k th lab arg m (state_s !st))));
      if Hashtbl.length pending = 0 then begin
        incr invchecked; if not (inv_ok c !st) then incr invbad end;
      if snap <> "-" && Hashtbl.length pending = 0 then begin
        incr compared;
        let m = snap_model () in
        let eqf a b = List.length a = List.length b && List.for_all2 (fun x y -> x = y || y = "*") a b in
        if not (eqf (String.split_on_char ',' m) (String.split_on_char ',' snap)) then raise (Mismatch (Printf.sprintf "ev=%d %s;%s state differs: model=%s real=%s || %s" k th lab m snap (state_s !st)))
      end) evs;
    let s = !st in
    Printf.sprintf "OK fired=%d compared=%d quiescent=%s parked=%s c05=%s invchecked=%d invbad=%d pending=%d io=%s ws=%s" !fired !compared
      (b01 (quiescent s)) (b01 (quiescent_parked s)) (b01 (c05_ok s)) !invchecked !invbad (Hashtbl.length pending) (io_s s.io)
      (String.concat "," (List.map w_s s.ws))
    ^ (if dump then " choices=" ^ String.concat "," (List.rev !fired_choices) else "")
  with Mismatch m -> "MISMATCH " ^ m

let cfg_of l s h p =
  { lookahead = nat_of_int (int_of_string l); sb = z_of_int (int_of_string s); hw = z_of_int (int_of_string h);
    poll2 = (p = "1") }

let handle words =
  match words with
  | ["explore"; l; s; h; p; nw; ms; sizes; maxst; errs; kinds] ->
    let sizes = List.map int_of_string (String.split_on_char '.' sizes) in
    let kinds = List.map items_of (String.split_on_char '.' kinds) in
    explore (cfg_of l s h p) (int_of_string nw) (int_of_string ms) sizes kinds (int_of_string maxst) (errs = "1")
  | "trace" :: l :: s :: h :: p :: nw :: mode :: evs ->
    trace (cfg_of l s h p) (int_of_string nw) mode evs
  | _ -> "ERR bad command"

let () = main_loop handle
