#!/usr/bin/env python3
"""Translate the small decision procedures of the connection code into Gallina
(coq/Gen/GenPreds.v):

  HTTPChannel.readable / HTTPChannel.writable            (boolean expressions)
  HTTPChannel.handle_write                               (flush selection, and the
                                                          close_when_flushed / will_close tail)
  BaseWSGIServer.maintenance                             (cutoff and the reaping test)
  BaseWSGIServer.readable                                (maintenance-due test, next_channel_cleanup
                                                          update, both branches of the admission
                                                          test with the in_connection_overflow update)
  wasyncore.poll                                         (which objects enter the r / w / e lists, which
                                                          handle_*_event each select result list gets)
  wasyncore.poll2 / readwrite                            (the event mask registered per object, the dispatch
                                                          loop, which handler is called for which returned flags)

Each item becomes a Gallina function over *named fields* (a fixed signature per
item).  A tiny symbolic executor handles `if/elif/else`, assignments to the
listed fields, `return`, and the whitelisted effect calls; everything else is
refused.  Fail closed: a refused item is emitted as a comment (ABSENT), so every
Coq file using it stops compiling, and a TRANSLATOR-PROBLEM line is printed.
"""
import ast
import copy
import os
import sys

REPO = os.environ.get("WAITRESS_REPO", "/repo")
SRC = os.path.join(REPO, "src", "waitress")


class Unsupported(Exception):
    pass


# ---------------------------------------------------------------------------
# typing environment: attribute paths -> (atom name, type)
#   type: "bool" | "Z" | "len" (a container: only len(x) and truthiness are allowed,
#   both expressed through the atom  len_<x> : Z)

SELF_FIELDS = {
    "will_close": ("will_close", "bool"),
    "close_when_flushed": ("close_when_flushed", "bool"),
    "in_connection_overflow": ("in_connection_overflow", "bool"),
    "accepting": ("accepting", "bool"),
    "total_outbufs_len": ("total_outbufs_len", "Z"),
    "last_activity": ("last_activity", "Z"),
    "next_channel_cleanup": ("next_channel_cleanup", "Z"),
    "requests": ("len_requests", "len"),
    "_map": ("map_len", "len"),
}
ADJ_FIELDS = {
    "channel_request_lookahead": ("channel_request_lookahead", "Z"),
    "connection_limit": ("connection_limit", "Z"),
    "cleanup_interval": ("cleanup_interval", "Z"),
    "channel_timeout": ("channel_timeout", "Z"),
    "send_bytes": ("send_bytes", "Z"),
    "outbuf_high_watermark": ("outbuf_high_watermark", "Z"),
}

CMP = {
    ast.Lt: "Z.ltb", ast.LtE: "Z.leb", ast.Gt: "Z.gtb", ast.GtE: "Z.geb", ast.Eq: "Z.eqb",
}


class Tr:
    """Expression translator.  `objs` = names that denote an object whose
    fields are in SELF_FIELDS (e.g. {"self", "channel"}); `locals_` maps local
    variable names to (gallina text, type)."""

    def __init__(self, objs, locals_=None):
        self.objs = set(objs)
        self.locals = dict(locals_ or {})
        self.atoms = set()
        self.overrides = {}  # atom -> current gallina name (after assignments)

    def atom(self, name):
        self.atoms.add(name)
        return self.overrides.get(name, name)

    def field(self, node):
        """-> (atom, type) for self.f / obj.f / self.adj.f ; None otherwise"""
        if isinstance(node, ast.Attribute):
            v = node.value
            if isinstance(v, ast.Name) and v.id in self.objs and node.attr in SELF_FIELDS:
                return SELF_FIELDS[node.attr]
            if (isinstance(v, ast.Attribute) and isinstance(v.value, ast.Name) and v.value.id in self.objs
                    and v.attr == "adj" and node.attr in ADJ_FIELDS):
                return ADJ_FIELDS[node.attr]
        return None

    def expr(self, e):
        """-> (gallina text, type in {"bool","Z","len"})"""
        f = self.field(e)
        if f is not None:
            return self.atom(f[0]), f[1]
        if isinstance(e, ast.Name):
            if e.id in self.locals:
                return self.locals[e.id]
            raise Unsupported("name %s" % e.id)
        if isinstance(e, ast.Constant):
            if e.value is True:
                return "true", "bool"
            if e.value is False:
                return "false", "bool"
            if isinstance(e.value, int):
                return ("%d" % e.value if e.value >= 0 else "(%d)" % e.value), "Z"
            raise Unsupported("constant %r" % (e.value,))
        if isinstance(e, ast.BoolOp):
            op = "orb" if isinstance(e.op, ast.Or) else "andb"
            parts = [self.truthy(v) for v in e.values]
            out = parts[0]
            for p in parts[1:]:
                out = "(%s %s %s)" % (op, out, p)
            return out, "bool"
        if isinstance(e, ast.UnaryOp) and isinstance(e.op, ast.Not):
            return "(negb %s)" % self.truthy(e.operand), "bool"
        if isinstance(e, ast.Compare):
            if len(e.ops) != 1:
                raise Unsupported("chained comparison")
            a = self.num(e.left)
            b = self.num(e.comparators[0])
            op = type(e.ops[0])
            if op is ast.NotEq:
                return "(negb (Z.eqb %s %s))" % (a, b), "bool"
            if op not in CMP:
                raise Unsupported("comparison %s" % op.__name__)
            return "(%s %s %s)" % (CMP[op], a, b), "bool"
        if isinstance(e, ast.BinOp) and isinstance(e.op, (ast.Add, ast.Sub)):
            a = self.num(e.left)
            b = self.num(e.right)
            return "(%s %s %s)" % ("Z.add" if isinstance(e.op, ast.Add) else "Z.sub", a, b), "Z"
        if (isinstance(e, ast.Call) and isinstance(e.func, ast.Name) and e.func.id == "len"
                and len(e.args) == 1 and not e.keywords):
            t, ty = self.expr(e.args[0])
            if ty != "len":
                raise Unsupported("len() of a non-container")
            return t, "Z"
        raise Unsupported("expression %s" % ast.dump(e)[:80])

    def num(self, e):
        t, ty = self.expr(e)
        if ty != "Z":
            raise Unsupported("arithmetic/comparison on a non-integer (%s)" % ty)
        return t

    def truthy(self, e):
        t, ty = self.expr(e)
        if ty == "bool":
            return t
        # Python truthiness of an int / of a container (through its length)
        return "(negb (Z.eqb %s 0))" % t


class Exec:
    """Symbolic execution of a statement list over a few assignable fields and
    effect flags.  The result is a Gallina expression: the tuple
    (fields in `outs` order ..., [return value])."""

    def __init__(self, tr, outs, effects, with_return, clock=False):
        self.tr = tr
        self.outs = outs              # atoms (assignable fields) and effect names, in output order
        self.effects = effects        # {method name: (effect flag name, [gallina text of each argument])}
        self.with_return = with_return
        self.n = 0
        self.clock = clock            # `<local> = time.time()` binds the local to the parameter `now`

    def fresh(self, base):
        self.n += 1
        return "%s_%d" % (base, self.n)

    def tuple_(self, st, ret):
        parts = [st[o] for o in self.outs]
        if self.with_return:
            parts.append(ret)
        return "(" + ", ".join(parts) + ")"

    def is_logging(self, s):
        # self.logger.<level>(...)  -- no effect on the modelled state
        if not (isinstance(s, ast.Expr) and isinstance(s.value, ast.Call)):
            return False
        f = s.value.func
        return (isinstance(f, ast.Attribute) and f.attr in ("warning", "info", "debug", "exception", "error")
                and isinstance(f.value, ast.Attribute) and f.value.attr == "logger"
                and isinstance(f.value.value, ast.Name) and f.value.value.id == "self")

    def run(self, stmts, st):
        if not stmts:
            return self.tuple_(st, "false")  # falls off the end: None is falsy
        s, rest = stmts[0], stmts[1:]
        saved_over = dict(self.tr.overrides)
        saved_loc = dict(self.tr.locals)
        try:
            if isinstance(s, ast.Expr) and isinstance(s.value, ast.Constant) and isinstance(s.value.value, str):
                return self.run(rest, st)  # docstring
            if isinstance(s, ast.Pass) or self.is_logging(s):
                return self.run(rest, st)
            if isinstance(s, ast.Return):
                if not self.with_return:
                    raise Unsupported("return in a procedure")
                if s.value is None:
                    return self.tuple_(st, "false")
                return self.tuple_(st, self.tr.truthy(s.value))
            if isinstance(s, ast.If):
                t = self.tr.truthy(s.test)
                a = self.run(list(s.body) + rest, dict(st))
                self.tr.overrides = dict(saved_over)
                self.tr.locals = dict(saved_loc)
                b = self.run(list(s.orelse) + rest, dict(st))
                return "(if %s then %s else %s)" % (t, a, b)
            if isinstance(s, ast.AnnAssign) and s.value is not None and s.simple:
                s = ast.Assign(targets=[s.target], value=s.value)
            if isinstance(s, ast.Assign) and len(s.targets) == 1:
                tgt = s.targets[0]
                f = self.tr.field(tgt)
                if f is not None and f[0] in self.outs and isinstance(tgt.value, ast.Name) and tgt.value.id == "self":
                    val, ty = self.tr.expr(s.value)
                    if ty != f[1]:
                        raise Unsupported("assignment of %s to %s field %s" % (ty, f[1], f[0]))
                    v = self.fresh(f[0])
                    self.tr.atoms.add(f[0])
                    self.tr.overrides[f[0]] = v
                    st2 = dict(st)
                    st2[f[0]] = v
                    return "(let %s := %s in %s)" % (v, val, self.run(rest, st2))
                if isinstance(tgt, ast.Name):
                    # a function-local name (whatever it is called): bound by `let`, so the
                    # right-hand side is evaluated once, in the state at this point
                    c = s.value
                    is_clock = (isinstance(c, ast.Call) and not c.args and not c.keywords
                                and isinstance(c.func, ast.Attribute) and c.func.attr == "time"
                                and isinstance(c.func.value, ast.Name) and c.func.value.id == "time")
                    if is_clock:
                        if not self.clock:
                            raise Unsupported("time.time() read here")
                        self.tr.locals[tgt.id] = ("now", "Z")
                        self.tr.atoms.add("now")
                        return self.run(rest, st)
                    val, ty = self.tr.expr(s.value)
                    if ty not in ("bool", "Z"):
                        raise Unsupported("local %s bound to a container" % tgt.id)
                    self.n += 1
                    v = "loc_%d" % self.n
                    self.tr.locals[tgt.id] = (v, ty)
                    return "(let %s := %s in %s)" % (v, val, self.run(rest, st))
                raise Unsupported("assignment %s" % ast.dump(tgt)[:60])
            if isinstance(s, ast.Expr) and isinstance(s.value, ast.Call):
                c = s.value
                f = c.func
                if (isinstance(f, ast.Attribute) and isinstance(f.value, ast.Name) and f.value.id == "self"
                        and f.attr in self.effects and not c.keywords):
                    name, want_args = self.effects[f.attr]
                    try:
                        got = [self.tr.expr(a)[0] for a in c.args]
                    except Unsupported:
                        got = None
                    if got != want_args:
                        raise Unsupported("call self.%s with arguments %r (expected %r)" % (f.attr, got, want_args))
                    st2 = dict(st)
                    st2[name] = "true"
                    return self.run(rest, st2)
            raise Unsupported("statement %s" % ast.dump(s)[:80])
        finally:
            self.tr.overrides = saved_over
            self.tr.locals = saved_loc


# ---------------------------------------------------------------------------


def find_method(tree, cls, meth):
    for node in tree.body:
        if isinstance(node, ast.ClassDef) and node.name == cls:
            found = [n for n in node.body if isinstance(n, ast.FunctionDef) and n.name == meth]
            if len(found) != 1:
                raise Unsupported("%d definitions of %s.%s" % (len(found), cls, meth))
            return found[0]
    raise Unsupported("class %s not found" % cls)


def find_function(tree, name):
    found = [n for n in tree.body if isinstance(n, ast.FunctionDef) and n.name == name]
    if len(found) != 1:
        raise Unsupported("%d definitions of %s" % (len(found), name))
    return found[0]


def strip_doc(body):
    body = list(body)
    if body and isinstance(body[0], ast.Expr) and isinstance(body[0].value, ast.Constant) and isinstance(body[0].value.value, str):
        body = body[1:]
    return body


class _Subst(ast.NodeTransformer):
    def __init__(self, env):
        self.env = env

    def visit_Name(self, node):
        if isinstance(node.ctx, ast.Load) and node.id in self.env:
            return copy.deepcopy(self.env[node.id])
        return node


def single_return_expr(fn):
    """The expression a predicate method returns.  Accepted: `return e`, possibly preceded by
    assignments of pure expressions to function-local names, each assigned once (`x = e1; return not x`):
    the locals are substituted into the returned expression (the predicates read attributes only, the
    value of the method is the value of the inlined expression).  Anything else is refused."""
    body = strip_doc(fn.body)
    env = {}
    for st in body[:-1]:
        if isinstance(st, ast.Assign) and len(st.targets) == 1 and isinstance(st.targets[0], ast.Name):
            name, value = st.targets[0].id, st.value
        elif isinstance(st, ast.AnnAssign) and isinstance(st.target, ast.Name) and st.value is not None:
            name, value = st.target.id, st.value
        else:
            raise Unsupported("%s is not a sequence of local assignments followed by one return" % fn.name)
        if name in env or name == "self":
            raise Unsupported("%s assigns the local %s twice" % (fn.name, name))
        env[name] = _Subst(env).visit(copy.deepcopy(value))
    if not body or not isinstance(body[-1], ast.Return) or body[-1].value is None:
        raise Unsupported("%s does not end in a return statement" % fn.name)
    return _Subst(env).visit(copy.deepcopy(body[-1].value))


def sig_text(sig):
    return " ".join("(%s : %s)" % (n, t) for n, t in sig)


def check_atoms(tr, sig, what):
    names = {n for n, _ in sig}
    extra = tr.atoms - names
    if extra:
        raise Unsupported("%s reads fields outside its signature: %s" % (what, sorted(extra)))


def definition(name, sig, rtype, body):
    return "Definition %s %s : %s :=\n  %s." % (name, sig_text(sig), rtype, body)


# signatures (argument order is the interface with Model/Server.v)
SIG = {
    "gen_chan_readable": [("will_close", "bool"), ("close_when_flushed", "bool"), ("len_requests", "Z"),
                          ("channel_request_lookahead", "Z"), ("total_outbufs_len", "Z")],
    "gen_chan_writable": [("total_outbufs_len", "Z"), ("will_close", "bool"), ("close_when_flushed", "bool")],
    "gen_hw_flush": [("len_requests", "Z"), ("total_outbufs_len", "Z"), ("send_bytes", "Z"),
                     ("outbuf_high_watermark", "Z")],
    "gen_hw_after": [("close_when_flushed", "bool"), ("will_close", "bool"), ("total_outbufs_len", "Z")],
    "gen_maint_cutoff": [("now", "Z"), ("channel_timeout", "Z")],
    "gen_maint_test": [("len_requests", "Z"), ("last_activity", "Z"), ("cutoff", "Z")],
    "gen_srv_readable": [("now", "Z"), ("next_channel_cleanup", "Z"), ("cleanup_interval", "Z"),
                         ("accepting", "bool"), ("in_connection_overflow", "bool"), ("map_len", "Z"),
                         ("connection_limit", "Z")],
    "gen_poll_r": [("is_r", "bool"), ("is_w", "bool"), ("accepting", "bool")],
    "gen_poll_w": [("is_r", "bool"), ("is_w", "bool"), ("accepting", "bool")],
    "gen_poll_e": [("is_r", "bool"), ("is_w", "bool"), ("accepting", "bool")],
}


def item_chan_readable(trees):
    fn = find_method(trees["channel"], "HTTPChannel", "readable")
    tr = Tr({"self"})
    body = tr.truthy(single_return_expr(fn))
    check_atoms(tr, SIG["gen_chan_readable"], "HTTPChannel.readable")
    return [definition("gen_chan_readable", SIG["gen_chan_readable"], "bool", body)]


def item_chan_writable(trees):
    fn = find_method(trees["channel"], "HTTPChannel", "writable")
    tr = Tr({"self"})
    body = tr.truthy(single_return_expr(fn))
    check_atoms(tr, SIG["gen_chan_writable"], "HTTPChannel.writable")
    return [definition("gen_chan_writable", SIG["gen_chan_writable"], "bool", body)]


def item_handle_write(trees):
    fn = find_method(trees["channel"], "HTTPChannel", "handle_write")
    body = strip_doc(fn.body)
    if len(body) < 2:
        raise Unsupported("handle_write: unexpected shape")
    # 2. self._flush_exception(<local>)  -- read first: it names the local of step 1
    c = body[1]
    ok = (isinstance(c, ast.Expr) and isinstance(c.value, ast.Call) and isinstance(c.value.func, ast.Attribute)
          and c.value.func.attr == "_flush_exception" and isinstance(c.value.func.value, ast.Name)
          and c.value.func.value.id == "self" and len(c.value.args) == 1 and not c.value.keywords
          and isinstance(c.value.args[0], ast.Name))
    if not ok:
        raise Unsupported("handle_write: second statement is not self._flush_exception(<local>)")
    flush_var = c.value.args[0].id
    # 1. the if/elif/else chain that selects the flush function
    FL = {"_flush_some": "FlushSome", "_flush_some_if_lockable": "FlushIfLockable"}
    tr = Tr({"self"})

    def sel(stmts):
        if len(stmts) != 1:
            raise Unsupported("handle_write: flush selection branch has %d statements" % len(stmts))
        s = stmts[0]
        if isinstance(s, ast.If):
            if not s.orelse:
                raise Unsupported("handle_write: flush selection without else")
            t = tr.truthy(s.test)
            return "(if %s then %s else %s)" % (t, sel(s.body), sel(s.orelse))
        if (isinstance(s, ast.Assign) and len(s.targets) == 1 and isinstance(s.targets[0], ast.Name)
                and s.targets[0].id == flush_var):
            v = s.value
            if isinstance(v, ast.Constant) and v.value is None:
                return "FlushNone"
            if (isinstance(v, ast.Attribute) and isinstance(v.value, ast.Name) and v.value.id == "self" and v.attr in FL):
                return FL[v.attr]
        raise Unsupported("handle_write: flush selection statement %s" % ast.dump(s)[:60])

    flush = sel([body[0]])
    check_atoms(tr, SIG["gen_hw_flush"], "handle_write flush selection")
    # 3. the tail: close_when_flushed -> will_close, will_close -> handle_close()
    tr2 = Tr({"self"})
    ex = Exec(tr2, ["close_when_flushed", "will_close", "closed"], {"handle_close": ("closed", [])}, False)
    tail = ex.run(body[2:], {"close_when_flushed": "close_when_flushed", "will_close": "will_close", "closed": "false"})
    check_atoms(tr2, SIG["gen_hw_after"], "handle_write tail")
    return [definition("gen_hw_flush", SIG["gen_hw_flush"], "flush_kind", flush),
            definition("gen_hw_after", SIG["gen_hw_after"], "bool * bool * bool", tail)]


def item_maintenance(trees):
    fn = find_method(trees["server"], "BaseWSGIServer", "maintenance")
    if len(fn.args.args) != 2 or fn.args.args[0].arg != "self" or fn.args.vararg or fn.args.kwarg or fn.args.kwonlyargs:
        raise Unsupported("maintenance: arguments")
    now_var = fn.args.args[1].arg
    body = strip_doc(fn.body)
    if len(body) != 2:
        raise Unsupported("maintenance: expected `cutoff = ...` and one for loop")
    a, loop = body
    if isinstance(a, ast.AnnAssign) and a.value is not None and a.simple:
        a = ast.Assign(targets=[a.target], value=a.value)
    if not (isinstance(a, ast.Assign) and len(a.targets) == 1 and isinstance(a.targets[0], ast.Name)):
        raise Unsupported("maintenance: first statement is not <local> = ...")
    cutoff_var = a.targets[0].id
    tr = Tr({"self"}, {now_var: ("now", "Z")})
    cutoff = tr.num(a.value)
    tr.atoms.add("now")
    check_atoms(tr, SIG["gen_maint_cutoff"], "maintenance cutoff")
    it = loop.iter if isinstance(loop, ast.For) else None
    ok = (isinstance(loop, ast.For) and not loop.orelse and isinstance(loop.target, ast.Name)
          and isinstance(it, ast.Call) and not it.args and isinstance(it.func, ast.Attribute) and it.func.attr == "values"
          and isinstance(it.func.value, ast.Attribute) and it.func.value.attr == "active_channels"
          and isinstance(it.func.value.value, ast.Name) and it.func.value.value.id == "self")
    if not ok:
        raise Unsupported("maintenance: loop is not `for <c> in self.active_channels.values()`")
    var = loop.target.id
    if len(loop.body) != 1 or not isinstance(loop.body[0], ast.If) or loop.body[0].orelse:
        raise Unsupported("maintenance: loop body is not a single if without else")
    cond = loop.body[0]
    if len(cond.body) != 1:
        raise Unsupported("maintenance: if body has %d statements" % len(cond.body))
    s = cond.body[0]
    ok = (isinstance(s, ast.Assign) and len(s.targets) == 1 and isinstance(s.targets[0], ast.Attribute)
          and s.targets[0].attr == "will_close" and isinstance(s.targets[0].value, ast.Name)
          and s.targets[0].value.id == var and isinstance(s.value, ast.Constant) and s.value.value is True)
    if not ok:
        raise Unsupported("maintenance: if body is not `<c>.will_close = True`")
    if var in (cutoff_var, now_var, "self"):
        raise Unsupported("maintenance: loop variable shadows %s" % var)
    tr2 = Tr({var}, {cutoff_var: ("cutoff", "Z")})
    test = tr2.truthy(cond.test)
    tr2.atoms.add("cutoff")
    check_atoms(tr2, SIG["gen_maint_test"], "maintenance test")
    return [definition("gen_maint_cutoff", SIG["gen_maint_cutoff"], "Z", cutoff),
            definition("gen_maint_test", SIG["gen_maint_test"], "bool", test)]


def item_srv_readable(trees):
    fn = find_method(trees["server"], "BaseWSGIServer", "readable")
    tr = Tr({"self"})
    ex = Exec(tr, ["next_channel_cleanup", "maint", "in_connection_overflow"], {"maintenance": ("maint", ["now"])},
              True, clock=True)
    body = ex.run(strip_doc(fn.body), {"next_channel_cleanup": "next_channel_cleanup", "maint": "false",
                                       "in_connection_overflow": "in_connection_overflow"})
    check_atoms(tr, SIG["gen_srv_readable"], "BaseWSGIServer.readable")
    return [definition("gen_srv_readable", SIG["gen_srv_readable"], "Z * bool * bool * bool", body)]


def item_poll(trees):
    fn = find_function(trees["wasyncore"], "poll")
    loops = [n for n in ast.walk(fn) if isinstance(n, ast.For) and isinstance(n.target, ast.Tuple)
             and len(n.target.elts) == 2 and all(isinstance(e, ast.Name) for e in n.target.elts)]
    if len(loops) != 1:
        raise Unsupported("poll: %d loops over a pair" % len(loops))
    fd_var, obj_var = [e.id for e in loops[0].target.elts]
    # the three lists, by their position in select.select(r, w, e, timeout)
    sels = [n for n in ast.walk(fn) if isinstance(n, ast.Call) and isinstance(n.func, ast.Attribute)
            and n.func.attr == "select" and isinstance(n.func.value, ast.Name) and n.func.value.id == "select"]
    if len(sels) != 1 or len(sels[0].args) != 4 or not all(isinstance(a, ast.Name) for a in sels[0].args[:3]):
        raise Unsupported("poll: select.select(r, w, e, timeout) not found")
    lists = dict(zip([a.id for a in sels[0].args[:3]], ("r", "w", "e")))
    if len(lists) != 3:
        raise Unsupported("poll: select lists are not three distinct locals")
    body = loops[0].body
    if len(body) < 2:
        raise Unsupported("poll: loop body")

    def call_assign(s, meth):
        ok = (isinstance(s, ast.Assign) and len(s.targets) == 1 and isinstance(s.targets[0], ast.Name)
              and isinstance(s.value, ast.Call) and not s.value.args and not s.value.keywords
              and isinstance(s.value.func, ast.Attribute) and s.value.func.attr == meth
              and isinstance(s.value.func.value, ast.Name) and s.value.func.value.id == obj_var)
        return s.targets[0].id if ok else None

    r_var, w_var = call_assign(body[0], "readable"), call_assign(body[1], "writable")
    if r_var is None or w_var is None or r_var == w_var:
        raise Unsupported("poll: loop does not start with <a> = obj.readable(); <b> = obj.writable()")
    tests = {}
    for s in body[2:]:
        ok = (isinstance(s, ast.If) and not s.orelse and len(s.body) == 1 and isinstance(s.body[0], ast.Expr)
              and isinstance(s.body[0].value, ast.Call) and isinstance(s.body[0].value.func, ast.Attribute)
              and s.body[0].value.func.attr == "append" and isinstance(s.body[0].value.func.value, ast.Name)
              and s.body[0].value.func.value.id in lists
              and [getattr(a, "id", None) for a in s.body[0].value.args] == [fd_var])
        if not ok:
            raise Unsupported("poll: loop statement %s" % ast.dump(s)[:60])
        which = lists[s.body[0].value.func.value.id]
        if which in tests:
            raise Unsupported("poll: two appends to %s" % which)
        tr = Tr({obj_var}, {r_var: ("is_r", "bool"), w_var: ("is_w", "bool")})
        tests[which] = tr.truthy(s.test)
        check_atoms(tr, SIG["gen_poll_r"], "poll " + which)
    out = []
    for which in ("r", "w", "e"):
        out.append(definition("gen_poll_" + which, SIG["gen_poll_" + which], "bool", tests.get(which, "false")))
    return out



# ---------------------------------------------------------------------------
# the two loop bodies: poll (select) dispatch, poll2 (select.poll) scan + readwrite

POLLBITS = ["POLLIN", "POLLPRI", "POLLOUT", "POLLERR", "POLLHUP", "POLLNVAL"]
PF = {"POLLIN": "pf_in", "POLLPRI": "pf_pri", "POLLOUT": "pf_out", "POLLERR": "pf_err",
      "POLLHUP": "pf_hup", "POLLNVAL": "pf_nval"}
RF = {"POLLIN": "f_in", "POLLPRI": "f_pri", "POLLOUT": "f_out", "POLLERR": "f_err", "POLLHUP": "f_hup", "POLLNVAL": "f_nval"}
HANDLERS = {"handle_read_event": "read", "handle_write_event": "write", "handle_expt_event": "expt",
            "handle_close": "close"}


def flagset(e):
    """select.POLLx | select.POLLy ...  -> set of bit names (parentheses are invisible in the ast)"""
    if (isinstance(e, ast.Attribute) and isinstance(e.value, ast.Name) and e.value.id == "select"
            and e.attr in POLLBITS):
        return {e.attr}
    if isinstance(e, ast.BinOp) and isinstance(e.op, ast.BitOr):
        return flagset(e.left) | flagset(e.right)
    raise Unsupported("flag expression %s" % ast.dump(e)[:60])


def obj_call(e, obj_var):
    """obj.<meth>() without arguments -> meth"""
    if (isinstance(e, ast.Call) and not e.args and not e.keywords and isinstance(e.func, ast.Attribute)
            and isinstance(e.func.value, ast.Name) and e.func.value.id == obj_var):
        return e.func.attr
    return None


class ScanTr(Tr):
    """Tr + obj.readable() / obj.writable() as the atoms is_r / is_w (each may be
    called once per object and scan: they have side effects in the real classes)."""

    def __init__(self, obj_var):
        Tr.__init__(self, {obj_var})
        self.obj_var = obj_var
        self.calls = []

    def expr(self, e):
        m = obj_call(e, self.obj_var)
        if m in ("readable", "writable"):
            self.calls.append(m)
            return ("is_r" if m == "readable" else "is_w"), "bool"
        return Tr.expr(self, e)


def is_map_get(e):
    return (isinstance(e, ast.Attribute) and e.attr == "get" and isinstance(e.value, ast.Name) and e.value.id == "map")


def map_get_aliases(fn):
    """locals bound (once) to the bound method map.get"""
    out = set()
    for n in ast.walk(fn):
        if (isinstance(n, ast.Assign) and len(n.targets) == 1 and isinstance(n.targets[0], ast.Name)
                and is_map_get(n.value)):
            out.add(n.targets[0].id)
    for n in ast.walk(fn):   # an alias assigned anything else is not an alias
        if isinstance(n, (ast.Assign, ast.AugAssign)):
            for tg in (n.targets if isinstance(n, ast.Assign) else [n.target]):
                if isinstance(tg, ast.Name) and tg.id in out and not is_map_get(n.value):
                    out.discard(tg.id)
    return out


def map_get_skip(body, fd_var, aliases=()):
    """obj = map.get(fd); if obj is None: continue   -> (obj name, rest of the body)"""
    if len(body) < 2:
        raise Unsupported("dispatch loop body")
    a, c = body[0], body[1]
    ok = (isinstance(a, ast.Assign) and len(a.targets) == 1 and isinstance(a.targets[0], ast.Name)
          and isinstance(a.value, ast.Call)
          and (is_map_get(a.value.func) or (isinstance(a.value.func, ast.Name) and a.value.func.id in aliases))
          and [getattr(x, "id", None) for x in a.value.args] == [fd_var] and not a.value.keywords)
    if not ok:
        raise Unsupported("dispatch loop does not start with <obj> = map.get(<fd>)")
    obj = a.targets[0].id
    ok = (isinstance(c, ast.If) and not c.orelse and len(c.body) == 1 and isinstance(c.body[0], ast.Continue)
          and isinstance(c.test, ast.Compare) and len(c.test.ops) == 1 and isinstance(c.test.ops[0], ast.Is)
          and isinstance(c.test.left, ast.Name) and c.test.left.id == obj
          and isinstance(c.test.comparators[0], ast.Constant) and c.test.comparators[0].value is None)
    if not ok:
        raise Unsupported("dispatch loop: second statement is not `if <obj> is None: continue`")
    return obj, body[2:]


def item_poll_dispatch(trees):
    """poll(): which handle_*_event an object returned by select in r / w / e gets."""
    tree = trees["wasyncore"]
    fn = find_function(tree, "poll")
    res = [n for n in ast.walk(fn) if isinstance(n, ast.Assign) and isinstance(n.value, ast.Call)
           and isinstance(n.value.func, ast.Attribute) and n.value.func.attr == "select"
           and isinstance(n.value.func.value, ast.Name) and n.value.func.value.id == "select"]
    if len(res) != 1 or not (isinstance(res[0].targets[0], ast.Tuple) and len(res[0].targets[0].elts) == 3
                             and all(isinstance(x, ast.Name) for x in res[0].targets[0].elts)):
        raise Unsupported("poll: <r>, <w>, <e> = select.select(...) not found")
    kinds = dict(zip([x.id for x in res[0].targets[0].elts], ("in_r", "in_w", "in_e")))
    if len(kinds) != 3:
        raise Unsupported("poll: select results are not three distinct locals")
    loops = [n for n in ast.walk(fn) if isinstance(n, ast.For) and isinstance(n.target, ast.Name)]
    called = {"read": [], "write": [], "expt": []}
    seen = set()
    for lp in loops:
        if not (isinstance(lp.iter, ast.Name) and lp.iter.id in kinds) or lp.orelse:
            raise Unsupported("poll: loop over something else than a select result")
        kind = kinds[lp.iter.id]
        if kind in seen:
            raise Unsupported("poll: two loops over one select result")
        seen.add(kind)
        obj, rest = map_get_skip(lp.body, lp.target.id, map_get_aliases(fn))
        if not (len(rest) == 1 and isinstance(rest[0], ast.Expr) and isinstance(rest[0].value, ast.Call)
                and isinstance(rest[0].value.func, ast.Name) and not rest[0].value.keywords
                and [getattr(x, "id", None) for x in rest[0].value.args] == [obj]):
            raise Unsupported("poll: dispatch loop does not call <f>(<obj>)")
        helper = find_function(tree, rest[0].value.func.id)
        hb = strip_doc(helper.body)
        if len(helper.args.args) != 1 or len(hb) != 1 or not isinstance(hb[0], ast.Try) or hb[0].orelse or hb[0].finalbody:
            raise Unsupported("poll: helper %s is not a single try" % helper.name)
        tb = hb[0].body
        m = obj_call(tb[0].value, helper.args.args[0].arg) if (len(tb) == 1 and isinstance(tb[0], ast.Expr)) else None
        if m not in ("handle_read_event", "handle_write_event", "handle_expt_event"):
            raise Unsupported("poll: helper %s does not call exactly one handle_*_event" % helper.name)
        called[HANDLERS[m]].append(kind)

    def disj(l):
        if not l:
            return "false"
        out = l[0]
        for x in l[1:]:
            out = "(orb %s %s)" % (out, x)
        return out

    body = "(%s, %s, %s)" % (disj(called["read"]), disj(called["write"]), disj(called["expt"]))
    return [definition("gen_poll_dispatch", [("in_r", "bool"), ("in_w", "bool"), ("in_e", "bool")],
                       "bool * bool * bool", body)]


def item_poll2(trees):
    """poll2(): the flag word registered per object, and that the dispatch loop hands
    the returned flag word unchanged to readwrite()."""
    fn = find_function(trees["wasyncore"], "poll2")
    pair_loops = [n for n in ast.walk(fn) if isinstance(n, ast.For) and isinstance(n.target, ast.Tuple)
                  and len(n.target.elts) == 2 and all(isinstance(e, ast.Name) for e in n.target.elts)]
    scans = [l for l in pair_loops if isinstance(l.iter, ast.Call)]
    disps = [l for l in pair_loops if isinstance(l.iter, ast.Name)]
    if len(scans) != 1 or len(disps) != 1 or len(pair_loops) != 2:
        raise Unsupported("poll2: expected one scan loop and one dispatch loop")
    scan, disp = scans[0], disps[0]
    fd_var, obj_var = [e.id for e in scan.target.elts]
    # the register call names the flags local
    regs = [n for n in ast.walk(scan) if isinstance(n, ast.Call) and isinstance(n.func, ast.Attribute)
            and n.func.attr == "register"]
    if len(regs) != 1 or len(regs[0].args) != 2 or regs[0].keywords or not all(isinstance(a, ast.Name) for a in regs[0].args) \
            or regs[0].args[0].id != fd_var or not isinstance(regs[0].func.value, ast.Name):
        raise Unsupported("poll2: <pollster>.register(<fd>, <flags>) not found")
    pollster, flags_var = regs[0].func.value.id, regs[0].args[1].id
    tr = ScanTr(obj_var)
    n = [0]

    def fresh(base):
        n[0] += 1
        return "%s_%d" % (base, n[0])

    def run(stmts, bits, registered):
        if not stmts:
            if registered is None:
                raise Unsupported("poll2: scan never registers")
            return "(mkPF %s, %s)" % (" ".join(bits[b] for b in POLLBITS), registered)
        s, rest = stmts[0], stmts[1:]
        if registered is not None:
            raise Unsupported("poll2: statements after register")
        if isinstance(s, ast.AnnAssign) and s.value is not None and s.simple:
            s = ast.Assign(targets=[s.target], value=s.value)
        if isinstance(s, ast.Assign) and len(s.targets) == 1 and isinstance(s.targets[0], ast.Name):
            name = s.targets[0].id
            if name == flags_var:
                if isinstance(s.value, ast.Constant) and s.value.value == 0 and s.value.value is not False:
                    return run(rest, {b: "false" for b in POLLBITS}, None)
                raise Unsupported("poll2: flags assigned something else than 0")
            val = tr.truthy(s.value)
            v = fresh("loc")
            tr.locals[name] = (v, "bool")
            return "(let %s := %s in %s)" % (v, val, run(rest, bits, None))

        def set_bits(cond, aug):
            if not (isinstance(aug, ast.AugAssign) and isinstance(aug.op, ast.BitOr)
                    and isinstance(aug.target, ast.Name) and aug.target.id == flags_var):
                raise Unsupported("poll2: %s" % ast.dump(aug)[:60])
            if bits is None:
                raise Unsupported("poll2: flags used before flags = 0")
            out = dict(bits)
            lets = []
            for b in sorted(flagset(aug.value), key=POLLBITS.index):
                v = fresh(PF[b])
                lets.append((v, "true" if cond is None else "(orb %s %s)" % (bits[b], cond)))
                out[b] = v
            return out, lets

        if isinstance(s, ast.AugAssign):
            out, lets = set_bits(None, s)
            inner = run(rest, out, None)
            for v, e in reversed(lets):
                inner = "(let %s := %s in %s)" % (v, e, inner)
            return inner
        if isinstance(s, ast.If) and not s.orelse and len(s.body) == 1:
            b0 = s.body[0]
            if isinstance(b0, ast.AugAssign):
                c = fresh("c")
                cond = tr.truthy(s.test)
                out, lets = set_bits(c, b0)
                inner = run(rest, out, None)
                for v, e in reversed(lets):
                    inner = "(let %s := %s in %s)" % (v, e, inner)
                return "(let %s := %s in %s)" % (c, cond, inner)
            if isinstance(b0, ast.Expr) and b0.value is regs[0]:
                if not (isinstance(s.test, ast.Name) and s.test.id == flags_var) or bits is None:
                    raise Unsupported("poll2: register is not guarded by `if <flags>:`")
                anyb = bits[POLLBITS[0]]
                for b in POLLBITS[1:]:
                    anyb = "(orb %s %s)" % (anyb, bits[b])
                return run(rest, bits, anyb)
        if isinstance(s, ast.Expr) and s.value is regs[0]:
            return run(rest, bits, "true")
        raise Unsupported("poll2: scan statement %s" % ast.dump(s)[:70])

    reg = run(list(scan.body), None, None)
    for m in ("readable", "writable"):
        if tr.calls.count(m) > 1:
            raise Unsupported("poll2: obj.%s() is called %d times per object" % (m, tr.calls.count(m)))
    check_atoms(tr, [("is_r", "bool"), ("is_w", "bool"), ("accepting", "bool")], "poll2 scan")
    # dispatch loop:  for fd, flags in <result of pollster.poll()>: obj = map.get(fd); ...; readwrite(obj, flags)
    res = [x for x in ast.walk(fn) if isinstance(x, ast.Assign) and len(x.targets) == 1 and isinstance(x.targets[0], ast.Name)
           and x.targets[0].id == disp.iter.id and isinstance(x.value, ast.Call)
           and isinstance(x.value.func, ast.Attribute) and x.value.func.attr == "poll"
           and isinstance(x.value.func.value, ast.Name) and x.value.func.value.id == pollster]
    if len(res) != 1:
        raise Unsupported("poll2: the dispatch loop does not iterate over <pollster>.poll(...)")
    dfd, dflags = [e.id for e in disp.target.elts]
    obj, rest = map_get_skip(disp.body, dfd, map_get_aliases(fn))
    ok = (len(rest) == 1 and isinstance(rest[0], ast.Expr) and isinstance(rest[0].value, ast.Call)
          and isinstance(rest[0].value.func, ast.Name) and rest[0].value.func.id == "readwrite"
          and not rest[0].value.keywords
          and [getattr(x, "id", None) for x in rest[0].value.args] == [obj, dflags])
    if not ok or disp.orelse:
        raise Unsupported("poll2: the dispatch loop does not call readwrite(<obj>, <flags>)")
    return [definition("gen_poll2_reg", [("is_r", "bool"), ("is_w", "bool"), ("accepting", "bool")],
                       "pollflags * bool", reg),
            "Definition gen_poll2_dispatches_readwrite : bool := true."]


def item_readwrite(trees):
    """readwrite(obj, flags): which handler is called for which returned flags."""
    fn = find_function(trees["wasyncore"], "readwrite")
    if len(fn.args.args) != 2:
        raise Unsupported("readwrite: arguments")
    obj_var, flags_var = fn.args.args[0].arg, fn.args.args[1].arg
    body = strip_doc(fn.body)
    if len(body) != 1 or not isinstance(body[0], ast.Try) or body[0].orelse or body[0].finalbody:
        raise Unsupported("readwrite: not a single try without else/finally")
    eff = {"read": "false", "write": "false", "expt": "false", "close": "false"}
    for s in body[0].body:
        ok = (isinstance(s, ast.If) and not s.orelse and len(s.body) == 1 and isinstance(s.body[0], ast.Expr)
              and isinstance(s.test, ast.BinOp) and isinstance(s.test.op, ast.BitAnd))
        m = obj_call(s.body[0].value, obj_var) if ok else None
        if m not in HANDLERS:
            raise Unsupported("readwrite: statement %s" % ast.dump(s)[:70])
        l, r = s.test.left, s.test.right
        if isinstance(r, ast.Name) and r.id == flags_var:
            l, r = r, l
        if not (isinstance(l, ast.Name) and l.id == flags_var):
            raise Unsupported("readwrite: test is not <flags> & <constants>")
        bits = sorted(flagset(r), key=POLLBITS.index)
        t = RF[bits[0]]
        for b in bits[1:]:
            t = "(orb %s %s)" % (t, RF[b])
        k = HANDLERS[m]
        eff[k] = t if eff[k] == "false" else "(orb %s %s)" % (eff[k], t)
    sig = [(RF[b], "bool") for b in POLLBITS]
    return [definition("gen_readwrite", sig, "bool * bool * bool * bool",
                       "(%s, %s, %s, %s)" % (eff["read"], eff["write"], eff["expt"], eff["close"]))]


ITEMS = [
    ("gen_chan_readable", item_chan_readable),
    ("gen_chan_writable", item_chan_writable),
    ("gen_hw_flush gen_hw_after", item_handle_write),
    ("gen_maint_cutoff gen_maint_test", item_maintenance),
    ("gen_srv_readable", item_srv_readable),
    ("gen_poll_r gen_poll_w gen_poll_e", item_poll),
    ("gen_poll_dispatch", item_poll_dispatch),
    ("gen_poll2_reg gen_poll2_dispatches_readwrite", item_poll2),
    ("gen_readwrite", item_readwrite),
]


def generate():
    """-> (text, problems)"""
    problems = []
    trees = {}
    for m in ("channel", "server", "wasyncore"):
        try:
            trees[m] = ast.parse(open(os.path.join(SRC, m + ".py")).read())
        except Exception as e:  # pragma: no cover
            problems.append("cannot parse %s.py: %r" % (m, e))
            trees[m] = ast.parse("")
    lines = []
    w = lines.append
    w("(* GENERATED by translate/gen_preds.py from %s -- do not edit *)" % SRC)
    w("From Coq Require Import ZArith Bool.")
    w("Local Open Scope Z_scope.")
    w("")
    w("(* which flush function HTTPChannel.handle_write selects *)")
    w("Inductive flush_kind : Set := FlushSome | FlushIfLockable | FlushNone.")
    w("")
    w("(* a select.poll() event mask: POLLIN POLLPRI POLLOUT POLLERR POLLHUP POLLNVAL *)")
    w("Record pollflags : Set := mkPF { pf_in : bool; pf_pri : bool; pf_out : bool; pf_err : bool; pf_hup : bool; pf_nval : bool }.")
    w("")
    for names, fn in ITEMS:
        try:
            for d in fn(trees):
                w(d)
                w("")
        except Unsupported as e:
            problems.append("%s: %s" % (names, e))
            w("(* ABSENT %s: %s *)" % (names, str(e).replace("(*", "( *").replace("*)", "* )")))
            w("")
    return "\n".join(lines) + "\n", problems


def main(outpath):
    text, problems = generate()
    old = open(outpath).read() if os.path.exists(outpath) else None
    if old != text:
        os.makedirs(os.path.dirname(outpath), exist_ok=True)
        open(outpath, "w").write(text)
    for p in problems:
        print("TRANSLATOR-PROBLEM gen_preds: " + p)
    return 0


if __name__ == "__main__":
    sys.exit(main(sys.argv[1] if len(sys.argv) > 1 else "/verif/coq/Gen/GenPreds.v"))
