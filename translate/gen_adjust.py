#!/usr/bin/env python3
"""Translate the configuration logic of waitress (adjustments.py, runner.py,
docs/arguments.rst, the middleware switch in server.py) into Coq terms
(coq/Gen/GenAdjust.v).

What is translated (Python ast, a small fixed subset, everything else refused):
  * the chain of `if <membership formula over kw>: raise ValueError` at the top
    of Adjustments.__init__                      -> excl : (name -> bool) -> bool
  * the shape of the cast-and-assign loop          -> assign_loop_standard
  * the host/port override test                    -> hostport_override
  * the address family selection                   -> families_refused / families_value
  * the proxy option cross-checks                  -> proxy_refused / proxy_*_defaulted
  * check_sockets                                  -> sock_inet / sock_unix / sock_unsup / socks_refused
  * _params                                        -> params : list (name * cast)
  * parse_args: option name mangling, the classify chain -> cli_*
  * truthy, KNOWN_PROXY_HEADERS, a few class defaults
  * the middleware install condition in server.py  -> middleware_installed
  * option names documented in docs/arguments.rst and in runner.HELP
  * the header kinds named in the trusted_proxy_headers entries of docs/arguments.rst,
    runner.HELP and docs/runner.rst                -> docs_/help_/runner_rst_proxy_headers
  * the class-level defaults of every adjustment  -> class_defaults
  * every default stated in docs/arguments.rst, runner.HELP, docs/runner.rst
    (Default: ``X``, default is 'X', Default is N, On/Off by default, ...; conditional
    ones -- "if trusted_proxy is set, the default is" -- are skipped) -> *_defaults

Fail closed: a construct outside the subset makes the item be emitted as a
comment `(* ABSENT name: reason *)`, so every theorem that depends on it stops
compiling, and a line `TRANSLATOR-PROBLEM gen_adjust: ...` is printed.
"""
import ast
import copy
import os
import re
import sys

REPO = os.environ.get("WAITRESS_REPO", "/repo")
SRC = os.path.join(REPO, "src", "waitress")
DOCS = os.path.join(REPO, "docs")


class Unsupported(Exception):
    pass


def safe(t):
    """make a text safe for a Coq comment"""
    return t.replace('"', "<dq>").replace("(*", "( *").replace("*)", "* )")


def S(s):
    """a Python str as a Coq list of code points"""
    return "[" + "; ".join(str(ord(c)) for c in s) + "]"


def SL(strs):
    return "[" + ";\n   ".join(S(s) for s in strs) + "]"


def ident(s):
    return re.sub(r"[^A-Za-z0-9_]", "_", s)


# -- boolean expressions and the small statement walker ---------------------------

def simp_if(c, a, b):
    if a == b:
        return a
    if a == "true" and b == "false":
        return c
    if a == "false" and b == "true":
        return "(negb %s)" % c
    if b == "false":
        return "(%s && %s)" % (c, a)
    if a == "true":
        return "(%s || %s)" % (c, b)
    return "(if %s then %s else %s)" % (c, a, b)


def simp_or(a, b):
    if a == "false":
        return b
    if b == "false":
        return a
    if a == "true":
        return "true"
    return "(%s || %s)" % (a, b)


def bexpr(e, atom):
    if isinstance(e, ast.BoolOp):
        parts = [bexpr(v, atom) for v in e.values]
        op = " && " if isinstance(e.op, ast.And) else " || "
        return "(" + op.join(parts) + ")"
    if isinstance(e, ast.UnaryOp) and isinstance(e.op, ast.Not):
        return "(negb %s)" % bexpr(e.operand, atom)
    return atom(e)


def is_raise_valueerror(st):
    if not isinstance(st, ast.Raise) or st.exc is None or st.cause is not None:
        return False
    exc = st.exc
    if isinstance(exc, ast.Call):
        exc = exc.func
    return isinstance(exc, ast.Name) and exc.id == "ValueError"


def is_warn(st):
    return (isinstance(st, ast.Expr) and isinstance(st.value, ast.Call)
            and isinstance(st.value.func, ast.Attribute) and st.value.func.attr == "warn"
            and isinstance(st.value.func.value, ast.Name) and st.value.func.value.id == "warnings")


PERMIT_FLAGS = ("#lowered", "#unknown_defined")


def walk(stmts, env, atom_of, stmt_of):
    """-> (refused_expr, env).  env maps variable -> Gallina expression."""
    refused = "false"
    for idx, st in enumerate(stmts):
        if isinstance(st, ast.If):
            c = bexpr(st.test, atom_of(env))
            r1, e1 = walk(st.body, dict(env), atom_of, stmt_of)
            r2, e2 = walk(st.orelse, dict(env), atom_of, stmt_of)
            r = simp_if(c, r1, r2)
            keys = list(e1.keys())
            for k in e2:
                if k not in e1:
                    keys.append(k)
            new = {}
            for k in keys:
                if k.startswith("#"):
                    # bookkeeping flags, merged conservatively: a flag that forbids
                    # something holds if set on either path, one that permits
                    # something only if set on both
                    if k in PERMIT_FLAGS:
                        new[k] = bool(e1.get(k)) and bool(e2.get(k))
                    else:
                        new[k] = bool(e1.get(k)) or bool(e2.get(k))
                    continue
                if k not in e1 or k not in e2:
                    raise Unsupported("variable %s assigned on one path only" % k)
                new[k] = simp_if(c, e1[k], e2[k])
            env = new
            refused = simp_or(refused, r)
        elif is_raise_valueerror(st):
            if idx != len(stmts) - 1:
                raise Unsupported("dead code after raise (line %d)" % st.lineno)
            return simp_or(refused, "true"), env
        elif isinstance(st, ast.Raise):
            raise Unsupported("raise of something that is not ValueError (line %d)" % st.lineno)
        elif is_warn(st):
            continue
        else:
            env = stmt_of(st, env)
    return refused, env


def shape(node):
    """ast.dump with the arguments of raised exceptions and of warnings.warn
    blanked (messages are not behaviour)."""
    node = copy.deepcopy(node)
    for sub in ast.walk(node):
        if isinstance(sub, ast.Raise) and isinstance(sub.exc, ast.Call):
            sub.exc.args = []
            sub.exc.keywords = []
    return ast.dump(node)


def shape_of_src(src):
    mod = ast.parse(src)
    assert len(mod.body) == 1
    return shape(mod.body[0])


def const_str(e):
    if isinstance(e, ast.Constant) and isinstance(e.value, str):
        return e.value
    raise Unsupported("expected a string literal, got %s" % ast.dump(e)[:80])


def is_self_attr(e, name=None):
    return (isinstance(e, ast.Attribute) and isinstance(e.value, ast.Name) and e.value.id == "self"
            and (name is None or e.attr == name))


# -- Adjustments.__init__ ------------------------------------------------------------

CASTS = {
    "str": "CStr", "int": "CInt", "asbool": "CBool", "aslist": "CList",
    "str_iftruthy": "CStrIfTruthy", "asset": "CSet", "slash_fixed_str": "CSlash",
    "asoctal": "COctal", "as_socket_list": "CSockets",
}

LOOP_SRC = """
for k, v in kw.items():
    if k not in self._param_map:
        raise ValueError("x")
    setattr(self, k, self._param_map[k](v))
"""
HOSTPORT_BODY_SRC = 'self.listen = [f"{self.host}:{self.port}"]'
LOWER_SRC = "self.trusted_proxy_headers = {header.lower() for header in self.trusted_proxy_headers}"
UNKNOWN_SRC = "unknown_values = self.trusted_proxy_headers - KNOWN_PROXY_HEADERS"
TAIL_SRC = ["self.listen = wanted_sockets", "self.check_sockets(self.sockets)"]


class Out:
    def __init__(self):
        self.lines = []
        self.problems = []

    def w(self, s=""):
        self.lines.append(s)

    def item(self, name, fn):
        """run fn() -> list of lines; on Unsupported emit ABSENT"""
        try:
            for l in fn():
                self.w(l)
        except Unsupported as e:
            self.problems.append("%s: %s" % (name, e))
            self.w("(* ABSENT %s: %s *)" % (name, safe(str(e))))
        except Exception as e:  # anything unexpected is also a refusal
            self.problems.append("%s: internal %s: %s" % (name, type(e).__name__, e))
            self.w("(* ABSENT %s: %s *)" % (name, safe("%s: %s" % (type(e).__name__, e))))
        self.w("")


def find_class(tree, name):
    for n in tree.body:
        if isinstance(n, ast.ClassDef) and n.name == name:
            return n
    raise Unsupported("class %s not found" % name)


def find_method(cls, name):
    for n in cls.body:
        if isinstance(n, ast.FunctionDef) and n.name == name:
            return n
    raise Unsupported("method %s not found" % name)


# -- function-local names: the translation is invariant under their renaming ----------
#
# The patterns below name function locals of the source (k, v, wanted_sockets, hp_pairs, unknown_values, opts, args,
# param, app, long_opts ...).  A consistent renaming of function locals changes nothing in behaviour, so it must not
# change the translation: the locals of each translated method are listed in order of their first binding occurrence
# (assignment / for / with-as / except-as / comprehension targets; parameters are not locals) and renamed BACK to the
# reference names of the same rank (REF_LOCALS, read off /repo).  A rename-only edit keeps number and order of first
# bindings, so the tree handed to the translator is the reference tree; anything else (a local added, dropped, bound
# earlier or later) shifts the ranks and the patterns fail as before (fail closed).  Refused outright: global / nonlocal
# declarations, nested functions and lambdas, a different number of locals, and a free name (parameter, global, builtin)
# of the method that coincides with a reference name (the renaming would capture it).
# Annotations are dropped (`x: int = 0` is `x = 0`, return and argument annotations are not evaluated at call time).

REF_LOCALS = {
    "__init__": ["k", "v", "enabled_families", "wanted_sockets", "hp_pairs", "i", "host", "port", "s", "family", "socktype",
                 "proto", "_", "sockaddr", "header", "unknown_values"],
    "parse_args": ["long_opts", "opt", "cast", "kw", "app", "opts", "args", "value", "param"],
    "check_sockets": ["has_unix_socket", "has_inet_socket", "has_unsupported_socket", "sock"],
}


def param_names(fn):
    a = fn.args
    names = [x.arg for x in a.posonlyargs + a.args + a.kwonlyargs]
    if a.vararg:
        names.append(a.vararg.arg)
    if a.kwarg:
        names.append(a.kwarg.arg)
    return names


def local_bindings(fn):
    """distinct non-parameter names bound in fn, in order of first binding occurrence (source position)"""
    params = set(param_names(fn))
    sites = []
    for n in ast.walk(fn):
        if n is fn:
            continue
        if isinstance(n, (ast.FunctionDef, ast.AsyncFunctionDef, ast.Lambda, ast.ClassDef)):
            raise Unsupported("nested function / lambda / class in %s" % fn.name)
        if isinstance(n, (ast.Global, ast.Nonlocal)):
            raise Unsupported("global / nonlocal declaration in %s" % fn.name)
        if isinstance(n, ast.Name) and isinstance(n.ctx, (ast.Store, ast.Del)):
            sites.append((n.lineno, n.col_offset, n.id))
        elif isinstance(n, ast.ExceptHandler) and n.name:
            sites.append((n.lineno, n.col_offset, n.name))
        elif isinstance(n, (ast.MatchAs, ast.MatchStar)) and getattr(n, "name", None):
            raise Unsupported("match statement in %s" % fn.name)
    out = []
    for _, _, name in sorted(sites):
        if name not in params and name not in out:
            out.append(name)
    return out


class _Rename(ast.NodeTransformer):
    def __init__(self, m):
        self.m = m

    def visit_Name(self, n):
        if n.id in self.m:
            n.id = self.m[n.id]
        return n

    def visit_ExceptHandler(self, n):
        if n.name in self.m:
            n.name = self.m[n.name]
        self.generic_visit(n)
        return n

    def visit_AnnAssign(self, n):
        self.generic_visit(n)
        if n.value is None:
            return None
        return ast.copy_location(ast.Assign(targets=[n.target], value=n.value), n)


def canon_method(cls, name):
    """find_method + annotations dropped + function locals renamed back to the reference names of the same rank"""
    fn = copy.deepcopy(find_method(cls, name))
    fn.returns = None
    a = fn.args
    for x in a.posonlyargs + a.args + a.kwonlyargs + [y for y in (a.vararg, a.kwarg) if y]:
        x.annotation = None
    ref = REF_LOCALS[name]
    actual = local_bindings(fn)
    if len(actual) != len(ref):
        raise Unsupported("%s binds %d local names (%s), the reference has %d (%s)" % (
            name, len(actual), " ".join(actual), len(ref), " ".join(ref)))
    m = {x: y for x, y in zip(actual, ref) if x != y}
    if m:
        free = {n.id for n in ast.walk(fn) if isinstance(n, ast.Name)} - set(actual)
        free |= set(param_names(fn))
        dyn = sorted(free & {"locals", "vars", "eval", "exec", "globals", "dir"})
        if dyn:
            raise Unsupported("%s uses %s: the names of its locals may matter" % (name, " ".join(dyn)))
        clash = sorted(free & set(m.values()))
        if clash:
            raise Unsupported("%s: renaming locals back to the reference names would capture %s" % (name, " ".join(clash)))
    fn = _Rename(m).visit(fn)
    ast.fix_missing_locations(fn)
    return fn


def class_assign(cls, name):
    found = [n for n in cls.body if isinstance(n, ast.Assign) and len(n.targets) == 1
             and isinstance(n.targets[0], ast.Name) and n.targets[0].id == name]
    if len(found) != 1:
        raise Unsupported("%d class-level assignments of %s" % (len(found), name))
    return found[0].value


def split_init(init):
    """Cut Adjustments.__init__ into the sections handled below."""
    body = list(init.body)
    if body and isinstance(body[0], ast.Expr) and isinstance(body[0].value, ast.Constant):
        body = body[1:]  # docstring
    # section A: up to the first For
    i = 0
    while i < len(body) and not isinstance(body[i], ast.For):
        i += 1
    if i == len(body):
        raise Unsupported("no for-loop in __init__")
    sec = {"excl": body[:i], "loop": body[i]}
    rest = body[i + 1:]
    if not rest or not isinstance(rest[0], ast.If):
        raise Unsupported("statement after the assign loop is not the host/port if")
    sec["hostport"] = rest[0]
    rest = rest[1:]
    j = 0
    while j < len(rest) and not (isinstance(rest[j], ast.Assign) and isinstance(rest[j].targets[0], ast.Name)
                                 and rest[j].targets[0].id == "wanted_sockets"):
        j += 1
    if j == len(rest):
        raise Unsupported("wanted_sockets = [] not found")
    sec["families"] = rest[:j]
    rest = rest[j:]
    if len(rest) < 3 or shape(rest[0]) != shape_of_src("wanted_sockets = []") \
            or shape(rest[1]) != shape_of_src("hp_pairs = []") \
            or not (isinstance(rest[2], ast.For) and is_self_attr(rest[2].iter, "listen")):
        raise Unsupported("listen loop prologue changed")
    sec["listen_loop"] = rest[2]
    rest = rest[3:]
    if len(rest) < 2 or [shape(s) for s in rest[-2:]] != [shape_of_src(s) for s in TAIL_SRC]:
        raise Unsupported("__init__ does not end with self.listen = wanted_sockets; self.check_sockets(self.sockets)")
    sec["proxy"] = rest[:-2]
    return sec


def gen_excl(stmts):
    names = []

    def atom_of(env):
        def atom(e):
            if (isinstance(e, ast.Compare) and len(e.ops) == 1 and isinstance(e.ops[0], (ast.In, ast.NotIn))
                    and isinstance(e.comparators[0], ast.Name) and e.comparators[0].id == "kw"):
                n = const_str(e.left)
                if n not in names:
                    names.append(n)
                t = "(kw n_%s)" % ident(n)
                return t if isinstance(e.ops[0], ast.In) else "(negb %s)" % t
            raise Unsupported("test that is not a membership formula over kw: %s" % ast.unparse(e))
        return atom

    def stmt_of(st, env):
        raise Unsupported("statement in the exclusion chain: %s" % ast.unparse(st)[:60])

    for st in stmts:
        if not isinstance(st, ast.If):
            raise Unsupported("top-level statement before the assign loop that is not an if: %s" % ast.unparse(st)[:60])
    refused, _ = walk(stmts, {}, atom_of, stmt_of)
    # names that only guard a warning do not belong to the exclusion group
    used = [n for n in names if ("n_%s)" % ident(n)) in refused]
    out = []
    for n in used:
        out.append("Definition n_%s : list N := %s.  (* %s *)" % (ident(n), S(n), safe(n)))
    out.append("Definition excl_names : list (list N) := [%s]." % "; ".join("n_" + ident(n) for n in used))
    out.append("Definition excl (kw : list N -> bool) : bool :=\n  %s." % refused)
    return out


def gen_loop(loop):
    if shape(loop) != shape_of_src(LOOP_SRC):
        raise Unsupported("the cast-and-assign loop is not `for k, v in kw.items(): if k not in self._param_map: raise ValueError; setattr(self, k, self._param_map[k](v))`")
    return ["(* for k, v in kw.items(): unknown name -> ValueError, else setattr(self, k, cast(v)) *)",
            "Definition assign_loop_standard : bool := true."]


def gen_hostport(st):
    def atom_of(env):
        def atom(e):
            if (isinstance(e, ast.Call) and isinstance(e.func, ast.Name) and e.func.id == "isinstance"
                    and len(e.args) == 2 and isinstance(e.args[1], ast.Name)):
                if is_self_attr(e.args[0], "host") and e.args[1].id == "_str_marker":
                    return "host_marker"
                if is_self_attr(e.args[0], "port") and e.args[1].id == "_int_marker":
                    return "port_marker"
            raise Unsupported("host/port test: %s" % ast.unparse(e))
        return atom
    if st.orelse or len(st.body) != 1 or shape(st.body[0]) != shape_of_src(HOSTPORT_BODY_SRC):
        raise Unsupported("host/port override body changed")
    c = bexpr(st.test, atom_of({}))
    return ["(* if <test>: self.listen = [f<dq>{self.host}:{self.port}<dq>] ; *_marker = the class default is still in place *)",
            "Definition hostport_override (host_marker port_marker : bool) : bool :=\n  %s." % c]


FAMS = {"AF_UNSPEC": "FamUnspec", "AF_INET": "FamInet", "AF_INET6": "FamInet6"}


def gen_families(stmts):
    def fam_const(e):
        if (isinstance(e, ast.Attribute) and isinstance(e.value, ast.Name) and e.value.id == "socket"
                and e.attr in FAMS):
            return FAMS[e.attr]
        raise Unsupported("address family constant: %s" % ast.unparse(e))

    def atom_of(env):
        def atom(e):
            if is_self_attr(e, "ipv4"):
                return "ipv4"
            if is_self_attr(e, "ipv6"):
                return "ipv6"
            if isinstance(e, ast.Name) and e.id == "HAS_IPV6":
                return "has_ipv6"
            raise Unsupported("family test: %s" % ast.unparse(e))
        return atom

    def stmt_of(st, env):
        if (isinstance(st, ast.Assign) and len(st.targets) == 1 and isinstance(st.targets[0], ast.Name)
                and st.targets[0].id == "enabled_families"):
            env = dict(env)
            env["fam"] = fam_const(st.value)
            return env
        raise Unsupported("statement in the family selection: %s" % ast.unparse(st)[:60])

    if not stmts or not isinstance(stmts[0], ast.Assign):
        raise Unsupported("family selection does not start with enabled_families = ...")
    env = stmt_of(stmts[0], {})
    refused, env = walk(stmts[1:], env, atom_of, stmt_of)
    return ["Definition families_refused (ipv4 ipv6 has_ipv6 : bool) : bool :=\n  %s." % refused,
            "Definition families_value (ipv4 ipv6 has_ipv6 : bool) : family :=\n  %s." % env["fam"]]


def gen_proxy(stmts):
    consts = {}

    def atom_of(env):
        def atom(e):
            if isinstance(e, ast.Compare) and len(e.ops) == 1 and isinstance(e.ops[0], (ast.Is, ast.IsNot)) \
                    and isinstance(e.comparators[0], ast.Constant) and e.comparators[0].value is None \
                    and is_self_attr(e.left):
                a = e.left.attr
                if a == "trusted_proxy":
                    t = "tp_none"
                elif a == "trusted_proxy_count":
                    if env.get("#count_assigned"):
                        raise Unsupported("trusted_proxy_count tested after being assigned")
                    t = "tpc_none"
                else:
                    raise Unsupported("is-None test of %s" % a)
                return t if isinstance(e.ops[0], ast.Is) else "(negb %s)" % t
            if isinstance(e, ast.Compare) and len(e.ops) == 1 and isinstance(e.ops[0], ast.Lt) \
                    and is_self_attr(e.left, "trusted_proxy_count") and isinstance(e.comparators[0], ast.Constant) \
                    and type(e.comparators[0].value) is int:
                # read after the default may have been assigned: on that path the value is the default
                k = e.comparators[0].value
                if consts.setdefault("min", k) != k:
                    raise Unsupported("two different lower bounds for trusted_proxy_count")
                cd = env["count_defaulted"]
                if cd == "false":
                    return "count_below"
                if "count" not in consts:
                    raise Unsupported("trusted_proxy_count compared before its default is known")
                return simp_if(cd, "true" if consts["count"] < k else "false", "count_below")
            if is_self_attr(e, "trusted_proxy_headers"):
                if env.get("#hdrs_assigned"):
                    raise Unsupported("trusted_proxy_headers tested after being replaced")
                return "hdrs_nonempty"
            if isinstance(e, ast.Name) and e.id == "unknown_values":
                if not env.get("#unknown_defined"):
                    raise Unsupported("unknown_values used before its definition")
                return "has_unknown"
            if isinstance(e, ast.Compare) and len(e.ops) == 1 and isinstance(e.ops[0], ast.In) \
                    and is_self_attr(e.comparators[0], "trusted_proxy_headers"):
                if not env.get("#lowered"):
                    raise Unsupported("membership test before lower-casing")
                n = const_str(e.left)
                if consts.setdefault("fwd", n) != n:
                    raise Unsupported("two different header names in the Forwarded exclusivity test")
                return "has_forwarded"
            if isinstance(e, ast.BinOp) and isinstance(e.op, ast.Sub) and is_self_attr(e.left, "trusted_proxy_headers") \
                    and isinstance(e.right, ast.Set) and len(e.right.elts) == 1:
                if not env.get("#lowered"):
                    raise Unsupported("set difference before lower-casing")
                n = const_str(e.right.elts[0])
                if consts.setdefault("fwd", n) != n:
                    raise Unsupported("two different header names in the Forwarded exclusivity test")
                return "has_other"
            raise Unsupported("proxy cross-check test: %s" % ast.unparse(e))
        return atom

    def stmt_of(st, env):
        env = dict(env)
        if shape(st) == shape_of_src(LOWER_SRC):
            if env.get("#hdrs_assigned"):
                raise Unsupported("lower-casing after replacement")
            env["#lowered"] = True
            return env
        if shape(st) == shape_of_src(UNKNOWN_SRC):
            if not env.get("#lowered"):
                raise Unsupported("unknown_values computed before lower-casing")
            env["#unknown_defined"] = True
            return env
        if isinstance(st, ast.Assign) and len(st.targets) == 1 and is_self_attr(st.targets[0]):
            a = st.targets[0].attr
            if a == "trusted_proxy_count" and isinstance(st.value, ast.Constant) \
                    and type(st.value.value) is int and st.value.value >= 0:
                if consts.setdefault("count", st.value.value) != st.value.value:
                    raise Unsupported("two different default counts")
                env["count_defaulted"] = "true"
                env["#count_assigned"] = True
                return env
            if a == "trusted_proxy_headers" and isinstance(st.value, ast.Set):
                hs = tuple(sorted(const_str(x) for x in st.value.elts))
                if consts.setdefault("hdrs", hs) != hs:
                    raise Unsupported("two different default header sets")
                env["hdrs_defaulted"] = "true"
                env["#hdrs_assigned"] = True
                return env
        raise Unsupported("statement in the proxy cross-checks: %s" % ast.unparse(st)[:70])

    env0 = {"count_defaulted": "false", "hdrs_defaulted": "false"}
    refused, env = walk(stmts, env0, atom_of, stmt_of)
    for k in ("fwd", "count", "hdrs", "min"):
        if k not in consts:
            raise Unsupported("proxy cross-checks: no %s constant found" % k)
    args = "(tp_none tpc_none count_below hdrs_nonempty has_unknown has_forwarded has_other : bool)"
    return [
        "(* atoms: trusted_proxy is None; trusted_proxy_count is None; the given count is below proxy_min_count;",
        "   trusted_proxy_headers non-empty;",
        "   lower-cased headers - KNOWN_PROXY_HEADERS non-empty; the Forwarded name is among them; something else is among them *)",
        "Definition proxy_refused %s : bool :=\n  %s." % (args, refused),
        "Definition proxy_count_defaulted %s : bool :=\n  %s." % (args, env["count_defaulted"]),
        "Definition proxy_headers_defaulted %s : bool :=\n  %s." % (args, env["hdrs_defaulted"]),
        "Definition proxy_forwarded_name : list N := %s.  (* %s *)" % (S(consts["fwd"]), safe(consts["fwd"])),
        "Definition proxy_default_count : N := %d." % consts["count"],
        "Definition proxy_min_count : Z := %s%%Z." % (("%d" % consts["min"]) if consts["min"] >= 0 else "(%d)" % consts["min"]),
        "Definition proxy_default_headers : list (list N) := %s." % SL(consts["hdrs"]),
    ]


SOCK_VARS = ["has_unix_socket", "has_inet_socket", "has_unsupported_socket"]


def gen_check_sockets(fn):
    body = list(fn.body)
    if body and isinstance(body[0], ast.Expr) and isinstance(body[0].value, ast.Constant):
        body = body[1:]
    inits = {}
    i = 0
    while i < len(body) and isinstance(body[i], ast.Assign):
        st = body[i]
        if not (len(st.targets) == 1 and isinstance(st.targets[0], ast.Name)
                and isinstance(st.value, ast.Constant) and st.value.value is False):
            raise Unsupported("check_sockets initialisation: %s" % ast.unparse(st))
        inits[st.targets[0].id] = "false"
        i += 1
    if sorted(inits) != sorted(SOCK_VARS):
        raise Unsupported("check_sockets flags are %s" % sorted(inits))
    if i >= len(body) or not isinstance(body[i], ast.For):
        raise Unsupported("check_sockets: no loop")
    loop = body[i]
    if not (isinstance(loop.target, ast.Name) and loop.target.id == "sock"
            and isinstance(loop.iter, ast.Name) and loop.iter.id == "sockets" and not loop.orelse):
        raise Unsupported("check_sockets loop header")

    def sock_cmp(e):
        if isinstance(e, ast.Compare) and len(e.ops) == 1 and isinstance(e.ops[0], ast.Eq) \
                and isinstance(e.left, ast.Attribute) and isinstance(e.left.value, ast.Name) and e.left.value.id == "sock" \
                and isinstance(e.comparators[0], ast.Attribute) and isinstance(e.comparators[0].value, ast.Name) \
                and e.comparators[0].value.id == "socket":
            return e.left.attr, e.comparators[0].attr
        return None

    def atom_loop(env):
        def atom(e):
            sc = sock_cmp(e)
            table = {("family", "AF_INET"): "fam_inet", ("family", "AF_INET6"): "fam_inet6",
                     ("family", "AF_UNIX"): "fam_unix", ("type", "SOCK_STREAM"): "typ_stream"}
            if sc in table:
                return table[sc]
            if isinstance(e, ast.Call) and isinstance(e.func, ast.Name) and e.func.id == "hasattr" \
                    and len(e.args) == 2 and isinstance(e.args[0], ast.Name) and e.args[0].id == "socket" \
                    and const_str(e.args[1]) == "AF_UNIX":
                return "has_af_unix"
            raise Unsupported("check_sockets test: %s" % ast.unparse(e))
        return atom

    def stmt_loop(st, env):
        if isinstance(st, ast.Assign) and len(st.targets) == 1 and isinstance(st.targets[0], ast.Name) \
                and st.targets[0].id in SOCK_VARS and isinstance(st.value, ast.Constant) and st.value.value is True:
            env = dict(env)
            env[st.targets[0].id] = "true"
            return env
        raise Unsupported("check_sockets loop statement: %s" % ast.unparse(st)[:60])

    r, env = walk(loop.body, dict(inits), atom_loop, stmt_loop)
    if r != "false":
        raise Unsupported("check_sockets loop raises")

    def atom_post(env):
        def atom(e):
            if isinstance(e, ast.Name) and e.id in SOCK_VARS:
                return {"has_unix_socket": "has_unix", "has_inet_socket": "has_inet",
                        "has_unsupported_socket": "has_unsup"}[e.id]
            raise Unsupported("check_sockets final test: %s" % ast.unparse(e))
        return atom

    def stmt_post(st, env):
        raise Unsupported("check_sockets final statement: %s" % ast.unparse(st)[:60])

    refused, _ = walk(body[i + 1:], {}, atom_post, stmt_post)
    a = "(fam_inet fam_inet6 fam_unix typ_stream has_af_unix : bool)"
    return [
        "(* one iteration of the loop in check_sockets: does this socket set the flag? *)",
        "Definition sock_inet %s : bool :=\n  %s." % (a, env["has_inet_socket"]),
        "Definition sock_unix %s : bool :=\n  %s." % (a, env["has_unix_socket"]),
        "Definition sock_unsup %s : bool :=\n  %s." % (a, env["has_unsupported_socket"]),
        "Definition socks_refused (has_unix has_inet has_unsup : bool) : bool :=\n  %s." % refused,
    ]


def gen_params(cls):
    v = class_assign(cls, "_params")
    if not isinstance(v, ast.Tuple):
        raise Unsupported("_params is not a tuple literal")
    rows = []
    for elt in v.elts:
        if not (isinstance(elt, ast.Tuple) and len(elt.elts) == 2 and isinstance(elt.elts[1], ast.Name)):
            raise Unsupported("_params row: %s" % ast.unparse(elt))
        name = const_str(elt.elts[0])
        c = elt.elts[1].id
        if c not in CASTS:
            raise Unsupported("cast %s of %s is not known to the model" % (c, name))
        rows.append((name, CASTS[c]))
    pm = class_assign(cls, "_param_map")
    if shape(ast.Expr(pm)) != shape(ast.parse("dict(_params)").body[0]):
        raise Unsupported("_param_map is not dict(_params)")
    lines = ["Definition params : list (list N * cast) :=\n  ["]
    for k, (name, c) in enumerate(rows):
        lines.append("   (%s, %s)%s  (* %s *)" % (S(name), c, ";" if k < len(rows) - 1 else "", safe(name)))
    lines.append("  ].")
    return ["\n".join(lines)]


def gen_defaults(cls):
    out = []
    h = class_assign(cls, "host")
    p = class_assign(cls, "port")
    if not (isinstance(h, ast.Call) and isinstance(h.func, ast.Name) and h.func.id == "_str_marker" and len(h.args) == 1):
        raise Unsupported("default host is not _str_marker(<literal>)")
    if not (isinstance(p, ast.Call) and isinstance(p.func, ast.Name) and p.func.id == "_int_marker" and len(p.args) == 1
            and isinstance(p.args[0], ast.Constant) and type(p.args[0].value) is int and p.args[0].value >= 0):
        raise Unsupported("default port is not _int_marker(<literal>)")
    out.append("Definition default_host : list N := %s.  (* %s *)" % (S(const_str(h.args[0])), safe(const_str(h.args[0]))))
    out.append("Definition default_port : N := %d." % p.args[0].value)
    li = class_assign(cls, "listen")
    if shape(ast.Expr(li)) != shape(ast.parse('[f"{host}:{port}"]').body[0]):
        raise Unsupported("default listen is not [f<dq>{host}:{port}<dq>]")
    for n in ("ipv4", "ipv6"):
        v = class_assign(cls, n)
        if not (isinstance(v, ast.Constant) and type(v.value) is bool):
            raise Unsupported("default %s is not a bool literal" % n)
        out.append("Definition default_%s : bool := %s." % (n, "true" if v.value else "false"))
    for n in ("trusted_proxy", "trusted_proxy_count"):
        v = class_assign(cls, n)
        if not (isinstance(v, ast.Constant) and v.value is None):
            raise Unsupported("default %s is not None" % n)
    v = class_assign(cls, "trusted_proxy_headers")
    if shape(ast.Expr(v)) != shape(ast.parse("set()").body[0]):
        raise Unsupported("default trusted_proxy_headers is not set()")
    v = class_assign(cls, "sockets")
    if not (isinstance(v, ast.List) and not v.elts):
        raise Unsupported("default sockets is not []")
    out.append("(* trusted_proxy = None, trusted_proxy_count = None, trusted_proxy_headers = set(), sockets = [] *)")
    out.append("Definition defaults_proxy_and_sockets_empty : bool := true.")
    return out


def gen_truthy(tree):
    for n in tree.body:
        if isinstance(n, ast.Assign) and isinstance(n.targets[0], ast.Name) and n.targets[0].id == "truthy":
            v = n.value
            if isinstance(v, ast.Call) and isinstance(v.func, ast.Name) and v.func.id in ("frozenset", "set") and len(v.args) == 1:
                v = v.args[0]
            if not isinstance(v, (ast.Tuple, ast.List, ast.Set)):
                raise Unsupported("truthy is not a literal collection")
            return ["Definition truthy : list (list N) := %s." % SL(sorted(const_str(x) for x in v.elts))]
    raise Unsupported("truthy not found")


def gen_known_headers():
    sys.path.insert(0, os.path.join(REPO, "src"))
    import importlib
    mod = importlib.import_module("waitress.adjustments")
    ks = getattr(mod, "KNOWN_PROXY_HEADERS")
    if not isinstance(ks, (set, frozenset)) or not all(isinstance(k, str) for k in ks):
        raise Unsupported("KNOWN_PROXY_HEADERS is not a set of str")
    return ["(* value of waitress.adjustments.KNOWN_PROXY_HEADERS after import: %s *)" % safe(repr(sorted(ks))),
            "Definition known_proxy_headers : list (list N) := %s." % SL(sorted(ks))]


# -- parse_args ------------------------------------------------------------------------

def is_call_method(e, objname, meth, nargs):
    return (isinstance(e, ast.Call) and isinstance(e.func, ast.Attribute) and e.func.attr == meth
            and isinstance(e.func.value, ast.Name) and e.func.value.id == objname and len(e.args) == nargs
            and not e.keywords)


def one_char(s, what):
    if len(s) != 1:
        raise Unsupported("%s is not a single character: %r" % (what, s))
    return ord(s)


def for_header(loop):
    return ast.dump(loop.target) + " in " + ast.dump(loop.iter)


def gen_cli(fn):
    body = list(fn.body)
    if body and isinstance(body[0], ast.Expr) and isinstance(body[0].value, ast.Constant):
        body = body[1:]
    out = []
    # long_opts = [...]
    st = body[0]
    if not (isinstance(st, ast.Assign) and isinstance(st.targets[0], ast.Name) and st.targets[0].id == "long_opts"
            and isinstance(st.value, ast.List)):
        raise Unsupported("parse_args does not start with long_opts = [...]")
    fixed = [const_str(x) for x in st.value.elts]
    if any(f.endswith("=") for f in fixed):
        raise Unsupported("a fixed long option takes a value")
    # for opt, cast in cls._params:
    lp = body[1]
    ok = (isinstance(lp, ast.For) and for_header(lp) == for_header(ast.parse("for opt, cast in cls._params: pass").body[0])
          and len(lp.body) == 2 and not lp.orelse)
    if not ok:
        raise Unsupported("long option loop header/body changed")
    a0, a1 = lp.body
    if not (isinstance(a0, ast.Assign) and isinstance(a0.targets[0], ast.Name) and a0.targets[0].id == "opt"
            and is_call_method(a0.value, "opt", "replace", 2)):
        raise Unsupported("opt = opt.replace(...) expected")
    m_from = one_char(const_str(a0.value.args[0]), "replace source")
    m_to = one_char(const_str(a0.value.args[1]), "replace target")
    if not (isinstance(a1, ast.If) and isinstance(a1.test, ast.Compare) and len(a1.test.ops) == 1
            and isinstance(a1.test.ops[0], ast.Is) and isinstance(a1.test.left, ast.Name) and a1.test.left.id == "cast"
            and isinstance(a1.test.comparators[0], ast.Name)):
        raise Unsupported("`if cast is <f>` expected")
    flagcast = a1.test.comparators[0].id
    if flagcast not in CASTS:
        raise Unsupported("flag cast %s" % flagcast)

    def appended(st):
        if not (isinstance(st, ast.Expr) and is_call_method(st.value, "long_opts", "append", 1)):
            raise Unsupported("long_opts.append(...) expected: %s" % ast.unparse(st))
        e = st.value.args[0]
        if isinstance(e, ast.Name) and e.id == "opt":
            return "opt"
        if isinstance(e, ast.BinOp) and isinstance(e.op, ast.Add):
            if isinstance(e.left, ast.Name) and e.left.id == "opt":
                return "(opt ++ %s)" % S(const_str(e.right))
            if isinstance(e.right, ast.Name) and e.right.id == "opt":
                return "(%s ++ opt)" % S(const_str(e.left))
        if isinstance(e, ast.Constant):
            return S(const_str(e))
        raise Unsupported("appended long option: %s" % ast.unparse(e))

    then_l = [appended(s) for s in a1.body]
    else_l = [appended(s) for s in a1.orelse]
    tail = []
    k = 2
    while k < len(body) and isinstance(body[k], ast.Expr) and is_call_method(body[k].value, "long_opts", "append", 1):
        tail.append(const_str(body[k].value.args[0]))
        k += 1
    out.append("Definition cli_mangle (opt : list N) : list N := replace_byte %d %d opt.  (* opt.replace *)" % (m_from, m_to))
    out.append("Definition cli_long_opts_of (pc : list N * cast) : list (list N) :=\n"
               "  let opt := cli_mangle (fst pc) in\n"
               "  if cast_eqb (snd pc) %s then [%s] else [%s]." % (CASTS[flagcast], "; ".join(then_l), "; ".join(else_l)))
    out.append("Definition cli_long_opts : list (list N) :=\n  %s ++ flat_map cli_long_opts_of params ++ %s." % (SL(fixed), SL(tail)))
    # kw = {...}
    st = body[k]
    if not (isinstance(st, ast.Assign) and isinstance(st.targets[0], ast.Name) and st.targets[0].id == "kw"
            and isinstance(st.value, ast.Dict)):
        raise Unsupported("kw = {...} expected")
    init = []
    for kk, vv in zip(st.value.keys, st.value.values):
        if not (isinstance(vv, ast.Constant) and (vv.value is None or vv.value is False)):
            raise Unsupported("initial kw value: %s" % ast.unparse(vv))
        init.append((const_str(kk), "IFalse" if vv.value is False else "INone"))
    out.append("Definition cli_initial_kw : list (list N * cli_init) := [%s]." % "; ".join("(%s, %s)" % (S(a), b) for a, b in init))
    k += 1
    if shape(body[k]) != shape_of_src("app = None") or \
            shape(body[k + 1]) != shape_of_src('opts, args = getopt.getopt(argv, "", long_opts)'):
        raise Unsupported("app = None; opts, args = getopt.getopt(argv, <dq><dq>, long_opts) expected")
    lp = body[k + 2]
    if not (isinstance(lp, ast.For) and for_header(lp) == for_header(ast.parse("for opt, value in opts: pass").body[0])
            and not lp.orelse):
        raise Unsupported("option loop header changed")
    lb = list(lp.body)
    a0 = lb[0]
    # param = opt.lstrip("-").replace("-", "_")
    if not (isinstance(a0, ast.Assign) and isinstance(a0.targets[0], ast.Name) and a0.targets[0].id == "param"
            and isinstance(a0.value, ast.Call) and isinstance(a0.value.func, ast.Attribute) and a0.value.func.attr == "replace"
            and len(a0.value.args) == 2 and is_call_method(a0.value.func.value, "opt", "lstrip", 1)):
        raise Unsupported("param = opt.lstrip(..).replace(.., ..) expected")
    strip_chars = const_str(a0.value.func.value.args[0])
    u_from = one_char(const_str(a0.value.args[0]), "replace source")
    u_to = one_char(const_str(a0.value.args[1]), "replace target")
    out.append("Definition cli_unmangle (opt : list N) : list N :=\n"
               "  replace_byte %d %d (lstrip_by (fun x => memb x %s) opt).  (* opt.lstrip(..).replace(.., ..) *)" % (u_from, u_to, S(strip_chars)))
    # the chain: a leading `if ...: ...; continue`, then if/elif/else
    chain = []  # (test expr | None, body stmts)
    rest = lb[1:]
    while rest:
        st = rest[0]
        if not isinstance(st, ast.If):
            raise Unsupported("statement in the option loop: %s" % ast.unparse(st)[:60])
        if st.body and isinstance(st.body[-1], ast.Continue) and not st.orelse:
            chain.append((st.test, st.body[:-1]))
            rest = rest[1:]
            continue
        if len(rest) != 1:
            raise Unsupported("statements after the if/elif chain of the option loop")
        cur = st
        while True:
            chain.append((cur.test, cur.body))
            if len(cur.orelse) == 1 and isinstance(cur.orelse[0], ast.If):
                cur = cur.orelse[0]
            else:
                if not cur.orelse:
                    raise Unsupported("option chain has no else branch")
                chain.append((None, cur.orelse))
                break
        rest = []

    def kw_store(st):
        """kw[<key>] = <value>  -> (key expr node, value node)"""
        if isinstance(st, ast.Assign) and len(st.targets) == 1 and isinstance(st.targets[0], ast.Subscript) \
                and isinstance(st.targets[0].value, ast.Name) and st.targets[0].value.id == "kw":
            return st.targets[0].slice, st.value
        return None

    def action(test, stmts):
        # ActAccum
        if len(stmts) == 1 and kw_store(stmts[0]) and isinstance(kw_store(stmts[0])[0], ast.Constant):
            key, val = kw_store(stmts[0])
            keyname = const_str(key)
            if not (isinstance(test, ast.Compare) and isinstance(test.ops[0], ast.Eq) and const_str(test.comparators[0]) == keyname):
                raise Unsupported("constant key store under a different test")
            if not (isinstance(val, ast.Call) and isinstance(val.func, ast.Attribute) and val.func.attr == "format"
                    and len(val.args) == 2 and isinstance(val.args[1], ast.Name) and val.args[1].id == "value"
                    and is_call_method(val.args[0], "kw", "get", 2) and const_str(val.args[0].args[0]) == keyname):
                raise Unsupported("accumulating store is not fmt.format(kw.get(key, dflt), value)")
            fmt = const_str(val.func.value)
            m = re.fullmatch(r"\{\}([^{}]*)\{\}", fmt)
            if not m:
                raise Unsupported("format string %r" % fmt)
            return "ActAccum %s %s" % (S(m.group(1)), S(const_str(val.args[0].args[1])))
        if len(stmts) == 2 and isinstance(stmts[0], ast.Assign) and isinstance(stmts[0].targets[0], ast.Name) \
                and stmts[0].targets[0].id == "param" and isinstance(stmts[0].value, ast.Subscript):
            sl = stmts[0].value
            if not (isinstance(sl.value, ast.Name) and sl.value.id == "param" and isinstance(sl.slice, ast.Slice)
                    and sl.slice.upper is None and sl.slice.step is None and isinstance(sl.slice.lower, ast.Constant)
                    and type(sl.slice.lower.value) is int and 0 <= sl.slice.lower.value < 64):
                raise Unsupported("param = param[n:] expected")
            ks = kw_store(stmts[1])
            if not (ks and isinstance(ks[0], ast.Name) and ks[0].id == "param"):
                raise Unsupported("kw[param] = <const> expected")
            return "ActStripPrefix %d %s" % (sl.slice.lower.value, S(const_str(ks[1])))
        if len(stmts) == 1 and kw_store(stmts[0]):
            key, val = kw_store(stmts[0])
            if not (isinstance(key, ast.Name) and key.id == "param"):
                raise Unsupported("store under a computed key")
            if isinstance(val, ast.Constant) and val.value is True:
                return "ActSetTrue"
            if isinstance(val, ast.Constant) and isinstance(val.value, str):
                return "ActConst %s" % S(val.value)
            if isinstance(val, ast.Name) and val.id == "value":
                return "ActValue"
            raise Unsupported("stored value: %s" % ast.unparse(val))
        if len(stmts) == 1 and shape(stmts[0]) == shape_of_src("app = value"):
            return "ActApp"
        raise Unsupported("option branch body: %s" % "; ".join(ast.unparse(s) for s in stmts)[:80])

    def test_expr(t):
        """-> ('bool', gallina) or ('cast', castname)"""
        if isinstance(t, ast.Compare) and len(t.ops) == 1 and isinstance(t.left, ast.Name) and t.left.id == "param":
            if isinstance(t.ops[0], ast.Eq):
                return ("bool", "beqb param %s" % S(const_str(t.comparators[0])))
            if isinstance(t.ops[0], ast.In) and isinstance(t.comparators[0], (ast.Tuple, ast.List, ast.Set)):
                return ("bool", "memstr param %s" % SL([const_str(x) for x in t.comparators[0].elts]))
        if is_call_method(t, "param", "startswith", 1):
            return ("bool", "startswith param %s" % S(const_str(t.args[0])))
        if isinstance(t, ast.Compare) and len(t.ops) == 1 and isinstance(t.ops[0], ast.Is) \
                and shape(ast.Expr(t.left)) == shape(ast.parse("cls._param_map[param]").body[0]) \
                and isinstance(t.comparators[0], ast.Name) and t.comparators[0].id in CASTS:
            return ("cast", CASTS[t.comparators[0].id])
        raise Unsupported("option chain test: %s" % ast.unparse(t))

    def build(ch):
        (t, b) = ch[0]
        if t is None:
            if len(ch) != 1:
                raise Unsupported("else in the middle of the chain")
            return "Some (%s)" % action(None, b)
        if len(ch) == 1:
            raise Unsupported("chain ends without else")
        kind, e = test_expr(t)
        rest_e = build(ch[1:])
        if kind == "bool":
            return "if %s then Some (%s)\n    else %s" % (e, action(t, b), rest_e)
        # cls._param_map[param] raises KeyError for a name that is not a parameter
        return ("match castof param with\n    | None => None\n    | Some c => if cast_eqb c %s then Some (%s)\n    else %s\n    end"
                % (e, action(t, b), rest_e))

    out.append("(* the body of `for opt, value in opts:` after param is computed; None = KeyError from cls._param_map[param] *)")
    out.append("Definition cli_classify (castof : list N -> option cast) (param : list N) : option cli_action :=\n    %s." % build(chain))
    return out


def gen_middleware():
    tree = ast.parse(open(os.path.join(SRC, "server.py")).read())
    cls = find_class(tree, "BaseWSGIServer")
    init = find_method(cls, "__init__")
    cands = []
    for st in init.body:
        if isinstance(st, ast.If) and any(isinstance(s, ast.Call) and isinstance(s.func, ast.Name)
                                           and s.func.id == "proxy_headers_middleware" for s in ast.walk(st)):
            cands.append(st)
    calls_anywhere = [s for s in ast.walk(tree) if isinstance(s, ast.Call) and isinstance(s.func, ast.Name)
                      and s.func.id == "proxy_headers_middleware"]
    if len(cands) != 1 or len(calls_anywhere) != 1 or cands[0].orelse:
        raise Unsupported("expected exactly one `if ...: application = proxy_headers_middleware(...)` in BaseWSGIServer.__init__")

    def atom(e):
        if isinstance(e, ast.Attribute) and isinstance(e.value, ast.Name) and e.value.id == "adj":
            if e.attr == "trusted_proxy":
                return "tp_truthy"
            if e.attr == "clear_untrusted_proxy_headers":
                return "clear_untrusted"
        raise Unsupported("middleware test: %s" % ast.unparse(e))
    c = bexpr(cands[0].test, atom)
    return ["(* server.py BaseWSGIServer.__init__: is the proxy-headers middleware installed? *)",
            "Definition middleware_installed (tp_truthy clear_untrusted : bool) : bool :=\n  %s." % c]


# -- documentation --------------------------------------------------------------------

def doc_arg_names():
    path = os.path.join(DOCS, "arguments.rst")
    lines = open(path, encoding="utf-8").read().split("\n")
    names = []
    for i, l in enumerate(lines):
        if re.fullmatch(r"[a-z][a-z0-9_]*", l) and i + 1 < len(lines) and re.match(r"\s+\S", lines[i + 1]) \
                and (i == 0 or lines[i - 1].strip() == ""):
            names.append(l)
    if not names:
        raise Unsupported("no definition-list terms found in docs/arguments.rst")
    return names


def help_options():
    tree = ast.parse(open(os.path.join(SRC, "runner.py")).read())
    txt = None
    for n in tree.body:
        if isinstance(n, ast.Assign) and isinstance(n.targets[0], ast.Name) and n.targets[0].id == "HELP":
            txt = const_str(n.value)
    if txt is None:
        raise Unsupported("HELP not found in runner.py")
    rows = []
    for l in txt.split("\n"):
        m = re.fullmatch(r" {4}--(\[no-\])?([A-Za-z0-9][A-Za-z0-9_-]*)(=\S+)?", l)
        if m:
            rows.append((m.group(2), bool(m.group(1)), bool(m.group(3))))
        elif re.match(r" {4}--", l):
            raise Unsupported("HELP option line not understood: %r" % l)
    if not rows:
        raise Unsupported("no option lines in HELP")
    return rows


def gen_docs():
    names = doc_arg_names()
    return ["(* definition-list terms of docs/arguments.rst, in order *)",
            "Definition docs_args : list (list N) := %s." % SL(names)]


def gen_help():
    rows = help_options()
    body = ";\n   ".join("(%s, %s, %s)" % (S(n), "true" if no else "false", "true" if val else "false") for n, no, val in rows)
    return ["(* option lines of runner.HELP: (name without --, documented as --[no-]name, documented with =VALUE) *)",
            "(* %s *)" % safe(" ".join(n for n, _, _ in rows)),
            "Definition help_opts : list (list N * bool * bool) :=\n  [%s]." % body]


# -- documented header kinds and documented defaults ---------------------------------

def rst_entries(path, term_re):
    """definition-list entries of an .rst file: [(term match, [body lines])]"""
    lines = open(path, encoding="utf-8").read().split("\n")
    out, cur = [], None
    for i, l in enumerate(lines):
        m = re.fullmatch(term_re, l)
        if m and i + 1 < len(lines) and re.match(r"\s+\S", lines[i + 1]) and (i == 0 or lines[i - 1].strip() == ""):
            cur = (m, [])
            out.append(cur)
        elif cur is not None:
            if l.strip() and not l.startswith(" "):
                cur = None          # an unindented line ends the entry
            else:
                cur[1].append(l)
    return out


def help_entries():
    """[(option name without --, [body lines])] of runner.HELP"""
    tree = ast.parse(open(os.path.join(SRC, "runner.py")).read())
    txt = None
    for n in tree.body:
        if isinstance(n, ast.Assign) and isinstance(n.targets[0], ast.Name) and n.targets[0].id == "HELP":
            txt = const_str(n.value)
    if txt is None:
        raise Unsupported("HELP not found in runner.py")
    out, cur = [], None
    for l in txt.split("\n"):
        m = re.fullmatch(r" {4}--(\[no-\])?([A-Za-z0-9][A-Za-z0-9_-]*)(=\S+)?", l)
        if m:
            cur = (m.group(2), [])
            out.append(cur)
        elif cur is not None:
            if l.strip() and not l.startswith(" "):
                cur = None
            else:
                cur[1].append(l)
    return out


def runner_rst_entries():
    es = rst_entries(os.path.join(DOCS, "runner.rst"), r"``--(\[no-\])?([A-Za-z0-9][A-Za-z0-9_-]*)(=\S+)?``")
    return [(m.group(2), body) for m, body in es]


def first_paragraph(body):
    out = []
    for l in body:
        if not l.strip():
            if out:
                break
            continue
        out.append(l.strip())
    return " ".join(out)


def header_kinds_in(text):
    """the double-quoted lower-case words of the first paragraph"""
    return re.findall(r'"([a-z][a-z-]*)"', text)


def gen_doc_headers():
    es = rst_entries(os.path.join(DOCS, "arguments.rst"), r"([a-z][a-z0-9_]*)")
    d = [body for m, body in es if m.group(1) == "trusted_proxy_headers"]
    h = [body for n, body in help_entries() if n == "trusted-proxy-headers"]
    r = [body for n, body in runner_rst_entries() if n == "trusted-proxy-headers"]
    if len(d) != 1 or len(h) != 1 or len(r) != 1:
        raise Unsupported("trusted_proxy_headers is not documented exactly once in arguments.rst / HELP / runner.rst")
    out = []
    for name, body in (("docs_proxy_headers", d[0]), ("help_proxy_headers", h[0]), ("runner_rst_proxy_headers", r[0])):
        ks = header_kinds_in(first_paragraph(body))
        if not ks:
            raise Unsupported("no header kinds found in the %s entry" % name)
        out.append("(* header kinds named in the first paragraph of the trusted_proxy_headers entry: %s *)" % safe(" ".join(ks)))
        out.append("Definition %s : list (list N) := %s." % (name, SL(ks)))
    return out


def dval_of_literal(x):
    """a documented default as written -> Coq dval"""
    x = x.strip()
    if x == "None":
        return "DNone"
    if x in ("True", "False"):
        return "DBool %s" % ("true" if x == "True" else "false")
    if x == "[]":
        return "DEmptyList"
    if len(x) >= 2 and x[0] == x[-1] and x[0] in "'\"":
        x = x[1:-1]
    return "DStr %s" % S(x)


def gen_class_defaults(cls):
    """the class-level default of every adjustment of _params, as written"""
    tree_params = [n for n in cls.body if isinstance(n, ast.Assign) and isinstance(n.targets[0], ast.Name) and n.targets[0].id == "_params"]
    names = [const_str(e.elts[0]) for e in tree_params[0].value.elts]
    rows = []
    for n in names:
        v = class_assign(cls, n)
        if isinstance(v, ast.Call) and isinstance(v.func, ast.Name) and v.func.id in ("_str_marker", "_int_marker") and len(v.args) == 1:
            v = v.args[0]
        if isinstance(v, ast.Constant) and v.value is None:
            d = "DNone"
        elif isinstance(v, ast.Constant) and type(v.value) is bool:
            d = "DBool %s" % ("true" if v.value else "false")
        elif isinstance(v, ast.Constant) and type(v.value) is int:
            d = "DInt (%d)%%Z" % v.value
        elif isinstance(v, ast.Constant) and type(v.value) is str:
            d = "DStr %s" % S(v.value)
        elif isinstance(v, ast.List) and not v.elts:
            d = "DEmptyList"
        elif shape(ast.Expr(v)) == shape(ast.parse("set()").body[0]):
            d = "DEmptySet"
        elif n == "listen" and shape(ast.Expr(v)) == shape(ast.parse('[f"{host}:{port}"]').body[0]):
            d = "DHostPort"
        else:
            raise Unsupported("class default of %s is not a literal the model knows" % n)
        rows.append("(%s, %s)" % (S(n), d))
    return ["(* class-level defaults of Adjustments, as written (0o600 = 384) *)",
            "Definition class_defaults : list (list N * dval) :=\n  [%s]." % ";\n   ".join(rows)]


CONDITIONAL = re.compile(r"is set, the default is")


def defaults_in_text(text):
    """documented defaults in one entry (whitespace-normalised text); conditional ones are skipped"""
    text = CONDITIONAL.sub("is set, the conditional value is", text)
    found = []
    for m in re.finditer(r"Default: ``(.*?)``", text):                 # Default: ``X``  (rst)
        found.append(m.group(1))
    for m in re.finditer(r",\s*default ``(.*?)``", text):              # ..., default ``0.0.0.0`` (rst, inline)
        found.append(m.group(1))
    for m in re.finditer(r"[Dd]efault(?: is value)? is ``(.*?)``", text):   # The default is value is ``x``
        found.append(m.group(1))
    for m in re.finditer(r"[Dd]efault is ('[^']*')", text):            # default is '0.0.0.0'
        found.append(m.group(1))
    for m in re.finditer(r"[Dd]efault is (\d+|True|False)\b", text):   # Default is 1024 / Default is False
        found.append(m.group(1))
    for m in re.finditer(r"Default: ('[^']*'|\d+)(?=[\s.]|$)", text):  # Default: 1 / Default: '0'  (HELP)
        found.append(m.group(1))
    if re.search(r"Default is the empty string", text):
        found.append("''")
    if re.search(r"\bOn by default|active by default", text):
        found.append("True")
    if re.search(r"\bOff by default", text):
        found.append("False")
    return found


def gen_doc_defaults():
    out = []
    es = rst_entries(os.path.join(DOCS, "arguments.rst"), r"([a-z][a-z0-9_]*)")
    sources = [("docs_defaults", "docs/arguments.rst", [(m.group(1), body) for m, body in es]),
               ("help_defaults", "runner.HELP", [(n.replace("-", "_"), body) for n, body in help_entries()]),
               ("runner_rst_defaults", "docs/runner.rst", [(n.replace("-", "_"), body) for n, body in runner_rst_entries()])]
    for coqname, what, entries in sources:
        rows, seen = [], []
        for name, body in entries:
            text = " ".join(l.strip() for l in body if l.strip())
            for lit in defaults_in_text(text):
                if (name, lit) in seen:
                    continue
                seen.append((name, lit))
                rows.append("(%s, %s)  (* %s: %s *)" % (S(name), dval_of_literal(lit), name, safe(lit)))
        if not rows:
            raise Unsupported("no documented defaults found in %s" % what)
        body = ";\n   ".join(r.split("  (*")[0] for r in rows)
        out.append("(* defaults stated in %s (name with underscores, the literal as written): %s *)" % (
            what, safe("; ".join("%s=%s" % x for x in seen))))
        out.append("Definition %s : list (list N * dval) :=\n  [%s]." % (coqname, body))
    return out


PRELUDE = """From Coq Require Import List NArith ZArith Bool.
From WV Require Import Lib.PyBytes.
Import ListNotations.
Local Open Scope N_scope.

(* fixed vocabulary of the generated terms *)
Inductive cast := CStr | CInt | CBool | CList | CStrIfTruthy | CSet | CSlash | COctal | CSockets.
Definition cast_eqb (a b : cast) : bool :=
  match a, b with
  | CStr, CStr | CInt, CInt | CBool, CBool | CList, CList | CStrIfTruthy, CStrIfTruthy
  | CSet, CSet | CSlash, CSlash | COctal, COctal | CSockets, CSockets => true
  | _, _ => false
  end.
Inductive family := FamUnspec | FamInet | FamInet6.
Inductive cli_init := IFalse | INone.
Inductive cli_action :=
  | ActAccum (sep dflt : list N)        (* kw[k] = fmt.format(kw.get(k, dflt), value); continue *)
  | ActStripPrefix (n : nat) (v : list N) (* param = param[n:]; kw[param] = v *)
  | ActSetTrue                          (* kw[param] = True *)
  | ActApp                              (* app = value *)
  | ActConst (v : list N)               (* kw[param] = v *)
  | ActValue.                           (* kw[param] = value *)
Definition memstr (x : list N) (l : list (list N)) : bool := existsb (beqb x) l.
(* a default value as written in the class body or in the documentation *)
Inductive dval :=
  | DNone | DBool (b : bool) | DInt (z : Z) | DStr (s : list N)
  | DEmptyList | DEmptySet
  | DHostPort.                           (* [f<dq>{host}:{port}<dq>] *)
"""


def main(outpath):
    o = Out()
    o.w("(* GENERATED by translate/gen_adjust.py from %s -- do not edit *)" % safe(REPO))
    for l in PRELUDE.split("\n"):
        o.w(l)
    try:
        tree = ast.parse(open(os.path.join(SRC, "adjustments.py")).read())
        cls = find_class(tree, "Adjustments")
        init = canon_method(cls, "__init__")
    except Exception as e:
        o.problems.append("adjustments.py: %s" % e)
        o.w("(* ABSENT everything: %s *)" % safe(str(e)))
        tree = cls = init = None
    if tree is not None:
        o.item("truthy", lambda: gen_truthy(tree))
        o.item("known_proxy_headers", gen_known_headers)
        o.item("params", lambda: gen_params(cls))
        o.item("defaults", lambda: gen_defaults(cls))
        try:
            sec = split_init(init)
        except Unsupported as e:
            o.problems.append("__init__: %s" % e)
            o.w("(* ABSENT excl, assign_loop_standard, hostport_override, families, proxy: %s *)" % safe(str(e)))
            sec = None
        if sec is not None:
            o.item("excl", lambda: gen_excl(sec["excl"]))
            o.item("assign_loop_standard", lambda: gen_loop(sec["loop"]))
            o.item("hostport_override", lambda: gen_hostport(sec["hostport"]))
            o.item("families", lambda: gen_families(sec["families"]))
            o.item("proxy", lambda: gen_proxy(sec["proxy"]))
        o.item("check_sockets", lambda: gen_check_sockets(canon_method(cls, "check_sockets")))
        o.item("cli", lambda: gen_cli(canon_method(cls, "parse_args")))
    o.item("middleware_installed", gen_middleware)
    o.item("docs_args", gen_docs)
    o.item("help_opts", gen_help)
    o.item("documented header kinds", gen_doc_headers)
    if cls is not None:
        o.item("class_defaults", lambda: gen_class_defaults(cls))
    o.item("documented defaults", gen_doc_defaults)
    text = "\n".join(o.lines) + "\n"
    old = None
    if os.path.exists(outpath):
        old = open(outpath).read()
    if old != text:
        os.makedirs(os.path.dirname(outpath), exist_ok=True)
        open(outpath, "w").write(text)
    for p in o.problems:
        print("TRANSLATOR-PROBLEM gen_adjust: " + p.replace("\n", " "))
    return 0


if __name__ == "__main__":
    sys.exit(main(sys.argv[1] if len(sys.argv) > 1 else "/verif/coq/Gen/GenAdjust.v"))
