#!/usr/bin/env python3
"""Translate the compiled regular expressions of waitress and the way each is
applied at its call site into Coq terms (coq/Gen/GenRegex.v).

Fail closed: any construct outside the small subset handled here makes the
item be emitted as an *absent* definition (a comment), so that every theorem
depending on it stops compiling and the tie is reported broken.

Run with the interpreter that has /repo/src on PYTHONPATH.
"""
import ast
import os
import re
import sys

try:
    import re._parser as sre_parse
    import re._constants as sre_c
except ImportError:  # pragma: no cover
    import sre_parse
    import sre_constants as sre_c

REPO = os.environ.get("WAITRESS_REPO", "/repo")
SRC = os.path.join(REPO, "src", "waitress")


class Unsupported(Exception):
    pass


def norm_ranges(rs):
    rs = sorted((lo, hi) for lo, hi in rs if lo <= hi)
    out = []
    for lo, hi in rs:
        if out and lo <= out[-1][1] + 1:
            out[-1] = (out[-1][0], max(out[-1][1], hi))
        else:
            out.append((lo, hi))
    return out


def complement(rs, top=255):
    rs = norm_ranges(rs)
    out = []
    cur = 0
    for lo, hi in rs:
        if lo > cur:
            out.append((cur, lo - 1))
        cur = hi + 1
    if cur <= top:
        out.append((cur, top))
    return out


CATEGORIES = {
    "CATEGORY_DIGIT": [(48, 57)],
    "CATEGORY_SPACE": [(9, 13), (32, 32)],
    "CATEGORY_WORD": [(48, 57), (65, 90), (95, 95), (97, 122)],
}


def cls(rs):
    rs = norm_ranges(rs)
    if not rs:
        return "Emp"
    return "(Cls [%s])" % ";".join("(%d,%d)" % r for r in rs)


def tr_in(items):
    neg = False
    rs = []
    for op, av in items:
        name = str(op)
        if name == "NEGATE":
            neg = True
        elif name == "LITERAL":
            rs.append((av, av))
        elif name == "RANGE":
            rs.append((av[0], av[1]))
        elif name == "CATEGORY":
            cname = str(av)
            if cname in CATEGORIES:
                rs.extend(CATEGORIES[cname])
            elif cname.startswith("CATEGORY_NOT_") and "CATEGORY_" + cname[13:] in CATEGORIES:
                rs.extend(complement(CATEGORIES["CATEGORY_" + cname[13:]]))
            else:
                raise Unsupported("category %s" % cname)
        else:
            raise Unsupported("IN item %s" % name)
    if any(hi > 255 for _, hi in rs):
        raise Unsupported("code point above 255 in class")
    if neg:
        rs = complement(rs)
    return cls(rs)


def cat(parts):
    parts = [p for p in parts if p != "Eps"]
    if not parts:
        return "Eps"
    out = parts[-1]
    for p in reversed(parts[:-1]):
        out = "(Cat %s %s)" % (p, out)
    return out


def alt(parts):
    out = parts[-1]
    for p in reversed(parts[:-1]):
        out = "(Alt %s %s)" % (p, out)
    return out


def tr_seq(seq, flags):
    return cat([tr_item(op, av, flags) for op, av in seq])


def tr_item(op, av, flags):
    name = str(op)
    if name == "LITERAL":
        if av > 255:
            raise Unsupported("literal above 255")
        if flags & re.IGNORECASE:
            raise Unsupported("IGNORECASE")
        return "(Sym %d)" % av
    if name == "NOT_LITERAL":
        return cls(complement([(av, av)]))
    if name == "ANY":
        if flags & re.DOTALL:
            return cls([(0, 255)])
        return cls(complement([(10, 10)]))
    if name == "IN":
        if flags & re.IGNORECASE:
            raise Unsupported("IGNORECASE")
        return tr_in(av)
    if name in ("MAX_REPEAT", "MIN_REPEAT", "POSSESSIVE_REPEAT"):
        if name == "POSSESSIVE_REPEAT":
            raise Unsupported("possessive repeat changes the language")
        lo, hi, sub = av
        body = tr_seq(sub, flags)
        if hi == sre_c.MAXREPEAT:
            if lo > 64:
                raise Unsupported("repeat lower bound too large")
            if lo == 0:
                return "(Star %s)" % body
            if lo == 1:
                return "(Plus %s)" % body
            return "(RepMin %s %d)" % (body, lo)
        if hi > 64:
            raise Unsupported("repeat upper bound too large")
        if lo == 0 and hi == 1:
            return "(Opt %s)" % body
        return "(Rep %s %d %d)" % (body, lo, hi - lo)
    if name == "SUBPATTERN":
        group, add_flags, del_flags, sub = av
        if add_flags or del_flags:
            raise Unsupported("inline flags")
        return tr_seq(sub, flags)
    if name == "BRANCH":
        _, alts = av
        return alt([tr_seq(a, flags) for a in alts])
    raise Unsupported("regex node %s" % name)


def translate_pattern(rx):
    """-> (body_term, anchored_begin, anchored_end_kind) ; end kind in
    {None, 'dollar', 'Z'}"""
    flags = rx.flags
    if flags & (re.MULTILINE | re.VERBOSE | re.IGNORECASE | re.LOCALE):
        raise Unsupported("flags %r" % flags)
    pat = rx.pattern
    tree = list(sre_parse.parse(pat, flags & ~re.UNICODE if isinstance(pat, bytes) else flags))
    begin = False
    end = None
    if tree and str(tree[0][0]) == "AT":
        if str(tree[0][1]) in ("AT_BEGINNING", "AT_BEGINNING_STRING"):
            begin = True
            tree = tree[1:]
        else:
            raise Unsupported("leading AT %s" % tree[0][1])
    if tree and str(tree[-1][0]) == "AT":
        k = str(tree[-1][1])
        if k == "AT_END":
            end = "dollar"
        elif k == "AT_END_STRING":
            end = "Z"
        else:
            raise Unsupported("trailing AT %s" % k)
        tree = tree[:-1]

    def has_at(seq):
        for op, av in seq:
            n = str(op)
            if n == "AT":
                return True
            if n in ("MAX_REPEAT", "MIN_REPEAT") and has_at(av[2]):
                return True
            if n == "SUBPATTERN" and has_at(av[3]):
                return True
            if n == "BRANCH" and any(has_at(a) for a in av[1]):
                return True
        return False

    if has_at(tree):
        raise Unsupported("anchor inside pattern")
    return tr_seq(tree, flags), begin, end


def safe(t):
    """make a text safe for a Coq comment"""
    return t.replace('"', "<dq>").replace("(*", "( *").replace("*)", "* )")


LF = "(Sym 10)"
ANYSTAR = "(Star (Cls [(0,255)]))"


def gate_language(body, begin, end, method, end_eq_len):
    """Language of accepted *whole input strings* for a call-site."""
    if method == "fullmatch":
        # '$' under fullmatch can only succeed at the very end
        return body, "fullmatch"
    if method == "match":
        if end == "Z":
            return body, "match ^p\\Z"
        if end == "dollar":
            return "(Cat %s (Opt %s))" % (body, LF), "match ^p$ (non-MULTILINE $: end, or before a final LF)"
        if end_eq_len:
            return body, "match p with m.end()==len(s) test (first-match = whole string)"
        return "(Cat %s %s)" % (body, ANYSTAR), "match p (prefix)"
    raise Unsupported("method %s" % method)


# (gate name, module file, function name, regex global name, module that defines the regex)
GATES = [
    ("gate_chunk_size", "receiver.py", "received", "ONLY_HEXDIG_RE", "rfc7230"),
    ("gate_chunk_ext", "receiver.py", "received", "CHUNK_EXT_RE", "rfc7230"),
    ("gate_content_length", "parser.py", "parse_header", "ONLY_DIGIT_RE", "rfc7230"),
    ("gate_header_field", "parser.py", "parse_header", "HEADER_FIELD_RE", "rfc7230"),
    ("gate_request_line", "parser.py", "crack_first_line", "first_line_re", "parser"),
    ("gate_quoted_string", "utilities.py", "undquote", "QUOTED_STRING_RE", "rfc7230"),
]


def find_calls(path, func, rxname):
    """All attribute calls <rxname>.<method>(...) inside function `func`."""
    tree = ast.parse(open(path).read())
    out = []
    for node in ast.walk(tree):
        if isinstance(node, ast.FunctionDef) and node.name == func:
            src_has_end_eq_len = False
            for sub in ast.walk(node):
                if (
                    isinstance(sub, ast.Call)
                    and isinstance(sub.func, ast.Attribute)
                    and isinstance(sub.func.value, ast.Name)
                    and sub.func.value.id == rxname
                ):
                    out.append((node, sub.func.attr, sub))
    return out


def has_end_eq_len(funcnode):
    # looks for  <name>.end() == len(<x>)
    for sub in ast.walk(funcnode):
        if isinstance(sub, ast.Compare) and len(sub.ops) == 1 and isinstance(sub.ops[0], ast.Eq):
            l, r = sub.left, sub.comparators[0]
            def is_end(n):
                return (isinstance(n, ast.Call) and isinstance(n.func, ast.Attribute) and n.func.attr == "end" and not n.args)
            def is_len(n):
                return (isinstance(n, ast.Call) and isinstance(n.func, ast.Name) and n.func.id == "len")
            if (is_end(l) and is_len(r)) or (is_end(r) and is_len(l)):
                return True
    return False


def main(outpath):
    sys.path.insert(0, os.path.join(REPO, "src"))
    import importlib

    lines = []
    w = lines.append
    w("(* GENERATED by translate/gen_regex.py from %s -- do not edit *)" % SRC)
    w("From Coq Require Import List NArith.")
    w("From WV Require Import Lib.Regex.")
    w("Import ListNotations.")
    w("Local Open Scope N_scope.")
    w("")
    problems = []
    mods = {}
    for m in ("rfc7230", "parser", "utilities"):
        try:
            mods[m] = importlib.import_module("waitress." + m)
        except Exception as e:  # pragma: no cover
            problems.append("import waitress.%s failed: %r" % (m, e))
    bodies = {}
    for gate, fname, func, rxname, defmod in GATES:
        try:
            rx = getattr(mods[defmod], rxname)
            if rxname not in bodies:
                body, begin, end = translate_pattern(rx)
                bodies[rxname] = (body, begin, end)
                w("(* %s.%s = %s *)" % (defmod, rxname, safe(repr(rx.pattern))))
                w("Definition p_%s : re := %s." % (rxname, body))
            body, begin, end = bodies[rxname]
            calls = find_calls(os.path.join(SRC, fname), func, rxname)
            if len(calls) != 1:
                raise Unsupported("%d call sites of %s in %s:%s (expected 1)" % (len(calls), rxname, fname, func))
            fnode, method, call = calls[0]
            lang, mode = gate_language("p_" + rxname, begin, end, method, has_end_eq_len(fnode))
            w("(* call site %s:%s line %d: %s.%s(...)  mode: %s *)" % (fname, func, call.lineno, rxname, method, mode))
            w("Definition %s : re := %s." % (gate, lang))
            w("")
        except Exception as e:
            problems.append("%s: %s" % (gate, e))
            w("(* ABSENT %s: %s *)" % (gate, safe(str(e))))
            w("")
    # QUOTED_PAIR_RE is used with .sub; export its body for the proxy model
    try:
        rx = mods["rfc7230"].QUOTED_PAIR_RE
        body, begin, end = translate_pattern(rx)
        if begin or end:
            raise Unsupported("anchors in QUOTED_PAIR_RE")
        w("Definition p_QUOTED_PAIR_RE : re := %s." % body)
    except Exception as e:
        problems.append("QUOTED_PAIR_RE: %s" % e)
        w("(* ABSENT p_QUOTED_PAIR_RE: %s *)" % e)
    text = "\n".join(lines) + "\n"
    old = None
    if os.path.exists(outpath):
        old = open(outpath).read()
    if old != text:
        os.makedirs(os.path.dirname(outpath), exist_ok=True)
        open(outpath, "w").write(text)
    for p in problems:
        print("TRANSLATOR-PROBLEM gen_regex: " + p)
    return 0


if __name__ == "__main__":
    sys.exit(main(sys.argv[1] if len(sys.argv) > 1 else "/verif/coq/Gen/GenRegex.v"))
