"""C14 -- Worker pool: every task runs exactly once or is cancelled exactly once.

Decided by: an inductive invariant of the executable interleaving model
coq/Model/Dispatcher.v proved in Coq for ALL schedules (Props/C14.v: once,
fifo, quiescent (no lost wake-up), resize, shutdown), tied to the code by running
the REAL waitress.task.ThreadedTaskDispatcher under a deterministic scheduler
(harness/sched.py, harness/fake_threading.py: `threading` and `time` of
waitress.task replaced from outside, no source hook) and checking, for every
critical section the real class executes, that the extracted model allows the
same step and ends in the same (queue, threads, stop_count, active_count); plus a
monitor that checks the property directly on the real trace, an ast audit of
the lock discipline that justifies the model's granularity, and (thorough)
bounded exhaustive exploration of small scenarios on the real class."""
import collections
import hashlib
import json
import random
import re
import time

from harness import dispatcher as H
from harness.sched import RandomPolicy, PCTPolicy, explore

LEVEL = "proof"
ASSUMPTIONS = [
    "sequential consistency at the granularity of lock/condition operations: CPython attribute loads/stores are atomic (GIL); every access to queue/threads/stop_count/active_count is under self.lock (re-checked by an ast audit on every run), so one critical section is one model step",
    "threading.Lock / threading.Condition behave as the fakes in harness/fake_threading.py (mutual exclusion; wait releases and re-acquires; notify wakes waiters that are already waiting, longest first; no spurious wake-ups for untimed waits); the model lets notify wake ANY waiter, which over-approximates",
    "task.service() / task.cancel() do not touch the dispatcher except through add_task (follow-up tasks); exceptions raised by service() are BaseException instances",
    "the tie between model and code is sampled: seeded random and PCT schedules (quick) plus bounded exhaustive schedule exploration of small scenarios (thorough)",
]

SMALL = [
    {"setup": 1, "scripts": [
        {"name": "s0", "ops": [["add", {"name": "a0", "follow": [{"name": "a0.0", "follow": [], "raise": None}], "raise": None}],
                               ["add", {"name": "a1", "follow": [], "raise": "exc"}]]},
        {"name": "sd", "ops": [["shutdown", True, 0.1]]}]},
    {"setup": 2, "scripts": [
        {"name": "s0", "ops": [["add", {"name": "a0", "follow": [], "raise": None}],
                               ["add", {"name": "a1", "follow": [], "raise": None}]]},
        {"name": "r0", "ops": [["resize", 1]]}]},
    {"setup": None, "scripts": [
        {"name": "s0", "ops": [["resize", 2], ["add", {"name": "a0", "follow": [], "raise": "base"}]]},
        {"name": "s1", "ops": [["add", {"name": "b0", "follow": [], "raise": None}]]},
        {"name": "sd", "ops": [["shutdown", False, 0.1]]}]},
    {"setup": 2, "scripts": [
        {"name": "s0", "ops": [["add", {"name": "a0", "follow": [], "raise": None}]]},
        {"name": "r0", "ops": [["resize", 0], ["resize", 1]]}]},
    {"setup": 1, "scripts": [
        {"name": "s0", "ops": [["add", {"name": "a0", "follow": [], "raise": None}]]},
        {"name": "s1", "ops": [["add", {"name": "b0", "follow": [{"name": "b0.0", "follow": [], "raise": None}], "raise": None}]]},
        {"name": "r0", "ops": [["resize", 2]]}]},
    {"setup": 1, "scripts": [
        {"name": "s0", "ops": [["add", {"name": "a0", "follow": [], "raise": None}],
                               ["add", {"name": "a1", "follow": [], "raise": None}]]},
        {"name": "sd", "ops": [["shutdown", True, 0]]}]},
]


def norm(text):
    return re.sub(r"\d+", "#", text)[:90]


def check_case(case):
    """-> (violations from the monitor, stats)"""
    return H.monitor(case)


def failing(runner, scn, schedule):
    """Re-run one (scenario, schedule); -> (text | None, case)."""
    c = H.run_scenario(scn, schedule)
    bad, _ = H.monitor(c)
    if bad:
        return "monitor: " + bad[0], c
    if runner is not None:
        (res,), _ = H.conformance(runner, [c])
        if not res[0]:
            return "conformance: " + res[1], c
    return None, c


def shrink(runner, scn, schedule, what):
    """Shortest prefix of the schedule (the rest filled by the default policy)
    that still fails in the same way."""
    kind = what.split(":")[0]
    lo, hi = 0, len(schedule)
    best = list(schedule)
    # the failure need not be monotone in the prefix length; a linear scan from
    # the short end is affordable (runs take milliseconds)
    for k in range(0, len(schedule) + 1, max(1, len(schedule) // 60)):
        t, _ = failing(runner, scn, schedule[:k])
        if t is not None and t.split(":")[0] == kind:
            best = schedule[:k]
            break
    return best


def run(ctx):
    ctx.gate()
    props_ok, failing_file, log = ctx.props()
    ctx.build(["Model/Dispatcher.vo", "Spec/Pool.vo"])
    runner = ctx.runner("dispatcher", "ExtDispatcher.v")
    if runner is None:
        ctx.oblige("extracted dispatcher model builds", False, "see notes")
    thorough = ctx.tier == "thorough"
    import threading as _real_threading
    threads_before = _real_threading.active_count()
    rng = ctx.rng
    t0 = time.time()

    phases = {"coq+extraction": round(time.time() - ctx.t0, 1)}
    # -- static audit ----------------------------------------------------------
    problems, sig = H.audit()
    ctx.oblige("K-audit: every access to queue/threads/stop_count/active_count is under self.lock; condition-variable calls are the modelled ones",
               not problems, "; ".join(problems[:4]))
    for p in problems[:3]:
        ctx.report("audit:" + norm(p), "lock discipline / shape audit of ThreadedTaskDispatcher: " + p,
                   {"failing_input_found": False, "audit": p, "signature": sig})

    failures = []   # (what, scenario, schedule)
    traces = set()
    evaluations = 0
    validated = 0
    model_steps = 0
    dist = collections.Counter()
    monstats = collections.Counter()
    samples = []
    nondeterministic = 0

    def handle(cases, policy_name):
        nonlocal evaluations, validated, model_steps
        if runner is not None:
            results, maps = H.conformance(runner, cases)
        else:
            results, maps = [(True, None, 0)] * len(cases), [None] * len(cases)
        for c, (ok, prob, n) in zip(cases, results):
            evaluations += 1
            bad, st = H.monitor(c)
            monstats.update(st)
            dist["result_" + str(c.result)] += 1
            dist["policy_" + policy_name] += 1
            if st["serviced"] + st["cancelled"] >= 1:
                traces.add(hashlib.sha1(c.trace_key().encode()).hexdigest())
            if bad:
                failures.append(("monitor: " + bad[0], c.scn, list(c.sched.choices)))
            if not ok:
                failures.append(("conformance: " + prob, c.scn, list(c.sched.choices)))
            else:
                validated += 1
                model_steps += n

    # -- sampled schedules -------------------------------------------------------
    nscn = 4000 if thorough else 350
    batch = []
    batch_pol = None
    det_checked = 0
    for i in range(nscn):
        scn = H.gen_scenario(rng, small=(i % 3 == 0))
        stt = H.scenario_stats(scn)
        dist["tasks_%d" % min(stt["tasks"], 9)] += 1
        dist["shutdown_%s" % stt["shutdown"]] += 1
        dist["follow_ups"] += stt["follow_ups"]
        dist["raising_tasks"] += stt["raising"]
        dist["resize_calls"] += stt["resizes"]
        dist["setup_%s" % stt["setup"]] += 1
        seed = rng.randrange(1 << 30)
        cs = []
        c1 = H.run_scenario(scn, [], RandomPolicy(random.Random(seed), stay=rng.choice([0.0, 0.5, 0.8])))
        cs.append(("random", c1))
        depth = rng.randint(1, 3)
        c2 = H.run_scenario(scn, [], PCTPolicy(random.Random(seed + 1), depth, max(20, len(c1.events))))
        cs.append(("pct%d" % depth, c2))
        if i % 5 == 0:
            # determinism: the recorded indices replay to the identical trace
            c3 = H.run_scenario(scn, list(c2.sched.choices))
            det_checked += 1
            if c3.trace_key() != c2.trace_key():
                nondeterministic += 1
                failures.append(("determinism: replaying the recorded schedule gave a different trace", scn, list(c2.sched.choices)))
        for name, c in cs:
            handle([c], name) if runner is None else batch.append((name, c))
        if len(samples) < 4:
            samples.append({"scenario": scn, "schedule_len": len(c2.sched.choices), "result": c2.result,
                            "events": len(c2.events)})
        if len(batch) >= 200 or i == nscn - 1:
            for name in sorted(set(n for n, _ in batch)):
                handle([c for n, c in batch if n == name], name)
            batch = []
    ctx.oblige("harness is deterministic: a recorded schedule replays to the identical trace (%d replays)" % det_checked,
               nondeterministic == 0)

    phases["sampled"] = round(time.time() - t0, 1)
    # -- bounded exhaustive exploration of small scenarios on the real class ---------
    ex_stats = []
    bound = 3 if thorough else 1
    limit = 40000 if thorough else 700
    ex_budget = 300.0 if thorough else 30.0
    ex_t0 = time.time()
    for k, scn in enumerate(SMALL):
        pending = []
        # every scenario gets an equal share of what is left of the time budget
        deadline = time.time() + max(2.0, (ex_budget - (time.time() - ex_t0)) / (len(SMALL) - k))

        def on_run(s, prefix, lvl, scn=scn, pending=pending, deadline=deadline):
            pending.append(s.case)
            if len(pending) >= 300:
                handle(list(pending), "exhaustive")
                del pending[:]
            return len(failures) > 20 or time.time() > deadline

        def run_case(prefix, scn=scn):
            c = H.run_scenario(scn, prefix)
            c.sched.case = c
            return c.sched

        st = explore(run_case, bound, limit=limit, on_run=on_run)
        if pending:
            handle(list(pending), "exhaustive")
        st["scenario"] = k
        st["preemption_bound"] = bound
        st["complete"] = not (st["truncated"] or st["stopped"])
        ex_stats.append(st)

    phases["exhaustive"] = round(time.time() - t0 - phases["sampled"], 1)
    # -- the model's own explorer ---------------------------------------------------------
    model_cov = {}
    if runner is not None:
        params = [(3, 2, 3000000)] if thorough else [(2, 2, 1000000)]
        for mt, mc, ms in params:
            ans = runner.query(["explore %d %d %d" % (mt, mc, ms)])[0]
            kv = dict(x.split("=", 1) for x in ans.split() if "=" in x)
            model_cov = {"states": int(kv.get("states", 0)), "transitions": int(kv.get("transitions", 0)),
                         "quiescent_states": int(kv.get("quiescent", 0)), "violating_states": int(kv.get("bad", 0)),
                         "truncated": kv.get("truncated") == "1",
                         "bounds": "tasks<=%d, set_thread_count argument<=%d, live threads<=%d" % (mt, mc, mc + 1)}
            ok = kv.get("bad") == "0"
            ctx.oblige("model explorer: every reachable model state within the bounds satisfies Spec/Pool.v all_ok", ok,
                       "" if ok else ans)
            if not ok:
                ctx.report("model-explorer", "the extracted model reaches a state violating Spec/Pool.v: " + ans,
                           {"failing_input_found": True, "model_schedule": kv.get("witness", ""), "answer": ans})

    ctx.oblige("no thread of any case is left running (every case is driven to quiescence and killed)",
               _real_threading.active_count() == threads_before,
               "threads alive: %d before, %d after" % (threads_before, _real_threading.active_count()))
    # -- report ----------------------------------------------------------------------------
    conf_fail = [f for f in failures if f[0].startswith("conformance")]
    mon_fail = [f for f in failures if f[0].startswith("monitor")]
    ctx.oblige("K-pool: every critical section of the real class is a step of the extracted model with the same (queue, threads, stop_count, active_count) (%d traces)" % validated,
               not conf_fail and runner is not None, conf_fail[0][0] if conf_fail else "")
    ctx.oblige("monitor: C14 holds on every real trace (exactly once, submission order, quiescence, resize, shutdown)",
               not mon_fail, mon_fail[0][0] if mon_fail else "")
    seen = set()
    for what, scn, schedule in sorted(failures, key=lambda f: len(f[2])):
        key = norm(what)
        if key in seen:
            continue
        seen.add(key)
        if len(seen) > 6:
            break
        small = shrink(runner, scn, schedule, what)
        t, c = failing(runner, scn, small)
        ctx.report(key, what,
                   {"scenario": scn, "schedule": small, "observed": t or what, "expected": "C14 holds / model agrees",
                    "events_tail": [list(map(str, e)) for e in c.events[-25:]],
                    "failing_input_found": True})
    if not props_ok and not ctx.violations:
        ctx.report("c14-proof-broken", "Props/C14.v no longer checks (%s)" % failing_file,
                   {"failing_input_found": False, "broken": "Props/C14.v via %s" % failing_file,
                    "log_tail": (log or "")[-1500:]})

    ctx.coverage.update({
        "evaluations": evaluations,
        "distinct_nontrivial": len(traces),
        "rule": "one evaluation = one complete execution of the real ThreadedTaskDispatcher under one schedule; distinct non-trivial = distinct (event trace, final state) among executions in which at least one task was serviced or cancelled; scenarios: workers 0..3, 1..3 submitter threads with 1..3 tasks (follow-ups to depth 2, 25%% raising), 0..2 resizer threads, shutdown(True/False, timeout 0/0.1/0.25/5) in 70%%; schedules: seeded uniform random (stay-probability 0/0.5/0.8), PCT with 1..3 priority change points, and pre-emption-bounded exhaustive enumeration of %d fixed small scenarios" % len(SMALL),
        "samples": samples,
        "traces_validated_against_impl": validated,
        "model_steps_validated": model_steps,
        "monitor": dict(monstats),
        "distribution": dict(dist),
        "schedule_exploration": ex_stats,
        "states": model_cov.get("states", 0),
        "transitions": model_cov.get("transitions", 0),
        "model_explorer": model_cov,
        "phase_seconds": phases,
        "audit_signature": {k: v["cv"] for k, v in sig.items()},
    })


def replay(data):
    import os
    from lib import vcommon

    scn = data.get("scenario")
    if scn is None:
        print("nothing to replay:", data.get("what"))
        return 1
    runner = None
    path = os.path.join(vcommon.VERIF, "ocaml", "dispatcher", "runner")
    if os.path.exists(path):
        runner = vcommon.Runner(path)
    t, c = failing(runner, scn, data.get("schedule", []))
    for e in c.events:
        print(e)
    print("scenario=%s" % json.dumps(scn))
    print("schedule=%s" % data.get("schedule"))
    print("observed_now=%s" % (t or "no violation"))
    return 0 if t is None else 1
