"""C08 -- applications cannot split or inject into the response head.

Decided by: theorems in Props/C08.v over the executable model Model/Task.v
(start_response validation, header normalisation, server-added fields, stable
sort, serialisation, the 500 built from server strings), for all status
strings / header lists over the full code-point alphabet.  Tied to the code by
K-task (the real WSGITask / ErrorTask / HTTPChannel.service driven with
scripted applications, compared with the extracted model on every case) and by
a model-free search: the head the REAL task wrote is split on CRLF and every
line must be a line the application legitimately asked for or a server line.

Applications that CATCH a refusal of start_response and carry on (try/except
around the call, an error-handling wrapper) are scripts too (action "T" /
ATryStart): Props/C08.v C08_refusal_residue says what each raise site leaves
behind, C08_wire_accepted(_lines) that in every run of every script the status
on the wire passed the status checks of one of the script's calls (or is the
default) and every field was passed in a call accepted as a whole (or is a
server field).  K-task and the search run every raise site x every way of
producing output afterwards (body returned, write() from an earlier call, a
further start_response call with / without exc_info, file wrapper)."""
import json
import os

from harness import task as T
from lib import vcommon
from lib.vcommon import hexb

LEVEL = "proof"
ASSUMPTIONS = [
    "application strings are plain str objects (a str subclass overriding __contains__/lower/capitalize is application code attacking itself: start_response's `in` / lower() tests consult the subclass; observed for the record in the evidence, not judged); header pairs may be tuples or lists, mutated or not after the call",
    "the header CONTAINER's iteration protocol (tuple, generator, one-shot iterator, list subclass / pair objects with impure __iter__) is outside Model/Task.v, whose start_response takes a pure list = the one snapshot the real start_response takes (fix b4f05b1); that the real code validates and sends the SAME snapshot is covered by K-task + the head-line search on scripted containers only",
    "str.capitalize / str.lower on arbitrary code points enter the theorems as Section variables with the hypothesis 'no CR, LF is produced from a string without CR, LF'; the hypothesis is tested on every run over all 0x110000 code points; the theorems are closed by a concrete instance that is exact below 256",
    "the server configuration string ident contains no CR/LF and is latin-1 (for the date this is proved: C08_date_clean over Model/HttpDate.v, tied by K-date); time.gmtime is represented by the Gallina gmtime of Model/HttpDate.v (integer seconds >= 0)",
    "header names are RFC 9110 tokens (anything else is refused since /repo fix 4bd53ee), so a head line 'name: value' is read back by a client as that name and that value",
    "an application that survives a refusal is modelled as try: start_response(...) except BaseException: pass (ATryStart); in the model write() is available to every script (the real callable only after a call returned: the model admits more scripts than exist); a refused call is not atomic -- a status that passed its own checks stays in the task (C08_strict_status_refuted, C08_residue_instance; the int() of a Content-Length pair of the refused call stayed too until /repo fix 5926e3b): the search accepts such a status in the status line, never a refused string",
]

TCHARS = set("!#$%&'*+-.^_`|~0123456789abcdefghijklmnopqrstuvwxyzABCDEFGHIJKLMNOPQRSTUVWXYZ")

SERVER_NAMES = {"Date", "Server", "Via", "Connection", "Content-Length", "Transfer-Encoding"}


def py_norm(k):
    return "-".join(x.capitalize() for x in k.split("-"))


def acceptable(status, headers):
    """what start_response must accept (independent of the model)"""
    if not isinstance(status, str) or "\r" in status or "\n" in status:
        return False
    for k, v in headers:
        if not isinstance(k, str) or not isinstance(v, str):
            return False
        if "\r" in k or "\n" in k or "\r" in v or "\n" in v:
            return False
        if not k or any(c not in TCHARS for c in k):
            return False          # PEP 3333: a valid field-name (RFC 9110 token); /repo fix 4bd53ee
        kl = k.lower()
        if kl in T.HOP:
            return False
        if kl == "content-length":
            try:
                int(v)
            except ValueError:
                return False
    return True


def clean_status(st):
    return isinstance(st, str) and "\r" not in st and "\n" not in st


def effective_request(case, residue=None):
    """Walk the script in order: -> (status, pairs) the application has validly asked
    for when output begins or the script ends, or None if some call must be refused first.
    Independent of the model: only the WSGI rules.

    A call made inside try/except ("T") that must be refused contributes NONE of its
    pairs; [residue] collects the status strings of such calls that are themselves valid
    (a str without CR/LF): start_response stores the status before it looks at the
    headers, so such a status may stand in the status line (observation recorded in
    Props/C08.v: C08_strict_status_refuted).  A refused status is never collected."""
    app = case["app"]
    status, pairs, complete, began = None, [], False, False
    if residue is None:
        residue = []
    seq = [("acts", app["call"])]
    for s in app["steps"]:
        seq.append(("acts", s["acts"]))
        seq.append(("res", s["res"]))
    for kind, x in seq:
        if kind == "res":
            if x[0] == "R":
                return (status, pairs, complete, began, "raised")
            if x[1] and x[1] != "-":
                if not complete:
                    return (status, pairs, complete, began, "raised")
                began = True
            continue
        for a in x:
            if a[0] == "S":
                st, hs, exc = a[1], a[2], a[3]
                if complete and not exc:
                    return (status, pairs, complete, began, "raised")
                if exc and began:
                    return (status, pairs, complete, began, "raised")
                hs = [(T.content_obj(k), T.content_obj(v)) for k, v in hs]
                if exc:
                    pairs = []
                complete = True
                if not acceptable(T.content_obj(st), hs):
                    return (status, pairs, complete, began, "refused")
                status = T.content_obj(st)
                pairs = pairs + hs
                del residue[:]
            elif a[0] == "T":
                st, hs, exc = a[1], a[2], a[3]
                if complete and not exc:
                    continue          # refused at the door, swallowed: nothing may change
                if exc and began:
                    continue          # exc_info[1] re-raised and swallowed: nothing may change
                hs = [(T.content_obj(k), T.content_obj(v)) for k, v in hs]
                if exc:
                    pairs = []
                complete = True
                if acceptable(T.content_obj(st), hs):
                    status = T.content_obj(st)
                    pairs = pairs + hs
                    del residue[:]
                elif clean_status(T.content_obj(st)):
                    residue.append(T.content_obj(st))
            elif a[0] == "W":
                # write() emits the head, also for b""
                began = True
            elif a[0] == "R":
                return (status, pairs, complete, began, "raised")
            elif a[0] == "M":
                pass      # in-place mutation of a pair after the call: no effect (the pairs were copied)
    return (status, pairs, complete, began, "end")


def head_lines(wire):
    i = wire.find(b"\r\n\r\n")
    if i < 0:
        return None
    return wire[:i].split(b"\r\n")


def reference_500(case, cache):
    """the 500 the server sends for a benign failing application under the same
    configuration and request: built from server strings only"""
    key = json.dumps([case["cfg"], case["req"]], sort_keys=True)
    if key not in cache:
        ref = T.mk_case([["R", "XE"]])
        ref["cfg"] = case["cfg"]
        ref["req"] = dict(case["req"])
        ref["req"]["err"] = None
        real, _ = T.run_real(ref)
        cache[key] = T.wire_of(real)
    return cache[key]


def search_one(case, real, cache):
    """-> None or (what, expected, observed).  The property's own statement on the real wire."""
    wire = T.wire_of(real)
    if case["req"]["err"] is not None:
        return None
    residue = []
    status, pairs, complete, began, why = effective_request(case, residue)
    lines = head_lines(wire)
    if not wire:
        return None
    if lines is None:
        return ("head not terminated", "CRLFCRLF", repr(wire[:80]))
    for l in lines:
        if b"\r" in l or b"\n" in l:
            return ("bare CR or LF inside a head line", "none", repr(l))
    if real["s500"] == "1":
        if case["disc"] is None and wire != reference_500(case, cache):
            return ("500 differs from the one built from server strings only", repr(reference_500(case, cache)[:120]), repr(wire[:120]))
        return None
    # the application's own response: every line is the status line, an application
    # field (normalised in letter case only) or a server field
    version = case["req"]["version"] if case["req"]["version"] in ("1.0", "1.1") else "1.0"
    if status is None:
        status = "200 OK"       # no call was accepted (every refusal swallowed): the default
    want_first = None
    for cand in [status] + residue[::-1]:
        try:
            w1 = ("HTTP/%s %s" % (version, cand)).encode("latin-1")
        except UnicodeEncodeError:
            if cand is status and not residue:
                return ("non latin-1 status emitted", "500", repr(wire[:80]))
            continue
        if want_first is None:
            want_first = w1
        if lines[0] == w1:
            want_first, status = w1, cand
            break
    if want_first is None:
        return ("non latin-1 status emitted", "500", repr(wire[:80]))
    if lines[0] != want_first:
        return ("status line", repr(want_first), repr(lines[0]))
    rest = list(lines[1:])
    names = [None] * len(rest)        # the true field name of each line (a name may itself contain ": ")
    has_body = not (status.startswith("1") or status.startswith("204") or status.startswith("304"))
    app_seq = {}
    for k, v in pairs:
        nk = py_norm(k)
        # Content-Length belongs to the framing: the application's field is dropped for a
        # status without body and replaced by the server's when a file wrapper is reconciled
        optional = nk == "Content-Length"
        try:
            al = ("%s: %s" % (nk, v)).encode("latin-1")
        except UnicodeEncodeError:
            if optional:
                continue
            return ("non latin-1 application string emitted", "500", repr(wire[:80]))
        found = [i for i, l in enumerate(rest) if l == al and names[i] is None]
        if found:
            names[found[0]] = nk
            app_seq.setdefault(nk, []).append(found[0])
        elif not optional:
            return ("application field missing from the head", repr(al), repr(lines))
    for i, l in enumerate(rest):
        if names[i] is None:
            name = l.split(b": ", 1)[0].decode("latin-1")
            if name not in SERVER_NAMES:
                return ("line that is neither an application field nor a server field", "none", repr(l))
            names[i] = name
    # sorted by name, stable
    if names != sorted(names):
        return ("fields not sorted by name", repr(sorted(names)), repr(names))
    for nk, seq in app_seq.items():
        if seq != sorted(seq):
            return ("fields of equal name not in the application's order", repr(sorted(seq)), repr(seq))
    return None


def oracle_hypotheses(runner):
    """(i) the Section hypothesis on Python's case mapping, over all code points;
    (ii) the concrete instance py_cap / py_lower equals Python below 256 and on caseless code points"""
    bad = []
    n = 0
    for c in range(0x110000):
        ch = chr(c)
        if c in (10, 13):
            continue
        for f in (str.lower, str.capitalize, str.title, str.upper, str.casefold):
            r = f(ch)
            n += 1
            if "\r" in r or "\n" in r:
                bad.append("U+%04X %s yields CR/LF" % (c, f.__name__))
        # in context: first of a word, after a cased letter, before/after a cased letter (final sigma rule)
        for ctx_s in ("a" + ch, ch + "a", "a" + ch + "a", "A" + ch + "-"):
            n += 2
            r1, r2 = ctx_s.lower(), ctx_s.capitalize()
            if "\r" in r1 or "\n" in r1 or "\r" in r2 or "\n" in r2:
                bad.append("U+%04X in context yields CR/LF" % c)
    # capitalize(s) = title(s[0]) + lower(s[1:]) is what the model's instance implements
    qs, want = [], []
    strs = [chr(a) for a in range(256)] + [chr(a) + chr(b) for a in (65, 97, 223, 255, 181, 45) for b in range(256)]
    strs += ["é-É", "ß-x", "aßb", "x" * 3, "ÀÉÎ", "-", "", "a-b-c", "中A", "a中A", " x"]
    for s in strs:
        qs.append("cap " + T.cps(s))
        want.append(T.cps(s.capitalize()))
        qs.append("lower " + T.cps(s))
        want.append(T.cps(s.lower()))
    got = runner.query(qs)
    for q, g, w in zip(qs, got, want):
        n += 1
        if g != w:
            bad.append("instance: %s -> model %s python %s" % (q, g, w))
    return n, bad


def run(ctx):
    ctx.translate({"GenTables"})
    ctx.gate()
    props_ok, failing, log = ctx.props()
    ctx.build(["Model/Task.vo", "Spec/ClientParse.vo"])
    runner = ctx.runner("task", "ExtTask.v")
    if runner is None:
        # the model cannot be built (translator refused the source, or a proof file broke):
        # the model-free search below still runs on the real code to find a concrete failing input
        ctx.oblige("extracted task runner builds", False, "see notes")
    rng = ctx.rng

    n_or, bad_or = oracle_hypotheses(runner) if runner is not None else (0, ["runner not built"])
    # K-date: Model/HttpDate.v against the real waitress.utilities.build_http_date
    import calendar
    from waitress import utilities as wu
    stamps = [0, 1, 59, 60, 3599, 3600, 86399, 86400, 86401, 68169599, 68169600, 951782399, 951782400, 951868800,
              4107542399, 4107542400, 4107628800, 1709164800, 1709251199, 1709251200, 253402300799, 253402300800, 253402300801,
              32503680000, 2147483647, 2147483648, 4294967295, 4294967296]
    for y in (1970, 1971, 1972, 1999, 2000, 2001, 2024, 2026, 2100, 2101, 2400, 9999):
        for mo in range(1, 13):
            first = calendar.timegm((y, mo, 1, 0, 0, 0))
            stamps += [first - 1, first, first + 86399] if first > 0 else [first, first + 86399]
    stamps += [rng.randrange(0, 253402300800) for _ in range(20000 if ctx.tier == "thorough" else 2500)]
    stamps += [rng.randrange(253402300800, 10 ** 12) for _ in range(200)]
    date_answers = runner.query(["date %d" % t for t in stamps] + ["datetables"])
    date_bad = []
    for t, a in zip(stamps, date_answers):
        try:
            real = wu.build_http_date(t)
        except Exception as e:  # noqa
            real = "EXC:" + type(e).__name__
        if a != hexb(real.encode("latin-1")):
            date_bad.append((t, real, a))
    tables_model = date_answers[-1]
    tables_real = ",".join(hexb(w.encode()) for w in wu.weekdayname) + " " + ",".join(hexb(m.encode()) for m in wu.monthname[1:])
    if tables_model != tables_real or wu.monthname[0] is not None:
        date_bad.append(("tables", tables_real, tables_model))
    # the statement itself on the real function: IMF-fixdate up to the year 9999, printable ASCII always
    import re as _re
    imf = _re.compile(r"(Mon|Tue|Wed|Thu|Fri|Sat|Sun), [0-9]{2} (Jan|Feb|Mar|Apr|May|Jun|Jul|Aug|Sep|Oct|Nov|Dec) [0-9]{4} [0-9]{2}:[0-9]{2}:[0-9]{2} GMT")
    date_spec_bad = []
    for t in stamps:
        try:
            real = wu.build_http_date(t)
        except Exception as e:  # noqa
            real = "EXC:" + type(e).__name__
        if any(not (32 <= ord(ch) <= 126) for ch in real) or (t < 253402300800 and not imf.fullmatch(real)):
            date_spec_bad.append((t, real))
    for t, real in date_spec_bad[:2]:
        ctx.report("datespec:%s" % t, "build_http_date(%s) = %r is not an IMF-fixdate of printable ASCII" % (t, real),
                   {"kind": "date", "when": t, "expected": "Www, DD Mon YYYY HH:MM:SS GMT", "observed": real, "failing_input_found": True})
    for t, real, a in ([] if date_spec_bad else date_bad[:2]):
        ctx.report("date:%s" % t, "build_http_date(%s): real %r, Model/HttpDate.v %s" % (t, real, a),
                   {"kind": "date", "when": t, "expected": a, "observed": real, "failing_input_found": False,
                    "note": "C08_date_clean / C08_date_shape speak for the code only while this correspondence holds"})
    ctx.oblige("S-date: the real build_http_date yields printable ASCII on every time stamp tried and an IMF-fixdate up to the year 9999",
               not date_spec_bad, "%d deviations" % len(date_spec_bad))
    ctx.oblige("K-date: Model/HttpDate.v equals the real build_http_date on %d time stamps (epoch, every month boundary of 12 years incl. leap and century "
               "years, 2038 / 2106 roll-overs, year 9999 and beyond, random) and the weekday / month name tables are the source's" % len(stamps),
               not date_bad, "%d differences" % len(date_bad))
    ctx.coverage["k_date"] = {"time_stamps": len(stamps), "differences": len(date_bad)}

    ctx.oblige("K-oracle: Python's case mapping never yields CR/LF (all 0x110000 code points, 5 mappings, in context); the concrete instance equals Python below 256",
               not bad_or, "; ".join(bad_or[:5]))
    for b in (bad_or[:3] if runner is not None else []):
        ctx.report("oracle:" + b, "hypothesis on str.capitalize/lower fails: " + b,
                   {"failing_input_found": True, "kind": "oracle", "detail": b})

    cases = T.hostile_cases(rng, ctx.tier)
    table = T.decision_table()
    if ctx.tier == "quick":
        table = [table[i] for i in range(0, len(table), 7)]
    # applications that catch a refusal of start_response and carry on: every raise site x
    # every way of producing output afterwards, and random scripts with swallowed refusals
    swallow = T.swallow_cases(rng, ctx.tier) + T.random_swallow_cases(rng, ctx.tier)
    # the server's own error path fed hostile text (traceback text, parser messages, ident): the 500 /
    # 4xx head stays a function of server strings, whatever '%', '{}', CR/LF, NUL, non-latin-1 the BODY carries
    # header CONTAINERS whose iteration is not repeatable / not pure (tuple, generator, one-shot iterator, a list
    # subclass or pair objects yielding other pairs on a later pass): the wire must be the serialisation of the ONE
    # snapshot start_response validated (the pairs of the case are the first pass; fix b4f05b1)
    cases = cases + table + swallow + T.hostile_error_cases(rng, ctx.tier) + T.container_cases(rng, ctx.tier)
    # every special-cased / nearly special-cased header name on every delivery path of the body (iterable, write(),
    # file wrapper handed over with a declared length equal to / smaller / larger than the file: response_headers is rewritten)
    cases = cases + T.name_path_cases()
    lines = [T.ser_case(c) for _, c in cases]
    answers = runner.query(lines) if runner is not None else [None] * len(lines)
    agree = True
    search_ok = True
    evaluations = n_or
    nontrivial = set()
    dist = {"accepted": 0, "refused->500": 0, "raised after output": 0, "other": 0,
            "refusal swallowed, a response head written": 0, "refusal swallowed, 500 or nothing": 0}
    swallowed_kinds = {}
    swallow_heads = set()
    outside = 0
    samples = []
    cache = {}
    for (tag, case), ans in zip(cases, answers):
        evaluations += 1
        real, extra = T.run_real(case)
        if ans is not None and T.in_oracle_domain(case):
            d = T.compare(case, ans, real)
            if d is not None:
                agree = False
                ctx.report("k-task:" + json.dumps(tag)[:80], "model and implementation disagree (%s): %s" % (tag, d[:300]),
                           {"kind": "k-task", "case": case, "expected": T.parse_model_line(ans), "observed": real,
                            "failing_input_found": True})
        else:
            outside += 1
        v = search_one(case, real, cache)
        if v is not None:
            kf = None
            search_ok = False
            ctx.report("search:%s:%s:%s" % (kf, v[0], json.dumps(tag)[:60]), "C08 fails on the real code (%s): %s" % (tag, v[0]),
                       {"kind": "search", "case": case, "expected": v[1], "observed": v[2], "what": v[0],
                        "failing_input_found": True}, kf_class=kf)
        if extra.get("swallowed"):
            for nm, _n in extra["swallowed"]:
                swallowed_kinds[nm] = swallowed_kinds.get(nm, 0) + 1
            if real["s500"] != "1" and real["w"] != "none":
                dist["refusal swallowed, a response head written"] += 1
                swallow_heads.add(real["w"].split(",")[0])
            else:
                dist["refusal swallowed, 500 or nothing"] += 1
        if real["s500"] == "1":
            dist["refused->500"] += 1
        elif real["esc"] == "none" and real["wh"] == "1" and real["close"] in ("0", "1") and real["w"] != "none":
            dist["accepted"] += 1
            nontrivial.add(real["w"].split(",")[0])
        else:
            dist["other"] += 1
        if len(samples) < 5 and tag[0] == "hostile" and len(samples) < 5 and evaluations % 97 == 0:
            samples.append({"tag": list(map(str, tag)), "wire_head": hexb(T.wire_of(real)[:120])})
    ctx.oblige("K-task: extracted model agrees with the real task/channel on every generated case (writes, close, close() count, hand-over, escaped exception)", agree)
    ctx.oblige("search: every head line the REAL task wrote is the status line, a validated application field or a server field; refusals give the server-only 500, swallowed refusals leave none of the refused strings in the head (outside open known-finding classes)", search_ok)

    if not props_ok and not ctx.violations:
        ctx.report("c08-proof-broken", "Props/C08.v no longer checks (%s)" % failing,
                   {"failing_input_found": False, "broken": "Props/C08.v via %s" % failing, "log_tail": (log or "")[-1500:]})

    # outside the quantifier, for the record: str subclasses whose __contains__ / lower() lie
    liars = {}
    for tag, case in T.liar_cases():
        real, _ = T.run_real(case)
        hl = head_lines(T.wire_of(real)) or []
        liars[tag[1]] = "500" if real["s500"] == "1" else ("CR/LF reached the head" if any(b"\r" in l or b"\n" in l for l in hl)
                                                          or len(hl) > 6 else "emitted")
    ctx.coverage.update({
        "outside_quantifier_lying_str_subclasses_observed": liars,
        "evaluations": len(cases),
        "distinct_nontrivial": len(nontrivial),
        "rule": "non-trivial = distinct response heads written by the real task for an accepted start_response; cases: every hostile code point at every position of status/name/value x 10 ways of reaching start_response (5 of them with the refusal swallowed by the application), structural specials, non-str objects, mutation after the call, random header lists, a slice of the framing decision table, every raise site of start_response swallowed x every way of producing output afterwards, random scripts with swallowed refusals",
        "swallowed_refusals_by_exception": swallowed_kinds,
        "distinct_heads_after_swallowed_refusal": len(swallow_heads),
        "samples": samples,
        "distribution": dist,
        "cases": len(cases),
        "outside_oracle_domain": outside,
        "oracle_evaluations": n_or,
    })


def replay(data):
    if data.get("kind") == "oracle":
        print("oracle hypothesis: " + data.get("detail", ""))
        return 1
    if data.get("kind") == "date":
        import re as _re
        from waitress import utilities as wu
        real = wu.build_http_date(data["when"])
        ok = all(32 <= ord(ch) <= 126 for ch in real) and (data["when"] >= 253402300800 or _re.fullmatch(
            r"(Mon|Tue|Wed|Thu|Fri|Sat|Sun), [0-9]{2} (Jan|Feb|Mar|Apr|May|Jun|Jul|Aug|Sep|Oct|Nov|Dec) [0-9]{4} [0-9]{2}:[0-9]{2}:[0-9]{2} GMT", real))
        rp = os.path.join(vcommon.VERIF, "ocaml", "task", "runner")
        model = vcommon.Runner(rp).query(["date %d" % data["when"]])[0] if os.path.exists(rp) else None
        print("build_http_date(%d) now: %r; model: %s; IMF-fixdate / printable: %s" % (data["when"], real, model, bool(ok)))
        return 0 if ok and (model is None or model == hexb(real.encode("latin-1"))) else 1
    case = data["case"]
    real, extra = T.run_real(case)
    if data.get("kind") == "search":
        v = search_one(case, real, {})
        print("search on the real code now:", v)
        return 0 if v is None else 1
    print("observed now:", real)
    print("expected    :", data.get("expected"))
    exp = data.get("expected") or {}
    return 0 if all(exp.get(f) == real[f] for f in T.FIELDS) else 1
