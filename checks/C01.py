"""C01 -- request framing is unambiguous and agrees with RFC 9112.

Decided by: Coq theorems (Props/C01.v) relating the transliterated parser /
receiver models to an independent whole-stream RFC 9112 reference
(Spec/Ref9112.v), layer by layer (field section, framing decision, fixed and
chunked bodies, close-after decision); tied to the code by (a) K-chanseq: the
extracted channel/parser/receiver models against the real HTTPChannel on
generated streams under several segmentations and limits, and (b) the search:
the extracted reference itself against the real channel + real tasks driven
single-threaded (messages handed to the application, error statuses, close
decisions)."""
import json
import os
import sys

from lib import vcommon
from lib.vcommon import hexb

LEVEL = "proof"
ASSUMPTIONS = [
    "request-line: version optional, method = token without lower-case letters, target = 1*(ASCII octet except SP CR LF) with a balanced IP-literal (specification decisions shared with C10)",
    "named tolerances of the reference: leading empty lines ignored; obs-fold joined; field names containing '_' dropped; empty Transfer-Encoding list elements ignored; Content-Length absent = 0; whitespace (SP HTAB VT FF CR) around the request line ignored (RFC 9112 section 3 MAY); repeated Host/Content-Length/Content-Type refused; any Transfer-Encoding other than a single chunked is 501; Content-Length above 4300 digits refused; the body size limit is tested before chunk syntax",
    "persistence is observed with an application that always supplies Content-Length; HTTP/1.0 keep-alive is honoured only when keep-alive is the sole connection option (conservative); the only deviation switch left in the reference is dv_trailer (open finding F10), used to classify, never to excuse anything else",
    "the theorems are about the hand-written models (Model/Parser.v, Receiver.v, ChanSeq.v, and Task.bh_conn of Model/Task.v for the persistence decision); K-chanseq and the reference search are sampled, not exhaustive",
    "the composition over a whole pipelined stream (C01Observe.C01_full_dev) is proved (C01_full_dev_partial, Proof/C01Compose*.v) under two side conditions: max_request_body_size > 0, and targets_ok s (on every substring of the stream shaped like a request-target, urlsplit as modelled is defined and refuses exactly what the reference's RFC 3986 policy refuses; true of every stream without '[' and ']'); outside them the unconditional statement is false of the model (C01_full_dev_is_refuted: a chunked head with no body byte yet under limit 0; a target with a leading C0 control and an unbalanced '['; a bracketed host is unmodelled) and is what K-chanseq + the search test",
    "every segmentation: by C02_split_independent the cut event trace of any division into reads equals that of the single read to which C01_full_dev_partial applies (C01_full_dev_any_segmentation); a single closed equation between the per-segmentation observation and ref_run is not assembled (413 / chunk-error tags are identified there: F12)",
]

N_STREAMS = {"quick": 1500, "thorough": 20000}
N_CORR = {"quick": 300, "thorough": 3000}
ATOMS = {"quick": 2, "thorough": 3}


def _quiet():
    import logging
    logging.disable(logging.CRITICAL)


def run(ctx):
    _quiet()
    from harness import parser_corr, ref_search

    ctx.translate({"GenRegex"})
    ctx.gate()
    props_ok, failing, log = ctx.props()
    ctx.build(["Model/ChanSeq.vo", "Spec/Ref9112.vo"])
    if props_ok:
        with vcommon.Lock("coq"):
            okf, outf = vcommon.coq_compile_capture("Findings/C01_witnesses.v")
        if not okf and "inconsistent assumptions" not in outf:
            ctx.notes.append("Findings/C01_witnesses.v no longer compiles (a finding stopped reproducing in the model?): " + outf[-400:])
    rng = ctx.rng

    # ---- K-chanseq: the models the theorems are about vs the real channel ----
    prunner = ctx.runner("parser", "ExtParser.v")
    corr_stats = {}
    if prunner is None:
        ctx.oblige("K-chanseq: extracted parser/channel model builds", False, "see notes")
    else:
        cases = parser_corr.build_cases(rng, N_CORR[ctx.tier], small_atoms=2)
        corr_stats, bad = parser_corr.run_cases(prunner, cases)
        ctx.oblige("K-chanseq: channel/parser/receiver models agree with HTTPChannel.received on every generated case", not bad,
                   "%d disagreements" % len(bad))
        for d in bad[:3]:
            sd = parser_corr.shrink(prunner, d)
            ctx.report("kchanseq:" + "".join(sd["reads"])[:80],
                       "model and implementation disagree: %s" % json.dumps(sd["difference"]),
                       {"kind": "kchanseq", "mh": sd["mh"], "mb": sd["mb"], "reads": sd["reads"],
                        "expected": sd["model"][-1:], "observed": sd["impl"][-1:], "failing_input_found": True})

    # ---- the search: reference vs real channel + tasks ----
    rrunner = ctx.runner("ref9112", "ExtRef9112.v")
    if rrunner is None:
        ctx.oblige("extracted reference runner builds", False, "see notes")
        return
    cases = ref_search.build_cases(rng, N_STREAMS[ctx.tier], ATOMS[ctx.tier])
    kfs = vcommon.known_findings("C01")
    open_classes = {k.get("class") for k in kfs}
    for k in kfs:   # the stored witnesses run first-class: a finding that stops reproducing is noticed
        try:
            cases.append((262144, 1073741824, bytes.fromhex(k.get("witness", "")), {"stream": "witness", "kf": k.get("class")}))
        except ValueError:
            ctx.notes.append("unreadable witness for %s" % k.get("class"))
    stats, bad = ref_search.run_search(rrunner, cases)
    unexplained = [d for d in bad if d["kf"] is None or any(c not in open_classes for c in d["kf"])]
    reproduced = {c for d in bad if d["tags"].get("stream") == "witness" for c in (d["kf"] or [])}
    for k in kfs:
        if k.get("class") not in reproduced:
            ctx.notes.append("known finding %s: stored witness no longer reproduces (repaired?)" % k.get("class"))
    ctx.oblige("S-ref: messages, refusals and close decisions of the real channel equal ref_run on every generated stream (outside open known-finding classes)",
               not unexplained, "%d unexplained disagreements" % len(unexplained))
    # one report per known-finding class (shortest example), every unexplained one in full
    by_class = {}
    for d in bad:
        for k in (d["kf"] or []):
            if k not in by_class or len(d["stream"]) < len(by_class[k]["stream"]):
                by_class[k] = d
    for k, d in sorted(by_class.items()):
        ctx.report("kf:" + k, "%s: reference %s, implementation %s" % (d["why"], d["expected"], d["observed"]),
                   _replay_dict(d), kf_class=k)
    unexplained.sort(key=lambda d: len(d["stream"]))
    for d in unexplained[:4]:
        if d["kf"] is None:
            sd = ref_search.shrink(rrunner, d)
            sd["kf"] = None
            sd["tags"] = d.get("tags")
            d = sd
        ctx.report("ref:" + hexb(d["stream"])[:120],
                   "RFC 9112 reference says %s, implementation does %s (%s)" % (d["expected"], d["observed"], d["why"]),
                   _replay_dict(d))

    if not props_ok and not ctx.violations:
        ctx.report("c01-proof-broken", "Props/C01.v no longer checks (%s)" % failing,
                   {"failing_input_found": False, "broken": "Props/C01.v via %s" % failing,
                    "log_tail": (log or "")[-1500:]})

    samples = [{"stream": hexb(c[2])[:160], "mh": c[0], "mb": c[1]} for c in cases[:3]]
    ctx.coverage.update({
        "evaluations": stats["evaluations"] + corr_stats.get("evaluations", 0),
        "distinct_nontrivial": stats["distinct_nontrivial"] + corr_stats.get("distinct_nontrivial", 0),
        "rule": "search: each stream (grammar / single-token mutation x 2 limit settings, all strings of <= %d framing atoms, directed near-misses) through the real HTTPChannel.received + service() and through the extracted ref_run; non-trivial = distinct outcome lists with at least one delivered message.  K-chanseq: streams x limits x >= 3 segmentations, model vs real channel after every read; non-trivial = distinct final states with an error-free request" % ATOMS[ctx.tier],
        "samples": samples,
        "search": {k: stats[k] for k in ("evaluations", "streams", "outcomes", "messages_per_stream", "agree", "known",
                                         "mutations", "framings", "distinct_nontrivial")},
        "kchanseq": {k: corr_stats.get(k) for k in ("evaluations", "reads", "streams", "framings", "mutations", "errors",
                                                    "requests_completed", "unmodelled", "distinct_nontrivial")},
    })


def _replay_dict(d):
    return {"kind": "ref", "mh": d["mh"], "mb": d["mb"], "stream_hex": d["stream"].hex(),
            "stream_repr": repr(d["stream"]), "expected": d["expected"], "observed": d["observed"],
            "why": d["why"], "failing_input_found": True}


def replay(data):
    _quiet()
    from harness import ref_search
    from harness import parser_h as H
    if data.get("kind") == "kchanseq":
        path, log = vcommon.build_runner("parser", "ExtParser.v")
        reads = [vcommon.unhexb(r) for r in data["reads"]]
        impl = H.impl_chan(data["mh"], data["mb"], reads)
        model = vcommon.Runner(path).query([H.model_chan_cmd(data["mh"], data["mb"], reads)])[0].split(" ; ")
        print("model:", model[-1:])
        print("impl :", impl[-1:])
        return 0 if model == impl else 1
    if "stream_hex" not in data:
        print("nothing to replay:", data.get("broken"))
        return 1
    path, log = vcommon.build_runner("ref9112", "ExtRef9112.v")
    runner = vcommon.Runner(path)
    s = bytes.fromhex(data["stream_hex"])
    strict = ref_search.parse_ref(runner.query([ref_search.ref_cmd(data["mh"], data["mb"], ref_search.STRICT, s)])[0])
    impl, info = ref_search.impl_run(data["mh"], data["mb"], s)
    print("stream   :", repr(s))
    print("reference:", strict)
    print("observed :", impl, info["app_mismatch"] or "")
    return 0 if (impl == strict and not info["app_mismatch"]) else 1
