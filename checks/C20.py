"""C20 -- configuration is validated, and CLI and keyword forms are equivalent.

Decided by: Coq theorems (Props/C20.v) over terms regenerated from the source on
this run (translate/gen_adjust.py -> Gen/GenAdjust.v: the exclusion chain, the
proxy cross-checks, the family selection, check_sockets, _params, the option
name maps of parse_args, the documented option lists) and over the executable
model of the casts, Adjustments.__init__ and parse_args (Model/Adjust.v); tied
to the code by the translator and by K-adj (harness/adjust.py): the real
Adjustments(**kw) / Adjustments.parse_args against the extracted model on all
subsets of the exclusive options, every adjustment x representative values x
both runner spellings, the proxy / socket-list tables and random command
lines; and by a search that runs the property's own statements on the real
code (so a broken proof comes with the concrete kw set / argv).

Command lines of any length: Spec/AdjustCli.v is the specification (option
table derived from _params, exact-or-unique-prefix resolution, --x=v / --x v /
--x / --no-x, `--`, first non-option word, last occurrence wins, --listen
accumulates, help / call / app) and Props/C20.v C20_cli_all proves
cli_construct e argv = cli_spec e argv for EVERY argv.  K-adj runs generated
command lines of 1..8 options through the REAL waitress.runner.run (with _serve
replaced by a shim that builds Adjustments(**kw) as serve() does), through the
real parse_args, through the extracted model, and through the extracted
specification whose keyword form is handed to the real Adjustments(**kw).
Documentation: every default stated in docs/arguments.rst, runner.HELP and
docs/runner.rst against the effective default; the documented header kinds
against the implemented ones."""
from lib import vcommon

LEVEL = "proof"
ASSUMPTIONS = [
    "socket.getaddrinfo is replaced by a deterministic stand-in (numeric ports, one or two addresses per host) that the model mirrors; resolve_wsgi_app is replaced by a marker; socket objects are unbound real sockets or a socket.socket subclass with settable family/type",
    "CPython's getopt.getopt (3.12, long options only) and int()/str.splitlines()/str.split()/str.strip() are modelled by hand and compared on every run; int() of non-ASCII decimal digits and str.lower() outside latin-1 are not modelled (the harness checks that no such character lower-cases onto a letter used by truthy or KNOWN_PROXY_HEADERS)",
    "platform: not Windows (the WIN branch of the listen loop is not modelled); HAS_IPV6 and hasattr(socket, 'AF_UNIX') are read from the running interpreter and passed to the model",
    "documentation is compared on option NAMES, on flag-vs-value form in runner.HELP, on the header kinds named in the trusted_proxy_headers entries, and on every DEFAULT that docs/arguments.rst, runner.HELP and docs/runner.rst state in one of the mechanical forms `Default: ``X```, `, default ``X```, `default is 'X'`, `Default is N|True|False`, `Default: N`, `Default is the empty string`, `On/Off by default`, `active by default` (conditional defaults -- `if trusted_proxy is set, the default is` -- are skipped and covered by C20_proxy_defaults); prose that contradicts itself (the stale `default value is set to False` warning under clear_untrusted_proxy_headers, `--no-ipv6 ... will turn on IPv6`) is outside; `sockets` is exempt from the command-line list",
    "command lines: sys.argv[0] handling, sys.path.append, logging set-up and show_help's text are not modelled; resolve_wsgi_app is a marker (an application that fails to import is outside); the runner is observed at the _serve(app, **kw) call, the shim then builds Adjustments(**kw) exactly as waitress.serve -> create_server does",
    "proxy trust options = trusted_proxy_count and trusted_proxy_headers (docs/arguments.rst additionally calls clear_untrusted_proxy_headers without trusted_proxy an error; the code and the property text do not)",
]


def run(ctx):
    from harness import adjust as H

    ctx.translate({"GenAdjust"})
    ctx.gate()
    props_ok, failing, log = ctx.props()
    ctx.build(["Model/Adjust.vo", "Spec/AdjustCli.vo"])
    runner = ctx.runner("adjust", "ExtAdjust.v")
    if runner is None:
        ctx.oblige("extracted adjustments runner builds", False, "see notes")
    R = H.run_all(ctx, runner)

    for group, text, replay in R.model_bad[:8]:
        ctx.notes.append("K-adj [%s] %s" % (group, text[:600]))
    ctx.oblige("K-adj: extracted model and generated tables agree with the real Adjustments / parse_args / casts on every generated case",
               runner is not None and not R.model_bad,
               "%d disagreements; first: %s" % (len(R.model_bad), R.model_bad[0][1][:300]) if R.model_bad else "")
    unexplained = [v for v in R.spec_bad if v[3] is None]
    ctx.oblige("search: the property's own statements hold on the real code for every generated configuration",
               not unexplained, "%d counterexamples; first: %s" % (len(unexplained), unexplained[0][1][:300]) if unexplained else "")
    for key, text, replay, kf in R.spec_bad:
        ctx.report(key, text, replay, kf_class=kf)
    # model/implementation disagreements carry their input as well
    if R.model_bad and not unexplained:
        for group, text, replay in R.model_bad[:3]:
            r = dict(replay)
            r.setdefault("failing_input_found", True)
            r.setdefault("expected", "model: " + str(r.get("model"))[:500])
            ctx.report("k-adj:%s:%s" % (group, text[:60]), "model and implementation disagree: " + text[:400], r)
    if R.model_unavailable:
        ctx.notes.append("%d model queries were not run: no extracted model" % R.model_unavailable)
    # something no longer checks, yet nothing (outside an open known-finding class) was reported:
    # say what broke (lib/main.py's safety net does not fire while known findings are present)
    open_kf = {k.get("class") for k in vcommon.known_findings(ctx.prop)}
    real = [v for v in ctx.violations if not (v["kf_class"] and v["kf_class"] in open_kf)]
    undis = [(n, d) for n, ok, d in ctx.obligations if not ok]
    if undis and not real:
        ctx.report("c20-broken:" + undis[0][0],
                   "obligations no longer check and the search found no configuration on which the real code misbehaves: "
                   + "; ".join(n for n, _ in undis)[:600],
                   {"failing_input_found": False, "broken": [{"obligation": n, "detail": d[:400]} for n, d in undis][:12],
                    "log_tail": (log or "")[-1500:] if not props_ok else "", "notes": ctx.notes[:6]})

    ctx.coverage.update({
        "evaluations": R.evaluations,
        "distinct_nontrivial": len(R.nontrivial),
        "rule": "non-trivial = distinct (form, input) whose construction was ACCEPTED by the real code, or a cast that returned a value; "
                "all %d subsets of {listen,host,port,sockets,unix_socket} x 2 value sets x orderings x {alone, +threads, +unknown name}; "
                "every adjustment x the value pool of its cast through Adjustments(**kw), --x=v, --x v (--x / --no-x for flags); "
                "proxy options 4 x 3 x %d header values; socket lists up to length %d over 10 kinds; random command lines; "
                "command lines of 1..8 options (every prefix of every option name, directed blank-value / exclusive / repeat cases, generated ones with repeats, abbreviations, "
                "= and space forms, blank values, --no- forms, listen accumulation, help/call/app, terminators, one malformed word in 12%%) through runner.run, parse_args, the model "
                "and the specification's keyword form; header kinds: 6 documented + candidates x 3 spellings x both forms; every documented default" % (
                    R.subsets, len(H.HEADER_VALUES), 2 if ctx.tier == "quick" else 3),
        "samples": [{"group": g, "outcomes": d} for g, d in sorted(R.dist.items())][:12],
        "outcome_distribution": R.dist,
        "exclusive_subsets_enumerated": R.subsets,
        "command_lines": getattr(R, "cli_stats", {}),
        "documented_default_rows": getattr(R, "doc_rows", {}),
        "model_disagreements": len(R.model_bad),
        "spec_counterexamples": len(R.spec_bad),
    })


def replay(data):
    from harness import adjust as H
    import os
    import sys
    sys.path.insert(0, os.path.join(vcommon.VERIF, "translate"))
    return H.replay_one(data)
