"""C07 -- the WSGI environ is the exact PEP 3333 image of the request.

Decided by: Coq theorems (Props/C07.v) about the transliterated
get_environment (Model/Environ.v) over the parser model (Model/Parser.v)
against the independent specification Spec/Pep3333.v, for all header lists,
targets, bodies and configurations.  Tied to the code by (a) K-env: the real
WSGITask.get_environment() over the real HTTPRequestParser against the
extracted model on generated requests x configurations, entry by entry in
dict order, wsgi.input read to EOF; (b) the search: the extracted
specification computed from the raw bytes by an independent reference
splitter against the real environ; (c) K-upper: the model of str.upper() on
latin-1 text against CPython."""
import hashlib
import json

from harness import environ as E
from harness import gen_http
from lib.vcommon import hexb

LEVEL = "proof"
ASSUMPTIONS = [
    "the parser model (Model/Parser.v, Receiver.v, UrlSplit.v) speaks for waitress.parser / receiver / urllib.parse.urlsplit: tied by K-parse/K-chanseq and, here, by K-env on the composition parser -> environ",
    "the body buffer behind wsgi.input is represented by the bytes appended to it (C17's queue theorem); the spill-to-tempfile path is exercised by K-env with inbuf_overflow=16",
    "specification decisions (DESIGN.md section 8): leading slashes collapsed before PATH_INFO; SERVER_PROTOCOL specified only for versions 1.0/1.1; targets with control bytes, SP or non-ASCII bytes are outside the quantifier; a folded field value is the concatenation of its lines with the CRLFs removed; Transfer-Encoding on HTTP/1.0 is an ordinary field (framing is C01's subject)",
    "bracketed (IPv6) authorities in absolute-form targets are not modelled (urlsplit validates them with the ipaddress module): skipped and counted",
    "wsgi.errors, wsgi.file_wrapper and waitress.client_disconnected are checked for identity with sys.stderr / ReadOnlyFileBasedBuffer / the channel's bound method by K-env only",
]


def _segment(rng, m):
    """some ways of offering one message"""
    r = rng.random()
    if r < 0.6 or len(m) < 3:
        return [m]
    if r < 0.8:
        cuts = sorted(set(rng.randrange(1, len(m)) for _ in range(rng.randint(1, 4))))
        out, prev = [], 0
        for c in cuts + [len(m)]:
            out.append(m[prev:c]); prev = c
        return out
    if len(m) <= 300:
        return [m[i:i + 1] for i in range(len(m))]
    i = m.find(b"\r\n\r\n")
    return [m[:i + 2], m[i + 2:]] if i > 0 else [m]


def _diff(want_items, got_items):
    a, b = set(want_items), set(got_items)
    def show(x):
        k, _, v = x.partition("=")
        try:
            kk = bytes.fromhex(k).decode("latin-1") if k != "-" else ""
        except ValueError:
            kk = k
        return "%s=%s" % (kk, v[:80])
    return {"only_expected": sorted(show(x) for x in a - b)[:6], "only_observed": sorted(show(x) for x in b - a)[:6]}


def _cfg_json(cfg):
    d = dict(cfg)
    d["peer"] = list(cfg["peer"])
    return d


def _cfg_from_json(d):
    c = dict(d)
    c["peer"] = tuple(d["peer"])
    return c


def run(ctx):
    # the parser model sits on the acceptance gates regenerated from the tree under test
    ctx.translate({"GenRegex"})
    ctx.gate()
    props_ok, failing, log = ctx.props()
    ctx.build(["Model/Environ.vo", "Spec/Pep3333.vo"])
    runner = ctx.runner("environ", "ExtEnviron.v")
    if runner is None:
        ctx.oblige("extracted environ runner builds", False, "see notes")
        return
    rng = ctx.rng
    thorough = ctx.tier == "thorough"

    # ---- K-upper: str.upper() on latin-1 text --------------------------------
    strs = [chr(i) for i in range(256)]
    for _ in range(400 if not thorough else 5000):
        strs.append("".join(chr(rng.choice([rng.randrange(256), rng.randrange(97, 123), 0xdf, 0xb5, 0xff]))
                            for _ in range(rng.randint(0, 9))))
    got = runner.query(["upper " + (",".join(str(ord(c)) for c in s) or "-") for s in strs])
    upper_ok = True
    for s, g in zip(strs, got):
        want = ",".join(str(ord(c)) for c in s.upper()) or "-"
        if g != want:
            upper_ok = False
            ctx.report("upper:" + s.encode("latin-1").hex(), "model of str.upper() differs from CPython on %r" % s,
                       {"kind": "upper", "input_hex": s.encode("latin-1").hex(), "expected": want, "observed": g,
                        "failing_input_found": True})
            break
    ctx.oblige("K-upper: upper_str equals CPython str.upper() on latin-1 text", upper_ok)

    # ---- cases -----------------------------------------------------------------
    n_own, n_http = (4000, 1500) if not thorough else (40000, 14000)
    cases = [("fixed", m, {"framing": "fixed", "version": "?", "fields": []}) for m in E.fixed_cases()]
    cases += E.build_cases(rng, n_own, n_http)
    work = []
    for src, m, tags in cases:
        cfg = E.gen_config(rng)
        chunks = _segment(rng, m)
        work.append((src, m, tags, cfg, chunks))
    # every fixed case and a sample of the others under every prefix
    extra = []
    for src, m, tags, cfg, chunks in work[: (60 if not thorough else 600)]:
        for pre in E.PREFIXES:
            if pre != cfg["prefix"]:
                c2 = dict(cfg); c2["prefix"] = pre
                extra.append((src, m, tags, c2, [m]))
    work += extra

    answers = runner.query([E.model_env_cmd(cfg, chunks) for _, _, _, cfg, chunks in work])

    stats = {"evaluations": 0, "unmodelled_skipped": 0, "status": {}, "sources": {}, "framing": {}, "version": {},
             "field_tags": {}, "prefix": {}, "peer": {}, "segmentation": {"whole": 0, "split": 0},
             "tempfile_path": 0, "via_channel": 0, "nfields_max": 0}
    nontrivial = set()
    samples = []
    kenv_ok = True
    search_ok = True
    direct_ok = True
    spec_cmds, spec_idx = [], []
    reals = []
    noncanon = {}
    for idx, ((src, m, tags, cfg, chunks), ans) in enumerate(zip(work, answers)):
        stats["evaluations"] += 1
        stats["sources"][src] = stats["sources"].get(src, 0) + 1
        small_buf = (idx % 3 == 0)
        st, items = E.real_environ(cfg, chunks, inbuf_overflow=16 if small_buf else None)
        reals.append((st, items))
        stats["status"][st] = stats["status"].get(st, 0) + 1
        if st == "ok":
            for dv in E.direct_violations(cfg, items):
                direct_ok = False
                ctx.report("direct:" + dv.split()[0] + ":" + hashlib.sha1(m).hexdigest()[:10],
                           "the real environ violates the property directly: " + dv,
                           {"kind": "direct", "message_hex": m.hex(), "chunks_hex": [c.hex() for c in chunks],
                            "config": _cfg_json(cfg), "inbuf_overflow": 16 if small_buf else None,
                            "expected": "no direct violation", "observed": dv, "failing_input_found": True})
        if ans == "unmodelled":
            stats["unmodelled_skipped"] += 1
            continue
        line = E.items_line(items) if items is not None else st
        if st == "ok":
            stats["framing"][tags.get("framing", "?")] = stats["framing"].get(tags.get("framing", "?"), 0) + 1
            stats["version"][tags.get("version", "?")] = stats["version"].get(tags.get("version", "?"), 0) + 1
            for t in tags.get("fields", []):
                stats["field_tags"][t] = stats["field_tags"].get(t, 0) + 1
            stats["prefix"][cfg["prefix"] or "(none)"] = stats["prefix"].get(cfg["prefix"] or "(none)", 0) + 1
            stats["peer"][cfg["peer_kind"]] = stats["peer"].get(cfg["peer_kind"], 0) + 1
            stats["segmentation"]["whole" if len(chunks) == 1 else "split"] += 1
            stats["nfields_max"] = max(stats["nfields_max"], tags.get("nfields", 0))
            if small_buf:
                stats["tempfile_path"] += 1
            nontrivial.add(E.case_hash(st, line))
            if len(samples) < 5 and src == "own" and len(m) < 200:
                samples.append({"message_hex": m.hex(), "config": _cfg_json(cfg), "environ_entries": len(items)})
        if ans != line:
            kenv_ok = False
            d = _diff(ans.split()[1:], line.split()[1:]) if (ans.startswith("env ") and line.startswith("env ")) else {}
            ctx.report("kenv:" + hashlib.sha1(m).hexdigest()[:12],
                       "K-env: model and real get_environment() disagree (model %s, real %s) %s" % (ans[:40], line[:40], d),
                       {"kind": "kenv", "message_hex": m.hex(), "chunks_hex": [c.hex() for c in chunks],
                        "config": _cfg_json(cfg), "inbuf_overflow": 16 if small_buf else None,
                        "expected": ans, "observed": line, "difference": d, "failing_input_found": True})
            continue
        if st == "ok":
            try:
                rq = E.ref_split(m)
            except E.NotCanonical as e:
                noncanon[str(e)] = noncanon.get(str(e), 0) + 1
                continue
            spec_cmds.append(E.spec_cmd(cfg, rq))
            spec_idx.append((idx, rq))

    # ---- the search: Pep3333 specification vs the real environ ---------------------
    spec_answers = runner.query(spec_cmds)
    n_search = 0
    for (idx, rq), sa in zip(spec_idx, spec_answers):
        src, m, tags, cfg, chunks = work[idx]
        st, items = reals[idx]
        n_search += 1
        drop = () if rq["version"] in (b"1.0", b"1.1") else ("SERVER_PROTOCOL",)
        got = E.items_as_spec(items, drop)
        want = sa.split()[1:]
        if got != want:
            search_ok = False
            d = _diff(want, got)
            ctx.report("search:" + hashlib.sha1(m).hexdigest()[:12],
                       "real environ is not the PEP 3333 image of the request: %s" % d,
                       {"kind": "search", "message_hex": m.hex(), "chunks_hex": [c.hex() for c in chunks],
                        "config": _cfg_json(cfg), "expected": "spec " + " ".join(want),
                        "observed": "spec " + " ".join(got), "difference": d, "failing_input_found": True})
    stats["search_compared"] = n_search
    stats["accepted_but_not_canonical_for_reference_splitter"] = noncanon

    # ---- the same through the real HTTPChannel (addr, bound method, Adjustments) ----
    chan_ok = True
    nchan = 0
    for idx in range(0, len(work), 7 if not thorough else 5):
        src, m, tags, cfg, chunks = work[idx]
        st, items = reals[idx]
        if st != "ok" or answers[idx] == "unmodelled":
            continue
        if b"expect" in m.split(b"\r\n\r\n")[0].lower():
            continue        # send_continue()'s effects on the parser are C19's subject (F5)
        st2, items2 = E.real_environ_via_channel(cfg, [m])
        nchan += 1
        line2 = E.items_line(items2) if items2 is not None else st2
        if line2 != answers[idx]:
            chan_ok = False
            ctx.report("kenv-chan:" + hashlib.sha1(m).hexdigest()[:12],
                       "K-env through HTTPChannel: model and real environ disagree",
                       {"kind": "kenv-channel", "message_hex": m.hex(), "chunks_hex": [m.hex()], "config": _cfg_json(cfg),
                        "expected": answers[idx], "observed": line2, "failing_input_found": True})
    stats["via_channel"] = nchan

    ctx.oblige("K-env: real WSGITask.get_environment() equals the extracted model on every generated request x configuration (dict order, wsgi.input read to EOF)", kenv_ok)
    ctx.oblige("K-env through the real HTTPChannel and Adjustments", chan_ok)
    ctx.oblige("search: real environ equals the extracted Pep3333 image computed from the raw bytes by the reference splitter", search_ok)
    ctx.oblige("direct: on every accepted request (canonical or not) all strings are latin-1, CONTENT_LENGTH == bytes read from wsgi.input, server-defined keys carry the server's values", direct_ok)
    ctx.oblige("search exercised accepted requests", n_search > 200, "compared %d" % n_search)

    if not props_ok and not ctx.violations:
        ctx.report("c07-proof-broken", "Props/C07.v no longer checks (%s)" % failing,
                   {"failing_input_found": False, "broken": "Props/C07.v via %s" % failing,
                    "log_tail": (log or "")[-1500:]})

    ctx.coverage.update({
        "evaluations": stats["evaluations"] + len(strs) + n_search + nchan,
        "distinct_nontrivial": len(nontrivial),
        "rule": "one evaluation = one (message, segmentation, configuration) run through the real parser + get_environment and the extracted model, or one specification comparison, or one str.upper() comparison; non-trivial = distinct canonical environ of an accepted request",
        "samples": samples,
        "distribution": stats,
    })


def replay(data):
    kind = data.get("kind")
    if kind == "upper":
        s = bytes.fromhex(data["input_hex"]).decode("latin-1")
        got = ",".join(str(ord(c)) for c in s.upper()) or "-"
        print("upper(%r): CPython %s, model said %s" % (s, got, data.get("observed")))
        return 0 if got == data.get("observed") else 1
    if not data.get("failing_input_found", True) or "message_hex" not in data:
        print("no failing input recorded: %s" % data.get("broken"))
        return 1
    cfg = _cfg_from_json(data["config"])
    chunks = [bytes.fromhex(c) for c in data.get("chunks_hex", [data["message_hex"]])]
    if kind == "kenv-channel":
        st, items = E.real_environ_via_channel(cfg, chunks)
    else:
        st, items = E.real_environ(cfg, chunks, inbuf_overflow=data.get("inbuf_overflow"))
    if kind == "direct":
        dvs = E.direct_violations(cfg, items) if items is not None else [st]
        print("message=%r" % bytes.fromhex(data["message_hex"])[:300])
        print("recorded: %s" % data["observed"])
        print("now: %s" % (dvs or "no direct violation"))
        return 1 if dvs else 0
    if kind == "search":
        rq = E.ref_split(bytes.fromhex(data["message_hex"]))
        drop = () if rq["version"] in (b"1.0", b"1.1") else ("SERVER_PROTOCOL",)
        now = "spec " + " ".join(E.items_as_spec(items, drop)) if items is not None else st
    else:
        now = E.items_line(items) if items is not None else st
    print("message=%r" % bytes.fromhex(data["message_hex"])[:300])
    print("config=%s" % json.dumps(data["config"]))
    print("expected=%s" % data["expected"][:2000])
    print("observed_now=%s" % now[:2000])
    return 0 if now == data["expected"] else 1
